package internal

// C09 — length-prefixed message framing survives any chunking and detects
// truncation. Bounded-exhaustive ENUM harness (virtual time through
// testing/synctest for the stall cases).
//
// Code under test (called directly, nothing re-implemented around it):
//   rdm   ReadDelimitedMessage            (runner side, timeout + size limit)
//   pdec  NewCodec(false).NewDecoder(..)  (peer side, binary)
//   jdec  NewCodec(true).NewDecoder(..)   (peer side, JSON)
//   wdm / penc / jenc  WriteDelimitedMessage and the two stream encoders
//
// The oracle is a whole-buffer reference parser written from the property
// text: a frame is a 4-byte big-endian length N followed by N bytes; a JSON
// stream is a sequence of top-level objects separated by optional white
// space. It never looks at how the bytes arrive.

import (
	"bytes"
	"context"
	"encoding/binary"
	"encoding/json"
	"errors"
	"fmt"
	"io"
	"os"
	"runtime"
	"runtime/debug"
	"strconv"
	"strings"
	"testing"
	"testing/synctest"
	"time"

	conformancev1 "connectrpc.com/conformance/internal/gen/proto/go/connectrpc/conformance/v1"
	"connectrpc.com/conformance/internal/verif/rep"
	"google.golang.org/protobuf/encoding/protojson"
	"google.golang.org/protobuf/proto"
)

const (
	c09Timeout   = 7 * time.Second  // virtual
	c09Horizon   = 70 * time.Second // virtual; "never returns" is decided here
	c09Source    = "peer"           // deliberately without digits
	c09ReadLimit = 1024
)

var errC09IO = errors.New("c09 scripted i/o failure")

type c09Resp = conformancev1.ClientCompatResponse

type c09Letter struct {
	Name    string
	Size    int    // serialized binary size
	Compact string // compact JSON form
	Make    func() *c09Resp
}

// Serialized sizes 0,2,3,5. (DESIGN lists {0,1,2,5}; no valid protobuf message
// serializes to exactly one byte, so 1 is replaced by 3.)
var c09Alphabet = []c09Letter{
	{"m0", 0, `{}`, func() *c09Resp { return &c09Resp{} }},
	{"m2", 2, `{"error":{}}`, func() *c09Resp {
		return &c09Resp{Result: &conformancev1.ClientCompatResponse_Error{Error: &conformancev1.ClientErrorResult{}}}
	}},
	{"m3", 3, `{"testName":"a"}`, func() *c09Resp { return &c09Resp{TestName: "a"} }},
	{"m5", 5, `{"testName":"abc"}`, func() *c09Resp { return &c09Resp{TestName: "abc"} }},
}

// c09Case is one element of the enumeration and at the same time the replay value.
type c09Case struct {
	Fam    string `json:"fam"`           // read | timed | oversize | write | cross | big
	Target string `json:"target"`        // rdm pdec jdec | wdm penc jenc
	Enc    string `json:"enc,omitempty"` // producer of the stream: penc wdm jenc compact-nl compact-cat
	Msgs   []int  `json:"msgs"`          // indices into the alphabet
	// read family
	Cut       int    `json:"cut"`              // number of stream bytes delivered before End
	Chunks    []int  `json:"chunks,omitempty"` // composition of Cut: sizes of the successive Read answers
	End       string `json:"end,omitempty"`    // eof | eof+ | err | err+ | stall   ("+" = together with the last data)
	ZeroState bool   `json:"zero_state,omitempty"`
	// timed family: Delays[i] indexes c09Delays, the virtual time the peer lets pass before chunk i arrives
	Delays []int `json:"delays,omitempty"`
	// oversize family (stream = Msgs, then a prefix declaring Declared, then Junk bytes / Body letter)
	Limit    int    `json:"limit,omitempty"`
	Declared uint32 `json:"declared,omitempty"`
	Body     int    `json:"body,omitempty"` // -1: junk bytes follow; >=0: the real body of that letter follows
	// write family
	FailAt  int  `json:"fail_at,omitempty"` // the k-th Write fails (0 = never)
	Partial bool `json:"partial,omitempty"` // failing Write accepts half of its bytes
	// cross family (histories over several streams)
	Mode    string       `json:"mode,omitempty"`    // seq | overlap
	Streams []c09XStream `json:"streams,omitempty"` // one scripted peer per call
	Order   []int        `json:"order,omitempty"`   // overlap: global arrival order of the chunks (stream indices)
	// big family (c09_big_test.go): a message of about Big bytes among messages with white space in their strings
	Big   int    `json:"big,omitempty"`   // intended size of the large message (serialized / compact JSON text)
	Shape string `json:"shape,omitempty"` // f = small message with white space inside its strings, B = the large one
	Part  string `json:"part,omitempty"`  // how Chunks was derived (documentation only)
}

func (c c09Case) String() string { b, _ := json.Marshal(c); return string(b) }

type c09Verdict struct{ key, detail string }

// ---------------------------------------------------------------------------
// reference model

// c09RefBinary parses buf as frames. It returns the complete bodies, the number
// of bytes of the trailing incomplete frame (0 = buf ends at a boundary) and,
// when the 4 prefix bytes of that frame are present, its declared body size.
func c09RefBinary(buf []byte) (bodies [][]byte, rem int, declared int) {
	declared = -1
	for {
		if len(buf) == 0 {
			return bodies, 0, -1
		}
		if len(buf) < 4 {
			return bodies, len(buf), -1
		}
		n := int(uint32(buf[0])<<24 | uint32(buf[1])<<16 | uint32(buf[2])<<8 | uint32(buf[3]))
		if len(buf)-4 < n {
			return bodies, len(buf), n
		}
		bodies = append(bodies, buf[4:4+n])
		buf = buf[4+n:]
	}
}

// c09RefJSON splits buf into top-level JSON objects. inside reports that buf
// ends within an object (or at something that is not an object).
func c09RefJSON(buf []byte) (objs [][]byte, inside bool) {
	i := 0
	for {
		for i < len(buf) && (buf[i] == ' ' || buf[i] == '\t' || buf[i] == '\r' || buf[i] == '\n') {
			i++
		}
		if i == len(buf) {
			return objs, false
		}
		if buf[i] != '{' {
			return objs, true
		}
		start, depth, inStr, esc := i, 0, false, false
		closed := false
		for ; i < len(buf) && !closed; i++ {
			ch := buf[i]
			switch {
			case esc:
				esc = false
			case inStr:
				if ch == '\\' {
					esc = true
				} else if ch == '"' {
					inStr = false
				}
			case ch == '"':
				inStr = true
			case ch == '{' || ch == '[':
				depth++
			case ch == '}' || ch == ']':
				depth--
				if depth == 0 {
					closed = true
				}
			}
		}
		if !closed {
			return objs, true
		}
		objs = append(objs, buf[start:i])
	}
}

// c09Ref is what the reference model says about the first `cut` bytes of a stream.
type c09Ref struct {
	Complete int  // messages entirely contained
	Inside   bool // the cut is inside a prefix or body (or JSON object)
	InPrefix bool // binary only
	K, N     int  // binary only: K of N bytes of the prefix / body were delivered
}

func c09RefAt(jsonWire bool, buf []byte) c09Ref {
	if jsonWire {
		objs, inside := c09RefJSON(buf)
		return c09Ref{Complete: len(objs), Inside: inside}
	}
	bodies, rem, declared := c09RefBinary(buf)
	ref := c09Ref{Complete: len(bodies)}
	switch {
	case rem == 0:
	case declared < 0:
		ref.Inside, ref.InPrefix, ref.K, ref.N = true, true, rem, 4
	default:
		ref.Inside, ref.K, ref.N = true, rem-4, declared
	}
	return ref
}

// ---------------------------------------------------------------------------
// scripted reader / writer

type c09Reader struct {
	data      []byte
	chunks    []int
	ci, in    int // current chunk, bytes already served from it
	pos       int
	end       string
	zeroState bool
	ended     bool          // the terminal error was already handed out together with data
	release   chan struct{} // closed by the harness to free a stalled Read
	mark      int           // bookkeeping starts once pos >= mark (oversize family)
	readsPast int           // non-empty Reads issued at pos >= mark
	maxAsk    int           // largest len(p) among them
	stalled   bool
	delays    []time.Duration // timed family: chunk i arrives delays[i] after the Read that first asks for it
	released  bool
}

func (r *c09Reader) termErr() error {
	if strings.HasPrefix(r.end, "err") {
		return errC09IO
	}
	return io.EOF
}

func (r *c09Reader) Read(p []byte) (int, error) {
	if len(p) == 0 {
		// Default: like an *os.File, an empty Read returns (0,nil) at once.
		// zeroState: like bytes.Reader / io.Pipe, an empty Read at the end of
		// the delivered data reports the stream state: the terminal error, or,
		// on a stalled stream, it blocks like any other Read.
		if r.zeroState && r.pos == len(r.data) {
			if r.end == "stall" {
				r.stalled = true
				<-r.release
				return 0, io.EOF
			}
			return 0, r.termErr()
		}
		return 0, nil
	}
	if r.pos >= r.mark {
		r.readsPast++
		if len(p) > r.maxAsk {
			r.maxAsk = len(p)
		}
	}
	if r.pos == len(r.data) {
		if r.end == "stall" {
			r.stalled = true
			<-r.release
			return 0, io.EOF
		}
		return 0, r.termErr()
	}
	if r.delays != nil {
		if r.released {
			return 0, io.EOF
		}
		if d := r.delays[r.ci]; r.in == 0 && d > 0 {
			// the chunk is not there yet: block (virtual time) until it arrives
			tm := time.NewTimer(d)
			select {
			case <-tm.C:
			case <-r.release:
				tm.Stop()
				r.released = true
				return 0, io.EOF
			}
		}
	}
	n := r.chunks[r.ci] - r.in
	if n > len(p) {
		n = len(p)
	}
	copy(p, r.data[r.pos:r.pos+n])
	r.pos += n
	r.in += n
	if r.in == r.chunks[r.ci] {
		r.ci++
		r.in = 0
	}
	if r.pos == len(r.data) && (r.end == "eof+" || r.end == "err+") {
		r.ended = true
		return n, r.termErr()
	}
	return n, nil
}

type c09Writer struct {
	buf     []byte // bytes accepted
	writes  int
	failAt  int
	partial bool
	failed  bool
}

func (w *c09Writer) Write(p []byte) (int, error) {
	w.writes++
	if w.failed {
		return 0, errC09IO // a broken pipe stays broken
	}
	if w.writes == w.failAt {
		w.failed = true
		n := 0
		if w.partial {
			n = len(p) / 2
		}
		w.buf = append(w.buf, p[:n]...)
		return n, errC09IO
	}
	w.buf = append(w.buf, p...)
	return len(p), nil
}

// ---------------------------------------------------------------------------
// streams

type c09Stream struct {
	Target, Enc string
	Msgs        []int
	JSON        bool
	Bytes       []byte
	Want        []*c09Resp
	Refs        []c09Ref // per cut 0..len(Bytes)
}

func c09Want(msgs []int) []*c09Resp {
	out := make([]*c09Resp, len(msgs))
	for i, m := range msgs {
		out[i] = c09Alphabet[m].Make()
	}
	return out
}

// c09Produce writes the sequence with the real writer named by enc.
func c09Produce(enc string, msgs []int) (data []byte, err error) {
	defer func() {
		if p := recover(); p != nil {
			err = fmt.Errorf("panic: %v", p)
		}
	}()
	var buf bytes.Buffer
	switch enc {
	case "wdm":
		for _, m := range msgs {
			if err := WriteDelimitedMessage(&buf, c09Alphabet[m].Make()); err != nil {
				return nil, err
			}
		}
	case "penc", "jenc":
		e := NewCodec(enc == "jenc").NewEncoder(&buf)
		for _, m := range msgs {
			if err := e.Encode(c09Alphabet[m].Make()); err != nil {
				return nil, err
			}
		}
	case "compact-nl", "compact-cat":
		for _, m := range msgs {
			buf.WriteString(c09Alphabet[m].Compact)
			if enc == "compact-nl" {
				buf.WriteByte('\n')
			}
		}
	default:
		return nil, fmt.Errorf("unknown producer %q", enc)
	}
	return buf.Bytes(), nil
}

// c09CheckEncoding applies the reference parser to a complete stream: it must
// contain exactly the messages want, in order. Returns "" if so.
func c09CheckEncoding(jsonWire bool, data []byte, want []*c09Resp) string {
	var raw [][]byte
	if jsonWire {
		objs, inside := c09RefJSON(data)
		if inside {
			return "stream does not end at a message boundary"
		}
		raw = objs
	} else {
		bodies, rem, _ := c09RefBinary(data)
		if rem != 0 {
			return fmt.Sprintf("stream ends with %d stray bytes", rem)
		}
		raw = bodies
	}
	if len(raw) != len(want) {
		return fmt.Sprintf("stream holds %d messages, %d were written", len(raw), len(want))
	}
	for i := range raw {
		got := &c09Resp{}
		var err error
		if jsonWire {
			err = protojson.Unmarshal(raw[i], got)
		} else {
			err = proto.Unmarshal(raw[i], got)
		}
		if err != nil {
			return fmt.Sprintf("message %d does not parse: %v", i, err)
		}
		if !proto.Equal(got, want[i]) {
			return fmt.Sprintf("message %d is %v, written was %v", i, got, want[i])
		}
	}
	return ""
}

// c09PrefixOK: the first n messages of want are present at the start of data.
func c09PrefixOK(jsonWire bool, data []byte, want []*c09Resp, n int) bool {
	var raw [][]byte
	if jsonWire {
		raw, _ = c09RefJSON(data)
	} else {
		raw, _, _ = c09RefBinary(data)
	}
	if len(raw) < n {
		return false
	}
	for i := 0; i < n; i++ {
		got := &c09Resp{}
		var err error
		if jsonWire {
			err = protojson.Unmarshal(raw[i], got)
		} else {
			err = proto.Unmarshal(raw[i], got)
		}
		if err != nil || !proto.Equal(got, want[i]) {
			return false
		}
	}
	return true
}

func c09NewStream(target, enc string, msgs []int) (*c09Stream, string) {
	st := &c09Stream{Target: target, Enc: enc, Msgs: msgs, JSON: target == "jdec", Want: c09Want(msgs)}
	data, err := c09Produce(enc, msgs)
	if err != nil {
		return nil, fmt.Sprintf("writer %s failed on an always-accepting writer: %v", enc, err)
	}
	if why := c09CheckEncoding(st.JSON, data, st.Want); why != "" {
		return nil, fmt.Sprintf("output of %s (%q): %s", enc, data, why)
	}
	st.Bytes = data
	st.Refs = make([]c09Ref, len(data)+1)
	for c := 0; c <= len(data); c++ {
		st.Refs[c] = c09RefAt(st.JSON, data[:c])
	}
	return st, ""
}

// ---------------------------------------------------------------------------
// running the real readers

type c09Step struct {
	msg     *c09Resp
	err     error
	elapsed time.Duration
	pan     string
}

func c09Call(target string, rd io.Reader, dec StreamDecoder, limit int) (s c09Step) {
	start := time.Now()
	defer func() {
		if p := recover(); p != nil {
			s.pan = fmt.Sprint(p)
		}
		s.elapsed = time.Since(start)
	}()
	s.msg = &c09Resp{}
	if target == "rdm" {
		s.err = ReadDelimitedMessage(rd, s.msg, c09Source, c09Timeout, limit)
	} else {
		s.err = dec.DecodeNext(s.msg)
	}
	return s
}

// c09Drive issues up to calls reads (stopping at the first error) on a child
// goroutine of the bubble. hung: the reads did not come back within the
// virtual horizon.
func c09Drive(target string, rd *c09Reader, limit, calls int) (steps []c09Step, hung bool) {
	var dec StreamDecoder
	if target != "rdm" {
		dec = NewCodec(target == "jdec").NewDecoder(rd)
	}
	done := make(chan struct{})
	var out []c09Step
	go func() {
		defer close(done)
		for i := 0; i < calls; i++ {
			s := c09Call(target, rd, dec, limit)
			out = append(out, s)
			if s.err != nil || s.pan != "" {
				return
			}
		}
	}()
	tm := time.NewTimer(c09Horizon)
	select {
	case <-done:
		tm.Stop()
	case <-tm.C:
		hung = true
	}
	if rd.release != nil {
		close(rd.release)
	}
	if hung {
		tm2 := time.NewTimer(c09Horizon)
		select {
		case <-done:
			tm2.Stop()
		case <-tm2.C:
			return nil, true // the bubble will report the leaked goroutine
		}
	}
	if rd.end == "stall" || rd.delays != nil {
		synctest.Wait() // let the reader goroutine freed above finish
	}
	return out, hung
}

func c09IsTimeoutErr(err error) bool {
	if errors.Is(err, context.DeadlineExceeded) || errors.Is(err, os.ErrDeadlineExceeded) {
		return true
	}
	s := strings.ToLower(err.Error())
	return strings.Contains(s, "timed out") || strings.Contains(s, "timeout") || strings.Contains(s, "time out") || strings.Contains(s, "deadline")
}

// c09Numbers returns the maximal digit runs of s.
func c09Numbers(s string) map[int]bool {
	out := map[int]bool{}
	for i := 0; i < len(s); {
		if s[i] < '0' || s[i] > '9' {
			i++
			continue
		}
		j := i
		for j < len(s) && s[j] >= '0' && s[j] <= '9' {
			j++
		}
		if v, err := strconv.Atoi(s[i:j]); err == nil {
			out[v] = true
		}
		i = j
	}
	return out
}

func c09ErrClass(err error) string {
	switch {
	case err == nil:
		return "message"
	case errors.Is(err, io.EOF):
		return "EOF"
	case errors.Is(err, io.ErrUnexpectedEOF):
		return "unexpectedEOF"
	case errors.Is(err, errC09IO):
		return "ioerr"
	case c09IsTimeoutErr(err):
		return "timeout"
	default:
		return "other-error"
	}
}

// c09RunRead executes one read-family case (must run inside a bubble).
func c09RunRead(st *c09Stream, cs *c09Case) (vs []c09Verdict, outcome string) {
	return c09RunReadAt(st, cs, st.Refs[cs.Cut], c09ReadLimit)
}

// c09Short keeps the report readable when a message of megabytes is part of a detail.
func c09Short(s string) string {
	if len(s) <= 1600 {
		return s
	}
	return s[:900] + fmt.Sprintf(" ...[%d bytes left out]... ", len(s)-1300) + s[len(s)-400:]
}

// c09RunReadAt: ref is what the reference parser says about the delivered bytes st.Bytes[:cs.Cut];
// limit is the size limit handed to ReadDelimitedMessage.
func c09RunReadAt(st *c09Stream, cs *c09Case, ref c09Ref, limit int) (vs []c09Verdict, outcome string) {
	rd := &c09Reader{data: st.Bytes[:cs.Cut], chunks: cs.Chunks, end: cs.End, zeroState: cs.ZeroState, mark: 1 << 30}
	if cs.End == "stall" {
		rd.release = make(chan struct{})
	}
	steps, hung := c09Drive(st.Target, rd, limit, ref.Complete+1)
	T := st.Target + ":"
	add := func(key, format string, a ...any) {
		vs = append(vs, c09Verdict{T + key, c09Short(fmt.Sprintf(format, a...))})
	}
	where := "at a message boundary"
	if ref.Inside {
		where = "inside a message"
		if !st.JSON {
			what := "message body"
			if ref.InPrefix {
				what = "length prefix"
			}
			where = fmt.Sprintf("inside a %s (%d of %d bytes delivered)", what, ref.K, ref.N)
		}
	}
	if hung {
		if cs.End == "stall" {
			add("stall-no-timeout", "reader stalled %s after %d bytes; the read did not return within %v of virtual time (timeout %v)", where, cs.Cut, c09Horizon, c09Timeout)
		} else {
			add("read-never-returns", "the read did not return within %v of virtual time although the reader never blocks", c09Horizon)
		}
		return vs, "hung"
	}
	for i, s := range steps {
		if s.pan != "" {
			add("panic", "call %d panicked: %s", i+1, s.pan)
			return vs, "panic"
		}
	}
	// the complete messages
	for i := 0; i < ref.Complete; i++ {
		if i >= len(steps) {
			return vs, "short" // an earlier step already failed and was reported
		}
		s := steps[i]
		if s.err != nil {
			add("complete-message-not-delivered", "message %d of the stream is completely contained in the %d delivered bytes, but call %d returned error %q (reads answered with chunks %v, then %s)", i+1, cs.Cut, i+1, s.err, cs.Chunks, cs.End)
			return vs, "lost"
		}
		if !proto.Equal(s.msg, st.Want[i]) {
			add("message-content-changed", "call %d returned %v, written was %v (chunks %v)", i+1, s.msg, st.Want[i], cs.Chunks)
			return vs, "changed"
		}
	}
	if len(steps) <= ref.Complete {
		return vs, "short"
	}
	last := steps[ref.Complete]
	class := c09ErrClass(last.err)
	state := "boundary"
	if ref.Inside {
		state = "inside"
	}
	outcome = fmt.Sprintf("%s/%s/%s->%s", st.Target, cs.End, state, class)
	switch cs.End {
	case "eof", "eof+":
		switch {
		case !ref.Inside && last.err == nil:
			add("message-after-clean-end", "stream ended %s after %d messages but call %d returned a message %v", where, ref.Complete, ref.Complete+1, last.msg)
		case !ref.Inside && !errors.Is(last.err, io.EOF):
			add("clean-end-not-reported-as-eof", "stream ended %s after %d messages; want end of input (io.EOF), got %q", where, ref.Complete, last.err)
		case ref.Inside && last.err == nil:
			add("truncation-yields-message", "stream ended %s, yet call %d returned a message %v", where, ref.Complete+1, last.msg)
		case ref.Inside && errors.Is(last.err, io.EOF):
			add("truncation-reported-as-clean-eof", "stream ended %s (cut at byte %d of %d, chunks %v, %s); call %d reported a clean end %q", where, cs.Cut, len(st.Bytes), cs.Chunks, cs.End, ref.Complete+1, last.err)
		case ref.Inside && !st.JSON && !errors.Is(last.err, io.ErrUnexpectedEOF) && !strings.Contains(strings.ToLower(last.err.Error()), "unexpected"):
			add("truncation-not-unexpected-eof", "stream ended %s; want an unexpected-end error, got %q", where, last.err)
		}
	case "err", "err+":
		switch {
		case last.err == nil:
			add("io-error-yields-message", "reader failed %s after %d bytes, yet call %d returned a message %v", where, cs.Cut, ref.Complete+1, last.msg)
		case ref.Inside && errors.Is(last.err, io.EOF):
			add("io-error-reported-as-clean-eof", "reader failed %s; call %d reported a clean end %q", where, ref.Complete+1, last.err)
		}
	case "stall":
		switch {
		case last.err == nil:
			add("stall-yields-message", "reader stalled %s, yet call %d returned a message %v", where, ref.Complete+1, last.msg)
		case last.elapsed > c09Timeout:
			add("timeout-late", "reader stalled %s; the error came after %v of virtual time, configured timeout %v", where, last.elapsed, c09Timeout)
		case errors.Is(last.err, io.EOF) || errors.Is(last.err, io.ErrUnexpectedEOF):
			add("stall-reported-as-end-of-stream", "reader stalled %s (stream not ended); got %q", where, last.err)
		case !c09IsTimeoutErr(last.err):
			add("stall-error-not-a-timeout", "reader stalled %s; error does not speak of a timeout: %q", where, last.err)
		case ref.Inside:
			// "says how much was received": the scripted counts must appear.
			nums := c09Numbers(strings.ReplaceAll(last.err.Error(), c09Source, ""))
			if !nums[ref.K] || !nums[ref.N] {
				add("timeout-progress-wrong", "reader stalled %s; the timeout text does not carry the counts %d and %d: %q", where, ref.K, ref.N, last.err)
			}
		}
		if last.err != nil && last.elapsed < c09Timeout {
			outcome += "(early)"
		} else if last.err != nil && last.elapsed == c09Timeout {
			outcome += "@timeout"
		}
	}
	return vs, outcome
}

// ---------------------------------------------------------------------------
// timed family: the bytes that precede the stall (or the end) do not all arrive
// at time 0. Chunk i becomes available c09Delays[Delays[i]] (virtual time) after
// the Read that first asks for it. The configured period of ReadDelimitedMessage
// covers one CALL: a call during which the peer stalls must come back with the
// timeout error not later than c09Timeout after the call began, wherever in the
// prefix or the body the stall sits and however late the earlier bytes came; a
// call whose bytes all arrive within less than the period must deliver.

var c09Delays = []time.Duration{0, c09Timeout / 3, c09Timeout - time.Millisecond}

type c09TimedExp struct {
	Kind     string // message | timeout | eof | unexpected | tie
	Reason   string // timeout: stall (the data ran out) | slow (a chunk arrives after the period)
	K, N     int    // timeout: K of N bytes of the prefix / body had arrived when the period ended
	InPrefix bool
	At       time.Duration // message / eof: when, relative to the start of the call
}

// c09SimTimed is the reference model: it walks over the bytes each call needs
// (4, then the declared size) and adds a chunk's delay when its first byte is
// needed. One entry per call, up to and including the first call that does not
// yield a message.
func c09SimTimed(data []byte, chunks []int, delays []time.Duration, end string) []c09TimedExp {
	starts := make(map[int]time.Duration, len(chunks))
	off := 0
	for i, c := range chunks {
		starts[off] = delays[i]
		off += c
	}
	var out []c09TimedExp
	pos := 0
	for {
		var t time.Duration
		phase := func(need int) (got int, status string) {
			for got < need {
				if pos == len(data) {
					return got, "out"
				}
				if d, ok := starts[pos]; ok {
					delete(starts, pos)
					t += d
					if t == c09Timeout {
						return got, "tie"
					}
					if t > c09Timeout {
						return got, "late"
					}
				}
				pos++
				got++
			}
			return got, ""
		}
		fail := func(got, need int, inPrefix bool, status string) c09TimedExp {
			switch {
			case status == "tie":
				return c09TimedExp{Kind: "tie"}
			case status == "late":
				return c09TimedExp{Kind: "timeout", Reason: "slow", K: got, N: need, InPrefix: inPrefix}
			case end == "stall":
				return c09TimedExp{Kind: "timeout", Reason: "stall", K: got, N: need, InPrefix: inPrefix}
			case inPrefix && got == 0:
				return c09TimedExp{Kind: "eof", At: t}
			default:
				return c09TimedExp{Kind: "unexpected", At: t}
			}
		}
		got, status := phase(4)
		if status != "" {
			return append(out, fail(got, 4, true, status))
		}
		n := int(binary.BigEndian.Uint32(data[pos-4 : pos]))
		got, status = phase(n)
		if status != "" {
			return append(out, fail(got, n, false, status))
		}
		out = append(out, c09TimedExp{Kind: "message", At: t})
	}
}

// c09RunTimed executes one timed-family case (inside a bubble).
func c09RunTimed(st *c09Stream, cs *c09Case) (vs []c09Verdict, outcome string) {
	delays := make([]time.Duration, len(cs.Chunks))
	for i := range delays {
		delays[i] = c09Delays[cs.Delays[i]]
	}
	exp := c09SimTimed(st.Bytes[:cs.Cut], cs.Chunks, delays, cs.End)
	rd := &c09Reader{data: st.Bytes[:cs.Cut], chunks: cs.Chunks, end: cs.End, mark: 1 << 30, delays: delays, release: make(chan struct{})}
	if len(delays) == 0 {
		rd.delays = []time.Duration{}
	}
	steps, hung := c09Drive("rdm", rd, c09ReadLimit, len(exp))
	add := func(key, format string, a ...any) {
		vs = append(vs, c09Verdict{"rdm:" + key, fmt.Sprintf(format, a...)})
	}
	script := fmt.Sprintf("chunks %v arriving after %v, then %s", cs.Chunks, delays, cs.End)
	if hung {
		add("stall-no-timeout", "%s: the reads did not return within %v of virtual time (timeout %v)", script, c09Horizon, c09Timeout)
		return vs, "timed/hung"
	}
	for i, s := range steps {
		if s.pan != "" {
			add("panic", "call %d panicked: %s", i+1, s.pan)
			return vs, "timed/panic"
		}
	}
	for i, e := range exp {
		if i >= len(steps) {
			return vs, "timed/short"
		}
		s := steps[i]
		class := c09ErrClass(s.err)
		last := i == len(exp)-1
		if last {
			outcome = fmt.Sprintf("timed/%s/%s%s->%s", cs.End, e.Kind, e.Reason, class)
		}
		// whatever the reason: a timeout error later than the configured period after the call began
		if s.err != nil && class == "timeout" && s.elapsed > c09Timeout {
			add("timeout-late", "%s: call %d reported the timeout %v after it began, configured period %v (error %q)", script, i+1, s.elapsed, c09Timeout, s.err)
			return vs, outcome
		}
		switch e.Kind {
		case "tie":
			return vs, "timed/tie"
		case "message":
			if s.err != nil {
				add("slow-delivery-fails", "%s: all bytes of message %d arrive %v after call %d began, which is below the timeout %v, yet the call returned %q after %v", script, i+1, e.At, i+1, c09Timeout, s.err, s.elapsed)
				return vs, outcome
			}
			if !proto.Equal(s.msg, st.Want[i]) {
				add("message-content-changed", "%s: call %d returned %v, written was %v", script, i+1, s.msg, st.Want[i])
				return vs, outcome
			}
		case "eof", "unexpected":
			switch {
			case s.err == nil && e.Kind == "eof":
				add("message-after-clean-end", "%s: call %d returned a message %v after the clean end", script, i+1, s.msg)
			case s.err == nil:
				add("truncation-yields-message", "%s: call %d returned a message %v", script, i+1, s.msg)
			case e.Kind == "eof" && !errors.Is(s.err, io.EOF):
				add("clean-end-not-reported-as-eof", "%s: want io.EOF from call %d, got %q", script, i+1, s.err)
			case e.Kind == "unexpected" && errors.Is(s.err, io.EOF):
				add("truncation-reported-as-clean-eof", "%s: call %d reported a clean end %q", script, i+1, s.err)
			case e.Kind == "unexpected" && !errors.Is(s.err, io.ErrUnexpectedEOF) && !strings.Contains(strings.ToLower(s.err.Error()), "unexpected"):
				add("truncation-not-unexpected-eof", "%s: want an unexpected-end error from call %d, got %q", script, i+1, s.err)
			}
		case "timeout":
			what := "message body"
			if e.InPrefix {
				what = "length prefix"
			}
			where := fmt.Sprintf("inside a %s (%d of %d bytes arrived within the period)", what, e.K, e.N)
			if e.Reason == "slow" {
				// the peer is not stalled, only slower than the period: the property does not say what
				// has to happen; recorded as an outcome (lateness of a timeout error was judged above)
				return vs, outcome
			}
			switch {
			case s.err == nil:
				add("stall-yields-message", "%s: the peer stalled %s, yet call %d returned a message %v after %v", script, where, i+1, s.msg, s.elapsed)
			case s.elapsed > c09Timeout:
				add("timeout-late", "%s: the peer stalled %s; call %d came back %v after it began, configured period %v (error %q)", script, where, i+1, s.elapsed, c09Timeout, s.err)
			case errors.Is(s.err, io.EOF) || errors.Is(s.err, io.ErrUnexpectedEOF):
				add("stall-reported-as-end-of-stream", "%s: the peer stalled %s (stream not ended); got %q", script, where, s.err)
			case class != "timeout":
				add("stall-error-not-a-timeout", "%s: the peer stalled %s; error does not speak of a timeout: %q", script, where, s.err)
			case !(e.InPrefix && e.K == 0):
				nums := c09Numbers(strings.ReplaceAll(s.err.Error(), c09Source, ""))
				if !nums[e.K] || !nums[e.N] {
					add("timeout-progress-wrong", "%s: the peer stalled %s; the timeout text does not carry the counts %d and %d: %q", script, where, e.K, e.N, s.err)
				}
			}
			if s.err != nil && s.elapsed < c09Timeout {
				outcome += "(early)"
			} else if s.err != nil && s.elapsed == c09Timeout {
				outcome += "@timeout"
			}
		}
	}
	return vs, outcome
}

// c09DelayAssignments enumerates the delay indices for a composition into parts chunks: every
// assignment over c09Delays when parts <= 7 (3^7 = 2187), otherwise the uniform ones and those
// with exactly one or two delayed chunks among undelayed ones. fn gets a reused slice.
func c09DelayAssignments(parts int, fn func(d []int)) {
	d := make([]int, parts)
	if parts == 0 {
		fn(d)
		return
	}
	if parts <= 7 {
		for {
			fn(d)
			i := parts - 1
			for ; i >= 0; i-- {
				d[i]++
				if d[i] < len(c09Delays) {
					break
				}
				d[i] = 0
			}
			if i < 0 {
				return
			}
		}
	}
	for v := range c09Delays {
		for i := range d {
			d[i] = v
		}
		fn(d)
	}
	for v := 1; v < len(c09Delays); v++ {
		for i := 0; i < parts; i++ {
			for j := i; j < parts; j++ {
				for w := 1; w < len(c09Delays); w++ {
					if i == j && w != v {
						continue
					}
					for x := range d {
						d[x] = 0
					}
					d[i], d[j] = v, w
					fn(d)
				}
			}
		}
	}
}

// ---------------------------------------------------------------------------
// cross family: histories over SEVERAL streams. Every single call of
// ReadDelimitedMessage may return exactly what it should while process-wide state
// (a buffer pool, a scratch array, a cached reader) lets one stream damage
// another. A history is 2-3 scripted peers, each with its own reader:
//
//   mode seq      the calls are issued one after the other. A peer either delivers
//                 its whole frame (End "done", any composition into Read answers) or
//                 a proper prefix of it and then stalls into the timeout (End
//                 "stall"). A stalled peer is only SLOW: the Read the abandoned
//                 reader goroutine is blocked in is answered LATER - with the rest of
//                 the frame ("rest") or with 0xEE bytes ("junk", what a dying peer
//                 may flush) - at a chosen point of a later call: after LateGap
//                 chunks of stream LateCall have been delivered (LateGap ==
//                 len(chunks) of a stalling stream = while that one is stalled;
//                 LateCall == len(streams) = after the last call returned).
//   mode overlap  all calls run at the same time on their own goroutines (the runner
//                 reads several servers concurrently); the chunks of the streams
//                 arrive one per millisecond of virtual time in the global order Order.
//
// Oracle (independent of the other streams): a completely delivered message is read
// back exactly as written and stays so until the end of the history; a stalled call
// returns the timeout error within the period with its own counts.
// The family runs with GOMAXPROCS(1) and the collector switched off, so that a
// sync.Pool (or any free list) hands an object put back by one call to the next one.

type c09XStream struct {
	Msg      int    `json:"msg"`
	Chunks   []int  `json:"chunks"`         // composition of the delivered bytes
	End      string `json:"end"`            // done | stall
	Late     string `json:"late,omitempty"` // stall: rest | junk
	LateCall int    `json:"late_call,omitempty"`
	LateGap  int    `json:"late_gap,omitempty"`
}

type c09XReader struct {
	frame       []byte
	chunks      []int
	deliver     int // sum of chunks
	ci, in, pos int
	stall       bool
	late        string
	wake        chan struct{}
	woke        bool
	junkLeft    int
	before      func(gap int) // seq: called once before chunk number gap is served / before the stalling Read blocks
	stallHooked bool
	at          []time.Time // overlap: arrival instants of the chunks
}

func (r *c09XReader) Read(p []byte) (int, error) {
	if len(p) == 0 {
		return 0, nil
	}
	if r.pos < r.deliver {
		if r.in == 0 {
			if r.before != nil {
				r.before(r.ci)
			}
			if r.at != nil {
				if d := time.Until(r.at[r.ci]); d > 0 {
					time.Sleep(d)
				}
			}
		}
		n := r.chunks[r.ci] - r.in
		if n > len(p) {
			n = len(p)
		}
		copy(p, r.frame[r.pos:r.pos+n])
		r.pos += n
		r.in += n
		if r.in == r.chunks[r.ci] {
			r.ci++
			r.in = 0
		}
		return n, nil
	}
	if !r.stall {
		return 0, io.EOF
	}
	if !r.woke {
		if r.before != nil && !r.stallHooked {
			r.stallHooked = true
			r.before(len(r.chunks))
		}
		<-r.wake
		r.woke = true
	}
	if r.late == "junk" {
		n := len(p)
		if n > r.junkLeft {
			n = r.junkLeft
		}
		if n == 0 {
			return 0, io.EOF
		}
		for i := 0; i < n; i++ {
			p[i] = 0xEE
		}
		r.junkLeft -= n
		return n, nil
	}
	if r.pos == len(r.frame) {
		return 0, io.EOF
	}
	n := copy(p, r.frame[r.pos:])
	r.pos += n
	return n, nil
}

var c09Frames [][]byte // frame of each letter, as written by the binary stream encoder

func c09FrameOf(letter int) []byte {
	if c09Frames == nil {
		c09Frames = make([][]byte, len(c09Alphabet))
		for i := range c09Alphabet {
			b, err := c09Produce("penc", []int{i})
			if err != nil {
				panic(err)
			}
			c09Frames[i] = b
		}
	}
	return c09Frames[letter]
}

// c09CrossValid checks a (replayed) history against the frames produced now.
func c09CrossValid(cs *c09Case) string {
	n := len(cs.Streams)
	if n < 2 {
		return "fewer than two streams"
	}
	counts := make([]int, n)
	for i, s := range cs.Streams {
		if s.Msg < 0 || s.Msg >= len(c09Alphabet) {
			return "unknown letter"
		}
		sum := 0
		for _, c := range s.Chunks {
			if c <= 0 {
				return "empty chunk"
			}
			sum += c
		}
		L := len(c09FrameOf(s.Msg))
		switch s.End {
		case "done":
			if sum != L {
				return fmt.Sprintf("stream %d: chunks sum to %d, frame has %d bytes", i, sum, L)
			}
		case "stall":
			if sum >= L || cs.Mode != "seq" {
				return fmt.Sprintf("stream %d: stall after %d of %d bytes (mode %s)", i, sum, L, cs.Mode)
			}
			if s.LateCall <= i || s.LateCall > n {
				return fmt.Sprintf("stream %d: late bytes during call %d", i, s.LateCall)
			}
		default:
			return "unknown ending"
		}
	}
	if cs.Mode == "overlap" {
		for _, o := range cs.Order {
			if o < 0 || o >= n {
				return "order names an unknown stream"
			}
			counts[o]++
		}
		for i, s := range cs.Streams {
			if counts[i] != len(s.Chunks) {
				return "order does not fit the chunk counts"
			}
		}
	}
	return ""
}

// c09RunCross executes one history (inside a bubble, see c09CrossEnv).
func c09RunCross(cs *c09Case) (vs []c09Verdict, outcome string) {
	n := len(cs.Streams)
	add := func(key, format string, a ...any) {
		vs = append(vs, c09Verdict{"rdm:" + key, fmt.Sprintf(format, a...)})
	}
	readers := make([]*c09XReader, n)
	want := make([]*c09Resp, n)
	for i, s := range cs.Streams {
		rd := &c09XReader{frame: c09FrameOf(s.Msg), chunks: s.Chunks, stall: s.End == "stall", late: s.Late, wake: make(chan struct{}), junkLeft: 4096}
		for _, c := range s.Chunks {
			rd.deliver += c
		}
		readers[i] = rd
		want[i] = c09Alphabet[s.Msg].Make()
	}
	fired := make([]bool, n)
	fire := func(call, gap int) {
		for i, s := range cs.Streams {
			if s.End == "stall" && !fired[i] && s.LateCall == call && (s.LateGap == gap || gap < 0) {
				fired[i] = true
				close(readers[i].wake)
				synctest.Wait() // the abandoned reader goroutine of stream i takes its late bytes now
			}
		}
	}
	steps := make([]c09Step, n)
	returned := make([]bool, n)
	done := make(chan struct{})
	start := time.Now()
	switch cs.Mode {
	case "seq":
		for j := range readers {
			j := j
			readers[j].before = func(gap int) { fire(j, gap) }
		}
		go func() {
			defer close(done)
			for j := 0; j < n; j++ {
				steps[j] = c09Call("rdm", readers[j], nil, c09ReadLimit)
				returned[j] = true
				fire(j, -1) // late bytes scheduled at a point of call j that was never reached
			}
			fire(n, -1)
		}()
	case "overlap":
		next := make([]int, n)
		for i := range readers {
			readers[i].at = make([]time.Time, len(cs.Streams[i].Chunks))
		}
		for k, o := range cs.Order {
			readers[o].at[next[o]] = start.Add(time.Duration(k+1) * time.Millisecond)
			next[o]++
		}
		left := make(chan int, n)
		for j := 0; j < n; j++ {
			j := j
			go func() {
				steps[j] = c09Call("rdm", readers[j], nil, c09ReadLimit)
				left <- j
			}()
		}
		go func() {
			defer close(done)
			for i := 0; i < n; i++ {
				returned[<-left] = true
			}
		}()
	}
	horizon := time.Duration(n+1) * c09Horizon
	tm := time.NewTimer(horizon)
	hung := false
	select {
	case <-done:
		tm.Stop()
	case <-tm.C:
		hung = true
	}
	for i := range readers {
		if !fired[i] {
			fired[i] = true
			close(readers[i].wake)
		}
	}
	if hung {
		tm2 := time.NewTimer(horizon)
		select {
		case <-done:
			tm2.Stop()
		case <-tm2.C:
		}
		add("stall-no-timeout", "history of %d streams: the calls did not all return within %v of virtual time (timeout %v); returned: %v", n, horizon, c09Timeout, returned)
		return vs, "cross/hung"
	}
	synctest.Wait()
	var classes []string
	for j, s := range cs.Streams {
		st := steps[j]
		who := fmt.Sprintf("stream %d of %d (%s, chunks %v, %s)", j+1, n, c09Alphabet[s.Msg].Name, s.Chunks, s.End)
		if st.pan != "" {
			add("panic", "%s: the call panicked: %s", who, st.pan)
			return vs, "cross/panic"
		}
		classes = append(classes, s.End+"->"+c09ErrClass(st.err))
		if s.End == "done" {
			switch {
			case st.err != nil:
				add("other-stream-damages-message", "%s: the peer delivered its whole message, the call returned %q; the only disturbance is what the OTHER streams of the history did", who, st.err)
			case !proto.Equal(st.msg, want[j]):
				add("other-stream-damages-message", "%s: the call returned %v, written was %v; the only disturbance is what the OTHER streams of the history did", who, st.msg, want[j])
			}
			continue
		}
		ref := c09RefAt(false, readers[j].frame[:readers[j].deliver])
		what := "message body"
		if ref.InPrefix || !ref.Inside {
			what = "length prefix"
		}
		where := fmt.Sprintf("%s: stalled inside the %s (%d of %d bytes delivered)", who, what, ref.K, ref.N)
		switch {
		case st.err == nil:
			add("stall-yields-message", "%s, yet the call returned a message %v", where, st.msg)
		case st.elapsed > c09Timeout:
			add("timeout-late", "%s; the error came after %v of virtual time, configured timeout %v", where, st.elapsed, c09Timeout)
		case errors.Is(st.err, io.EOF) || errors.Is(st.err, io.ErrUnexpectedEOF):
			add("stall-reported-as-end-of-stream", "%s (stream not ended); got %q", where, st.err)
		case !c09IsTimeoutErr(st.err):
			add("stall-error-not-a-timeout", "%s; error does not speak of a timeout: %q", where, st.err)
		case ref.Inside:
			nums := c09Numbers(strings.ReplaceAll(st.err.Error(), c09Source, ""))
			if !nums[ref.K] || !nums[ref.N] {
				add("timeout-progress-wrong", "%s; the timeout text does not carry the counts %d and %d: %q", where, ref.K, ref.N, st.err)
			}
		}
	}
	if len(vs) == 0 {
		// the messages handed out must not change afterwards (late bytes of a stalled peer, a later call)
		for j, s := range cs.Streams {
			if s.End == "done" && !proto.Equal(steps[j].msg, want[j]) {
				add("message-changes-after-return", "stream %d of %d: the message was returned intact and reads %v at the end of the history, written was %v", j+1, n, steps[j].msg, want[j])
			}
		}
	}
	return vs, "cross/" + cs.Mode + "/" + strings.Join(classes, ",")
}

// c09CrossEnv: one P and no collection while fn runs, so that free lists are handed on deterministically.
func c09CrossEnv(fn func()) {
	procs := runtime.GOMAXPROCS(1)
	gc := debug.SetGCPercent(-1)
	defer func() {
		debug.SetGCPercent(gc)
		runtime.GOMAXPROCS(procs)
	}()
	fn()
}

func c09CompList(c, full, maxParts int) [][]int {
	var out [][]int
	seen := map[string]bool{}
	c09Comps(c, full, maxParts, func(ch []int) {
		k := fmt.Sprint(ch)
		if seen[k] {
			return
		}
		seen[k] = true
		out = append(out, append([]int(nil), ch...))
	})
	return out
}

// c09Merges enumerates all interleavings of a chunks of stream 0 and b chunks of stream 1.
func c09Merges(a, b int, fn func(order []int)) {
	order := make([]int, 0, a+b)
	var rec func(i, j int)
	rec = func(i, j int) {
		if i == a && j == b {
			fn(order)
			return
		}
		if i < a {
			order = append(order, 0)
			rec(i+1, j)
			order = order[:len(order)-1]
		}
		if j < b {
			order = append(order, 1)
			rec(i, j+1)
			order = order[:len(order)-1]
		}
	}
	rec(0, 0)
}

func (x *c09Run) crossFamily(thorough bool) {
	if x.overBudget() {
		return
	}
	nl := len(c09Alphabet)
	type staller struct {
		msg, cut int
		late     string
		edge     bool // cut is 0, mid-prefix, end of prefix or one byte short of the frame
	}
	var stallers []staller
	for l := 0; l < nl; l++ {
		L := len(c09FrameOf(l))
		for cut := 0; cut < L; cut++ {
			for _, late := range []string{"rest", "junk"} {
				stallers = append(stallers, staller{l, cut, late, cut == 0 || cut == 2 || cut == 4 || cut == L-1})
			}
		}
	}
	chunksOfCut := func(cut int) []int {
		if cut == 0 {
			return []int{}
		}
		return []int{cut}
	}
	allComps := make([][][]int, nl)   // every composition of the frame
	smallComps := make([][][]int, nl) // <= 2 parts and the all-1-byte one
	for l := 0; l < nl; l++ {
		L := len(c09FrameOf(l))
		allComps[l] = c09CompList(L, L, 0)
		smallComps[l] = c09CompList(L, 0, 2)
	}
	var total int64
	perShape := map[string]int64{}
	defer func() {
		x.r.Extra["cross_histories_enumerated_all_shards"] = total
		x.r.Extra["cross_histories_by_shape"] = perShape
	}()
	run := func(shape string, cs *c09Case) {
		x.k++
		total++
		perShape[shape]++
		if !x.r.Mine(x.k) {
			return
		}
		if why := c09CrossValid(cs); why != "" {
			x.t.Fatalf("cross family enumerates an invalid history (%s): %v", why, cs)
		}
		vs, outcome := c09RunCross(cs)
		x.r.NonTrivial("")
		if x.k%9973 == 1 {
			x.r.Sample(*cs)
		}
		x.report(cs, vs, outcome)
	}
	c09CrossEnv(func() {
		for _, s1 := range stallers {
			if x.overBudget() {
				return
			}
			runtime.GC() // between histories only; inside c09CrossEnv nothing is collected while one runs
			x.bubble(fmt.Sprintf("cross/%s/%d/%s", c09Alphabet[s1.msg].Name, s1.cut, s1.late), func() {
				{
					first := c09XStream{Msg: s1.msg, Chunks: chunksOfCut(s1.cut), End: "stall", Late: s1.late}
					// stall, then a healthy peer: late bytes before each of its chunks
					for l2 := 0; l2 < nl; l2++ {
						for _, ch := range allComps[l2] {
							for gap := 0; gap < len(ch); gap++ {
								a := first
								a.LateCall, a.LateGap = 1, gap
								run("stall,done", &c09Case{Fam: "cross", Target: "rdm", Mode: "seq", Streams: []c09XStream{a, {Msg: l2, Chunks: ch, End: "done"}}})
							}
						}
					}
					// a healthy peer first; the late bytes come after both calls have returned
					for l2 := 0; l2 < nl; l2++ {
						L2 := len(c09FrameOf(l2))
						for _, ch := range c09CompList(L2, 0, 1) {
							b := first
							b.LateCall = 2
							run("done,stall", &c09Case{Fam: "cross", Target: "rdm", Mode: "seq", Streams: []c09XStream{{Msg: l2, Chunks: ch, End: "done"}, b}})
						}
					}
					// two stalled peers: the late bytes of the first before / after the delivered part of the second
					for _, s2 := range stallers {
						if s2.late != "rest" {
							continue
						}
						ch2 := chunksOfCut(s2.cut)
						for gap := 0; gap <= len(ch2); gap++ {
							a := first
							a.LateCall, a.LateGap = 1, gap
							run("stall,stall", &c09Case{Fam: "cross", Target: "rdm", Mode: "seq", Streams: []c09XStream{a, {Msg: s2.msg, Chunks: ch2, End: "stall", Late: "rest", LateCall: 2}}})
						}
					}
					// stall, healthy, healthy: the late bytes arrive during the third call
					for l2 := 0; l2 < nl; l2++ {
						L2 := len(c09FrameOf(l2))
						for l3 := 0; l3 < nl; l3++ {
							for _, ch := range smallComps[l3] {
								for gap := 0; gap < len(ch); gap++ {
									a := first
									a.LateCall, a.LateGap = 2, gap
									run("stall,done,done", &c09Case{Fam: "cross", Target: "rdm", Mode: "seq", Streams: []c09XStream{a, {Msg: l2, Chunks: []int{L2}, End: "done"}, {Msg: l3, Chunks: ch, End: "done"}}})
								}
							}
						}
					}
					// stall, stall, healthy: both late deliveries during the third call
					if !thorough && (!s1.edge || s1.late != "junk") {
						return
					}
					for _, s2 := range stallers {
						if !thorough && (!s2.edge || s2.late != "junk") {
							continue
						}
						for l3 := 0; l3 < nl; l3++ {
							for _, ch := range c09CompList(len(c09FrameOf(l3)), 0, 2) {
								if len(ch) > 2 {
									continue
								}
								for g1 := 0; g1 < len(ch); g1++ {
									for g2 := 0; g2 < len(ch); g2++ {
										a := first
										a.LateCall, a.LateGap = 2, g1
										b := c09XStream{Msg: s2.msg, Chunks: chunksOfCut(s2.cut), End: "stall", Late: s2.late, LateCall: 2, LateGap: g2}
										run("stall,stall,done", &c09Case{Fam: "cross", Target: "rdm", Mode: "seq", Streams: []c09XStream{a, b, {Msg: l3, Chunks: ch, End: "done"}}})
									}
								}
							}
						}
					}
				}
			})
		}
		// two healthy peers read at the same time, every interleaving of their chunk arrivals
		parts := 2
		if thorough {
			parts = 3
		}
		for l1 := 0; l1 < nl && !x.overBudget(); l1++ {
			x.bubble(fmt.Sprintf("cross/overlap/%d", l1), func() {
				for _, ch1 := range c09CompList(len(c09FrameOf(l1)), 0, parts) {
					for l2 := 0; l2 < nl; l2++ {
						for _, ch2 := range c09CompList(len(c09FrameOf(l2)), 0, parts) {
							if len(ch1) > parts || len(ch2) > parts {
								continue // the all-1-byte compositions: too many interleavings
							}
							c09Merges(len(ch1), len(ch2), func(order []int) {
								run("overlap", &c09Case{Fam: "cross", Target: "rdm", Mode: "overlap", Order: append([]int(nil), order...),
									Streams: []c09XStream{{Msg: l1, Chunks: ch1, End: "done"}, {Msg: l2, Chunks: ch2, End: "done"}}})
							})
						}
					}
				}
			})
		}
	})
}

// ---------------------------------------------------------------------------
// oversize family

func c09OversizeStream(cs *c09Case) (data []byte, mark int, want []*c09Resp) {
	var buf bytes.Buffer
	for _, m := range cs.Msgs {
		b, _ := proto.Marshal(c09Alphabet[m].Make())
		var l [4]byte
		binary.BigEndian.PutUint32(l[:], uint32(len(b)))
		buf.Write(l[:])
		buf.Write(b)
	}
	want = c09Want(cs.Msgs)
	var l [4]byte
	binary.BigEndian.PutUint32(l[:], cs.Declared)
	buf.Write(l[:])
	mark = buf.Len()
	if cs.Body >= 0 {
		b, _ := proto.Marshal(c09Alphabet[cs.Body].Make())
		buf.Write(b)
		want = append(want, c09Alphabet[cs.Body].Make())
	} else {
		buf.Write([]byte{0x0a, 0x03, 'j', 'n', 'k', 0x0a, 0x01, 'z'})
	}
	return buf.Bytes(), mark, want
}

// c09RunOversize: Chunks is a composition of the 4 prefix bytes of the frame
// under test; everything before and after it arrives in one chunk each.
func c09RunOversize(cs *c09Case) (vs []c09Verdict, outcome string) {
	data, mark, want := c09OversizeStream(cs)
	var chunks []int
	if mark > 4 {
		chunks = append(chunks, mark-4)
	}
	chunks = append(chunks, cs.Chunks...)
	if len(data) > mark {
		chunks = append(chunks, len(data)-mark)
	}
	rd := &c09Reader{data: data, chunks: chunks, end: "eof", mark: mark}
	add := func(key, format string, a ...any) {
		vs = append(vs, c09Verdict{"rdm:" + key, fmt.Sprintf(format, a...)})
	}
	var before, after runtime.MemStats
	runtime.ReadMemStats(&before)
	steps, hung := c09Drive("rdm", rd, cs.Limit, len(cs.Msgs)+1)
	runtime.ReadMemStats(&after)
	if hung {
		add("read-never-returns", "the read did not return within %v of virtual time although the reader never blocks", c09Horizon)
		return vs, "hung"
	}
	for i, s := range steps {
		if s.pan != "" {
			add("panic", "call %d panicked: %s", i+1, s.pan)
			return vs, "panic"
		}
	}
	for i := range cs.Msgs {
		if i >= len(steps) || steps[i].err != nil || !proto.Equal(steps[i].msg, want[i]) {
			add("complete-message-not-delivered", "leading message %d (size within limit %d) was not delivered: %+v", i+1, cs.Limit, steps)
			return vs, "lost"
		}
	}
	if len(steps) <= len(cs.Msgs) {
		return vs, "short"
	}
	last := steps[len(cs.Msgs)]
	if int64(cs.Declared) <= int64(cs.Limit) {
		// a length equal to the limit is not "above the limit"
		if last.err != nil {
			add("limit-sized-message-rejected", "prefix declares %d bytes with limit %d and the body is present, got error %q", cs.Declared, cs.Limit, last.err)
		} else if !proto.Equal(last.msg, want[len(want)-1]) {
			add("message-content-changed", "got %v want %v", last.msg, want[len(want)-1])
		}
		return vs, "at-limit->" + c09ErrClass(last.err)
	}
	outcome = "oversize->" + c09ErrClass(last.err)
	switch {
	case last.err == nil:
		add("oversize-accepted", "prefix declares %d bytes, limit is %d; the call returned a message %v", cs.Declared, cs.Limit, last.msg)
	case errors.Is(last.err, io.EOF):
		add("oversize-reported-as-clean-eof", "prefix declares %d bytes, limit is %d; reported as end of input %q", cs.Declared, cs.Limit, last.err)
	}
	alloc := after.TotalAlloc - before.TotalAlloc
	switch {
	case int64(rd.maxAsk) >= int64(cs.Declared):
		add("oversize-allocated-before-rejection", "prefix declares %d bytes, limit is %d; after the prefix a Read with a buffer of %d bytes was issued, i.e. the body was allocated before the rejection (error: %v)", cs.Declared, cs.Limit, rd.maxAsk, last.err)
	case cs.Declared >= 64<<20 && alloc > 4<<20:
		add("oversize-allocated-before-rejection", "prefix declares %d bytes, limit is %d; the call allocated %d bytes (TotalAlloc delta)", cs.Declared, cs.Limit, alloc)
	case rd.readsPast > 0:
		outcome += "(after further small reads)"
	}
	return vs, outcome
}

// ---------------------------------------------------------------------------
// write family

func c09RunWrite(cs *c09Case) (vs []c09Verdict, outcome string) {
	jsonWire := cs.Target == "jenc"
	want := c09Want(cs.Msgs)
	w := &c09Writer{failAt: cs.FailAt, partial: cs.Partial}
	add := func(key, format string, a ...any) {
		vs = append(vs, c09Verdict{cs.Target + ":" + key, fmt.Sprintf(format, a...)})
	}
	var enc StreamEncoder
	if cs.Target != "wdm" {
		enc = NewCodec(jsonWire).NewEncoder(w)
	}
	outcome = "all-written"
	for i := range want {
		var err error
		pan := ""
		func() {
			defer func() {
				if p := recover(); p != nil {
					pan = fmt.Sprint(p)
				}
			}()
			if cs.Target == "wdm" {
				err = WriteDelimitedMessage(w, want[i])
			} else {
				err = enc.Encode(want[i])
			}
		}()
		if pan != "" {
			add("panic", "writing message %d panicked: %s", i+1, pan)
			return vs, "panic"
		}
		if err != nil {
			if !w.failed {
				add("spurious-write-error", "writing message %d to a healthy writer failed: %v", i+1, err)
			}
			return vs, "error-returned"
		}
		// the call claims success: the message must be in the accepted bytes
		if !c09PrefixOK(jsonWire, w.buf, want, i+1) {
			if w.failed {
				add("write-error-swallowed", "Write #%d of the underlying writer failed (partial=%v), writing message %d nevertheless returned nil; accepted bytes %q do not contain the message", cs.FailAt, cs.Partial, i+1, w.buf)
			} else {
				add("written-bytes-wrong", "after writing message %d the accepted bytes %q do not parse back to the messages written", i+1, w.buf)
			}
			return vs, "bad"
		}
	}
	if w.failed {
		outcome = "failure-after-complete-message-ignored"
	}
	if cs.FailAt == 0 {
		if why := c09CheckEncoding(jsonWire, w.buf, want); why != "" {
			add("written-bytes-wrong", "%s", why)
		}
	}
	return vs, outcome
}

// ---------------------------------------------------------------------------
// enumeration

func c09Sequences() [][]int {
	var out [][]int
	a := len(c09Alphabet)
	for n := 1; n <= 3; n++ {
		idx := make([]int, n)
		for {
			out = append(out, append([]int(nil), idx...))
			i := n - 1
			for ; i >= 0; i-- {
				idx[i]++
				if idx[i] < a {
					break
				}
				idx[i] = 0
			}
			if i < 0 {
				break
			}
		}
	}
	return out
}

// c09Comps enumerates compositions of c: all of them when c <= full, otherwise
// those with at most maxParts parts plus the all-ones composition. fn gets a
// slice that is reused.
func c09Comps(c, full, maxParts int, fn func(chunks []int)) {
	buf := make([]int, 0, c)
	if c == 0 {
		fn(buf)
		return
	}
	if c <= full {
		for mask := uint32(0); mask < 1<<uint(c-1); mask++ {
			buf = buf[:0]
			lastCut := 0
			for i := 1; i < c; i++ {
				if mask&(1<<uint(i-1)) != 0 {
					buf = append(buf, i-lastCut)
					lastCut = i
				}
			}
			buf = append(buf, c-lastCut)
			fn(buf)
		}
		return
	}
	fn(append(buf[:0], c))
	if maxParts >= 2 {
		for i := 1; i < c; i++ {
			fn(append(buf[:0], i, c-i))
		}
	}
	if maxParts >= 3 {
		for i := 1; i < c; i++ {
			for j := i + 1; j < c; j++ {
				fn(append(buf[:0], i, j-i, c-j))
			}
		}
	}
	buf = buf[:0]
	for i := 0; i < c; i++ {
		buf = append(buf, 1)
	}
	fn(buf)
}

func c09HasZero(msgs []int) bool {
	for _, m := range msgs {
		if c09Alphabet[m].Size == 0 {
			return true
		}
	}
	return false
}

type c09Run struct {
	r        *rep.Report
	t        *testing.T
	k        int64
	deadline time.Time
	stop     bool
}

func (x *c09Run) report(cs *c09Case, vs []c09Verdict, outcome string) {
	x.r.Eval(1)
	if outcome != "" {
		x.r.Outcome(outcome)
	}
	for _, v := range vs {
		cp := *cs
		cp.Chunks = append([]int(nil), cs.Chunks...)
		cp.Delays = append([]int(nil), cs.Delays...)
		x.r.Violate(v.key, v.detail+"\ncase: "+cp.String(), cp)
	}
}

// bubble runs fn inside a synctest bubble; a panic of the bubble (leaked
// goroutines after a read that never returned) is a harness-level error unless
// the case that caused it was already reported.
func (x *c09Run) bubble(what string, fn func()) {
	defer func() {
		if p := recover(); p != nil {
			x.t.Errorf("bubble %s: %v", what, p)
		}
	}()
	synctest.Test(x.t, func(*testing.T) { fn() })
}

func (x *c09Run) overBudget() bool {
	if x.stop {
		return true
	}
	if !x.deadline.IsZero() && time.Now().After(x.deadline) {
		x.r.NotExhaustive("per-shard time budget reached; enumeration order is target, producer, sequence (shortest first), cut, composition, ending")
		x.stop = true
	}
	return x.stop
}

func (x *c09Run) readFamily(thorough bool) {
	type tgt struct {
		target string
		encs   []string
		full   int
	}
	// delivered prefixes up to this length get ALL their compositions
	fullRdm, fullPdec, fullJSON := 12, 12, 12
	if thorough {
		fullRdm, fullPdec, fullJSON = 17, 17, 16
	}
	targets := []tgt{
		{"rdm", []string{"penc"}, fullRdm},
		{"pdec", []string{"wdm"}, fullPdec},
		{"jdec", []string{"compact-nl", "compact-cat", "jenc"}, fullJSON},
	}
	x.r.Extra["all_compositions_up_to_bytes"] = map[string]int{"rdm": fullRdm, "pdec": fullPdec, "jdec": fullJSON}
	seqs := c09Sequences()
	seen := map[string]bool{}
	var dedup int64
	perTarget := map[string]int64{}
	dry := os.Getenv("VERIF_C09_DRY") != "" // development aid: count the enumeration without running it
	defer func() {
		x.r.Extra["delivered_prefixes_shared_with_an_earlier_stream_skipped"] = dedup
		x.r.Extra["read_cases_enumerated_all_shards"] = perTarget
	}()
	for _, tg := range targets {
		for _, enc := range tg.encs {
			for _, msgs := range seqs {
				if enc == "compact-cat" && len(msgs) == 1 {
					continue // identical to compact-nl without the separator: still distinct bytes, but nothing new
				}
				if x.overBudget() {
					return
				}
				st, why := c09NewStream(tg.target, enc, msgs)
				if st == nil {
					x.k++
					if x.r.Mine(x.k) {
						cs := &c09Case{Fam: "write", Target: enc, Msgs: msgs}
						x.report(cs, []c09Verdict{{enc + ":written-bytes-wrong", why}}, "bad-stream")
					}
					continue
				}
				x.r.Count("streams", 1)
				x.r.Count("stream-bytes", int64(len(st.Bytes)))
				ends := []string{"eof", "eof+", "err", "err+"}
				if tg.target == "rdm" {
					ends = append(ends, "stall")
				}
				zeroStates := []bool{false}
				if tg.target == "rdm" && c09HasZero(msgs) {
					zeroStates = append(zeroStates, true)
				}
				x.bubble(fmt.Sprintf("%s/%s/%v", tg.target, enc, msgs), func() {
					n := len(st.Bytes)
					for cut := 0; cut <= n; cut++ {
						maxParts := 2
						if cut == n {
							maxParts = 3
						}
						// What a reader does depends only on the bytes delivered and on the
						// script, not on what the writer would have sent afterwards: a
						// delivered prefix shared with an earlier stream is not repeated.
						mode := 0
						if cut > tg.full {
							mode = maxParts
						}
						key := fmt.Sprintf("%s|%d|%d|%q", tg.target, mode, len(zeroStates), st.Bytes[:cut])
						if seen[key] {
							dedup++
							continue
						}
						seen[key] = true
						c09Comps(cut, tg.full, maxParts, func(chunks []int) {
							for _, end := range ends {
								if cut == 0 && strings.HasSuffix(end, "+") {
									continue
								}
								for _, zs := range zeroStates {
									x.k++
									perTarget[tg.target]++
									if !x.r.Mine(x.k) || dry {
										continue
									}
									cs := &c09Case{Fam: "read", Target: tg.target, Enc: enc, Msgs: msgs, Cut: cut, Chunks: chunks, End: end, ZeroState: zs}
									vs, outcome := c09RunRead(st, cs)
									if cut > 0 {
										x.r.NonTrivial("")
									}
									if x.k%50021 == 1 {
										cp := *cs
										cp.Chunks = append([]int(nil), chunks...)
										x.r.Sample(cp)
									}
									x.report(cs, vs, outcome)
								}
							}
						})
					}
				})
			}
		}
	}
}

// timedFamily: ReadDelimitedMessage against peers whose chunks arrive at virtual times. Streams of
// one message (every letter) and of two (letters of size 0, 2, 5; thorough: all), every number of
// delivered bytes, every composition of a delivery of up to `full` bytes (beyond: <=3 chunks and
// the all-1-byte one), every assignment of delays {0, T/3, T-1ms} to the chunks (more than 7
// chunks: uniform, one or two delayed chunks), then stall or end of stream.
func (x *c09Run) timedFamily(thorough bool) {
	if x.overBudget() {
		return
	}
	full := 7
	pairLetters := []int{0, 1, 3}
	if thorough {
		full = 9
		pairLetters = []int{0, 1, 2, 3}
	}
	var seqs [][]int
	for i := range c09Alphabet {
		seqs = append(seqs, []int{i})
	}
	for _, a := range pairLetters {
		for _, b := range pairLetters {
			seqs = append(seqs, []int{a, b})
		}
	}
	x.r.Extra["timed_all_compositions_up_to_bytes"] = full
	x.r.Extra["timed_delays"] = fmt.Sprint(c09Delays)
	seen := map[string]bool{}
	var total int64
	defer func() { x.r.Extra["timed_cases_enumerated_all_shards"] = total }()
	for _, msgs := range seqs {
		if x.overBudget() {
			return
		}
		st, why := c09NewStream("rdm", "penc", msgs)
		if st == nil {
			x.k++
			if x.r.Mine(x.k) {
				x.report(&c09Case{Fam: "write", Target: "penc", Msgs: msgs}, []c09Verdict{{"penc:written-bytes-wrong", why}}, "bad-stream")
			}
			continue
		}
		x.bubble(fmt.Sprintf("timed/%v", msgs), func() {
			n := len(st.Bytes)
			for cut := 0; cut <= n; cut++ {
				key := string(st.Bytes[:cut])
				if seen[key] && cut < n {
					continue // delivered prefix shared with an earlier stream (only the stall/cut behaviour, identical)
				}
				seen[key] = true
				c09Comps(cut, full, 3, func(chunks []int) {
					c09DelayAssignments(len(chunks), func(d []int) {
						for _, end := range []string{"stall", "eof"} {
							x.k++
							total++
							if !x.r.Mine(x.k) {
								continue
							}
							cs := &c09Case{Fam: "timed", Target: "rdm", Enc: "penc", Msgs: msgs, Cut: cut, Chunks: chunks, Delays: d, End: end}
							vs, outcome := c09RunTimed(st, cs)
							delayed := false
							for _, v := range d {
								delayed = delayed || v != 0
							}
							if delayed {
								x.r.NonTrivial("")
							}
							if x.k%20011 == 1 {
								cp := *cs
								cp.Chunks = append([]int(nil), chunks...)
								cp.Delays = append([]int(nil), d...)
								x.r.Sample(cp)
							}
							x.report(cs, vs, outcome)
						}
					})
				})
			}
		})
	}
}

func (x *c09Run) oversizeFamily() {
	if x.overBudget() {
		return
	}
	var prefixComps [][]int
	c09Comps(4, 4, 0, func(ch []int) { prefixComps = append(prefixComps, append([]int(nil), ch...)) })
	var cases []*c09Case
	leads := [][]int{{}, {0}}
	// (a) the real body of a message follows; limit == size (accept) and limit == size-1 (reject)
	for _, lead := range leads {
		for li, l := range c09Alphabet {
			cases = append(cases, &c09Case{Fam: "oversize", Target: "rdm", Msgs: lead, Limit: l.Size, Declared: uint32(l.Size), Body: li})
			if l.Size > 0 {
				cases = append(cases, &c09Case{Fam: "oversize", Target: "rdm", Msgs: lead, Limit: l.Size - 1, Declared: uint32(l.Size), Body: li})
			}
		}
	}
	// (b) junk follows; declared values above the limit, ascending
	for _, lead := range leads {
		for _, limit := range []int{0, 2, 5, 1024} {
			for _, d := range []uint32{uint32(limit) + 1, uint32(limit) + 2, 1 << 16, 64 << 20, 1<<31 - 1, 1 << 31, 1<<32 - 1} {
				cases = append(cases, &c09Case{Fam: "oversize", Target: "rdm", Msgs: lead, Limit: limit, Declared: d, Body: -1})
			}
		}
	}
	allocSeen := false
	x.bubble("oversize", func() {
		for _, base := range cases {
			for _, ch := range prefixComps {
				x.k++
				if !x.r.Mine(x.k) {
					continue
				}
				if allocSeen && base.Declared > 64<<20 {
					x.r.Count("oversize-cases-skipped-after-allocation-violation", 1)
					continue
				}
				cs := *base
				cs.Chunks = ch
				vs, outcome := c09RunOversize(&cs)
				for _, v := range vs {
					if strings.HasSuffix(v.key, "oversize-allocated-before-rejection") {
						allocSeen = true
					}
				}
				x.r.NonTrivial("")
				if x.k%97 == 1 {
					x.r.Sample(cs)
				}
				x.report(&cs, vs, outcome)
			}
		}
	})
}

func (x *c09Run) writeFamily() {
	if x.overBudget() {
		return
	}
	for _, target := range []string{"wdm", "penc", "jenc"} {
		for _, msgs := range c09Sequences() {
			// number of Writes on a healthy writer
			probe := &c09Case{Fam: "write", Target: target, Msgs: msgs}
			w := &c09Writer{}
			func() {
				defer func() { _ = recover() }()
				if target == "wdm" {
					for _, m := range msgs {
						_ = WriteDelimitedMessage(w, c09Alphabet[m].Make())
					}
				} else {
					e := NewCodec(target == "jenc").NewEncoder(w)
					for _, m := range msgs {
						_ = e.Encode(c09Alphabet[m].Make())
					}
				}
			}()
			total := w.writes
			for failAt := 0; failAt <= total; failAt++ {
				for _, partial := range []bool{false, true} {
					if failAt == 0 && partial {
						continue
					}
					x.k++
					if !x.r.Mine(x.k) {
						continue
					}
					cs := *probe
					cs.FailAt, cs.Partial = failAt, partial
					vs, outcome := c09RunWrite(&cs)
					if failAt > 0 {
						x.r.NonTrivial("")
					}
					if x.k%211 == 1 {
						x.r.Sample(cs)
					}
					x.report(&cs, vs, target+"/"+outcome)
				}
			}
		}
	}
}

func TestVerifC09(t *testing.T) {
	r := rep.New("c09-enum")
	defer r.Write()
	r.Rule = "one case = (target reader/writer, message sequence of 1-3 letters with sizes 0/2/3/5, number of stream bytes delivered, composition of those bytes into Read answers, ending eof|eof-with-last-data|io-error|io-error-with-last-data|stall [, zero-length-read behaviour]) resp. (limit, declared length, prefix composition) resp. (writer, sequence, index of the failing Write, partial) resp. a history over 2-3 scripted peers (letter, composition, done|stall after a cut, late bytes rest|junk arriving at a chosen chunk boundary of a later call; or two calls at once with an interleaving of the chunk arrivals) resp. (reader, producer, stream shape around ONE message of size 2^k+-1 for k=10..21, partition lump/tail/cut with a Read-answer window ending c bytes behind the large message, c=0..64 [thorough ..160]); cases are distinct by construction; non-trivial = at least one byte is delivered (read), every oversize case, every failing-writer case, every multi-stream history, every large-message case"
	for _, l := range c09Alphabet {
		b, err := proto.Marshal(l.Make())
		if err != nil || len(b) != l.Size {
			t.Fatalf("alphabet letter %s: size %d, want %d (%v)", l.Name, len(b), l.Size, err)
		}
		got := &c09Resp{}
		if err := protojson.Unmarshal([]byte(l.Compact), got); err != nil || !proto.Equal(got, l.Make()) {
			t.Fatalf("alphabet letter %s: compact JSON %s does not denote the message (%v)", l.Name, l.Compact, err)
		}
	}
	x := &c09Run{r: r, t: t, deadline: rep.Deadline()}
	if data := rep.ReplayInput(); data != nil {
		var rj struct {
			Replay c09Case `json:"replay"`
		}
		if err := json.Unmarshal(data, &rj); err != nil {
			t.Fatal(err)
		}
		cs := rj.Replay
		var vs []c09Verdict
		var outcome string
		switch cs.Fam {
		case "read":
			st, why := c09NewStream(cs.Target, cs.Enc, cs.Msgs)
			if st == nil {
				vs = []c09Verdict{{cs.Enc + ":written-bytes-wrong", why}}
				break
			}
			sum := 0
			for _, c := range cs.Chunks {
				sum += c
			}
			if cs.Cut > len(st.Bytes) || sum != cs.Cut {
				t.Fatalf("replay does not fit the stream produced now (%d bytes): %v", len(st.Bytes), cs)
			}
			fmt.Printf("stream (%d bytes): %q\nreference at cut %d: %+v\n", len(st.Bytes), st.Bytes, cs.Cut, st.Refs[cs.Cut])
			x.bubble("replay", func() { vs, outcome = c09RunRead(st, &cs) })
		case "timed":
			st, why := c09NewStream("rdm", cs.Enc, cs.Msgs)
			if st == nil {
				t.Fatalf("replay: %s", why)
			}
			sum := 0
			for _, c := range cs.Chunks {
				sum += c
			}
			if cs.Cut > len(st.Bytes) || sum != cs.Cut || len(cs.Delays) != len(cs.Chunks) {
				t.Fatalf("replay does not fit the stream produced now (%d bytes): %v", len(st.Bytes), cs)
			}
			fmt.Printf("stream (%d bytes): %q\n", len(st.Bytes), st.Bytes)
			x.bubble("replay", func() { vs, outcome = c09RunTimed(st, &cs) })
		case "oversize":
			x.bubble("replay", func() { vs, outcome = c09RunOversize(&cs) })
		case "cross":
			if why := c09CrossValid(&cs); why != "" {
				t.Fatalf("replay does not fit the frames produced now (%s): %v", why, cs)
			}
			for i, s := range cs.Streams {
				fmt.Printf("stream %d: frame %q, delivered in chunks %v, then %s %s\n", i+1, c09FrameOf(s.Msg), s.Chunks, s.End, s.Late)
			}
			c09CrossEnv(func() { x.bubble("replay", func() { vs, outcome = c09RunCross(&cs) }) })
		case "write":
			vs, outcome = c09RunWrite(&cs)
		case "big":
			st, why := c09BigStream(cs.Target, cs.Enc, cs.Shape, cs.Big)
			if st == nil {
				vs = []c09Verdict{{cs.Enc + ":written-bytes-wrong", why}}
				break
			}
			sum := 0
			for _, c := range cs.Chunks {
				sum += c
			}
			if cs.Cut > len(st.Bytes) || sum != cs.Cut {
				t.Fatalf("replay does not fit the stream produced now (%d bytes): %v", len(st.Bytes), cs)
			}
			fmt.Printf("stream of %d bytes, messages end at %v; reference at cut %d: %+v\n", len(st.Bytes), st.Ends, cs.Cut, st.refAt(cs.Cut))
			x.bubble("replay", func() { vs, outcome = c09RunReadAt(st.c09Stream, &cs, st.refAt(cs.Cut), c09BigLimit) })
		default:
			t.Fatalf("unknown family %q", cs.Fam)
		}
		fmt.Printf("replay: case=%v\noutcome=%s\n", cs, outcome)
		for _, v := range vs {
			fmt.Printf("VERDICT %s: %s\n", v.key, v.detail)
			r.Violate(v.key, v.detail, cs)
		}
		r.Eval(1)
		return
	}
	// small families first so that a budget stop never hides them
	x.writeFamily()
	x.oversizeFamily()
	x.crossFamily(rep.Thorough())
	x.bigFamily(rep.Thorough())
	x.timedFamily(rep.Thorough())
	x.readFamily(rep.Thorough())
	r.Extra["cases_enumerated_all_shards"] = x.k
}
