package internal

// C17 unit 1: the raw body encoders are invertible.
//
// Every MessageContents / StreamContents of the alphabet is written by the
// real WriteRawMessageContents / WriteRawStreamContents into (a) a plain
// bytes.Buffer and (b) a pipe-like io.WriteCloser that refuses writes after
// Close (rawRequestSender hands the encoders an *io.PipeWriter), and the bytes
// are decoded by the independent decoder of c17lib.

import (
	"bytes"
	"encoding/json"
	"fmt"
	"io"
	"testing"
	"time"

	conformancev1 "connectrpc.com/conformance/internal/gen/proto/go/connectrpc/conformance/v1"
	"connectrpc.com/conformance/internal/verif/c17lib"
	"connectrpc.com/conformance/internal/verif/rep"
	"google.golang.org/protobuf/proto"
)

type c17Case struct {
	Kind string          `json:"kind"` // "message" | "stream"
	Sink string          `json:"sink"` // "buffer" | "closer"
	Spec json.RawMessage `json:"spec"` // protojson of the definition ("null": nil MessageContents)
}

// c17CloserSink mimics io.PipeWriter: an io.WriteCloser; writes after Close fail.
type c17CloserSink struct {
	buf           bytes.Buffer
	closed        bool
	writeAfterEnd int
}

func (s *c17CloserSink) Write(p []byte) (int, error) {
	if s.closed {
		s.writeAfterEnd++
		return 0, io.ErrClosedPipe
	}
	return s.buf.Write(p)
}

func (s *c17CloserSink) Close() error {
	s.closed = true
	return nil
}

type c17Result struct {
	wire        []byte
	err         error
	panicked    any
	sinkClosed  bool
	lateWrites  int
	closerBytes []byte
}

func c17Encode(kind, sink string, msg *conformancev1.MessageContents, str *conformancev1.StreamContents) (res c17Result) {
	var w io.Writer
	var buf bytes.Buffer
	var cs c17CloserSink
	if sink == "closer" {
		w = &cs
	} else {
		w = &buf
	}
	func() {
		defer func() {
			if p := recover(); p != nil {
				res.panicked = p
			}
		}()
		if kind == "message" {
			res.err = WriteRawMessageContents(msg, w)
		} else {
			res.err = WriteRawStreamContents(str, w)
		}
	}()
	if sink == "closer" {
		res.wire = cs.buf.Bytes()
		res.sinkClosed = cs.closed
		res.lateWrites = cs.writeAfterEnd
	} else {
		res.wire = buf.Bytes()
	}
	return res
}

// c17Judge returns "" if the property holds for this case, else key and detail.
func c17Judge(kind, sink string, msg *conformancev1.MessageContents, str *conformancev1.StreamContents, res c17Result) (key, detail, outcome string) {
	shape := c17Shape(kind, msg, str)
	var spec proto.Message
	if kind == "message" {
		if msg != nil {
			spec = msg
		}
	} else {
		spec = str
	}
	specText := "null"
	if spec != nil {
		specText = c17lib.Short(spec)
	}
	if res.panicked != nil {
		return "encoder-panics:" + shape, fmt.Sprintf("%s encoder panicked (%v) on %s [sink=%s]", kind, res.panicked, specText, sink), "panic"
	}
	var prob *c17lib.Problem
	var items []c17lib.DecodedItem
	if kind == "message" {
		prob = c17lib.CheckUnary(msg, res.wire)
	} else {
		items, prob = c17lib.CheckStream(str, res.wire)
	}
	if prob != nil {
		k := "encoder-not-invertible:" + prob.Kind
		if sink == "closer" && res.lateWrites > 0 {
			// the encoder closed the caller's writer in the middle of the body
			k = "encoder-closes-writer:" + c17CloseShape(str)
		}
		return k, fmt.Sprintf("%s definition %s [sink=%s] was written as %x (err=%v, writer closed by encoder=%v, writes refused after that close=%d); independent decoding: %s (decoded so far %+v)",
			kind, specText, sink, res.wire, res.err, res.sinkClosed, res.lateWrites, prob.Detail, items), "mismatch:" + prob.Kind
	}
	if res.err != nil {
		return "encoder-error:" + shape, fmt.Sprintf("%s encoder returned error %v for the valid definition %s [sink=%s]", kind, res.err, specText, sink), "error"
	}
	n := len(res.wire)
	bucket := "0"
	switch {
	case n > 1000:
		bucket = ">1000"
	case n > 100:
		bucket = ">100"
	case n > 10:
		bucket = ">10"
	case n > 0:
		bucket = ">0"
	}
	return "", "", fmt.Sprintf("ok/%s/%s/bytes%s", kind, sink, bucket)
}

// c17Shape is a stable, coarse description of the definition for violation keys.
func c17Shape(kind string, msg *conformancev1.MessageContents, str *conformancev1.StreamContents) string {
	if kind == "message" {
		if msg == nil {
			return "nil-message-contents"
		}
		return "message"
	}
	for _, it := range str.GetItems() {
		if it.Payload == nil {
			return "stream-item-without-payload"
		}
	}
	return "stream"
}

// c17CloseShape says which item made the encoder close the caller's writer.
func c17CloseShape(str *conformancev1.StreamContents) string {
	for i, it := range str.GetItems() {
		if it.Length != nil && it.Payload != nil && i+1 < len(str.GetItems()) {
			c := it.GetPayload().GetCompression()
			if c == conformancev1.Compression_COMPRESSION_UNSPECIFIED || c == conformancev1.Compression_COMPRESSION_IDENTITY {
				return "stream-explicit-length-identity-item-followed-by-item"
			}
		}
	}
	return "other"
}

func c17Enumerate(thorough bool, visit func(kind string, msg *conformancev1.MessageContents, str *conformancev1.StreamContents) bool) {
	comps := c17lib.Compressions()
	// messages: nil contents, then every payload x every compression
	if !visit("message", nil, nil) {
		return
	}
	lvl := 1
	if thorough {
		lvl = 2
	}
	for _, m := range c17lib.Messages(c17lib.Payloads(lvl), comps) {
		if !visit("message", m, nil) {
			return
		}
	}
	// streams
	var singles, first, second []*conformancev1.StreamContents_StreamItem
	if thorough {
		singles = c17lib.Items(c17lib.AllFlags, c17lib.U32s(-1, 0, 3, 4294967295), c17lib.Messages(c17lib.Payloads(2), comps), true)
		pairMsgs := c17lib.Messages(c17lib.Payloads(1), comps)
		first = c17lib.Items(c17lib.AllFlags, c17lib.U32s(-1, 3, 4294967295), pairMsgs, true)
		second = c17lib.Items([]uint32{0, 2}, c17lib.U32s(-1, 3, 0), pairMsgs, true)
	} else {
		singles = c17lib.Items(c17lib.AllFlags, c17lib.U32s(-1, 0, 3), c17lib.Messages(c17lib.Payloads(1), comps), true)
		pairMsgs := c17lib.Messages(c17lib.Payloads(0)[:2], comps)
		first = c17lib.Items([]uint32{0, 1, 255}, c17lib.U32s(-1, 3), pairMsgs, true)
		second = c17lib.Items([]uint32{0, 2}, c17lib.U32s(-1, 3), pairMsgs, true)
	}
	if !visit("stream", nil, &conformancev1.StreamContents{}) {
		return
	}
	for _, a := range singles {
		if !visit("stream", nil, &conformancev1.StreamContents{Items: []*conformancev1.StreamContents_StreamItem{a}}) {
			return
		}
	}
	for _, a := range first {
		for _, b := range second {
			if !visit("stream", nil, &conformancev1.StreamContents{Items: []*conformancev1.StreamContents_StreamItem{a, b}}) {
				return
			}
		}
	}
}

func TestVerifC17Body(t *testing.T) {
	r := rep.New("c17-body")
	defer r.Write()
	r.Rule = "case = (MessageContents: nil | {unset,text,binary,binary_message payloads} x 7 compression values) or (StreamContents: 0 items | 1 item: flags{0,1,2,128,255} x length{unset,explicit} x {no payload | payload x compression} | 2 items over a reduced item alphabet), each written into a bytes.Buffer and into a pipe-like WriteCloser; every case is a distinct definition x sink; oracle = independent prefix parser + stdlib/3rd-party decompressors recover exactly the specified flags, declared length and payload with no byte left over"

	if data := rep.ReplayInput(); data != nil {
		var rj struct {
			Replay c17Case `json:"replay"`
		}
		if err := json.Unmarshal(data, &rj); err != nil {
			t.Fatalf("bad replay file: %v", err)
		}
		c := rj.Replay
		var msg *conformancev1.MessageContents
		var str *conformancev1.StreamContents
		if c.Kind == "message" {
			if string(c.Spec) != "null" {
				msg = &conformancev1.MessageContents{}
				if err := c17lib.FromJSON(c.Spec, msg); err != nil {
					t.Fatal(err)
				}
			}
		} else {
			str = &conformancev1.StreamContents{}
			if err := c17lib.FromJSON(c.Spec, str); err != nil {
				t.Fatal(err)
			}
		}
		res := c17Encode(c.Kind, c.Sink, msg, str)
		key, detail, outcome := c17Judge(c.Kind, c.Sink, msg, str, res)
		fmt.Printf("replay: kind=%s sink=%s spec=%s\nwire=%x err=%v panic=%v closed=%v lateWrites=%d\noutcome=%s\n", c.Kind, c.Sink, c.Spec, res.wire, res.err, res.panicked, res.sinkClosed, res.lateWrites, outcome)
		r.Eval(1)
		r.NonTrivial("")
		r.NonTrivial("")
		r.Sample(c)
		if key != "" {
			r.Violate(key, detail, c)
		}
		return
	}

	deadline := rep.Deadline()
	var k int64
	c17Enumerate(rep.Thorough(), func(kind string, msg *conformancev1.MessageContents, str *conformancev1.StreamContents) bool {
		for _, sink := range []string{"buffer", "closer"} {
			k++
			if !r.Mine(k) {
				continue
			}
			if !deadline.IsZero() && time.Now().After(deadline) {
				r.NotExhaustive("budget reached before the enumeration was complete")
				return false
			}
			res := c17Encode(kind, sink, msg, str)
			key, detail, outcome := c17Judge(kind, sink, msg, str, res)
			r.Eval(1)
			r.NonTrivial("")
			r.Outcome(outcome)
			r.Count("cases:"+kind, 1)
			var spec json.RawMessage = json.RawMessage("null")
			if kind == "message" && msg != nil {
				spec = c17lib.JSON(msg)
			} else if kind == "stream" {
				spec = c17lib.JSON(str)
			}
			if k%997 == 1 {
				r.Sample(c17Case{Kind: kind, Sink: sink, Spec: spec})
			}
			if key != "" {
				r.Violate(key, detail, c17Case{Kind: kind, Sink: sink, Spec: spec})
			}
		}
		return true
	})
}
