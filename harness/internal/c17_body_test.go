package internal

// C17 unit 1: the raw body encoders are invertible.
//
// Every MessageContents / StreamContents of the alphabet is written by the
// real WriteRawMessageContents / WriteRawStreamContents into (a) a plain
// bytes.Buffer and (b) a pipe-like io.WriteCloser that refuses writes after
// Close (rawRequestSender hands the encoders an *io.PipeWriter), and the bytes
// are decoded by the independent decoder of c17lib.
//
// Second grid, encoder HISTORIES: two or three encodings in a row on one
// goroutine with nothing in between (one P, no garbage collection inside a
// history, so that whatever scratch state the encoders keep - a package-level
// buffer, a sync.Pool - is handed from one encoding to the next every time, not
// by luck).  The earlier encodings write to a destination that fails at its k-th
// Write (every k; nothing accepted, or half of the bytes accepted); the last one
// encodes an unrelated definition into a good buffer and must decode to exactly
// its own items.

import (
	"bytes"
	"encoding/json"
	"errors"
	"fmt"
	"io"
	"runtime"
	"runtime/debug"
	"testing"
	"time"

	conformancev1 "connectrpc.com/conformance/internal/gen/proto/go/connectrpc/conformance/v1"
	"connectrpc.com/conformance/internal/verif/c17lib"
	"connectrpc.com/conformance/internal/verif/rep"
	"google.golang.org/protobuf/proto"
)

type c17Case struct {
	Kind    string          `json:"kind"`           // "message" | "stream" | "history"
	Sink    string          `json:"sink,omitempty"` // "buffer" | "closer"
	Spec    json.RawMessage `json:"spec,omitempty"` // protojson of the definition ("null": nil MessageContents)
	History []c17Enc        `json:"history,omitempty"`
}

// c17Enc is one encoding of a history.
type c17Enc struct {
	Kind   string          `json:"kind"` // "message" | "stream"
	Spec   json.RawMessage `json:"spec"`
	FailAt int             `json:"fail_at,omitempty"` // 0: good destination; k >= 1: the k-th Write of the destination fails (and every later one)
	Mode   string          `json:"mode,omitempty"`    // "zero": the failing Write accepts nothing; "short": it accepts half of the bytes

	msg *conformancev1.MessageContents
	str *conformancev1.StreamContents
}

var c17ErrSink = errors.New("c17: destination failed")

// c17FailSink accepts Writes until the failAt-th, which fails; so does every later one.
type c17FailSink struct {
	buf    bytes.Buffer
	failAt int // 0 = never
	short  bool
	calls  int
	failed bool
}

func (s *c17FailSink) Write(p []byte) (int, error) {
	s.calls++
	if s.failed {
		return 0, c17ErrSink
	}
	if s.failAt > 0 && s.calls >= s.failAt {
		s.failed = true
		if s.short {
			n := len(p) / 2
			s.buf.Write(p[:n])
			return n, c17ErrSink
		}
		return 0, c17ErrSink
	}
	return s.buf.Write(p)
}

type c17EncResult struct {
	wire     []byte
	err      error
	panicked any
	calls    int
}

// c17RunHistory performs the encodings back to back on the calling goroutine.
func c17RunHistory(h []c17Enc) []c17EncResult {
	out := make([]c17EncResult, len(h))
	sinks := make([]*c17FailSink, len(h))
	for i := range h {
		sinks[i] = &c17FailSink{failAt: h[i].FailAt, short: h[i].Mode == "short"}
	}
	for i := range h {
		e, sink, res := &h[i], sinks[i], &out[i]
		func() {
			defer func() {
				if p := recover(); p != nil {
					res.panicked = p
				}
			}()
			if e.Kind == "message" {
				res.err = WriteRawMessageContents(e.msg, sink)
			} else {
				res.err = WriteRawStreamContents(e.str, sink)
			}
		}()
	}
	for i := range h {
		out[i].wire, out[i].calls = sinks[i].buf.Bytes(), sinks[i].calls
	}
	return out
}

func c17EncOf(msg *conformancev1.MessageContents, str *conformancev1.StreamContents) c17Enc {
	if str != nil {
		return c17Enc{Kind: "stream", Spec: c17lib.JSON(str), str: str}
	}
	return c17Enc{Kind: "message", Spec: c17lib.JSON(msg), msg: msg}
}

func (e *c17Enc) resolve() error {
	if e.Kind == "message" {
		e.msg = &conformancev1.MessageContents{}
		return c17lib.FromJSON(e.Spec, e.msg)
	}
	e.str = &conformancev1.StreamContents{}
	return c17lib.FromJSON(e.Spec, e.str)
}

type c17HVerdict struct{ key, detail string }

// c17JudgeHistory: every encoding into a good destination must succeed and decode to exactly
// its own definition, whatever happened to earlier encodings; no encoding may panic.
func c17JudgeHistory(h []c17Enc, res []c17EncResult) (out []c17HVerdict, outcome string) {
	outcome = fmt.Sprintf("history%d", len(h))
	failedBefore := 0
	for i := range h {
		e, r := &h[i], &res[i]
		what := fmt.Sprintf("encoding %d of %d (%s %s)", i+1, len(h), e.Kind, e.Spec)
		if r.panicked != nil {
			out = append(out, c17HVerdict{"encoder-history:panic", fmt.Sprintf("%s panicked: %v", what, r.panicked)})
			outcome += "/panic"
			continue
		}
		if e.FailAt > 0 {
			failedBefore++
			switch {
			case r.calls < e.FailAt:
				outcome += "/dest-not-reached"
			case r.err == nil:
				outcome += "/failure-not-reported"
			default:
				outcome += "/failed-" + e.Mode
			}
			continue
		}
		var prob *c17lib.Problem
		if e.Kind == "message" {
			prob = c17lib.CheckUnary(e.msg, r.wire)
		} else {
			_, prob = c17lib.CheckStream(e.str, r.wire)
		}
		switch {
		case prob != nil && failedBefore > 0:
			out = append(out, c17HVerdict{"encoder-history:not-invertible-after-failed-encoding:" + prob.Kind, fmt.Sprintf(
				"%s into a good buffer, right after %d encoding(s) whose destination failed, was written as %x (err=%v); independent decoding: %s", what, failedBefore, r.wire, r.err, prob.Detail)})
			outcome += "/mismatch"
		case prob != nil:
			out = append(out, c17HVerdict{"encoder-history:not-invertible:" + prob.Kind, fmt.Sprintf("%s was written as %x (err=%v); independent decoding: %s", what, r.wire, r.err, prob.Detail)})
			outcome += "/mismatch"
		case r.err != nil:
			out = append(out, c17HVerdict{"encoder-history:error-on-good-destination", fmt.Sprintf("%s returned %v although its destination accepted every byte", what, r.err)})
			outcome += "/error"
		default:
			outcome += "/ok"
		}
	}
	return out, outcome
}

// c17Histories enumerates the histories: F = definitions written to a failing
// destination (every k up to the number of Writes the definition makes on a good
// destination, both failure modes), G = unrelated definitions written to a good one;
// length 2: F G; length 3: F F' G and F G G'.
func c17Histories(thorough bool, visit func(h []c17Enc) bool) {
	text := func(s string, c conformancev1.Compression) *conformancev1.MessageContents {
		return &conformancev1.MessageContents{Data: &conformancev1.MessageContents_Text{Text: s}, Compression: c}
	}
	bin := func(b []byte, c conformancev1.Compression) *conformancev1.MessageContents {
		return &conformancev1.MessageContents{Data: &conformancev1.MessageContents_Binary{Binary: b}, Compression: c}
	}
	item := func(flags uint32, length int64, p *conformancev1.MessageContents) *conformancev1.StreamContents_StreamItem {
		it := &conformancev1.StreamContents_StreamItem{Flags: flags, Payload: p}
		if length >= 0 {
			it.Length = proto.Uint32(uint32(length))
		}
		return it
	}
	stream := func(items ...*conformancev1.StreamContents_StreamItem) *conformancev1.StreamContents {
		return &conformancev1.StreamContents{Items: items}
	}
	id, gz := conformancev1.Compression_COMPRESSION_IDENTITY, conformancev1.Compression_COMPRESSION_GZIP
	un := conformancev1.Compression_COMPRESSION_UNSPECIFIED
	fails := []c17Enc{
		c17EncOf(nil, stream(item(0, -1, text("STALE-1:first message of an aborted body", un)))),
		c17EncOf(nil, stream(item(1, -1, text("STALE-2:compressed item of an aborted body", gz)), item(0, -1, bin([]byte("STALE-2b\x00\xff"), id)))),
		c17EncOf(nil, stream(item(0, 3, text("STALE-3:explicit", id)), item(2, -1, text("STALE-3b:computed item after an explicit one", un)))),
		c17EncOf(text("STALE-4:message of an aborted body", un), nil),
		c17EncOf(text("STALE-5:compressed message of an aborted body", gz), nil),
	}
	goods := []c17Enc{
		c17EncOf(nil, stream(item(0, -1, text("hello", un)))),
		c17EncOf(nil, stream(item(1, -1, bin([]byte{0x00, 0xff, 0x80, 0x01}, gz)), item(2, 3, text("xyz", id)))),
		c17EncOf(text("hello", un), nil),
		c17EncOf(bin([]byte{0x00, 0xff, 0x80, 0x01}, gz), nil),
		c17EncOf(nil, stream(item(0, -1, text("", un)), item(2, -1, text("{\"goodbye\": \"world\"}", id)))),
	}
	if thorough {
		for _, c := range c17lib.Compressions()[3:] {
			fails = append(fails,
				c17EncOf(nil, stream(item(1, -1, text("STALE-6:"+c.String(), c)), item(0, -1, text("STALE-6b", un)))),
				c17EncOf(text("STALE-7:"+c.String(), c), nil))
			goods = append(goods,
				c17EncOf(nil, stream(item(1, -1, text("hello", c)))),
				c17EncOf(bin([]byte{0x00, 0xff, 0x80, 0x01}, c), nil))
		}
	}
	// every way for the destination of an F definition to fail
	var failing []c17Enc
	for _, f := range fails {
		n := c17RunHistory([]c17Enc{f})[0].calls // Writes on a good destination
		for k := 1; k <= n; k++ {
			for _, mode := range []string{"zero", "short"} {
				v := f
				v.FailAt, v.Mode = k, mode
				failing = append(failing, v)
			}
		}
	}
	for _, f := range failing {
		for _, g := range goods {
			if !visit([]c17Enc{f, g}) {
				return
			}
		}
	}
	for _, f := range failing {
		for _, f2 := range failing {
			for _, g := range goods {
				if !visit([]c17Enc{f, f2, g}) {
					return
				}
			}
		}
		for _, g := range goods {
			for _, g2 := range goods {
				if !visit([]c17Enc{f, g, g2}) {
					return
				}
			}
		}
	}
}

// c17CloserSink mimics io.PipeWriter: an io.WriteCloser; writes after Close fail.
type c17CloserSink struct {
	buf           bytes.Buffer
	closed        bool
	writeAfterEnd int
}

func (s *c17CloserSink) Write(p []byte) (int, error) {
	if s.closed {
		s.writeAfterEnd++
		return 0, io.ErrClosedPipe
	}
	return s.buf.Write(p)
}

func (s *c17CloserSink) Close() error {
	s.closed = true
	return nil
}

type c17Result struct {
	wire        []byte
	err         error
	panicked    any
	sinkClosed  bool
	lateWrites  int
	closerBytes []byte
}

func c17Encode(kind, sink string, msg *conformancev1.MessageContents, str *conformancev1.StreamContents) (res c17Result) {
	var w io.Writer
	var buf bytes.Buffer
	var cs c17CloserSink
	if sink == "closer" {
		w = &cs
	} else {
		w = &buf
	}
	func() {
		defer func() {
			if p := recover(); p != nil {
				res.panicked = p
			}
		}()
		if kind == "message" {
			res.err = WriteRawMessageContents(msg, w)
		} else {
			res.err = WriteRawStreamContents(str, w)
		}
	}()
	if sink == "closer" {
		res.wire = cs.buf.Bytes()
		res.sinkClosed = cs.closed
		res.lateWrites = cs.writeAfterEnd
	} else {
		res.wire = buf.Bytes()
	}
	return res
}

// c17Judge returns "" if the property holds for this case, else key and detail.
func c17Judge(kind, sink string, msg *conformancev1.MessageContents, str *conformancev1.StreamContents, res c17Result) (key, detail, outcome string) {
	shape := c17Shape(kind, msg, str)
	var spec proto.Message
	if kind == "message" {
		if msg != nil {
			spec = msg
		}
	} else {
		spec = str
	}
	specText := "null"
	if spec != nil {
		specText = c17lib.Short(spec)
	}
	if res.panicked != nil {
		return "encoder-panics:" + shape, fmt.Sprintf("%s encoder panicked (%v) on %s [sink=%s]", kind, res.panicked, specText, sink), "panic"
	}
	var prob *c17lib.Problem
	var items []c17lib.DecodedItem
	if kind == "message" {
		prob = c17lib.CheckUnary(msg, res.wire)
	} else {
		items, prob = c17lib.CheckStream(str, res.wire)
	}
	if prob != nil {
		k := "encoder-not-invertible:" + prob.Kind
		if sink == "closer" && res.lateWrites > 0 {
			// the encoder closed the caller's writer in the middle of the body
			k = "encoder-closes-writer:" + c17CloseShape(str)
		}
		return k, fmt.Sprintf("%s definition %s [sink=%s] was written as %x (err=%v, writer closed by encoder=%v, writes refused after that close=%d); independent decoding: %s (decoded so far %+v)",
			kind, specText, sink, res.wire, res.err, res.sinkClosed, res.lateWrites, prob.Detail, items), "mismatch:" + prob.Kind
	}
	if res.err != nil {
		return "encoder-error:" + shape, fmt.Sprintf("%s encoder returned error %v for the valid definition %s [sink=%s]", kind, res.err, specText, sink), "error"
	}
	n := len(res.wire)
	bucket := "0"
	switch {
	case n > 1000:
		bucket = ">1000"
	case n > 100:
		bucket = ">100"
	case n > 10:
		bucket = ">10"
	case n > 0:
		bucket = ">0"
	}
	return "", "", fmt.Sprintf("ok/%s/%s/bytes%s", kind, sink, bucket)
}

// c17Shape is a stable, coarse description of the definition for violation keys.
func c17Shape(kind string, msg *conformancev1.MessageContents, str *conformancev1.StreamContents) string {
	if kind == "message" {
		if msg == nil {
			return "nil-message-contents"
		}
		return "message"
	}
	for _, it := range str.GetItems() {
		if it.Payload == nil {
			return "stream-item-without-payload"
		}
	}
	return "stream"
}

// c17CloseShape says which item made the encoder close the caller's writer.
func c17CloseShape(str *conformancev1.StreamContents) string {
	for i, it := range str.GetItems() {
		if it.Length != nil && it.Payload != nil && i+1 < len(str.GetItems()) {
			c := it.GetPayload().GetCompression()
			if c == conformancev1.Compression_COMPRESSION_UNSPECIFIED || c == conformancev1.Compression_COMPRESSION_IDENTITY {
				return "stream-explicit-length-identity-item-followed-by-item"
			}
		}
	}
	return "other"
}

func c17Enumerate(thorough bool, visit func(kind string, msg *conformancev1.MessageContents, str *conformancev1.StreamContents) bool) {
	comps := c17lib.Compressions()
	// messages: nil contents, then every payload x every compression
	if !visit("message", nil, nil) {
		return
	}
	lvl := 1
	if thorough {
		lvl = 2
	}
	for _, m := range c17lib.Messages(c17lib.Payloads(lvl), comps) {
		if !visit("message", m, nil) {
			return
		}
	}
	// streams
	var singles, first, second []*conformancev1.StreamContents_StreamItem
	if thorough {
		singles = c17lib.Items(c17lib.AllFlags, c17lib.U32s(-1, 0, 3, 4294967295), c17lib.Messages(c17lib.Payloads(2), comps), true)
		pairMsgs := c17lib.Messages(c17lib.Payloads(1), comps)
		first = c17lib.Items(c17lib.AllFlags, c17lib.U32s(-1, 3, 4294967295), pairMsgs, true)
		second = c17lib.Items([]uint32{0, 2}, c17lib.U32s(-1, 3, 0), pairMsgs, true)
	} else {
		singles = c17lib.Items(c17lib.AllFlags, c17lib.U32s(-1, 0, 3), c17lib.Messages(c17lib.Payloads(1), comps), true)
		pairMsgs := c17lib.Messages(c17lib.Payloads(0)[:2], comps)
		first = c17lib.Items([]uint32{0, 1, 255}, c17lib.U32s(-1, 3), pairMsgs, true)
		second = c17lib.Items([]uint32{0, 2}, c17lib.U32s(-1, 3), pairMsgs, true)
	}
	if !visit("stream", nil, &conformancev1.StreamContents{}) {
		return
	}
	for _, a := range singles {
		if !visit("stream", nil, &conformancev1.StreamContents{Items: []*conformancev1.StreamContents_StreamItem{a}}) {
			return
		}
	}
	for _, a := range first {
		for _, b := range second {
			if !visit("stream", nil, &conformancev1.StreamContents{Items: []*conformancev1.StreamContents_StreamItem{a, b}}) {
				return
			}
		}
	}
}

func TestVerifC17Body(t *testing.T) {
	r := rep.New("c17-body")
	defer r.Write()
	r.Rule = "case = (MessageContents: nil | {unset,text,binary,binary_message payloads} x 7 compression values) or (StreamContents: 0 items | 1 item: flags{0,1,2,128,255} x length{unset,explicit} x {no payload | payload x compression} | 2 items over a reduced item alphabet), each written into a bytes.Buffer and into a pipe-like WriteCloser; every case is a distinct definition x sink; oracle = independent prefix parser + stdlib/3rd-party decompressors recover exactly the specified flags, declared length and payload with no byte left over; and encoder HISTORIES of 2 and 3 encodings back to back on one goroutine (one P, no GC inside a history): F G, F F' G, F G G' with F = a stream / message definition written to a destination whose k-th Write fails (every k; nothing accepted | half of the bytes accepted), G = an unrelated definition written to a good buffer, which must decode to exactly its own items"

	if data := rep.ReplayInput(); data != nil {
		var rj struct {
			Replay c17Case `json:"replay"`
		}
		if err := json.Unmarshal(data, &rj); err != nil {
			t.Fatalf("bad replay file: %v", err)
		}
		c := rj.Replay
		if c.Kind == "history" {
			for i := range c.History {
				if err := c.History[i].resolve(); err != nil {
					t.Fatal(err)
				}
			}
			defer runtime.GOMAXPROCS(runtime.GOMAXPROCS(1))
			defer debug.SetGCPercent(debug.SetGCPercent(-1))
			res := c17RunHistory(c.History)
			verdicts, outcome := c17JudgeHistory(c.History, res)
			for i := range res {
				fmt.Printf("replay: encoding %d %s %s fail_at=%d mode=%s -> wire=%x err=%v panic=%v writes=%d\n", i+1, c.History[i].Kind, c.History[i].Spec, c.History[i].FailAt, c.History[i].Mode, res[i].wire, res[i].err, res[i].panicked, res[i].calls)
			}
			fmt.Printf("outcome=%s\n", outcome)
			r.Eval(1)
			r.NonTrivial("")
			r.NonTrivial("")
			r.Sample(c)
			for _, v := range verdicts {
				r.Violate(v.key, v.detail, c)
			}
			return
		}
		var msg *conformancev1.MessageContents
		var str *conformancev1.StreamContents
		if c.Kind == "message" {
			if string(c.Spec) != "null" {
				msg = &conformancev1.MessageContents{}
				if err := c17lib.FromJSON(c.Spec, msg); err != nil {
					t.Fatal(err)
				}
			}
		} else {
			str = &conformancev1.StreamContents{}
			if err := c17lib.FromJSON(c.Spec, str); err != nil {
				t.Fatal(err)
			}
		}
		res := c17Encode(c.Kind, c.Sink, msg, str)
		key, detail, outcome := c17Judge(c.Kind, c.Sink, msg, str, res)
		fmt.Printf("replay: kind=%s sink=%s spec=%s\nwire=%x err=%v panic=%v closed=%v lateWrites=%d\noutcome=%s\n", c.Kind, c.Sink, c.Spec, res.wire, res.err, res.panicked, res.sinkClosed, res.lateWrites, outcome)
		r.Eval(1)
		r.NonTrivial("")
		r.NonTrivial("")
		r.Sample(c)
		if key != "" {
			r.Violate(key, detail, c)
		}
		return
	}

	deadline := rep.Deadline()
	var k int64
	c17Enumerate(rep.Thorough(), func(kind string, msg *conformancev1.MessageContents, str *conformancev1.StreamContents) bool {
		for _, sink := range []string{"buffer", "closer"} {
			k++
			if !r.Mine(k) {
				continue
			}
			if !deadline.IsZero() && time.Now().After(deadline) {
				r.NotExhaustive("budget reached before the enumeration was complete")
				return false
			}
			res := c17Encode(kind, sink, msg, str)
			key, detail, outcome := c17Judge(kind, sink, msg, str, res)
			r.Eval(1)
			r.NonTrivial("")
			r.Outcome(outcome)
			r.Count("cases:"+kind, 1)
			var spec json.RawMessage = json.RawMessage("null")
			if kind == "message" && msg != nil {
				spec = c17lib.JSON(msg)
			} else if kind == "stream" {
				spec = c17lib.JSON(str)
			}
			if k%997 == 1 {
				r.Sample(c17Case{Kind: kind, Sink: sink, Spec: spec})
			}
			if key != "" {
				r.Violate(key, detail, c17Case{Kind: kind, Sink: sink, Spec: spec})
			}
		}
		return true
	})

	// histories: one P and no garbage collection while a history runs (collections are
	// forced between histories instead), so that pooled or global scratch state of the
	// encoders always reaches the next encoding
	defer runtime.GOMAXPROCS(runtime.GOMAXPROCS(1))
	defer debug.SetGCPercent(debug.SetGCPercent(-1))
	var done int
	c17Histories(rep.Thorough(), func(h []c17Enc) bool {
		k++
		if !r.Mine(k) {
			return true
		}
		if !deadline.IsZero() && time.Now().After(deadline) {
			r.NotExhaustive("budget reached before the enumeration of encoder histories was complete")
			return false
		}
		if done++; done%16 == 0 {
			runtime.GC()
		}
		h = append([]c17Enc(nil), h...)
		res := c17RunHistory(h)
		verdicts, outcome := c17JudgeHistory(h, res)
		r.Eval(1)
		r.NonTrivial("")
		r.Outcome(outcome)
		r.Count(fmt.Sprintf("cases:history-of-%d", len(h)), 1)
		if k%997 == 1 {
			r.Sample(c17Case{Kind: "history", History: h})
		}
		for _, v := range verdicts {
			r.Violate(v.key, v.detail, c17Case{Kind: "history", History: h})
		}
		return true
	})
}
