package referenceserver

// C17 unit 4: the real reference server (RunInReferenceMode -> createServer:
// CORS, rawResponder, request checks, connect-go handlers with the
// rawResponseRecorder interceptor) on loopback HTTP/1.1, h2c (x/net) and HTTP/2
// over TLS (net/http's bundled HTTP/2 server), with and without an Origin
// request header (which makes CORS pre-set its Access-Control-* headers).  The RawHTTPResponse travels in
// the response_definition of the first request message of a Connect-protocol
// call of each stream type, sent by a plain net/http client.  Here the
// "handler" is connect-go itself: it answers the recorder's "use raw response
// instead" error with its own headers and body, none of which may be seen.
//
// Request-side faults (grid F): the raw response is prescribed by the FIRST
// request message; what follows it on the request stream is an axis of its own
// (c17sTails): nothing, well-formed messages, a message over the server's
// message_receive_limit, the "compressed" flag without a declared encoding, the
// end-stream flag, a payload that is no protobuf message, an envelope cut short
// in its prefix / its payload, a declared length far beyond the limit with
// nothing behind it, and - HTTP/1.1 only, spoken over a bare TCP connection - a
// client that half-closes the connection in the middle of a chunk; each at the
// second or third position and, where the stream can go on, followed by a good
// message.  The property does not make the raw response conditional on the rest
// of the request being readable: the oracle is the same in all of them.

import (
	"bufio"
	"bytes"
	"context"
	"crypto/tls"
	"crypto/x509"
	"encoding/binary"
	"encoding/json"
	"fmt"
	"io"
	"net"
	"net/http"
	"net/url"
	"strconv"
	"strings"
	"testing"
	"time"

	"connectrpc.com/conformance/internal"
	conformancev1 "connectrpc.com/conformance/internal/gen/proto/go/connectrpc/conformance/v1"
	"connectrpc.com/conformance/internal/gen/proto/go/connectrpc/conformance/v1/conformancev1connect"
	"connectrpc.com/conformance/internal/verif/c17lib"
	"connectrpc.com/conformance/internal/verif/rep"
	"golang.org/x/net/http2"
	"google.golang.org/protobuf/proto"
)

type c17sCase struct {
	Proto      string          `json:"proto"`                    // h1 | h2c | h2tls | h1-on-h2c (an HTTP/1.1 request to the h2c server)
	StreamType string          `json:"stream_type"`              // unary | client | server | bidi | idempotent (IdempotentUnary, POST)
	Timeout    string          `json:"timeout_header,omitempty"` // value of a Connect-Timeout-Ms request header ("" = none)
	Origin     string          `json:"origin,omitempty"`         // value of the Origin request header ("" = none): makes the CORS middleware set its Access-Control-* headers
	Tail       string          `json:"request_tail,omitempty"`   // what follows the first request message (c17sTails); "" = the default of the stream type: one well-formed message (none for a server stream)
	Raw        json.RawMessage `json:"raw"`
}

// c17sReceiveLimit is the message_receive_limit every server environment is
// started with; no first message of the alphabet comes near it.
const c17sReceiveLimit = 32 << 10

type c17sServer struct {
	name   string
	url    string
	client *http.Client
	cancel context.CancelFunc
	done   chan error
}

type c17sDiscard struct{}

func (c17sDiscard) Write(p []byte) (int, error) { return len(p), nil }
func (c17sDiscard) Close() error                { return nil }

func c17sStart(name string, version conformancev1.HTTPVersion, useTLS bool) (*c17sServer, error) {
	codec := internal.NewCodec(false)
	var stdin bytes.Buffer
	if err := codec.NewEncoder(&stdin).Encode(&conformancev1.ServerCompatRequest{
		Protocol:    conformancev1.Protocol_PROTOCOL_CONNECT,
		HttpVersion: version,
		// a receive limit, so that "a later request message is over the limit" is expressible
		MessageReceiveLimit: c17sReceiveLimit,
		UseTls:              useTLS, // true: the server makes its own certificate and serves HTTP/2 with net/http's bundled implementation
	}); err != nil {
		return nil, err
	}
	outR, outW := io.Pipe()
	ctx, cancel := context.WithCancel(context.Background())
	s := &c17sServer{name: name, cancel: cancel, done: make(chan error, 1)}
	go func() {
		err := RunInReferenceMode(ctx, []string{"referenceserver", "-bind", "127.0.0.1", "-port", "0"}, io.NopCloser(&stdin), outW, c17sDiscard{}, nil)
		_ = outW.CloseWithError(fmt.Errorf("server exited: %v", err))
		s.done <- err
	}()
	resp := &conformancev1.ServerCompatResponse{}
	if err := codec.NewDecoder(outR).DecodeNext(resp); err != nil {
		cancel()
		return nil, fmt.Errorf("reading ServerCompatResponse: %w", err)
	}
	go func() { _, _ = io.Copy(io.Discard, outR) }()
	s.url = fmt.Sprintf("http://%s:%d", resp.GetHost(), resp.GetPort())
	if useTLS {
		s.url = fmt.Sprintf("https://%s:%d", resp.GetHost(), resp.GetPort())
		pool := x509.NewCertPool()
		if !pool.AppendCertsFromPEM(resp.GetPemCert()) {
			cancel()
			return nil, fmt.Errorf("ServerCompatResponse.pem_cert is not a PEM certificate")
		}
		// the certificate names no host: the chain is verified against the pool, the name is not
		conf := &tls.Config{
			InsecureSkipVerify: true, //nolint:gosec
			NextProtos:         []string{"h2"},
			VerifyConnection: func(cs tls.ConnectionState) error {
				if len(cs.PeerCertificates) == 0 {
					return fmt.Errorf("no server certificate")
				}
				_, err := cs.PeerCertificates[0].Verify(x509.VerifyOptions{Roots: pool})
				return err
			},
		}
		s.client = &http.Client{Transport: &http2.Transport{TLSClientConfig: conf, DisableCompression: true}}
	} else if version == conformancev1.HTTPVersion_HTTP_VERSION_2 {
		s.client = &http.Client{Transport: &http2.Transport{
			AllowHTTP:          true,
			DisableCompression: true,
			DialTLSContext: func(ctx context.Context, network, addr string, _ *tls.Config) (net.Conn, error) {
				return (&net.Dialer{}).DialContext(ctx, network, addr)
			},
		}}
	} else {
		s.client = &http.Client{Transport: &http.Transport{DisableCompression: true}}
	}
	return s, nil
}

func (s *c17sServer) stop() {
	s.client.CloseIdleConnections()
	s.cancel()
	select {
	case <-s.done:
	case <-time.After(10 * time.Second):
	}
}

func c17sEnvelope(flags byte, payload []byte) []byte {
	out := make([]byte, 5, 5+len(payload))
	out[0] = flags
	binary.BigEndian.PutUint32(out[1:], uint32(len(payload)))
	return append(out, payload...)
}

func c17sMarshal(m proto.Message) []byte {
	b, err := proto.Marshal(m)
	if err != nil {
		panic(err)
	}
	return b
}

// c17sLater: a later (non-first) request message of the stream type with the given data.
func c17sLater(streamType string, data []byte) []byte {
	switch streamType {
	case "client":
		return c17sMarshal(&conformancev1.ClientStreamRequest{RequestData: data})
	case "server":
		return c17sMarshal(&conformancev1.ServerStreamRequest{RequestData: data})
	case "bidi":
		return c17sMarshal(&conformancev1.BidiStreamRequest{RequestData: data})
	}
	panic("no later message for stream type " + streamType)
}

// Request tails: '+'-separated segments that follow the first request message.
//
//	ok          a well-formed message
//	oversized   a well-formed message larger than the server's message_receive_limit
//	zflag       a well-formed message whose envelope has the "compressed" flag although the request declares no encoding
//	endflag     an envelope with the end-stream flag (0x02) - not something a request stream may carry
//	garbage     an envelope whose payload is not a protobuf message
//	cutprefix   the body ends after 3 of the 5 prefix bytes
//	cutpayload  the body ends in the middle of the payload the prefix declares
//	hugecut     the prefix declares 4,294,967,280 bytes; nothing follows
//	halfclose   (HTTP/1.1 only, bare TCP, chunked) the client closes its sending side in the middle of a chunk,
//	            i.e. in the middle of a message: an aborted upload whose response can still be read
//
// The last four end the request body.
var (
	c17sTailKinds    = []string{"oversized", "zflag", "endflag", "garbage"}
	c17sTailEndKinds = []string{"cutprefix", "cutpayload", "hugecut", "halfclose"}
)

// c17sTails: the controls (nothing; two good messages) and every fault at the
// second position, at the third position (after a good message) and - where
// the stream can go on - followed by a good message.
func c17sTails() []string {
	out := []string{"none", "ok+ok"}
	for _, k := range c17sTailKinds {
		out = append(out, k, "ok+"+k, k+"+ok")
	}
	for _, k := range c17sTailEndKinds {
		out = append(out, k, "ok+"+k)
	}
	return out
}

func c17sTailBytes(streamType, tail string) (out []byte, halfClose bool) {
	okMsg := c17sLater(streamType, []byte("two"))
	for _, seg := range strings.Split(tail, "+") {
		switch seg {
		case "none", "":
		case "ok":
			out = append(out, c17sEnvelope(0, okMsg)...)
		case "oversized":
			out = append(out, c17sEnvelope(0, c17sLater(streamType, bytes.Repeat([]byte{7}, c17sReceiveLimit+1024)))...)
		case "zflag":
			out = append(out, c17sEnvelope(1, okMsg)...)
		case "endflag":
			out = append(out, c17sEnvelope(2, []byte("{}"))...)
		case "garbage":
			out = append(out, c17sEnvelope(0, []byte{0xff, 0xff, 0xff})...)
		case "cutprefix":
			out = append(out, 0, 0, 0)
		case "cutpayload":
			e := c17sEnvelope(0, c17sLater(streamType, []byte("a message that is cut off")))
			out = append(out, e[:5+(len(e)-5)/2]...)
		case "hugecut":
			out = append(out, 0, 0xff, 0xff, 0xff, 0xf0)
		case "halfclose":
			e := c17sEnvelope(0, c17sLater(streamType, []byte("an upload that is aborted")))
			out = append(out, e[:5+(len(e)-5)/2]...)
			halfClose = true
		default:
			panic("unknown request tail segment " + seg)
		}
	}
	return out, halfClose
}

// c17sTailApplies: does the tail exist for this environment / stream type?
func c17sTailApplies(protoName, streamType, tail string) bool {
	if tail == "" {
		return true
	}
	if streamType == "unary" || streamType == "idempotent" {
		return false // a Connect unary request is one un-enveloped message
	}
	return !strings.Contains(tail, "halfclose") || protoName == "h1"
}

// c17sRequest builds the Connect-protocol request of the given stream type
// whose first message prescribes the raw response.
func c17sRequest(streamType, tail string, raw *conformancev1.RawHTTPResponse) (path, contentType string, body []byte, halfClose bool) {
	var first []byte
	switch streamType {
	case "unary":
		return conformancev1connect.ConformanceServiceUnaryProcedure, "application/proto", c17sMarshal(&conformancev1.UnaryRequest{
			ResponseDefinition: &conformancev1.UnaryResponseDefinition{RawResponse: raw},
			RequestData:        []byte("req-data"),
		}), false
	case "idempotent":
		return conformancev1connect.ConformanceServiceIdempotentUnaryProcedure, "application/proto", c17sMarshal(&conformancev1.IdempotentUnaryRequest{
			ResponseDefinition: &conformancev1.UnaryResponseDefinition{RawResponse: raw},
			RequestData:        []byte("req-data"),
		}), false
	case "client":
		path = conformancev1connect.ConformanceServiceClientStreamProcedure
		first = c17sMarshal(&conformancev1.ClientStreamRequest{ResponseDefinition: &conformancev1.UnaryResponseDefinition{RawResponse: raw}, RequestData: []byte("one")})
		if tail == "" {
			tail = "ok"
		}
	case "server":
		path = conformancev1connect.ConformanceServiceServerStreamProcedure
		first = c17sMarshal(&conformancev1.ServerStreamRequest{ResponseDefinition: &conformancev1.StreamResponseDefinition{RawResponse: raw}, RequestData: []byte("one")})
	case "bidi":
		path = conformancev1connect.ConformanceServiceBidiStreamProcedure
		first = c17sMarshal(&conformancev1.BidiStreamRequest{ResponseDefinition: &conformancev1.StreamResponseDefinition{RawResponse: raw}, RequestData: []byte("one")})
		if tail == "" {
			tail = "ok"
		}
	default:
		panic("unknown stream type " + streamType)
	}
	rest, halfClose := c17sTailBytes(streamType, tail)
	return path, "application/connect+proto", append(c17sEnvelope(0, first), rest...), halfClose
}

func c17sRequestHeaders(srv *c17sServer, streamType, origin, timeout, contentType string) http.Header {
	h := http.Header{}
	httpVersion := "1" // what this client speaks
	if srv.name == "h2c" || srv.name == "h2tls" {
		httpVersion = "2"
	}
	if origin != "" {
		h.Set("Origin", origin)
	}
	if timeout != "" {
		h.Set("Connect-Timeout-Ms", timeout)
	}
	h.Set("X-Expect-Tls", strconv.FormatBool(srv.name == "h2tls"))
	h.Set("Content-Type", contentType)
	h.Set("Connect-Protocol-Version", "1")
	h.Set("X-Test-Case-Name", "c17/"+streamType)
	h.Set("X-Expect-Http-Version", httpVersion)
	h.Set("X-Expect-Http-Method", http.MethodPost)
	h.Set("X-Expect-Protocol", "1")
	h.Set("X-Expect-Codec", "1")
	h.Set("X-Expect-Compression", "1")
	return h
}

// c17sRunHalfClose speaks HTTP/1.1 over a bare TCP connection: request head,
// the (incomplete) body as the beginning of one chunk whose declared size is
// larger than what is sent, then the sending side is closed.  The response is
// read from the still open receiving side with net/http's response parser.
func c17sRunHalfClose(srv *c17sServer, path string, header http.Header, body []byte) (obs c17rObs) {
	u, err := url.Parse(srv.url)
	if err != nil {
		obs.Err = "harness: " + err.Error()
		return obs
	}
	conn, err := net.DialTimeout("tcp", u.Host, 10*time.Second)
	if err != nil {
		obs.Err = "dial: " + err.Error()
		return obs
	}
	defer conn.Close()
	_ = conn.SetDeadline(time.Now().Add(30 * time.Second)) // liveness guard only
	var head bytes.Buffer
	fmt.Fprintf(&head, "POST %s HTTP/1.1\r\nHost: %s\r\nTransfer-Encoding: chunked\r\n", path, u.Host)
	_ = header.Write(&head)
	fmt.Fprintf(&head, "\r\n%x\r\n", len(body)+64) // the chunk announces 64 bytes more than will ever come
	head.Write(body)
	if _, err := conn.Write(head.Bytes()); err != nil {
		obs.Err = "write: " + err.Error()
		return obs
	}
	if tcp, ok := conn.(*net.TCPConn); ok {
		if err := tcp.CloseWrite(); err != nil {
			obs.Err = "close write: " + err.Error()
			return obs
		}
	}
	resp, err := http.ReadResponse(bufio.NewReader(conn), &http.Request{Method: http.MethodPost})
	if err != nil {
		obs.Err = "read response: " + err.Error()
		return obs
	}
	data, err := io.ReadAll(resp.Body)
	_ = resp.Body.Close()
	obs.Proto, obs.Status, obs.Header, obs.Trailer, obs.Body = resp.Proto, resp.StatusCode, resp.Header, resp.Trailer, data
	if err != nil {
		obs.Err = "read body: " + err.Error()
	}
	return obs
}

func c17sRun(srv *c17sServer, streamType, origin, timeout, tail string, raw *conformancev1.RawHTTPResponse) c17rObs {
	var obs c17rObs
	path, contentType, body, halfClose := c17sRequest(streamType, tail, raw)
	if halfClose {
		return c17sRunHalfClose(srv, path, c17sRequestHeaders(srv, streamType, origin, timeout, contentType), body)
	}
	ctx, cancel := context.WithTimeout(context.Background(), 30*time.Second) // liveness guard only
	defer cancel()
	req, err := http.NewRequestWithContext(ctx, http.MethodPost, srv.url+path, bytes.NewReader(body))
	if err != nil {
		obs.Err = "new request: " + err.Error()
		return obs
	}
	req.Header = c17sRequestHeaders(srv, streamType, origin, timeout, contentType)
	resp, err := srv.client.Do(req)
	if err != nil {
		obs.Err = "do: " + err.Error()
		return obs
	}
	data, err := io.ReadAll(resp.Body)
	_ = resp.Body.Close()
	obs.Proto, obs.Status, obs.Header, obs.Trailer, obs.Body = resp.Proto, resp.StatusCode, resp.Header, resp.Trailer, data
	if err != nil {
		obs.Err = "read body: " + err.Error()
	}
	return obs
}

// what connect-go (the "handler" here) puts on its own response
var (
	c17sHandlerContentTypes = []string{"application/json", "application/proto", "application/connect+proto"}
	c17sHandlerHeaders      = []string{"Server", "Accept-Encoding", "Connect-Accept-Encoding", "Connect-Content-Encoding", "Content-Encoding"}
	c17sHandlerBodyMarker   = []byte("use raw response instead")
)

func c17sCORSOwned(name string) bool {
	for _, n := range c17lib.CORSHeaderNames {
		if n == name {
			return true
		}
	}
	return false
}

// c17sTailFaulty: does the tail contain anything but well-formed messages?
func c17sTailFaulty(tail string) bool {
	for _, seg := range strings.Split(tail, "+") {
		if seg != "" && seg != "none" && seg != "ok" {
			return true
		}
	}
	return false
}

// c17sIgnoredKey: the raw response prescribed through the IdempotentUnary procedure was not used
// at all - the procedure's ordinary response went out.  One key for this one cause (the generic
// oracle would report it under every status / header / trailer / body key at once).
const c17sIgnoredKey = "reference-server:raw-response-ignored:idempotent-unary"

// c17sOrdinaryIdempotentResponse: is the observed response the ordinary answer of the
// IdempotentUnary handler (a payload that echoes the request)?
func c17sOrdinaryIdempotentResponse(obs c17rObs) bool {
	if obs.Err != "" || obs.Status != http.StatusOK || obs.Header.Get("Content-Type") != "application/proto" {
		return false
	}
	resp := &conformancev1.IdempotentUnaryResponse{}
	if err := proto.Unmarshal(obs.Body, resp); err != nil {
		return false
	}
	return resp.GetPayload().GetRequestInfo() != nil
}

func c17sCollapseIgnored(streamType string, raw *conformancev1.RawHTTPResponse, obs c17rObs, verdicts []c17rVerdict) []c17rVerdict {
	if streamType != "idempotent" || len(verdicts) == 0 || !c17sOrdinaryIdempotentResponse(obs) {
		return verdicts
	}
	keys := map[string]bool{}
	var list []string
	for _, v := range verdicts {
		if !keys[v.key] {
			keys[v.key] = true
			list = append(list, strings.TrimPrefix(v.key, "reference-server:"))
		}
	}
	return []c17rVerdict{{c17sIgnoredKey, fmt.Sprintf("POST %s with IdempotentUnaryRequest.response_definition.raw_response set: the server answered %d %s with the procedure's ordinary IdempotentUnaryResponse (payload.request_info present, %d body bytes) instead of the raw response (fails the demands: %s)", conformancev1connect.ConformanceServiceIdempotentUnaryProcedure, obs.Status, obs.Header.Get("Content-Type"), len(obs.Body), strings.Join(list, ", "))}}
}

func c17sJudge(protoName, origin, tail string, raw *conformancev1.RawHTTPResponse, obs c17rObs) (out []c17rVerdict) {
	h2 := protoName == "h2c" || protoName == "h2tls"
	faulty := c17sTailFaulty(tail)
	add := func(key, format string, a ...any) {
		if faulty {
			// the same demand, in the situation "a request message after the one that
			// prescribes the raw response cannot be received"
			key = "reference-server:after-request-fault:" + strings.TrimPrefix(key, "reference-server:")
			format = "[request tail " + tail + ": a later request message cannot be received] " + format
		}
		out = append(out, c17rVerdict{key, fmt.Sprintf(format, a...)})
	}
	if obs.Err != "" {
		add("reference-server:transport-error", "plain HTTP client failed: %s (status %d, %d body bytes read)", obs.Err, obs.Status, len(obs.Body))
		return out
	}
	rawHeaders, _ := c17lib.Group(raw.GetHeaders())
	rawTrailers, _ := c17lib.Group(raw.GetTrailers())
	wantStatus := int(raw.GetStatusCode())
	if wantStatus == 0 {
		wantStatus = 200
	}
	if obs.Status != wantStatus {
		add("reference-server:status", "status %d on the wire, %d specified (0 = 200)", obs.Status, raw.GetStatusCode())
	}
	hdrEntries, trlEntries := c17lib.Entries(raw.GetHeaders()), c17lib.Entries(raw.GetTrailers())
	for name, vals := range rawHeaders {
		if c17rSuppressed(h2, wantStatus, name) {
			continue
		}
		if c17sCORSOwned(name) {
			// The CORS middleware in front of rawResponder sets this header itself
			// (Vary always, the Access-Control-* ones when the request has an
			// Origin): its values are tolerated next to the given ones, but every
			// given value must be on the wire, in list order.  For no other name.
			if got := obs.Header.Values(name); !c17lib.Subsequence(vals, got) {
				add("reference-server:middleware-header-clobbers-given", "header %s (also set by the CORS middleware in front of rawResponder; request Origin=%q): got %q, which does not contain the specified values %q in list order", name, origin, got, vals)
			}
			continue
		}
		if got := obs.Header.Values(name); !c17lib.EqualStrings(got, vals) {
			if hdrEntries[name] > 1 {
				add("reference-server:header-named-in-several-entries", "header %s is named in %d entries of the list: got %q, specified %q (all values, in list order)", name, hdrEntries[name], got, vals)
			} else {
				add("reference-server:header-missing-or-wrong", "header %s: got %q, specified %q", name, got, vals)
			}
		}
	}
	for _, name := range c17sHandlerHeaders {
		if _, given := rawHeaders[name]; given {
			continue
		}
		if got := obs.Header.Values(name); len(got) > 0 {
			add("reference-server:handler-header-leaks", "header %s=%q (set by the RPC handler) present in the raw response", name, got)
		}
	}
	if _, given := rawHeaders["Content-Type"]; !given {
		for _, v := range obs.Header.Values("Content-Type") {
			for _, h := range c17sHandlerContentTypes {
				if v == h {
					add("reference-server:handler-header-leaks", "Content-Type %q (set by the RPC handler) present in the raw response", v)
				}
			}
		}
	}
	if bytes.Contains(obs.Body, c17sHandlerBodyMarker) {
		add("reference-server:handler-body-leaks", "the RPC handler's own error body is in the raw response body %q", obs.Body)
	}
	bodyAllowed := c17rBodyAllowed(wantStatus)
	if !bodyAllowed && !h2 {
		// 204 / 304 over HTTP/1.1: no body, hence no chunked encoding, hence no trailers
		return out
	}
	for name, vals := range rawTrailers {
		got := obs.Trailer.Values(name)
		switch {
		case c17lib.EqualStrings(got, vals):
		case len(rawHeaders[name]) > 0 && c17lib.EqualStrings(got, append(append([]string{}, vals...), rawHeaders[name]...)):
			add("reference-server:trailer-repeats-header-values", "trailer %s: got %q, specified %q: the values of the response HEADER of the same name were sent again as trailer values", name, got, vals)
		case !bodyAllowed && len(got) < len(vals):
			add("reference-server:trailer-missing-on-bodyless-status", "status %d (no body possible) over %s: trailer %s: got %q, specified %q (all trailers received: %v)", wantStatus, obs.Proto, name, got, vals, obs.Trailer)
		case trlEntries[name] > 1:
			add("reference-server:trailer-named-in-several-entries", "trailer %s is named in %d entries of the list: got %q, specified %q (all values, in list order; all trailers received: %v)", name, trlEntries[name], got, vals, obs.Trailer)
		case len(got) < len(vals):
			add("reference-server:trailer-missing", "trailer %s: got %q, specified %q (all trailers received: %v)", name, got, vals, obs.Trailer)
		default:
			add("reference-server:trailer-wrong", "trailer %s: got %q, specified %q (all trailers received: %v)", name, got, vals, obs.Trailer)
		}
	}
	if !bodyAllowed {
		return out // over HTTP/2 the trailers of a 204 / 304 are demanded, a body cannot be
	}
	switch b := raw.GetBody().(type) {
	case nil:
		if len(obs.Body) != 0 {
			add("reference-server:body:unexpected-bytes", "no body specified, %d byte(s) received: %x", len(obs.Body), obs.Body)
		}
	case *conformancev1.RawHTTPResponse_Unary:
		if p := c17lib.CheckUnary(b.Unary, obs.Body); p != nil {
			add("reference-server:body:"+p.Kind, "%s", p.Detail)
		}
	case *conformancev1.RawHTTPResponse_Stream:
		if _, p := c17lib.CheckStream(b.Stream, obs.Body); p != nil {
			add("reference-server:body:"+p.Kind, "%s", p.Detail)
		}
	}
	return out
}

var (
	c17sProtos      = []string{"h1", "h2c", "h2tls"}
	c17sStreamTypes = []string{"unary", "client", "server", "bidi"}
	c17sOrigins     = []string{"", "https://c17-browser.example"}
)

// c17sSizedBodies: identity bodies of exactly n bytes around the size at which an HTTP/1.1 server
// stops buffering a response (and has to choose between Content-Length and chunked encoding), as
// one binary message and as a stream of one item.
func c17sSizedBodies(thorough bool) []c17lib.Body {
	fill := func(n int) []byte {
		out := make([]byte, n)
		for i := range out {
			out[i] = byte(i*7 + i/251 + 3)
		}
		return out
	}
	// the largest stays below the servers' message_receive_limit (c17sReceiveLimit): the definition travels in a request message
	sizes := []int{0, 1, 2047, 2048, 2049, 24 << 10}
	if thorough {
		sizes = []int{0, 1, 5, 512, 2047, 2048, 2049, 4095, 4096, 4097, 16 << 10, 24 << 10}
	}
	var out []c17lib.Body
	for _, n := range sizes {
		out = append(out, c17lib.Body{Unary: &conformancev1.MessageContents{Data: &conformancev1.MessageContents_Binary{Binary: fill(n)}}})
	}
	for _, n := range sizes {
		if n < 2000 || n > 5000 {
			continue
		}
		out = append(out, c17lib.Body{Stream: &conformancev1.StreamContents{Items: []*conformancev1.StreamContents_StreamItem{{
			Flags: 2, Payload: &conformancev1.MessageContents{Data: &conformancev1.MessageContents_Binary{Binary: fill(n - 5)}},
		}}}})
	}
	return out
}

var (
	c17sAllProtos      = []string{"h1", "h1-on-h2c", "h2c", "h2tls"}
	c17sAllStreamTypes = []string{"unary", "idempotent", "client", "server", "bidi"}
	c17sTimeouts       = []string{"", "60000"}
)

func c17sEnumerate(thorough bool, visitX func(grid, proto, streamType, origin, timeout, tail string, raw *conformancev1.RawHTTPResponse) bool) {
	visit0 := func(grid, proto, streamType, origin, tail string, raw *conformancev1.RawHTTPResponse) bool {
		return visitX(grid, proto, streamType, origin, "", tail, raw)
	}
	visit := func(grid, proto, streamType, origin string, raw *conformancev1.RawHTTPResponse) bool {
		return visit0(grid, proto, streamType, origin, "", raw)
	}
	// grid E: status/header/trailer combinations x medium body set
	envs := c17rEnvs(false, 1)
	if thorough {
		envs = c17rEnvs(true, 0)
	}
	for _, e := range envs {
		for _, b := range c17lib.Bodies(1) {
			raw := c17rMake(e, b)
			for _, st := range c17sStreamTypes {
				for _, p := range c17sProtos {
					if !visit("E", p, st, "", raw) {
						return
					}
				}
			}
		}
	}
	// grid M: the raw response names headers (and trailers) that the middleware in
	// front of rawResponder (CORS) sets itself, with and without the Origin request
	// header that makes it set all four of them
	lvl := 0
	if thorough {
		lvl = 1
	}
	otl := c17lib.OuterTrailerLists(lvl)
	rests := []c17rEnv{{0, nil, nil}, {404, nil, otl[1]}, {0, nil, otl[2]}}
	if thorough {
		rests = append(rests, c17rEnv{204, nil, otl[3]}, c17rEnv{500, nil, otl[4]})
	}
	mHeaders := append([][]*conformancev1.Header{}, c17lib.OuterHeaderLists(lvl)...)
	mHeaders = append(mHeaders, nil) // only the trailers carry a middleware-owned name
	for _, h := range mHeaders {
		for _, rest := range rests {
			if h == nil && rest.trailers == nil {
				continue
			}
			for _, b := range c17lib.Bodies(0) {
				raw := c17rMake(c17rEnv{rest.status, h, rest.trailers}, b)
				for _, origin := range c17sOrigins {
					for _, st := range c17sStreamTypes {
						for _, p := range c17sProtos {
							if !visit("M", p, st, origin, raw) {
								return
							}
						}
					}
				}
			}
		}
	}
	// grid F: request-side faults behind the message that prescribes the raw response
	// x the streaming procedures x raw definitions
	fEnvs, fBodies := c17rEnvs(false, 0), c17lib.Bodies(0)
	if thorough {
		fEnvs, fBodies = c17rEnvs(false, 1), append(c17lib.Bodies(0), c17lib.Bodies(1)[8:20]...)
	}
	for _, tail := range c17sTails() {
		for _, e := range fEnvs {
			for _, b := range fBodies {
				raw := c17rMake(e, b)
				for _, st := range c17sStreamTypes {
					for _, p := range c17sProtos {
						if !c17sTailApplies(p, st, tail) {
							continue
						}
						if !visit0("F", p, st, "", tail, raw) {
							return
						}
					}
				}
			}
		}
	}
	// grid P: EVERY procedure that can carry a raw response x every way of reaching the server
	// (HTTP/1.1 to the h1 server, HTTP/1.1 to the h2c server, h2c, HTTP/2 over TLS) x request with /
	// without an RPC timeout header (with one, the request-check middleware hands a copy of the
	// request down the chain) x trailers none / one / several / a name in two entries x body sizes
	ptl := c17lib.TrailerLists(0)
	pEnvs := []c17rEnv{{0, nil, nil}, {0, nil, ptl[1]}, {0, c17lib.HeaderLists(0)[2], ptl[2]}, {404, nil, ptl[3]}}
	if thorough {
		pEnvs = append(pEnvs, c17rEnv{0, nil, ptl[4]}, c17rEnv{500, c17lib.HeaderLists(0)[1], ptl[1]})
	}
	for _, e := range pEnvs {
		for _, b := range c17sSizedBodies(thorough) {
			raw := c17rMake(e, b)
			for _, timeout := range c17sTimeouts {
				for _, st := range c17sAllStreamTypes {
					for _, p := range c17sAllProtos {
						if !visitX("P", p, st, "", timeout, "", raw) {
							return
						}
					}
				}
			}
		}
	}
	// grid B (thorough): the full body alphabet with one rich environment
	if thorough {
		e := c17rEnv{404, c17lib.HeaderLists(0)[2], c17lib.TrailerLists(0)[1]}
		for _, b := range c17lib.Bodies(2) {
			raw := c17rMake(e, b)
			for _, st := range c17sStreamTypes {
				for _, p := range c17sProtos {
					if !visit("B", p, st, "", raw) {
						return
					}
				}
			}
		}
	}
}

func TestVerifC17ReferenceServer(t *testing.T) {
	r := rep.New("c17-refserver")
	defer r.Write()
	r.Rule = "case = (server environment h1 | h2c (x/net h2c server) | h2tls (net/http's bundled HTTP/2 server, own certificate), each the complete chain of createServer: CORS -> rawResponder -> request checks -> connect-go) x (stream type unary|client|server|bidi half-duplex, Connect protocol, proto codec) x (Origin request header absent|present) x RawHTTPResponse carried in response_definition.raw_response of the first request message; grid E = status/header/trailer combinations (17 quick incl. 204 and 304 with trailers, 150 thorough; incl. header and trailer lists that name the same header / trailer in two entries) x medium body set, grid M = header lists (and trailer lists) that name what the CORS middleware sets itself before rawResponder runs (Vary, Access-Control-Allow-Origin / -Expose-Headers / -Allow-Credentials; other case spellings; one entry, two entries) x with/without Origin: every given value must be on the wire in list order, the middleware's own values are tolerated for those four names only; grid F (request-side faults) = what follows the first request message on the request stream of a client / server / bidi procedure {nothing, two good messages; at the 2nd or 3rd position and (where the stream can go on) followed by a good message: a message over the server's message_receive_limit (32 KiB, all environments), the compressed flag without a declared encoding, the end-stream flag, a payload that is no protobuf message, the body ending inside the envelope prefix / inside the declared payload / after a prefix that declares 4 GiB, and (HTTP/1.1, bare TCP) the client closing its sending side in the middle of a chunk} x 7 status/header/trailer combinations x 7 bodies (thorough 17 x 19): the raw response must go out exactly as given whatever becomes of the rest of the request; grid B (thorough) = full body alphabet x one status/header/trailer combination; status 204/304 over HTTP/2: status, headers and trailers demanded (the body is refused by the server's ResponseWriter); distinct (environment, stream type, origin, request tail, definition) = non-trivial; oracle as in unit c17-rawresp with connect-go's own response (Server/Accept-Encoding/Content-Type headers, 'use raw response instead' error body) as the handler output that must not appear; grid P = every procedure that can carry a raw response {Unary, IdempotentUnary, ClientStream, ServerStream, BidiStream} x {h1, HTTP/1.1 to the h2c server, h2c, h2tls} x Connect-Timeout-Ms request header absent / present (the request-check middleware then passes a copy of the request down the chain) x trailers {none, one, two, a name in two entries} x identity bodies of 0, 1, 2047, 2048, 2049, 24 KiB bytes (one message; 2047-2049 also as one stream item)"

	servers := map[string]*c17sServer{}
	{
		type started struct {
			s   *c17sServer
			err error
		}
		versions := map[string]conformancev1.HTTPVersion{"h1": conformancev1.HTTPVersion_HTTP_VERSION_1, "h2c": conformancev1.HTTPVersion_HTTP_VERSION_2, "h2tls": conformancev1.HTTPVersion_HTTP_VERSION_2}
		results := map[string]chan started{}
		for name, v := range versions {
			ch := make(chan started, 1)
			results[name] = ch
			go func() {
				s, err := c17sStart(name, v, name == "h2tls")
				ch <- started{s, err}
			}()
		}
		var firstErr error
		for name, ch := range results {
			st := <-ch
			if st.err != nil {
				if firstErr == nil {
					firstErr = fmt.Errorf("cannot start reference server (%s): %w", name, st.err)
				}
				continue
			}
			servers[name] = st.s
		}
		if firstErr != nil {
			for _, s := range servers {
				s.stop()
			}
			t.Fatal(firstErr)
		}
	}
	{
		// a second way into the h2c server: plain HTTP/1.1 (x/net's h2c handler passes it on to the same chain)
		closed := make(chan error, 1)
		closed <- nil
		servers["h1-on-h2c"] = &c17sServer{name: "h1-on-h2c", url: servers["h2c"].url, client: &http.Client{Transport: &http.Transport{DisableCompression: true}}, cancel: func() {}, done: closed}
	}
	defer func() {
		for _, s := range servers {
			s.stop()
		}
	}()

	evalOne := func(protoName, streamType, origin, timeout, tail string, raw *conformancev1.RawHTTPResponse, verbose bool) []c17rVerdict {
		srv := servers[protoName]
		if srv == nil {
			return []c17rVerdict{{"reference-server:transport-error", "no such server environment: " + protoName}}
		}
		if !c17sTailApplies(protoName, streamType, tail) {
			return []c17rVerdict{{"reference-server:transport-error", "request tail " + tail + " does not exist for " + protoName + "/" + streamType}}
		}
		obs := c17sRun(srv, streamType, origin, timeout, tail, raw)
		verdicts := c17sCollapseIgnored(streamType, raw, obs, c17sJudge(protoName, origin, tail, raw, obs))
		if len(verdicts) > 0 {
			srv.client.CloseIdleConnections()
			obs2 := c17sRun(srv, streamType, origin, timeout, tail, raw)
			again := c17sCollapseIgnored(streamType, raw, obs2, c17sJudge(protoName, origin, tail, raw, obs2))
			keys := map[string]bool{}
			for _, v := range again {
				keys[v.key] = true
			}
			var kept []c17rVerdict
			for _, v := range verdicts {
				if keys[v.key] {
					kept = append(kept, v)
				} else {
					r.Note("UNSTABLE verdict %s on proto=%s stream=%s origin=%q tail=%q raw=%s: %s", v.key, protoName, streamType, origin, tail, c17lib.Short(raw), v.detail)
					r.Count("unstable", 1)
				}
			}
			verdicts = kept
		}
		bodyKind := "none"
		switch raw.GetBody().(type) {
		case *conformancev1.RawHTTPResponse_Unary:
			bodyKind = "unary"
		case *conformancev1.RawHTTPResponse_Stream:
			bodyKind = "stream"
		}
		cls := fmt.Sprintf("%s/%s/status%d/%s/trailers%d", obs.Proto, streamType, obs.Status, bodyKind, len(obs.Trailer))
		if protoName == "h2tls" {
			cls = "tls+" + cls
		}
		if origin != "" {
			cls += "/with-origin"
		}
		if timeout != "" {
			cls += "/with-timeout-header"
		}
		if protoName == "h1-on-h2c" {
			cls = "h2c-server:" + cls
		}
		if tail != "" {
			cls = fmt.Sprintf("%s/request-tail:%s", obs.Proto, tail)
		}
		if obs.Err != "" {
			cls = protoName + "/" + streamType + "/transport-error"
		}
		r.Outcome(cls)
		if verbose {
			body := obs.Body
			if len(body) > 512 {
				body = body[:512]
			}
			obs.Body = nil
			fmt.Printf("replay: proto=%s stream=%s origin=%q timeout-header=%q request-tail=%q raw=%s\nobserved: %+v\nbody (first 512 bytes)=%x\nverdicts=%v\n", protoName, streamType, origin, timeout, tail, c17lib.Short(raw), obs, body, verdicts)
		}
		return verdicts
	}

	if data := rep.ReplayInput(); data != nil {
		var rj struct {
			Replay c17sCase `json:"replay"`
		}
		if err := json.Unmarshal(data, &rj); err != nil {
			t.Fatalf("bad replay file: %v", err)
		}
		raw := &conformancev1.RawHTTPResponse{}
		if err := c17lib.FromJSON(rj.Replay.Raw, raw); err != nil {
			t.Fatal(err)
		}
		r.Eval(1)
		r.NonTrivial("")
		r.NonTrivial("")
		r.Sample(rj.Replay)
		for _, v := range evalOne(rj.Replay.Proto, rj.Replay.StreamType, rj.Replay.Origin, rj.Replay.Timeout, rj.Replay.Tail, raw, true) {
			r.Violate(v.key, v.detail, rj.Replay)
		}
		return
	}

	deadline := rep.Deadline()
	var k int64
	c17sEnumerate(rep.Thorough(), func(grid, protoName, streamType, origin, timeout, tail string, raw *conformancev1.RawHTTPResponse) bool {
		k++
		if !r.Mine(k) {
			return true
		}
		if !deadline.IsZero() && time.Now().After(deadline) {
			r.NotExhaustive("budget reached in grid " + grid + " before the enumeration was complete")
			return false
		}
		verdicts := evalOne(protoName, streamType, origin, timeout, tail, raw, false)
		r.Eval(1)
		r.Count("grid:"+grid, 1)
		c := c17sCase{Proto: protoName, StreamType: streamType, Origin: origin, Timeout: timeout, Tail: tail, Raw: c17lib.JSON(raw)}
		r.NonTrivial(strings.Join([]string{protoName, streamType, origin, timeout, tail, string(c.Raw)}, "|"))
		if k%503 == 1 {
			r.Sample(c)
		}
		if tail != "" && len(verdicts) > 0 {
			r.Count("cases-with-verdicts:request-tail:"+tail, 1)
		}
		if grid == "P" && len(verdicts) > 0 {
			r.Count(fmt.Sprintf("cases-with-verdicts:grid-P:%s:%s:timeout-header=%q", protoName, streamType, timeout), 1)
		}
		for _, v := range verdicts {
			r.Violate(v.key, fmt.Sprintf("proto=%s stream-type=%s request-origin=%q timeout-header=%q request-tail=%q raw=%s: %s", protoName, streamType, origin, timeout, tail, c17lib.Short(raw), v.detail), c)
		}
		return true
	})
}
