package referenceserver

// C20, peer part — "decompressing what the matching compressor produced returns
// the original bytes ... the same encoding name denotes the same algorithm in
// the runner, both reference peers ...", observed through the REAL reference
// server as createServer builds it (handler options, registered constructor
// pairs, receive limit and every other option that may touch a decompressor),
// not through the constructors taken one by one.
//
// Complete enumeration of
//
//	server configuration  {no receive limit, the suites' limit of 200 KiB [thorough: + 1 MiB]} x {plain, reference mode}
//	request form          {Connect unary POST, gRPC-Web (enveloped)} over HTTP/1.1
//	encoding              6
//	producer              {compression.GetCompressor(enum) — what the runner / raw-payload encoders use,
//	                       a fresh encoder of the underlying library with default settings}
//	content               {zeros, half pseudo-random half zeros}  (compressible: the compressed form stays below the limit)
//	message size          0-data, and every size 2^k-1, 2^k, 2^k+1 for k = 10..17 [thorough ..20] that does not exceed
//	                      the server's limit, plus limit-1 and limit  (the serialized UnaryRequest has exactly that size)
//
// sent with a plain net/http client and hand-built bodies. Oracle: the server
// accepts the request (its size is within the limit) and the request it echoes
// carries exactly the bytes that were compressed; the response, for which the
// same encoding is offered, is decoded with the library's decoder.

import (
	"bytes"
	"encoding/binary"
	"encoding/json"
	"fmt"
	"io"
	"net/http"
	"strconv"
	"strings"
	"testing"
	"time"

	"connectrpc.com/conformance/internal/compression"
	conformancev1 "connectrpc.com/conformance/internal/gen/proto/go/connectrpc/conformance/v1"
	"connectrpc.com/conformance/internal/verif/rep"
	"google.golang.org/protobuf/proto"
)

type c20pCase struct {
	Limit    uint32 `json:"server_receive_limit"`
	RefMode  bool   `json:"reference_mode"`
	Form     string `json:"form"`
	Enc      string `json:"enc"`
	Producer string `json:"producer"`
	Content  string `json:"content"`
	Size     int    `json:"message_size"`
}

func (c c20pCase) String() string {
	return fmt.Sprintf("limit=%d refmode=%v %s %s producer=%s content=%s size=%d", c.Limit, c.RefMode, c.Form, c.Enc, c.Producer, c.Content, c.Size)
}

type c20pNullPrinter struct{ n int }

func (p *c20pNullPrinter) Printf(string, ...any)               { p.n++ }
func (p *c20pNullPrinter) PrefixPrintf(string, string, ...any) { p.n++ }

// c20pRequest builds a UnaryRequest whose serialized size is exactly size
// (nil when size is below the fixed part of the message).
func c20pRequest(size int, content string) (*conformancev1.UnaryRequest, []byte) {
	msg := &conformancev1.UnaryRequest{
		ResponseDefinition: &conformancev1.UnaryResponseDefinition{
			Response: &conformancev1.UnaryResponseDefinition_ResponseData{ResponseData: []byte("ok")},
		},
	}
	base := proto.Size(msg)
	if size < base {
		return nil, nil
	}
	fill := func(n int) []byte {
		data := make([]byte, n)
		if content == "half-noise" {
			x := uint64(0x0C20C20C20C20C20)
			for i := 0; i < n/2; i++ {
				x = x*6364136223846793005 + 1442695040888963407
				data[i] = byte(x >> 56)
			}
		}
		return data
	}
	// request_data costs 1 tag byte + varint(len) + len; try the lengths round size-base
	for n := max(0, size-base-8); n <= size-base; n++ {
		msg.RequestData = fill(n)
		if proto.Size(msg) == size {
			raw, err := proto.Marshal(msg)
			if err != nil || len(raw) != size {
				return nil, nil
			}
			return msg, raw
		}
	}
	return nil, nil // size not reachable (falls into a varint step)
}

func c20pSizes(limit uint32, thorough bool) []int {
	maxK := 17
	if thorough {
		maxK = 20
	}
	seen := map[int]bool{}
	var out []int
	add := func(n int) {
		if n >= 0 && !seen[n] && (limit == 0 || n <= int(limit)) {
			seen[n] = true
			out = append(out, n)
		}
	}
	add(8)
	for k := 10; k <= maxK; k++ {
		add(1<<k - 1)
		add(1 << k)
		add(1<<k + 1)
	}
	if limit > 0 {
		add(int(limit) - 1)
		add(int(limit))
	}
	return out
}

type c20pServer struct {
	addr    string
	stop    func()
	printer *c20pNullPrinter
}

func c20pStart(limit uint32, refMode bool) (*c20pServer, error) {
	pr := &c20pNullPrinter{}
	srv, _, err := createServer(&conformancev1.ServerCompatRequest{
		Protocol:            conformancev1.Protocol_PROTOCOL_CONNECT,
		HttpVersion:         conformancev1.HTTPVersion_HTTP_VERSION_1,
		MessageReceiveLimit: limit,
	}, "127.0.0.1:0", "", "", refMode, pr, nil)
	if err != nil {
		return nil, err
	}
	done := make(chan struct{})
	go func() {
		defer close(done)
		_ = srv.Serve()
	}()
	return &c20pServer{addr: srv.Addr(), printer: pr, stop: func() {
		_ = srv.GracefulShutdown(2 * time.Second)
		<-done
	}}, nil
}

type c20pResult struct {
	Status      int
	RespEnc     string
	ErrText     string // transport error, server-reported error, or undecodable response
	Echo        []byte // request_data of the request the server says it received
	EchoPresent bool
}

func c20pEnvelope(flags byte, payload []byte) []byte {
	out := make([]byte, 5, 5+len(payload))
	out[0] = flags
	binary.BigEndian.PutUint32(out[1:], uint32(len(payload)))
	return append(out, payload...)
}

func c20pSend(client *http.Client, srv *c20pServer, c c20pCase, enum conformancev1.Compression, compressed []byte) (res c20pResult) {
	var body []byte
	hdr := http.Header{}
	switch c.Form {
	case "connect-unary":
		body = compressed
		hdr.Set("Content-Type", "application/proto")
		hdr.Set("Connect-Protocol-Version", "1")
		if c.Enc != "identity" {
			hdr.Set("Content-Encoding", c.Enc)
		}
		hdr.Set("Accept-Encoding", c.Enc)
	case "grpc-web":
		flags := byte(1)
		if c.Enc == "identity" {
			flags = 0
		}
		body = c20pEnvelope(flags, compressed)
		hdr.Set("Content-Type", "application/grpc-web+proto")
		hdr.Set("X-Grpc-Web", "1")
		if c.Enc != "identity" {
			hdr.Set("Grpc-Encoding", c.Enc)
		}
		hdr.Set("Grpc-Accept-Encoding", c.Enc)
	}
	if c.RefMode {
		// what server_runner.go attaches to every request
		proto := conformancev1.Protocol_PROTOCOL_CONNECT
		if c.Form == "grpc-web" {
			proto = conformancev1.Protocol_PROTOCOL_GRPC_WEB
		}
		hdr.Set("X-Test-Case-Name", "c20/"+c.String())
		hdr.Set("X-Expect-Http-Version", strconv.Itoa(int(conformancev1.HTTPVersion_HTTP_VERSION_1)))
		hdr.Set("X-Expect-Http-Method", http.MethodPost)
		hdr.Set("X-Expect-Protocol", strconv.Itoa(int(proto)))
		hdr.Set("X-Expect-Codec", strconv.Itoa(int(conformancev1.Codec_CODEC_PROTO)))
		hdr.Set("X-Expect-Compression", strconv.Itoa(int(enum)))
		hdr.Set("X-Expect-Tls", "false")
	}
	req, err := http.NewRequest(http.MethodPost, "http://"+srv.addr+"/connectrpc.conformance.v1.ConformanceService/Unary", bytes.NewReader(body))
	if err != nil {
		res.ErrText = "building the request: " + err.Error()
		return res
	}
	req.Header = hdr
	resp, err := client.Do(req)
	if err != nil {
		res.ErrText = "transport: " + err.Error()
		return res
	}
	defer resp.Body.Close()
	raw, err := io.ReadAll(resp.Body)
	if err != nil {
		res.ErrText = "reading the response: " + err.Error()
		return res
	}
	res.Status = resp.StatusCode
	short := func(b []byte) string {
		if len(b) > 300 {
			b = b[:300]
		}
		return fmt.Sprintf("%q", b)
	}
	var msgBytes []byte
	switch c.Form {
	case "connect-unary":
		res.RespEnc = resp.Header.Get("Content-Encoding")
		if resp.StatusCode != http.StatusOK {
			var e struct {
				Code    string `json:"code"`
				Message string `json:"message"`
			}
			if json.Unmarshal(raw, &e) == nil && e.Code != "" {
				res.ErrText = "server answers " + e.Code + ": " + e.Message
			} else {
				res.ErrText = fmt.Sprintf("HTTP status %d, body %s", resp.StatusCode, short(raw))
			}
			return res
		}
		msgBytes = raw
	case "grpc-web":
		res.RespEnc = resp.Header.Get("Grpc-Encoding")
		if resp.StatusCode != http.StatusOK {
			res.ErrText = fmt.Sprintf("HTTP status %d, body %s", resp.StatusCode, short(raw))
			return res
		}
		status, message := resp.Header.Get("Grpc-Status"), resp.Header.Get("Grpc-Message") // trailers-only
		rest := raw
		gotMsg := false
		for len(rest) >= 5 {
			flags, n := rest[0], int(binary.BigEndian.Uint32(rest[1:5]))
			if len(rest) < 5+n {
				res.ErrText = "truncated envelope in the response: " + short(raw)
				return res
			}
			payload := rest[5 : 5+n]
			rest = rest[5+n:]
			if flags&1 != 0 {
				dec, err := c20aIndepDecode(res.RespEnc, payload)
				if err != nil {
					res.ErrText = fmt.Sprintf("an envelope (flags %#x) of the response is marked compressed (grpc-encoding %q) and a library %s decoder fails on it: %v", flags, res.RespEnc, res.RespEnc, err)
					return res
				}
				payload = dec
			}
			if flags&0x80 != 0 {
				for _, line := range strings.Split(string(payload), "\r\n") {
					if k, v, ok := strings.Cut(line, ":"); ok {
						switch strings.ToLower(strings.TrimSpace(k)) {
						case "grpc-status":
							status = strings.TrimSpace(v)
						case "grpc-message":
							message = strings.TrimSpace(v)
						}
					}
				}
				continue
			}
			msgBytes, gotMsg = payload, true
		}
		if status != "0" {
			res.ErrText = fmt.Sprintf("server answers grpc-status %s: %s", status, message)
			return res
		}
		if !gotMsg {
			res.ErrText = "grpc-status 0 but no response message: " + short(raw)
			return res
		}
	}
	if c.Form == "connect-unary" && res.RespEnc != "" && res.RespEnc != "identity" {
		dec, err := c20aIndepDecode(res.RespEnc, msgBytes)
		if err != nil {
			res.ErrText = fmt.Sprintf("the response has content-encoding %q and a library %s decoder fails on it: %v", res.RespEnc, res.RespEnc, err)
			return res
		}
		msgBytes = dec
	}
	var out conformancev1.UnaryResponse
	if err := proto.Unmarshal(msgBytes, &out); err != nil {
		res.ErrText = "the response message is not a UnaryResponse: " + err.Error()
		return res
	}
	reqs := out.GetPayload().GetRequestInfo().GetRequests()
	if len(reqs) != 1 {
		res.ErrText = fmt.Sprintf("the server reports %d received requests", len(reqs))
		return res
	}
	var got conformancev1.UnaryRequest
	if err := reqs[0].UnmarshalTo(&got); err != nil {
		res.ErrText = "echoed request: " + err.Error()
		return res
	}
	res.Echo, res.EchoPresent = got.GetRequestData(), true
	return res
}

func TestVerifC20Peer(t *testing.T) {
	r := rep.New("c20-peer")
	defer r.Write()
	r.Rule = "the reference server built by createServer {no receive limit, 200 KiB [thorough + 1 MiB]} x {plain, reference mode} receives, from a plain net/http client, a Unary request as Connect unary POST and as gRPC-Web envelope, " +
		"compressed with each of the 6 encodings by {compression.GetCompressor(enum), a fresh library encoder}, content {zeros, half pseudo-random}, serialized message size 8 and 2^k-1, 2^k, 2^k+1 for k=10..17 [..20] up to the limit, limit-1 and limit; " +
		"the request must be accepted and the echoed request must carry the original bytes; the response (same encoding offered) is decoded with the library decoder. Non-trivial: every case with a non-identity encoding."
	var only *c20pCase
	if data := rep.ReplayInput(); data != nil {
		var file struct {
			Replay c20pCase `json:"replay"`
		}
		if err := json.Unmarshal(data, &file); err != nil || file.Replay.Form == "" {
			t.Fatalf("replay file: %v", err)
		}
		only = &file.Replay
	}
	thorough := rep.Thorough() || only != nil
	deadline := rep.Deadline()
	limits := []uint32{0, 200 * 1024}
	if thorough {
		limits = append(limits, 1<<20)
	}
	client := &http.Client{Transport: &http.Transport{DisableCompression: true, MaxIdleConnsPerHost: 4}}
	defer client.CloseIdleConnections()
	var k int64
	matched := false
	for _, limit := range limits {
		for _, refMode := range []bool{false, true} {
			var srv *c20pServer
			defer func() {
				if srv != nil {
					srv.stop()
				}
			}()
			for _, size := range c20pSizes(limit, thorough) {
				for _, content := range []string{"zeros", "half-noise"} {
					var msg *conformancev1.UnaryRequest
					var raw []byte
					built := false
					for _, enc := range c20aEncs() {
						for _, producer := range []string{"compression.GetCompressor", "library-encoder"} {
							for _, form := range []string{"connect-unary", "grpc-web"} {
								c := c20pCase{Limit: limit, RefMode: refMode, Form: form, Enc: enc.Name, Producer: producer, Content: content, Size: size}
								k++
								if only != nil {
									if *only != c {
										continue
									}
								} else if !r.Mine(k) {
									continue
								}
								if r.Exhaustive && !deadline.IsZero() && time.Now().After(deadline) {
									r.NotExhaustive("budget reached at " + c.String())
								}
								if !r.Exhaustive {
									continue
								}
								matched = true
								if !built {
									msg, raw = c20pRequest(size, content)
									built = true
								}
								if msg == nil {
									r.Outcome("size-not-reachable")
									continue
								}
								if srv == nil {
									var err error
									if srv, err = c20pStart(limit, refMode); err != nil {
										t.Fatalf("createServer(limit=%d, referenceMode=%v): %v", limit, refMode, err)
									}
								}
								var compressed []byte
								var err error
								if producer == "library-encoder" {
									compressed, err = c20aIndepEncode(enc.Name, raw)
								} else {
									cmp, gerr := compression.GetCompressor(enc.Enum)
									if gerr != nil {
										t.Fatalf("GetCompressor(%v): %v", enc.Enum, gerr)
									}
									compressed, err = c20aCompress(cmp, raw)
								}
								if err != nil {
									r.Eval(1)
									r.Violate("peer:producer-fails:"+enc.Name, fmt.Sprintf("%s: compressing the %d-byte message failed: %v", c, len(raw), err), c)
									continue
								}
								if limit > 0 && enc.Name != "identity" && len(compressed) > int(limit) {
									// would run into the known C19 finding (limit applied to the compressed bytes too)
									r.Outcome("skipped:compressed-form-larger-than-limit")
									continue
								}
								res := c20pSend(client, srv, c, enc.Enum, compressed)
								r.Eval(1)
								if enc.Name != "identity" {
									r.NonTrivial("")
								}
								if k%509 == 1 {
									r.Sample(c)
								}
								if only != nil {
									fmt.Printf("C20 replay %s:\n message %d bytes, compressed %d bytes (%x...)\n status=%d response-encoding=%q error=%q echoed=%v (%d bytes, identical=%v)\n",
										c, len(raw), len(compressed), compressed[:min(len(compressed), 24)], res.Status, res.RespEnc, res.ErrText, res.EchoPresent, len(res.Echo), bytes.Equal(res.Echo, msg.GetRequestData()))
								}
								switch {
								case res.ErrText != "":
									r.Outcome("peer:" + enc.Name + ":rejected-or-failed")
									r.Violate("peer:server-cannot-decode:"+enc.Name, fmt.Sprintf(
										"%s: a valid %s stream (%d bytes, produced by %s) of a %d-byte UnaryRequest — within the server's receive limit — was not accepted: %s",
										c, enc.Name, len(compressed), producer, len(raw), res.ErrText), c)
								case !bytes.Equal(res.Echo, msg.GetRequestData()):
									r.Outcome("peer:" + enc.Name + ":decoded-differently")
									r.Violate("peer:server-decodes-differently:"+enc.Name, fmt.Sprintf(
										"%s: the server accepted the request but the request it echoes carries %d bytes of request_data that differ from the %d bytes that were compressed",
										c, len(res.Echo), len(msg.GetRequestData())), c)
								default:
									respEnc := res.RespEnc
									if respEnc == "" {
										respEnc = "identity"
									}
									r.Outcome("peer:" + enc.Name + ":ok:response-encoding=" + respEnc)
								}
							}
						}
					}
				}
			}
			if srv != nil {
				srv.stop()
				srv = nil
			}
		}
	}
	if only != nil && !matched {
		t.Errorf("C20 replay: case %+v is not part of the enumeration", *only)
	}
}
