// C12 — "Reference server flags exactly the requests that deviate from the test
// setup": bounded-exhaustive ENUM harness, mapped by overlay into
// internal/app/referenceserver.
//
// The real middleware, installed exactly as server.go does it
// (rawResponder(referenceServerChecks(inner, printer))), is driven with
// synthetic *http.Request values around a recording inner handler; feedback is
// what the real internal.NewPrinter writes into a buffer (= the reference
// server's stderr).
//
// Oracles are written from the property text and the public protocol
// specifications, not from checks.go:
//   - Connect:  Connect-Timeout-Ms = 1..10 ASCII digits (milliseconds)
//     (https://connectrpc.com/docs/protocol "Timeout-Milliseconds")
//   - gRPC / gRPC-Web: grpc-timeout = 1..8 ASCII digits + one of H M S m u n
//     (grpc/doc/PROTOCOL-HTTP2.md "Timeout → TimeoutValue TimeoutUnit")
package referenceserver

import (
	"bytes"
	"context"
	"crypto/tls"
	"crypto/x509"
	"crypto/x509/pkix"
	"encoding/json"
	"fmt"
	"io"
	"math"
	"math/big"
	"net/http"
	"net/http/httptest"
	"net/url"
	"runtime/debug"
	"sort"
	"strconv"
	"strings"
	"testing"
	"time"

	"connectrpc.com/conformance/internal"
	conformancev1 "connectrpc.com/conformance/internal/gen/proto/go/connectrpc/conformance/v1"
	"connectrpc.com/conformance/internal/verif/rep"
)

// ---------------------------------------------------------------------------
// the matrix
// ---------------------------------------------------------------------------

// c12Side is one point of (HTTP version x method x protocol x codec x
// compression x TLS x client certificate). Numbers are the values of the
// conformancev1 enums (which is what the runner puts into the x-expect-*
// headers with strconv.Itoa).
type c12Side struct {
	Version     int    `json:"version"`     // 1,2,3
	Method      string `json:"method"`      // GET, POST
	Protocol    int    `json:"protocol"`    // 1 Connect, 2 gRPC, 3 gRPC-Web
	Codec       int    `json:"codec"`       // 1 proto, 2 json
	Compression int    `json:"compression"` // 1 identity, 2 gzip, 3 br, 4 zstd, 5 deflate, 6 snappy
	TLS         bool   `json:"tls"`
	Cert        bool   `json:"cert"`
}

// c12Actual is what a client puts on the wire: a side plus the freedoms the
// protocols leave (Connect unary vs. streaming framing, "+proto" suffix
// optional for gRPC, identity named explicitly or by omission).
type c12Actual struct {
	c12Side
	Stream           bool `json:"stream,omitempty"`            // Connect POST with application/connect+codec
	Bare             bool `json:"bare,omitempty"`              // application/grpc or application/grpc-web without "+proto"
	ExplicitIdentity bool `json:"explicit_identity,omitempty"` // "identity" spelled out instead of header/param omitted
}

const (
	c12Connect = 1
	c12GRPC    = 2
	c12GRPCWeb = 3
)

var (
	c12CodecNames       = map[int]string{1: "proto", 2: "json"}
	c12CompressionNames = map[int]string{1: "identity", 2: "gzip", 3: "br", 4: "zstd", 5: "deflate", 6: "snappy"}
	c12ProtocolNames    = map[int]string{1: "connect", 2: "grpc", 3: "grpc-web"}
	c12Aspects          = []string{"version", "method", "protocol", "codec", "compression", "tls", "cert"}
	// words by which a feedback line "mentions" an aspect (lower-cased line without the test-name prefix)
	c12AspectWords = map[string][]string{
		"version":     {"version"},
		"method":      {"method"},
		"protocol":    {"protocol"},
		"codec":       {"codec"},
		"compression": {"compression"},
		"tls":         {"tls", "plain-text", "plaintext", "plain text"},
		"cert":        {"cert"},
	}
	c12URL = &url.URL{Path: "/connectrpc.conformance.v1.ConformanceService/Unary"}
)

func c12EnumSanity() error {
	type pair struct{ got, want int }
	for _, p := range []pair{
		{int(conformancev1.HTTPVersion_HTTP_VERSION_1), 1}, {int(conformancev1.HTTPVersion_HTTP_VERSION_2), 2},
		{int(conformancev1.HTTPVersion_HTTP_VERSION_3), 3},
		{int(conformancev1.Protocol_PROTOCOL_CONNECT), 1}, {int(conformancev1.Protocol_PROTOCOL_GRPC), 2},
		{int(conformancev1.Protocol_PROTOCOL_GRPC_WEB), 3},
		{int(conformancev1.Codec_CODEC_PROTO), 1}, {int(conformancev1.Codec_CODEC_JSON), 2},
		{int(conformancev1.Compression_COMPRESSION_IDENTITY), 1}, {int(conformancev1.Compression_COMPRESSION_GZIP), 2},
		{int(conformancev1.Compression_COMPRESSION_BR), 3}, {int(conformancev1.Compression_COMPRESSION_ZSTD), 4},
		{int(conformancev1.Compression_COMPRESSION_DEFLATE), 5}, {int(conformancev1.Compression_COMPRESSION_SNAPPY), 6},
	} {
		if p.got != p.want {
			return fmt.Errorf("enum numbering changed: %d != %d", p.got, p.want)
		}
	}
	return nil
}

// c12ExpectedSides: the full product, 3*2*3*2*6*2*2 = 864.
func c12ExpectedSides() []c12Side {
	var out []c12Side
	for _, v := range []int{1, 2, 3} {
		for _, m := range []string{http.MethodPost, http.MethodGet} {
			for _, p := range []int{1, 2, 3} {
				for _, c := range []int{1, 2} {
					for z := 1; z <= 6; z++ {
						for _, t := range []bool{false, true} {
							for _, cert := range []bool{false, true} {
								out = append(out, c12Side{v, m, p, c, z, t, cert})
							}
						}
					}
				}
			}
		}
	}
	return out
}

// c12ActualSides: everything a client can put on the wire: GET only for
// Connect unary; a client certificate only inside TLS; HTTP/3 only with TLS.
func c12ActualSides() []c12Actual {
	var out []c12Actual
	for _, v := range []int{1, 2, 3} {
		for _, t := range []bool{false, true} {
			if v == 3 && !t {
				continue
			}
			for _, cert := range []bool{false, true} {
				if cert && !t {
					continue
				}
				for _, c := range []int{1, 2} {
					for z := 1; z <= 6; z++ {
						for _, explicit := range []bool{false, true} {
							if explicit && z != 1 {
								continue
							}
							add := func(m string, p int, stream, bare bool) {
								out = append(out, c12Actual{c12Side{v, m, p, c, z, t, cert}, stream, bare, explicit})
							}
							add(http.MethodPost, c12Connect, false, false)
							add(http.MethodPost, c12Connect, true, false)
							add(http.MethodGet, c12Connect, false, false)
							add(http.MethodPost, c12GRPC, false, false)
							add(http.MethodPost, c12GRPCWeb, false, false)
							if c == 1 {
								add(http.MethodPost, c12GRPC, false, true)
								add(http.MethodPost, c12GRPCWeb, false, true)
							}
						}
					}
				}
			}
		}
	}
	return out
}

// c12Disagree is the oracle of the matrix: the aspects in which the request
// deviates from the expectation. Client certificates exist only inside TLS, so
// that aspect is compared only when both sides use TLS (if TLS itself
// deviates, the TLS aspect covers it).
func c12Disagree(exp c12Side, act c12Side) []string {
	var d []string
	if exp.Version != act.Version {
		d = append(d, "version")
	}
	if exp.Method != act.Method {
		d = append(d, "method")
	}
	if exp.Protocol != act.Protocol {
		d = append(d, "protocol")
	}
	if exp.Codec != act.Codec {
		d = append(d, "codec")
	}
	if exp.Compression != act.Compression {
		d = append(d, "compression")
	}
	if exp.TLS != act.TLS {
		d = append(d, "tls")
	}
	if exp.TLS && act.TLS && exp.Cert != act.Cert {
		d = append(d, "cert")
	}
	return d
}

// ---------------------------------------------------------------------------
// driving the real middleware
// ---------------------------------------------------------------------------

type c12Body struct {
	rd      *bytes.Reader
	req     **http.Request // where to deliver trailers at EOF (as net/http does)
	trailer http.Header
	eof     bool
}

func (b *c12Body) Read(p []byte) (int, error) {
	n, err := b.rd.Read(p)
	if err == io.EOF && !b.eof {
		b.eof = true
		if b.trailer != nil && b.req != nil && *b.req != nil {
			if (*b.req).Trailer == nil {
				(*b.req).Trailer = http.Header{}
			}
			for k, v := range b.trailer {
				(*b.req).Trailer[k] = v
			}
		}
	}
	return n, err
}
func (b *c12Body) Close() error { return nil }

type c12Inner struct {
	calls     int
	header    http.Header
	ctx       context.Context
	drainBody bool
}

func (in *c12Inner) ServeHTTP(w http.ResponseWriter, req *http.Request) {
	in.calls++
	in.header = req.Header
	in.ctx = req.Context()
	if in.drainBody {
		_, _ = io.Copy(io.Discard, req.Body)
	}
}

type c12Rig struct {
	buf     bytes.Buffer
	inner   c12Inner
	handler http.Handler
}

// c12NewRig installs the middleware the way createServer does in reference mode.
func c12NewRig() *c12Rig {
	rig := &c12Rig{}
	var h http.Handler = referenceServerChecks(&rig.inner, internal.NewPrinter(&rig.buf))
	h = rawResponder(h)
	rig.handler = h
	return rig
}

type c12Obs struct {
	Lines      []string `json:"lines"`
	InnerCalls int      `json:"inner_calls"`
	Status     int      `json:"status"`
	Panic      string   `json:"panic,omitempty"`
	rec        *httptest.ResponseRecorder
}

func (rig *c12Rig) serve(req *http.Request) (obs c12Obs) {
	rig.buf.Reset()
	before := rig.inner.calls
	rig.inner.header, rig.inner.ctx = nil, nil
	rec := httptest.NewRecorder()
	func() {
		defer func() {
			if p := recover(); p != nil {
				obs.Panic = fmt.Sprint(p)
			}
		}()
		rig.handler.ServeHTTP(rec, req)
	}()
	obs.rec = rec
	obs.Status = rec.Code
	obs.InnerCalls = rig.inner.calls - before
	if rig.buf.Len() > 0 {
		obs.Lines = strings.Split(strings.TrimSuffix(rig.buf.String(), "\n"), "\n")
	}
	return obs
}

type c12ReqOpts struct {
	name        *string  // nil: no x-test-case-name header
	exp         *c12Side // nil: no expectation headers
	timeout     *string  // nil: no timeout header; header chosen by act.Protocol
	trailers    string   // "", "eof" (appear when the body is exhausted, HTTP/2 style), "declared" (key announced, value at EOF, HTTP/1.1 style)
	holder      **http.Request
	bodyPayload []byte
}

func c12BuildRequest(act c12Actual, o c12ReqOpts) *http.Request {
	hdr := http.Header{}
	u := *c12URL
	req := &http.Request{
		Method: act.Method, URL: &u, Header: hdr, Host: "127.0.0.1:8080", RemoteAddr: "127.0.0.1:40000",
		RequestURI: u.Path,
	}
	switch act.Version {
	case 1:
		req.Proto, req.ProtoMajor, req.ProtoMinor = "HTTP/1.1", 1, 1
	case 2:
		req.Proto, req.ProtoMajor, req.ProtoMinor = "HTTP/2.0", 2, 0
	case 3:
		req.Proto, req.ProtoMajor, req.ProtoMinor = "HTTP/3.0", 3, 0
	}
	codec := c12CodecNames[act.Codec]
	comp := c12CompressionNames[act.Compression]
	sendComp := act.Compression != 1 || act.ExplicitIdentity
	if act.Method == http.MethodGet {
		q := "connect=v1&encoding=" + codec + "&base64=1&message=AAAA"
		if sendComp {
			q += "&compression=" + comp
		}
		req.URL.RawQuery = q
		req.RequestURI = u.Path + "?" + q
		req.Body = http.NoBody
	} else {
		var encHeader string
		switch {
		case act.Protocol == c12Connect && !act.Stream:
			hdr.Set("Content-Type", "application/"+codec)
			encHeader = "Content-Encoding"
		case act.Protocol == c12Connect:
			hdr.Set("Content-Type", "application/connect+"+codec)
			encHeader = "Connect-Content-Encoding"
		case act.Protocol == c12GRPC:
			hdr.Set("Content-Type", "application/grpc+"+codec)
			if act.Bare {
				hdr.Set("Content-Type", "application/grpc")
			}
			hdr.Set("Te", "trailers")
			encHeader = "Grpc-Encoding"
		case act.Protocol == c12GRPCWeb:
			hdr.Set("Content-Type", "application/grpc-web+"+codec)
			if act.Bare {
				hdr.Set("Content-Type", "application/grpc-web")
			}
			encHeader = "Grpc-Encoding"
		}
		if sendComp {
			hdr.Set(encHeader, comp)
		}
		payload := o.bodyPayload
		if payload == nil {
			payload = []byte{0, 0, 0, 0, 0}
		}
		body := &c12Body{rd: bytes.NewReader(payload), req: o.holder}
		switch o.trailers {
		case "eof":
			body.trailer = http.Header{"X-Late": {"1"}}
		case "declared":
			req.Trailer = http.Header{"X-Late": nil}
			hdr.Set("Trailer", "X-Late")
			body.trailer = http.Header{"X-Late": {"1"}}
		}
		req.Body = body
		req.ContentLength = int64(len(payload))
		if o.trailers != "" {
			req.ContentLength = -1
		}
	}
	if act.TLS {
		cs := &tls.ConnectionState{Version: tls.VersionTLS13, HandshakeComplete: true}
		if act.Cert {
			cs.PeerCertificates = []*x509.Certificate{{Subject: pkix.Name{CommonName: internal.ClientCertName}}}
		}
		req.TLS = cs
	}
	hdr.Set("User-Agent", "c12-harness")
	if o.name != nil {
		hdr["X-Test-Case-Name"] = []string{*o.name}
	}
	if o.exp != nil {
		// exactly what server_runner.go adds for a reference server
		hdr.Set("X-Expect-Http-Version", strconv.Itoa(o.exp.Version))
		hdr.Set("X-Expect-Http-Method", o.exp.Method)
		hdr.Set("X-Expect-Protocol", strconv.Itoa(o.exp.Protocol))
		hdr.Set("X-Expect-Codec", strconv.Itoa(o.exp.Codec))
		hdr.Set("X-Expect-Compression", strconv.Itoa(o.exp.Compression))
		hdr.Set("X-Expect-Tls", strconv.FormatBool(o.exp.TLS))
		if o.exp.Cert {
			hdr.Set("X-Expect-Client-Cert", internal.ClientCertName)
		}
	}
	if o.timeout != nil {
		if act.Protocol == c12Connect {
			hdr["Connect-Timeout-Ms"] = []string{*o.timeout}
		} else {
			hdr["Grpc-Timeout"] = []string{*o.timeout}
		}
	}
	if o.holder != nil {
		*o.holder = req
	}
	return req
}

// ---------------------------------------------------------------------------
// cases
// ---------------------------------------------------------------------------

type c12Case struct {
	Kind     string     `json:"kind"` // matrix | repeat | history | longhist | overlap | trailers | nameless | timeout
	Name     string     `json:"name,omitempty"`
	Exp      *c12Side   `json:"exp,omitempty"`
	Act      *c12Actual `json:"act,omitempty"`
	Variant  string     `json:"variant,omitempty"`
	Protocol int        `json:"protocol,omitempty"`
	Timeout  *string    `json:"timeout,omitempty"`
}

type c12Verdict struct{ key, detail string }

type c12Result struct {
	verdicts []c12Verdict
	outcome  string
	observed any
}

func (res *c12Result) fail(key, format string, a ...any) {
	res.verdicts = append(res.verdicts, c12Verdict{key, fmt.Sprintf(format, a...)})
}

// c12Lower: the lines without the test-name prefix, lower-cased.
func c12Lower(lines []string, name string) []string {
	out := make([]string, len(lines))
	for i, l := range lines {
		out[i] = strings.ToLower(strings.TrimPrefix(l, name+": "))
	}
	return out
}

// c12Mentions: rest is a line as prepared by c12Lower.
func c12Mentions(rest, aspect string) bool {
	for _, w := range c12AspectWords[aspect] {
		if strings.Contains(rest, w) {
			return true
		}
	}
	return false
}

func c12PrefixOK(res *c12Result, lines []string, name, where string) {
	for _, l := range lines {
		if !strings.HasPrefix(l, name+": ") {
			res.fail("feedback-without-test-name:"+where, "feedback line %q does not start with the test name %q", l, name)
			return
		}
	}
}

func c12RunCase(c c12Case) (res c12Result) {
	switch c.Kind {
	case "matrix":
		c12RunMatrix(c, &res)
	case "repeat":
		c12RunRepeat(c, &res)
	case "history":
		c12RunHistory(c, &res)
	case "longhist":
		c12RunLongHistory(c, &res)
	case "overlap":
		c12RunOverlap(c, &res)
	case "trailers":
		c12RunTrailers(c, &res)
	case "nameless":
		c12RunNameless(c, &res)
	case "timeout":
		c12RunTimeout(c12NewRig(), c, &res)
	default:
		panic("unknown case kind " + c.Kind)
	}
	return res
}

func c12RunMatrix(c c12Case, res *c12Result) {
	rig := c12NewRig()
	name := c.Name
	obs := rig.serve(c12BuildRequest(*c.Act, c12ReqOpts{name: &name, exp: c.Exp}))
	res.observed = obs
	dis := c12Disagree(*c.Exp, c.Act.c12Side)
	res.outcome = fmt.Sprintf("matrix:deviating-aspects=%d:lines=%s", len(dis), c12Bucket(len(obs.Lines)))
	if obs.Panic != "" {
		res.fail("panic:matrix", "middleware panicked: %s", obs.Panic)
		return
	}
	served := obs.InnerCalls
	c12JudgeMatrix(res, name, *c.Exp, *c.Act, obs.Lines, &served, "")
}

// c12JudgeMatrix is the truth table of the property for one request: no
// feedback iff all aspects agree; otherwise every line starts with the test
// name, every deviating aspect is mentioned by some line and every line is
// attributable to a deviating aspect. served (optional) = how many times the
// request was handed on / answered; keySuffix is appended to violation keys.
func c12JudgeMatrix(res *c12Result, name string, exp c12Side, act c12Actual, lines []string, served *int, keySuffix string) {
	dis := c12Disagree(exp, act.c12Side)
	c12PrefixOK(res, lines, name, "matrix"+keySuffix)
	if len(dis) == 0 {
		if len(lines) != 0 {
			res.fail("false-feedback:all-aspects-match"+keySuffix, "request matches its expectation in every aspect but feedback was printed: %q (expected %+v, actual %+v)", lines, exp, act)
		}
		if served != nil && *served != 1 {
			res.fail("matching-request-not-served"+keySuffix, "inner handler called / response delivered %d times for a matching request", *served)
		}
		return
	}
	low := c12Lower(lines, name)
	for _, a := range dis {
		found := false
		for _, l := range low {
			if c12Mentions(l, a) {
				found = true
				break
			}
		}
		if !found {
			res.fail("aspect-not-flagged:"+a+keySuffix, "aspect %q deviates (expected %+v, actual %+v) but no feedback line mentions it; lines=%q", a, exp, act, lines)
		}
	}
	// "exactly": every line must be attributable to an aspect that really deviates
	for i, l := range lines {
		ok := false
		for _, a := range dis {
			if c12Mentions(low[i], a) {
				ok = true
				break
			}
		}
		if !ok {
			var which []string
			for _, a := range c12Aspects {
				if c12Mentions(low[i], a) {
					which = append(which, a)
				}
			}
			if len(which) == 0 {
				which = []string{"unrelated-line"}
			}
			res.fail("false-feedback:"+strings.Join(which, "+")+keySuffix, "feedback line %q is not about any deviating aspect (deviating: %v; expected %+v, actual %+v)", l, dis, exp, act)
		}
	}
}

// c12NameTokens: the alphabet of "awkward" pieces of a test name. Names are free text chosen by the
// author of a test suite and travel in an HTTP header value, so anything that is a legal header value
// can occur: percent signs (alone, as printf verbs, doubled, after digits), blanks, the ": " that
// separates name and message in a feedback line, quotes, backslashes, braces, non-ASCII text.
var c12NameTokens = []string{
	"x", "%", "%d", "%s", "%v", "%%", "100%", "%!", "%[1]d", "%-5d", "%c", "%q", "%x", "%T", "%p", "%*d", "%.2f", "%+v", "%w",
	" ", ":", ": ", " : ", "\"", "\\", "\\n", "{}", "{0}", "$1", "\u00fc", "\u6d4b\u8bd5", "\U0001F600", "\u00a0", "\t",
}

var c12NameSingleShapes int

// c12NameShapes: first the single-token shapes (token at the start, in the middle, at the end of an
// otherwise ordinary hierarchical name), then every ordered pair of tokens in the middle. '#' is
// replaced by the case number. Shapes that HTTP could not carry unchanged (leading / trailing
// whitespace is trimmed from header values) are left out.
func c12NameShapes() []string {
	var out []string
	add := func(s string) {
		plain := strings.ReplaceAll(s, "#", "0")
		if plain != strings.TrimSpace(plain) {
			return
		}
		out = append(out, s)
	}
	for _, t := range c12NameTokens {
		add(t + "/case-#")
		add("C12 Suite/" + t + "/case-#")
		add("C12 Suite/a" + t + "b/case-#")
		add("C12 Suite/case-#/" + t)
		add("case-#" + t)
	}
	c12NameSingleShapes = len(out)
	for _, t1 := range c12NameTokens {
		for _, t2 := range c12NameTokens {
			add("C12 Suite/" + t1 + t2 + "/case-#")
		}
	}
	return out
}

func c12Bucket(n int) string {
	if n > 3 {
		return "4+"
	}
	return strconv.Itoa(n)
}

// repeat: the same, fully matching, request twice on one server.
func c12RunRepeat(c c12Case, res *c12Result) {
	rig := c12NewRig()
	name := c.Name
	exp := c.Act.c12Side
	first := rig.serve(c12BuildRequest(*c.Act, c12ReqOpts{name: &name, exp: &exp}))
	second := rig.serve(c12BuildRequest(*c.Act, c12ReqOpts{name: &name, exp: &exp}))
	res.observed = []c12Obs{first, second}
	res.outcome = fmt.Sprintf("repeat:first-lines=%s:second-lines=%s", c12Bucket(len(first.Lines)), c12Bucket(len(second.Lines)))
	if first.Panic != "" || second.Panic != "" {
		res.fail("panic:repeat", "middleware panicked: %s %s", first.Panic, second.Panic)
		return
	}
	if len(first.Lines) != 0 {
		res.fail("false-feedback:all-aspects-match", "first matching request got feedback %q", first.Lines)
	}
	if len(second.Lines) == 0 {
		res.fail("repeat-not-flagged", "second request of test %q produced no feedback", name)
	}
	c12PrefixOK(res, second.Lines, name, "repeat")
}

// history: sequences of test names on one server; feedback exactly for
// requests whose name was seen before. Variant = sequence over {a,b,c}.
func c12RunHistory(c c12Case, res *c12Result) {
	rig := c12NewRig()
	names := map[byte]string{'a': c.Name, 'b': c.Name + "x", 'c': "other/" + c.Name}
	seen := map[byte]bool{}
	var all []c12Obs
	act := *c.Act
	exp := act.c12Side
	for i := 0; i < len(c.Variant); i++ {
		n := names[c.Variant[i]]
		obs := rig.serve(c12BuildRequest(act, c12ReqOpts{name: &n, exp: &exp}))
		all = append(all, obs)
		if obs.Panic != "" {
			res.fail("panic:history", "middleware panicked: %s", obs.Panic)
			break
		}
		c12PrefixOK(res, obs.Lines, n, "history")
		if seen[c.Variant[i]] && len(obs.Lines) == 0 {
			res.fail("repeat-not-flagged", "request #%d of sequence %q repeats test %q but got no feedback", i+1, c.Variant, n)
		}
		if !seen[c.Variant[i]] && len(obs.Lines) != 0 {
			res.fail("false-feedback:repeat", "request #%d of sequence %q is the first for test %q but got feedback %q", i+1, c.Variant, n, obs.Lines)
		}
		seen[c.Variant[i]] = true
	}
	res.observed = all
	res.outcome = "history:len=" + strconv.Itoa(len(c.Variant))
}

// longhist: LONG histories on one server. Variant = decimal N. A (fully matching) request for test T,
// then N requests for N distinct other tests, then T again - and afterwards the first, the middle and
// the last of the N others once more, and a name never used. Oracle (property text: feedback naming
// the test case "for a repeated request of the same test" - at whatever distance): the first request
// of every name draws no feedback, every later one does, each line starting with its test name.
type c12LongObs struct {
	Others            int        `json:"other_tests_in_between"`
	FirstLines        []string   `json:"first_request_lines"`
	OthersFlagged     int        `json:"others_flagged_on_first_request"`
	FirstOtherFlagged string     `json:"first_other_flagged,omitempty"`
	FirstOtherLines   []string   `json:"first_other_flagged_lines,omitempty"`
	SecondLines       []string   `json:"second_request_lines"`
	ProbeNames        []string   `json:"repeated_afterwards"`
	ProbeLines        [][]string `json:"repeated_afterwards_lines"`
	FreshLines        []string   `json:"fresh_name_lines"`
	Requests          int        `json:"requests"`
	Panic             string     `json:"panic,omitempty"`
}

func c12LongOtherName(base string, i int) string { return base + "/other-" + strconv.Itoa(i) }

func c12RunLongHistory(c c12Case, res *c12Result) {
	n, err := strconv.Atoi(c.Variant)
	if err != nil || n < 0 {
		panic("longhist: bad variant " + c.Variant)
	}
	rig := c12NewRig()
	act := *c.Act
	exp := act.c12Side
	o := c12LongObs{Others: n}
	send := func(name string) (c12Obs, bool) {
		obs := rig.serve(c12BuildRequest(act, c12ReqOpts{name: &name, exp: &exp}))
		o.Requests++
		if obs.Panic != "" {
			o.Panic = obs.Panic
			res.fail("panic:long-history", "middleware panicked at request #%d (test %q) of the history T, %d others, T: %s", o.Requests, name, n, obs.Panic)
			return obs, false
		}
		c12PrefixOK(res, obs.Lines, name, "long-history")
		if obs.InnerCalls != 1 {
			res.fail("matching-request-not-served:long-history", "request #%d (test %q, all aspects match) of the history T, %d others, T: inner handler called %d times", o.Requests, name, n, obs.InnerCalls)
		}
		return obs, true
	}
	defer func() {
		res.observed = o
		res.outcome = "longhist:others=" + c12Magnitude(n)
	}()
	first, ok := send(c.Name)
	if !ok {
		return
	}
	o.FirstLines = first.Lines
	if len(first.Lines) != 0 {
		res.fail("false-feedback:repeat:long-history", "the very first request of the server (test %q) got feedback %q", c.Name, first.Lines)
	}
	for i := 0; i < n; i++ {
		name := c12LongOtherName(c.Name, i)
		obs, ok := send(name)
		if !ok {
			return
		}
		if len(obs.Lines) != 0 {
			o.OthersFlagged++
			if o.FirstOtherFlagged == "" {
				o.FirstOtherFlagged, o.FirstOtherLines = name, obs.Lines
				res.fail("false-feedback:repeat:long-history", "request #%d is the first for test %q (history: T, then %d distinct other tests) but got feedback %q", o.Requests, name, n, obs.Lines)
			}
		}
	}
	second, ok := send(c.Name)
	if !ok {
		return
	}
	o.SecondLines = second.Lines
	if len(second.Lines) == 0 {
		res.fail("repeat-not-flagged:long-history", "test %q was requested, then %d distinct other tests, then %q again: the second request got no feedback", c.Name, n, c.Name)
	}
	seen := map[int]bool{}
	for _, i := range []int{0, n / 2, n - 1} {
		if i < 0 || i >= n || seen[i] {
			continue
		}
		seen[i] = true
		name := c12LongOtherName(c.Name, i)
		obs, ok := send(name)
		if !ok {
			return
		}
		o.ProbeNames, o.ProbeLines = append(o.ProbeNames, name), append(o.ProbeLines, obs.Lines)
		if len(obs.Lines) == 0 {
			res.fail("repeat-not-flagged:long-history", "after a history of %d distinct tests, test %q (the %d-th of them) was requested a second time and got no feedback", n+1, name, i+2)
		}
	}
	fresh, ok := send("fresh/" + c.Name)
	if !ok {
		return
	}
	o.FreshLines = fresh.Lines
	if len(fresh.Lines) != 0 {
		res.fail("false-feedback:repeat:long-history", "after a history of %d distinct tests, the first request of a new test got feedback %q", n+1, fresh.Lines)
	}
}

// c12Magnitude: outcome class of a history length (number of decimal digits).
func c12Magnitude(n int) string { return "10^" + strconv.Itoa(len(strconv.Itoa(n))-1) }

// c12LongHistoryLengths: numbers of distinct other tests between the two requests of T: around the
// powers of two 2^4..2^maxPow2 and the powers of ten 10^2..10^maxPow10 (sizes at which tables,
// caches and counters are typically resized, rotated or reset), ascending.
func c12LongHistoryLengths(maxPow2, maxPow10 int) []int {
	set := map[int]bool{}
	for k := 4; k <= maxPow2; k++ {
		for d := -1; d <= 1; d++ {
			set[1<<k+d] = true
		}
	}
	p := 100
	for k := 2; k <= maxPow10; k++ {
		for d := -1; d <= 1; d++ {
			set[p+d] = true
		}
		p *= 10
	}
	var out []int
	for n := range set {
		out = append(out, n)
	}
	sort.Ints(out)
	return out
}

// overlap: several fully matching requests are IN FLIGHT AT THE SAME TIME on
// one server. Variant = "<names>/<release order>", e.g. "aba/201": request #1
// (name a) is started and parks inside the inner handler, then #2 (name b), then
// #3 (name a again) are started the same way; then the handlers are released in
// the order #3, #1, #2. The schedule is forced with channels only: request i+1 is
// started when request i has reached the inner handler (or returned), a handler
// returns only when it is released. Feedback is attributed by the point in the
// schedule at which it appears (everything else is parked at that point).
// Oracle (property text: feedback naming the test case "for a repeated request of
// the same test"): every request whose name was already used by an earlier
// request of the sequence - finished or not - draws feedback with its test name,
// a request with a new name draws none, every request is served exactly once and
// releasing the handlers adds nothing. Afterwards each used name, sent once more,
// is a repeat, and a fresh name is not.
type c12ParkInner struct {
	entered chan int
	release []chan struct{}
}

func (in *c12ParkInner) ServeHTTP(_ http.ResponseWriter, req *http.Request) {
	id, err := strconv.Atoi(req.Header.Get("X-C12-Request-Id"))
	if err != nil || id < 0 || id >= len(in.release) {
		in.entered <- -1
		return
	}
	in.entered <- id
	<-in.release[id]
}

type c12OverlapObs struct {
	Request      int      `json:"request"`
	Name         string   `json:"name"`
	Repeat       bool     `json:"repeat_of_earlier_request"`
	ReachedInner bool     `json:"reached_inner_while_others_in_flight"`
	LinesAtStart []string `json:"lines_when_started"`
	LinesAtEnd   []string `json:"lines_when_released"`
	Panic        string   `json:"panic,omitempty"`
}

func c12RunOverlap(c c12Case, res *c12Result) {
	parts := strings.Split(c.Variant, "/")
	seq, order := parts[0], parts[1]
	n := len(seq)
	names := map[byte]string{'a': c.Name, 'b': c.Name + "x", 'c': "other/" + c.Name}
	var buf bytes.Buffer
	inner := &c12ParkInner{entered: make(chan int), release: make([]chan struct{}, n+8)}
	for i := range inner.release {
		inner.release[i] = make(chan struct{})
	}
	handler := rawResponder(referenceServerChecks(inner, internal.NewPrinter(&buf)))
	consumed := 0
	newLines := func() []string { // only called while every started request is parked or finished
		text := buf.String()[consumed:]
		consumed = buf.Len()
		if text == "" {
			return nil
		}
		return strings.Split(strings.TrimSuffix(text, "\n"), "\n")
	}
	act := *c.Act
	exp := act.c12Side
	done := make([]chan string, n+8)
	// start: serve request id in its own goroutine; wait until it is parked in the inner handler or has returned.
	start := func(id int, name string) (reached bool, finished bool, pan string) {
		req := c12BuildRequest(act, c12ReqOpts{name: &name, exp: &exp})
		req.Header.Set("X-C12-Request-Id", strconv.Itoa(id))
		done[id] = make(chan string, 1)
		go func() {
			p := ""
			defer func() {
				if v := recover(); v != nil {
					p = fmt.Sprint(v)
				}
				done[id] <- p
			}()
			handler.ServeHTTP(httptest.NewRecorder(), req)
		}()
		select {
		case got := <-inner.entered:
			return got == id, false, ""
		case p := <-done[id]:
			return false, true, p
		}
	}
	obs := make([]c12OverlapObs, n)
	finished := make([]bool, n)
	seen := map[byte]bool{}
	for i := 0; i < n; i++ {
		ch := seq[i]
		o := &obs[i]
		o.Request, o.Name, o.Repeat = i+1, names[ch], seen[ch]
		o.ReachedInner, finished[i], o.Panic = start(i, names[ch])
		o.LinesAtStart = newLines()
		seen[ch] = true
		if o.Panic != "" {
			res.fail("panic:overlap", "middleware panicked: %s", o.Panic)
		}
		if !o.ReachedInner {
			res.fail("matching-request-not-served:overlap", "request #%d of %q (all aspects match) did not reach the inner handler while %d earlier request(s) were in flight", i+1, c.Variant, i)
		}
		c12PrefixOK(res, o.LinesAtStart, o.Name, "overlap")
		if o.Repeat && len(o.LinesAtStart) == 0 {
			res.fail("repeat-not-flagged:overlapping", "request #%d of %q repeats test %q while the earlier request(s) of the sequence are still in flight, but got no feedback", i+1, c.Variant, o.Name)
		}
		if !o.Repeat && len(o.LinesAtStart) != 0 {
			res.fail("false-feedback:repeat:overlapping", "request #%d of %q is the first for test %q but got feedback %q", i+1, c.Variant, o.Name, o.LinesAtStart)
		}
	}
	for _, d := range order {
		id := int(d - '0')
		if finished[id] {
			continue
		}
		close(inner.release[id])
		if p := <-done[id]; p != "" {
			obs[id].Panic = p
			res.fail("panic:overlap", "middleware panicked: %s", p)
		}
		finished[id] = true
		obs[id].LinesAtEnd = newLines()
		if len(obs[id].LinesAtEnd) != 0 {
			res.fail("false-feedback:overlap-release", "request #%d of %q matches in every aspect; when its handler returned, feedback %q appeared", id+1, c.Variant, obs[id].LinesAtEnd)
		}
	}
	// afterwards: every used name is now a repeat, a fresh one is not
	after := []c12OverlapObs{}
	id := n
	follow := func(name string, repeat bool) {
		o := c12OverlapObs{Request: id + 1, Name: name, Repeat: repeat}
		var fin bool
		o.ReachedInner, fin, o.Panic = start(id, name)
		o.LinesAtStart = newLines()
		if !fin {
			close(inner.release[id])
			o.Panic = <-done[id]
			o.LinesAtEnd = newLines()
		}
		id++
		if o.Panic != "" {
			res.fail("panic:overlap", "middleware panicked: %s", o.Panic)
		}
		c12PrefixOK(res, o.LinesAtStart, name, "overlap")
		if repeat && len(o.LinesAtStart) == 0 {
			res.fail("repeat-not-flagged:after-overlap", "after the overlapping requests of %q completed, one more request of test %q got no feedback", c.Variant, name)
		}
		if !repeat && len(o.LinesAtStart)+len(o.LinesAtEnd) != 0 {
			res.fail("false-feedback:repeat:after-overlap", "after %q, the first request of test %q got feedback %q %q", c.Variant, name, o.LinesAtStart, o.LinesAtEnd)
		}
		after = append(after, o)
	}
	for _, ch := range []byte("abc") {
		if seen[ch] {
			follow(names[ch], true)
		}
	}
	follow("fresh/"+c.Name, false)
	res.observed = map[string]any{"overlapping": obs, "afterwards": after}
	repeats := 0
	for _, o := range obs {
		if o.Repeat {
			repeats++
		}
	}
	res.outcome = fmt.Sprintf("overlap:requests=%d:repeats=%d", n, repeats)
}

// trailers: a fully matching POST whose body ends with HTTP trailers.
// Variant = "<eof|declared>/<drain|nodrain>".
func c12RunTrailers(c c12Case, res *c12Result) {
	rig := c12NewRig()
	name := c.Name
	parts := strings.Split(c.Variant, "/")
	rig.inner.drainBody = parts[1] == "drain"
	exp := c.Act.c12Side
	var holder *http.Request
	req := c12BuildRequest(*c.Act, c12ReqOpts{name: &name, exp: &exp, trailers: parts[0], holder: &holder})
	// the middleware replaces the request by a shallow copy (WithContext); net/http
	// delivers trailers into the map/field of the request the handler was given,
	// so the body writes to the original and the copy shares the Trailer map only
	// if it was allocated before. Allocate it up front as net/http's HTTP/2
	// server does (the map exists, is filled at EOF).
	if req.Trailer == nil {
		req.Trailer = http.Header{}
	}
	obs := rig.serve(req)
	res.observed = obs
	res.outcome = fmt.Sprintf("trailers:%s:lines=%s", c.Variant, c12Bucket(len(obs.Lines)))
	if obs.Panic != "" {
		res.fail("panic:trailers", "middleware panicked: %s", obs.Panic)
		return
	}
	c12PrefixOK(res, obs.Lines, name, "trailers")
	found := false
	for _, l := range obs.Lines {
		if strings.Contains(strings.ToLower(strings.TrimPrefix(l, name+": ")), "trailer") {
			found = true
		} else {
			res.fail("false-feedback:trailers", "request deviates only by carrying trailers, but got line %q", l)
		}
	}
	if !found {
		res.fail("trailers-not-flagged", "request with HTTP trailers (%s) produced no feedback about trailers; lines=%q", c.Variant, obs.Lines)
	}
}

// nameless: Variant = "absent" | "empty".
func c12RunNameless(c c12Case, res *c12Result) {
	rig := c12NewRig()
	exp := c.Act.c12Side
	o := c12ReqOpts{exp: &exp}
	if c.Variant == "empty" {
		empty := ""
		o.name = &empty
	}
	obs := rig.serve(c12BuildRequest(*c.Act, o))
	res.observed = obs
	if obs.Panic != "" {
		res.fail("panic:nameless", "middleware panicked: %s", obs.Panic)
		return
	}
	if obs.InnerCalls != 0 {
		res.fail("nameless-request-served", "request without test name (%s) reached the inner handler", c.Variant)
	}
	kind := c12ErrorKind(obs.rec)
	res.outcome = "nameless:" + c.Variant + ":" + kind
	if kind == "none" {
		res.fail("nameless-request-no-error", "request without test name (%s) got no error response: status=%d header=%v body=%q", c.Variant, obs.rec.Code, obs.rec.Header(), obs.rec.Body.String())
	}
}

// c12ErrorKind: how (if at all) the response signals an error: an HTTP error
// status, a non-zero grpc-status in headers/trailers, or a Connect streaming
// end-of-stream envelope carrying an error.
func c12ErrorKind(rec *httptest.ResponseRecorder) string {
	if rec.Code >= 400 {
		return "http-status"
	}
	for k, v := range rec.Header() {
		kk := strings.TrimPrefix(k, http.TrailerPrefix)
		if strings.EqualFold(kk, "Grpc-Status") && len(v) > 0 && v[0] != "0" && v[0] != "" {
			return "grpc-status"
		}
	}
	body := rec.Body.Bytes()
	if len(body) >= 5 && body[0]&0x02 != 0 && bytes.Contains(body[5:], []byte(`"error"`)) {
		return "connect-end-stream-error"
	}
	if len(body) >= 5 && body[0]&0x80 != 0 { // gRPC-Web trailers frame
		low := strings.ToLower(string(body[5:]))
		if i := strings.Index(low, "grpc-status:"); i >= 0 {
			v := strings.TrimSpace(strings.SplitN(low[i+len("grpc-status:"):], "\r\n", 2)[0])
			if v != "0" && v != "" {
				return "grpc-web-trailer-frame"
			}
		}
	}
	return "none"
}

// c12OverlapVariants: name sequences of length 2 and 3 (canonical: the first new
// name is a, the next b, then c) x all release orders.
func c12OverlapVariants() []string {
	var out []string
	for _, seq := range []string{"aa", "ab", "aaa", "aab", "aba", "abb", "abc"} {
		orders := []string{"01", "10"}
		if len(seq) == 3 {
			orders = []string{"012", "021", "102", "120", "201", "210"}
		}
		for _, o := range orders {
			out = append(out, seq+"/"+o)
		}
	}
	return out
}

// ---------------------------------------------------------------------------
// timeouts
// ---------------------------------------------------------------------------

var c12UnitNanos = map[byte]int64{
	'H': 3600 * 1000000000, 'M': 60 * 1000000000, 'S': 1000000000, 'm': 1000000, 'u': 1000, 'n': 1,
}

func c12AllDigits(s string) bool {
	if s == "" {
		return false
	}
	for i := 0; i < len(s); i++ {
		if s[i] < '0' || s[i] > '9' {
			return false
		}
	}
	return true
}

// c12Grammar: is s a timeout value of the protocol, and if so how many nanoseconds.
func c12Grammar(protocol int, s string) (bool, *big.Int) {
	if protocol == c12Connect {
		if !c12AllDigits(s) || len(s) > 10 {
			return false, nil
		}
		n, _ := new(big.Int).SetString(s, 10)
		return true, n.Mul(n, big.NewInt(1000000))
	}
	if len(s) < 2 || len(s) > 9 {
		return false, nil
	}
	unit, ok := c12UnitNanos[s[len(s)-1]]
	if !ok || !c12AllDigits(s[:len(s)-1]) {
		return false, nil
	}
	n, _ := new(big.Int).SetString(s[:len(s)-1], 10)
	return true, n.Mul(n, big.NewInt(unit))
}

func c12Saturate(ns *big.Int) (time.Duration, bool) {
	if ns.Cmp(big.NewInt(math.MaxInt64)) > 0 {
		return time.Duration(math.MaxInt64), true
	}
	return time.Duration(ns.Int64()), false
}

// c12InvalidClass names the way in which s is outside the grammar (for stable violation keys).
func c12InvalidClass(protocol int, s string) string {
	if s == "" {
		return "empty"
	}
	if strings.ContainsAny(s, "+-") {
		return "sign"
	}
	if strings.Contains(s, " ") {
		return "space"
	}
	body := s
	if protocol != c12Connect {
		last := s[len(s)-1]
		switch {
		case last >= '0' && last <= '9':
			if c12AllDigits(s) {
				return "missing-unit"
			}
		case c12UnitNanos[last] != 0:
			body = s[:len(s)-1]
		default:
			if c12AllDigits(s[:len(s)-1]) {
				return "bad-unit"
			}
			return "other"
		}
	}
	if body == "" {
		return "no-digits"
	}
	if c12AllDigits(body) {
		// the number itself is within the limit, only its zero-padded spelling is too long
		limit := 8
		if protocol == c12Connect {
			limit = 10
		}
		if sig := strings.TrimLeft(body, "0"); len(sig) <= limit {
			return "zero-padded-over-length"
		}
		return "too-many-digits"
	}
	return "other"
}

// c12TimeoutActual: the plain matching request of a protocol that carries the timeout header.
func c12TimeoutActual(protocol int) c12Actual {
	return c12Actual{c12Side: c12Side{Version: 2, Method: http.MethodPost, Protocol: protocol, Codec: 1, Compression: 1}}
}

type c12TimeoutObs struct {
	Lines         []string `json:"lines"`
	InnerCalls    int      `json:"inner_calls"`
	CtxTimeout    *int64   `json:"ctx_timeout_ns"`
	EchoMs        *int64   `json:"echo_ms"`
	HeaderAtInner []string `json:"header_at_inner"`
	HasDeadline   bool     `json:"has_deadline"`
	Panic         string   `json:"panic,omitempty"`
}

func c12RunTimeout(rig *c12Rig, c c12Case, res *c12Result) {
	act := c12TimeoutActual(c.Protocol)
	exp := act.c12Side
	name := c.Name
	pname := c12ProtocolNames[c.Protocol]
	obs := rig.serve(c12BuildRequest(act, c12ReqOpts{name: &name, exp: &exp, timeout: c.Timeout, bodyPayload: []byte{}}))
	to := c12TimeoutObs{Lines: obs.Lines, InnerCalls: obs.InnerCalls, Panic: obs.Panic}
	if rig.inner.ctx != nil {
		if d, ok := rig.inner.ctx.Value(timeoutContextKey{}).(time.Duration); ok {
			v := int64(d)
			to.CtxTimeout = &v
		}
		_, to.HasDeadline = rig.inner.ctx.Deadline()
		// what the RPC implementation echoes (impl.go calls createRequestInfo with the handler's context)
		info := createRequestInfo(rig.inner.ctx, rig.inner.header, nil, nil)
		if info.TimeoutMs != nil {
			v := info.GetTimeoutMs()
			to.EchoMs = &v
		}
		hname := "Grpc-Timeout"
		if c.Protocol == c12Connect {
			hname = "Connect-Timeout-Ms"
		}
		to.HeaderAtInner = rig.inner.header.Values(hname)
	}
	res.observed = to
	if obs.Panic != "" {
		res.fail("panic:timeout", "middleware panicked on timeout %q: %s", c12Str(c.Timeout), obs.Panic)
		return
	}
	c12PrefixOK(res, obs.Lines, name, "timeout")
	accepted := to.CtxTimeout != nil || to.EchoMs != nil
	if c.Timeout == nil {
		res.outcome = "timeout:" + pname + ":absent"
		if len(obs.Lines) != 0 {
			res.fail("false-feedback:no-timeout-header", "no timeout header, but feedback %q", obs.Lines)
		}
		if accepted || to.HasDeadline {
			res.fail("timeout-invented", "no timeout header, but a timeout is passed on: %+v", to)
		}
		return
	}
	s := *c.Timeout
	valid, ns := c12Grammar(c.Protocol, s)
	if !valid {
		class := c12InvalidClass(c.Protocol, s)
		if accepted {
			res.outcome = "timeout:" + pname + ":INVALID-ACCEPTED:" + class
			res.fail("timeout-grammar:accepts-"+class+":"+pname,
				"%s timeout %q is not in the protocol's grammar (%s) but was accepted: context timeout=%s echoed timeout_ms=%s feedback=%q",
				pname, s, class, c12I64(to.CtxTimeout), c12I64(to.EchoMs), obs.Lines)
			if len(to.HeaderAtInner) != 0 {
				res.fail("timeout-header-not-removed:invalid:"+pname, "%s timeout %q (not in the grammar: %s): header still present when the inner handler runs: %q", pname, s, class, to.HeaderAtInner)
			}
			return
		}
		res.outcome = "timeout:" + pname + ":rejected:" + class
		if len(obs.Lines) == 0 {
			res.fail("timeout-invalid-not-flagged:"+pname, "%s timeout %q is not in the grammar; it was dropped but no feedback names the test", pname, s)
		}
		if to.HasDeadline {
			res.fail("timeout-enforced:deadline-set", "invalid timeout %q produced a context deadline", s)
		}
		// "removed so the server does not enforce it": whatever the header says, the RPC layer behind the
		// middleware has a timeout parser of its own (more lenient than the grammar), so a header that is
		// present - valid or not - must be gone from the header map the inner handler gets
		if len(to.HeaderAtInner) != 0 {
			res.fail("timeout-header-not-removed:invalid:"+pname, "%s timeout %q is not in the grammar (%s); it was reported, but the header is still present when the inner handler runs: %q (the RPC layer would parse and enforce / refuse it)", pname, s, class, to.HeaderAtInner)
		}
		return
	}
	want, saturated := c12Saturate(ns)
	res.outcome = "timeout:" + pname + ":accepted"
	if saturated {
		res.outcome += ":saturated"
	}
	if !accepted {
		res.fail("timeout-grammar:rejects-valid:"+pname, "%s timeout %q follows the grammar but was not accepted; feedback=%q", pname, s, obs.Lines)
		return
	}
	if len(obs.Lines) != 0 {
		res.fail("false-feedback:valid-timeout:"+pname, "%s timeout %q follows the grammar but feedback was printed: %q", pname, s, obs.Lines)
	}
	if obs.InnerCalls != 1 {
		res.fail("matching-request-not-served", "inner handler called %d times for valid timeout %q", obs.InnerCalls, s)
	}
	if to.CtxTimeout == nil || time.Duration(*to.CtxTimeout) != want {
		res.fail("timeout-value:wrong-duration:"+pname, "%s timeout %q = %s ns exactly, want %d ns handed on (saturated=%v), got %s", pname, s, ns.String(), int64(want), saturated, c12I64(to.CtxTimeout))
	}
	wantMs := new(big.Int).Quo(big.NewInt(int64(want)), big.NewInt(1000000)).Int64()
	if to.EchoMs == nil || *to.EchoMs != wantMs {
		res.fail("timeout-value:wrong-echo:"+pname, "%s timeout %q: request info should echo timeout_ms=%d, got %s", pname, s, wantMs, c12I64(to.EchoMs))
	}
	if len(to.HeaderAtInner) != 0 {
		res.fail("timeout-header-not-removed:"+pname, "%s timeout header still present when the inner handler runs: %q", pname, to.HeaderAtInner)
	}
	if to.HasDeadline {
		res.fail("timeout-enforced:deadline-set", "valid timeout %q produced a context deadline (server would enforce it)", s)
	}
}

func c12Str(p *string) string {
	if p == nil {
		return "<absent>"
	}
	return *p
}

func c12I64(p *int64) string {
	if p == nil {
		return "<none>"
	}
	return strconv.FormatInt(*p, 10)
}

// alphabet, simplest first
var c12Alphabet = []byte("019HMSmun+- x")

func c12Pow(b, e int) int64 {
	r := int64(1)
	for i := 0; i < e; i++ {
		r *= int64(b)
	}
	return r
}

// c12NthString: the idx-th string of the given length over the alphabet (odometer order).
func c12NthString(alpha []byte, length int, idx int64, buf []byte) string {
	buf = buf[:length]
	for i := length - 1; i >= 0; i-- {
		buf[i] = alpha[idx%int64(len(alpha))]
		idx /= int64(len(alpha))
	}
	return string(buf)
}

// c12LongDigitStrings: digit strings of length 7..12. quick: two-run strings
// a^i b^(L-i) over {0,1,9}; thorough: every string over {0,1,9}.
func c12LongDigitStrings(thorough bool, yield func(string)) {
	digits := []byte("019")
	for l := 7; l <= 12; l++ {
		if thorough {
			buf := make([]byte, l)
			n := c12Pow(3, l)
			for i := int64(0); i < n; i++ {
				yield(c12NthString(digits, l, i, buf))
			}
			continue
		}
		seen := map[string]bool{}
		for _, a := range digits {
			for _, b := range digits {
				for i := 0; i <= l; i++ {
					s := strings.Repeat(string(a), i) + strings.Repeat(string(b), l-i)
					if !seen[s] {
						seen[s] = true
						yield(s)
					}
				}
			}
		}
	}
}

// c12BoundaryNumbers: numbers around the digit limits and around the point
// where digits x unit exceeds MaxInt64 ns (computed here with math/big).
func c12BoundaryNumbers() []string {
	set := map[string]bool{}
	add := func(n *big.Int) {
		if n.Sign() >= 0 {
			set[n.String()] = true
		}
	}
	maxI := big.NewInt(math.MaxInt64)
	for _, unit := range []int64{3600e9, 60e9, 1e9, 1e6, 1e3, 1} {
		q := new(big.Int).Quo(maxI, big.NewInt(unit))
		for d := int64(-2); d <= 2; d++ {
			add(new(big.Int).Add(q, big.NewInt(d)))
		}
	}
	for _, e := range []int{7, 8, 9, 10, 11, 12, 18, 19, 20} {
		p := new(big.Int).Exp(big.NewInt(10), big.NewInt(int64(e)), nil)
		for d := int64(-1); d <= 1; d++ {
			add(new(big.Int).Add(p, big.NewInt(d)))
		}
	}
	for _, e := range []uint{31, 32, 63, 64} {
		p := new(big.Int).Lsh(big.NewInt(1), e)
		for d := int64(-1); d <= 1; d++ {
			add(new(big.Int).Add(p, big.NewInt(d)))
		}
	}
	var out []string
	for s := range set {
		out = append(out, s)
		// zero-padded spellings of the same number up to 12 characters
		for l := len(s) + 1; l <= 12; l++ {
			out = append(out, strings.Repeat("0", l-len(s))+s)
		}
	}
	sort.Slice(out, func(i, j int) bool {
		if len(out[i]) != len(out[j]) {
			return len(out[i]) < len(out[j])
		}
		return out[i] < out[j]
	})
	return out
}

var c12Suffixes = []string{"", "H", "M", "S", "m", "u", "n", "x"}

// ---------------------------------------------------------------------------
// the test
// ---------------------------------------------------------------------------

func TestVerifC12(t *testing.T) {
	r := rep.New("c12-enum")
	defer r.Write()
	r.Rule = "matrix: every (expected side of 864) x (actual request a client can produce: 3 HTTP versions x {Connect POST unary, Connect POST stream, Connect GET, gRPC, gRPC-Web, bare gRPC/gRPC-Web content type} x 2 codecs x 6 compressions (+identity spelled out) x TLS/cert) pair, each a distinct request served by a fresh middleware; test NAMES as a dimension (name alphabet of %-verbs, %%, 100%, blanks, ':', ': ', quotes, backslash, braces, non-ASCII at the start / middle / end of the name and every ordered token pair, x one request per protocol x expected sides + repeat / history / overlap / trailers / bad timeout: every feedback line must start with exactly `<name>: `); plus per actual request: same name twice, name histories up to length 4, LONG histories (test T, N distinct other tests, T again, then the first / middle / last of the N again and a fresh name; N = 2^k-1, 2^k, 2^k+1 for k = 4..15 (thorough ..17) and 10^k-1, 10^k, 10^k+1 for k = 2..4 (thorough ..5): the first request of a name is never flagged, every later one is, at whatever distance), 2 and 3 requests in flight at the same time (inner handler parked on a channel; every assignment of same/different test names x every release order; per protocol, Connect also GET), HTTP trailers (2 delivery styles x body drained or not), test name absent/empty. timeouts: per protocol every string up to the tier's length over the 13-character alphabet {0,1,9,H,M,S,m,u,n,+,-,space,x}, digit strings of length 7..12 with every unit/no unit/bad unit, computed boundary numbers (digit limits, MaxInt64/unit +-2, zero padded). Every case is distinct by construction and counted as non-trivial; outcomes = observed classes (silent/flagged by number of deviating aspects, accepted/saturated/rejected by reason)"
	if err := c12EnumSanity(); err != nil {
		t.Fatal(err)
	}

	if data := rep.ReplayInput(); data != nil {
		var rj struct {
			Replay c12Case `json:"replay"`
		}
		if err := json.Unmarshal(data, &rj); err != nil {
			t.Fatal(err)
		}
		res := c12RunCase(rj.Replay)
		obs, _ := json.MarshalIndent(res.observed, "", " ")
		cj, _ := json.Marshal(rj.Replay)
		fmt.Printf("replay case: %s\noutcome: %s\nobserved: %s\n", cj, res.outcome, obs)
		for _, v := range res.verdicts {
			r.Violate(v.key, v.detail, rj.Replay)
			fmt.Printf("VERDICT %s: %s\n", v.key, v.detail)
		}
		r.Eval(1)
		return
	}

	// millions of short-lived requests: trade a little memory for fewer collections
	debug.SetGCPercent(800)
	thorough := rep.Thorough()
	deadline := rep.Deadline()
	var k int64
	stopped := false
	var checks int64
	budgetHit := func() bool {
		if stopped {
			return true
		}
		checks++ // counts this shard's own cases (k%512 would only ever be 0 in shard 0)
		if !deadline.IsZero() && checks%256 == 0 && time.Now().After(deadline) {
			stopped = true
			r.NotExhaustive("budget reached after " + strconv.FormatInt(k, 10) + " enumerated cases")
		}
		return stopped
	}
	sampled := map[string]bool{}
	record := func(c c12Case, res c12Result, sampleEvery int64) {
		r.Eval(1)
		r.NonTrivial("")
		r.Outcome(res.outcome)
		r.Count("cases:"+c.Kind, 1)
		if lo, ok := res.observed.(c12LongObs); ok {
			r.Count("longhist:requests", int64(lo.Requests))
		}
		if !sampled[c.Kind] || k%sampleEvery == 1 {
			sampled[c.Kind] = true
			r.Sample(map[string]any{"case": c, "observed": res.observed, "outcome": res.outcome})
		}
		for _, v := range res.verdicts {
			r.Violate(v.key, v.detail, c)
		}
	}
	run := func(c c12Case, sampleEvery int64) {
		k++
		if !r.Mine(k) || budgetHit() {
			return
		}
		c.Name = "C12 Suite/case-" + strconv.FormatInt(k, 10)
		record(c, c12RunCase(c), sampleEvery)
	}

	// runNamed: like run, but the test name is built from a name shape ('#' = the case number, which
	// keeps names unique per case).
	runNamed := func(c c12Case, shape string, sampleEvery int64) {
		k++
		if !r.Mine(k) || budgetHit() {
			return
		}
		c.Name = strings.ReplaceAll(shape, "#", strconv.FormatInt(k, 10))
		r.Count("cases:named:"+c.Kind, 1)
		record(c, c12RunCase(c), sampleEvery)
	}

	// ---- part 1: matrix and request-level deviations
	exps := c12ExpectedSides()
	acts := c12ActualSides()

	// ---- LONG name histories on one server: T, N distinct other tests, T again (+ repeats of some
	// of the N, + a fresh name), N around the powers of two and ten. quick: Connect, N up to 2^15+1 /
	// 10^4+1 (45 cases, 230k requests); thorough: every protocol, N up to 2^17+1 / 10^5+1. They come
	// first, so that a budget stop on a busy machine does not cost them, and longest first, so that
	// the long ones of a shard do not all come last.
	{
		maxPow2, maxPow10 := 15, 4
		protocols := []int{c12Connect}
		if thorough {
			maxPow2, maxPow10 = 17, 5
			protocols = []int{c12Connect, c12GRPC, c12GRPCWeb}
		}
		lengths := c12LongHistoryLengths(maxPow2, maxPow10)
		r.Extra["long_history_lengths"] = lengths
		for i := len(lengths) - 1; i >= 0; i-- {
			for _, p := range protocols {
				act := c12TimeoutActual(p)
				run(c12Case{Kind: "longhist", Act: &act, Variant: strconv.Itoa(lengths[i])}, 7)
			}
		}
	}

	// ---- part 0: the test NAME as a dimension. The name is client-supplied text; the property wants
	// the feedback to name the test case whatever the name looks like. Every name shape (token of the
	// name alphabet at the start / in the middle / at the end, every ordered pair of tokens in the
	// middle) x one request shape per protocol x expected sides, plus the request-level kinds.
	{
		shapes := c12NameShapes()
		r.Extra["name_shapes"] = len(shapes)
		r.Extra["name_tokens"] = c12NameTokens
		for si, shape := range shapes {
			single := si < c12NameSingleShapes
			for _, p := range []int{c12Connect, c12GRPC, c12GRPCWeb} {
				act := c12TimeoutActual(p)
				for ei := range exps {
					// single-token shapes: all expected sides; token pairs: every 29th (864 = 2^5*27, so
					// a stride of 29 walks through all aspects) plus the fully matching side
					if !single && ei%29 != (si+p)%29 && len(c12Disagree(exps[ei], act.c12Side)) != 0 {
						continue
					}
					exp := exps[ei]
					runNamed(c12Case{Kind: "matrix", Exp: &exp, Act: &act}, shape, 20011)
				}
				runNamed(c12Case{Kind: "repeat", Act: &act}, shape, 97)
				runNamed(c12Case{Kind: "trailers", Act: &act, Variant: "eof/drain"}, shape, 307)
				for _, v := range []string{"aa", "aba", "abca"} {
					runNamed(c12Case{Kind: "history", Act: &act, Variant: v}, shape, 53)
				}
				if single {
					for _, v := range []string{"aa/01", "aba/201"} {
						runNamed(c12Case{Kind: "overlap", Act: &act, Variant: v}, shape, 17)
					}
				}
				for _, to := range []string{"", "x", "-1", "1x"} {
					to := to
					runNamed(c12Case{Kind: "timeout", Protocol: p, Timeout: &to}, shape, 1009)
				}
			}
			if stopped {
				break
			}
		}
	}
	r.Extra["expected_sides"] = len(exps)
	r.Extra["actual_requests"] = len(acts)
	for ai := range acts {
		act := acts[ai]
		for ei := range exps {
			exp := exps[ei]
			run(c12Case{Kind: "matrix", Exp: &exp, Act: &act}, 50021)
		}
		run(c12Case{Kind: "repeat", Act: &act}, 97)
		for _, v := range []string{"absent", "empty"} {
			run(c12Case{Kind: "nameless", Act: &act, Variant: v}, 211)
		}
		if act.Method == http.MethodPost {
			for _, v := range []string{"eof/drain", "eof/nodrain", "declared/drain", "declared/nodrain"} {
				run(c12Case{Kind: "trailers", Act: &act, Variant: v}, 307)
			}
		}
		if stopped {
			break
		}
	}
	// name histories on one server (for one request shape per protocol)
	for _, p := range []int{c12Connect, c12GRPC, c12GRPCWeb} {
		act := c12TimeoutActual(p)
		for l := 1; l <= 4; l++ {
			buf := make([]byte, l)
			for i := int64(0); i < c12Pow(3, l); i++ {
				run(c12Case{Kind: "history", Act: &act, Variant: c12NthString([]byte("abc"), l, i, buf)}, 53)
			}
		}
	}

	// overlapping requests on one server: 2 and 3 requests in flight together, every assignment of
	// test names (same / different, canonical up to renaming) x every order of releasing the handlers
	for _, p := range []int{c12Connect, c12GRPC, c12GRPCWeb} {
		for _, method := range []string{http.MethodPost, http.MethodGet} {
			if method == http.MethodGet && p != c12Connect {
				continue
			}
			act := c12TimeoutActual(p)
			act.Method = method
			for _, v := range c12OverlapVariants() {
				run(c12Case{Kind: "overlap", Act: &act, Variant: v}, 17)
			}
		}
	}

	// ---- part 2: timeouts
	maxLen := 4
	if thorough {
		maxLen = 6
	}
	r.Extra["timeout_alphabet"] = string(c12Alphabet)
	r.Extra["timeout_max_len_exhaustive"] = maxLen
	rig := c12NewRig() // names are unique per case, so one server serves all timeout cases
	runTimeout := func(p int, s *string) {
		k++
		if !r.Mine(k) || budgetHit() {
			return
		}
		c := c12Case{Kind: "timeout", Protocol: p, Timeout: s, Name: "C12 Suite/case-" + strconv.FormatInt(k, 10)}
		var res c12Result
		c12RunTimeout(rig, c, &res)
		record(c, res, 100003)
	}
	for _, p := range []int{c12Connect, c12GRPC, c12GRPCWeb} {
		runTimeout(p, nil)
	}
	lenCompleted := -1
	sweep := func(from, to int) {
		for l := from; l <= to && !stopped; l++ {
			buf := make([]byte, l)
			n := c12Pow(len(c12Alphabet), l)
			for _, p := range []int{c12Connect, c12GRPC, c12GRPCWeb} {
				for i := int64(0); i < n && !stopped; i++ {
					if !r.Mine(k + 1) { // cheap skip without building the string
						k++
						continue
					}
					s := c12NthString(c12Alphabet, l, i, buf)
					runTimeout(p, &s)
				}
			}
			if !stopped {
				lenCompleted = l
			}
		}
	}
	sweep(0, 4)
	// digit limits, overflow boundaries, long digit strings (before the longer sweeps, so that a
	// budget stop costs the least interesting part)
	boundaries := c12BoundaryNumbers()
	for _, p := range []int{c12Connect, c12GRPC, c12GRPCWeb} {
		for _, d := range boundaries {
			for _, suf := range c12Suffixes {
				for _, sign := range []string{"", "+", "-"} {
					s := sign + d + suf
					runTimeout(p, &s)
				}
			}
		}
		c12LongDigitStrings(thorough, func(d string) {
			for _, suf := range c12Suffixes {
				if !r.Mine(k + 1) {
					k++
					continue
				}
				s := d + suf
				runTimeout(p, &s)
			}
		})
	}
	r.Extra["timeout_long_digit_strings_complete"] = !stopped
	sweep(5, maxLen)
	r.Extra["timeout_len_completed"] = lenCompleted
	r.Extra["enumerated_total_all_shards"] = k
}
