package referenceserver

// C20, agreement part — the same encoding name denotes the same algorithm in
// compression.GetCompressor / GetDecompressor (runner, raw-payload encoders),
// tracer.GetDecompressor (wire tracer), the reference server's
// checkCompression mapping (enum -> name on the wire), the constructor pairs the
// reference server and the reference client register with connect-go under a
// name, and the algorithm that name denotes in HTTP (independent codec of the
// underlying library: gzip = RFC 1952, deflate = zlib RFC 1950, br, zstd,
// snappy framing format).
//
// Complete enumeration: encodings (6 + UNSPECIFIED) x inputs (6) x producers x
// consumers, every pair must return the original bytes. The same pairs are run
// for the inputs that compress best (all-zero, one repeated byte, a short
// repeated pattern at sizes 2^k-1, 2^k, 2^k+1 up to 1 MiB): messages that expand
// thousands of times are ordinary messages for every decompressor of the tree.

import (
	"bytes"
	"compress/flate"
	"compress/gzip"
	"compress/zlib"
	"encoding/json"
	"fmt"
	"go/ast"
	"go/parser"
	"go/token"
	"io"
	"net/http"
	"net/url"
	"os"
	"path/filepath"
	"runtime/debug"
	"sort"
	"strings"
	"testing"
	"time"

	"connectrpc.com/conformance/internal"
	"connectrpc.com/conformance/internal/compression"
	conformancev1 "connectrpc.com/conformance/internal/gen/proto/go/connectrpc/conformance/v1"
	"connectrpc.com/conformance/internal/tracer"
	"connectrpc.com/conformance/internal/verif/rep"
	"connectrpc.com/connect"
	"github.com/andybalholm/brotli"
	"github.com/golang/snappy"
	"github.com/klauspost/compress/zstd"
)

type c20aEnc struct {
	Name string // name of the algorithm as an HTTP content-coding (property text / IANA)
	Enum conformancev1.Compression
}

func c20aEncs() []c20aEnc {
	return []c20aEnc{
		{"identity", conformancev1.Compression_COMPRESSION_IDENTITY},
		{"gzip", conformancev1.Compression_COMPRESSION_GZIP},
		{"deflate", conformancev1.Compression_COMPRESSION_DEFLATE},
		{"br", conformancev1.Compression_COMPRESSION_BR},
		{"zstd", conformancev1.Compression_COMPRESSION_ZSTD},
		{"snappy", conformancev1.Compression_COMPRESSION_SNAPPY},
	}
}

type c20aInput struct {
	Name string
	Data []byte
}

func c20aInputs() []c20aInput {
	all := make([]byte, 256)
	for i := range all {
		all[i] = byte(i)
	}
	rnd := make([]byte, 64*1024)
	x := uint64(0x0C20C20C20C20C20)
	for i := range rnd {
		x = x*6364136223846793005 + 1442695040888963407
		rnd[i] = byte(x >> 56)
	}
	return []c20aInput{
		{"empty", []byte{}},
		{"a", []byte("a")},
		{"ab300", bytes.Repeat([]byte("ab"), 300)},
		{"bytes256", all},
		{"lcg64k", rnd},
		{"text", []byte("The quick brown fox jumps over the lazy dog. The quick brown fox jumps over the lazy dog.")},
	}
}

// c20aRatioInput: a message that compresses extremely well (built on demand, up to 1 MiB [thorough 2 MiB]).
type c20aRatioInput struct {
	Name    string
	Pattern []byte
	Size    int
}

func (in c20aRatioInput) Make() []byte {
	out := make([]byte, in.Size)
	if len(in.Pattern) == 1 && in.Pattern[0] == 0 {
		return out
	}
	for i := 0; i < len(out); i += copy(out[i:], in.Pattern) {
	}
	return out
}

// c20aRatioInputs: patterns {all-zero, one repeated byte, a short repeated pattern [thorough: + 0xFF, 2-byte and
// 7-byte patterns]} x sizes {2^k-1, 2^k, 2^k+1 : k = 10..20 [..21]}, smallest first.
func c20aRatioInputs(thorough bool) []c20aRatioInput {
	type pat struct {
		name string
		b    []byte
	}
	pats := []pat{{"zeros", []byte{0}}, {"a", []byte("a")}, {"abc", []byte("abc")}}
	maxK := 20
	if thorough {
		pats = append(pats, pat{"ff", []byte{0xff}}, pat{"ab", []byte("ab")}, pat{"conform", []byte("conform")})
		maxK = 21
	}
	var out []c20aRatioInput
	for k := 10; k <= maxK; k++ {
		for _, d := range []int{-1, 0, 1} {
			for _, p := range pats {
				n := 1<<k + d
				out = append(out, c20aRatioInput{Name: fmt.Sprintf("ratio:%s:%d", p.name, n), Pattern: p.b, Size: n})
			}
		}
	}
	return out
}

func c20aGuard(f func()) (panicked string) {
	defer func() {
		if r := recover(); r != nil {
			panicked = fmt.Sprintf("%v\n%s", r, debug.Stack())
			if len(panicked) > 1500 {
				panicked = panicked[:1500]
			}
		}
	}()
	f()
	return ""
}

func c20aIndepEncode(name string, data []byte) ([]byte, error) {
	var buf bytes.Buffer
	var w io.WriteCloser
	switch name {
	case "identity":
		return append([]byte{}, data...), nil
	case "gzip":
		w = gzip.NewWriter(&buf)
	case "deflate":
		w = zlib.NewWriter(&buf)
	case "br":
		w = brotli.NewWriter(&buf)
	case "zstd":
		zw, err := zstd.NewWriter(&buf)
		if err != nil {
			return nil, err
		}
		w = zw
	case "snappy":
		w = snappy.NewBufferedWriter(&buf)
	default:
		return nil, fmt.Errorf("unknown encoding %q", name)
	}
	if _, err := w.Write(data); err != nil {
		return nil, err
	}
	if err := w.Close(); err != nil {
		return nil, err
	}
	return buf.Bytes(), nil
}

func c20aIndepDecode(name string, stream []byte) (out []byte, err error) {
	defer func() {
		if r := recover(); r != nil {
			err = fmt.Errorf("independent decoder panicked: %v", r)
		}
	}()
	src := bytes.NewReader(stream)
	switch name {
	case "identity":
		return append([]byte{}, stream...), nil
	case "gzip":
		zr, err := gzip.NewReader(src)
		if err != nil {
			return nil, err
		}
		return io.ReadAll(zr)
	case "deflate":
		zr, err := zlib.NewReader(src)
		if err != nil {
			return nil, err
		}
		return io.ReadAll(zr)
	case "br":
		return io.ReadAll(brotli.NewReader(src))
	case "zstd":
		zr, err := zstd.NewReader(src, zstd.WithDecoderConcurrency(1))
		if err != nil {
			return nil, err
		}
		defer zr.Close()
		return io.ReadAll(zr)
	case "snappy":
		return io.ReadAll(snappy.NewReader(src))
	}
	return nil, fmt.Errorf("unknown encoding %q", name)
}

func c20aCompress(c connect.Compressor, data []byte) (out []byte, err error) {
	var buf bytes.Buffer
	if p := c20aGuard(func() {
		c.Reset(&buf)
		if _, err = c.Write(data); err != nil {
			return
		}
		err = c.Close()
	}); p != "" {
		return nil, fmt.Errorf("panic: %s", p)
	}
	return buf.Bytes(), err
}

func c20aDecompress(d connect.Decompressor, stream []byte) (out []byte, err error) {
	if p := c20aGuard(func() {
		if err = d.Reset(bytes.NewBuffer(stream[:len(stream):len(stream)])); err != nil {
			return
		}
		out, err = io.ReadAll(d)
	}); p != "" {
		return nil, fmt.Errorf("panic: %s", p)
	}
	return out, err
}

// c20aCompressPooled uses the instance exactly as connect-go's compressionPool does (compression.go: Compress /
// putCompressor), for a first message and then for data: Reset(dst); src.WriteTo(compressor) with src a
// *bytes.Buffer - which does not call Write at all for an empty message -; Close; Reset(io.Discard).
func c20aCompressPooled(c connect.Compressor, data []byte) (out []byte, err error) {
	var first, buf bytes.Buffer
	if p := c20aGuard(func() {
		c.Reset(&first)
		if _, err = bytes.NewBufferString("first message of the pooled instance").WriteTo(c); err != nil {
			return
		}
		if err = c.Close(); err != nil {
			return
		}
		c.Reset(io.Discard)
		c.Reset(&buf)
		if _, err = bytes.NewBuffer(data[:len(data):len(data)]).WriteTo(c); err != nil {
			return
		}
		if err = c.Close(); err != nil {
			return
		}
		c.Reset(io.Discard)
	}); p != "" {
		return nil, fmt.Errorf("panic: %s", p)
	}
	return buf.Bytes(), err
}

// c20aDecompressPooled: as connect-go's compressionPool.Decompress / putDecompressor, for a first message
// (firstStream, a valid message of the encoding) and then for stream: Reset(src); read; Close; Reset(http.NoBody).
func c20aDecompressPooled(d connect.Decompressor, firstStream, stream []byte) (out []byte, err error) {
	if p := c20aGuard(func() {
		if err = d.Reset(bytes.NewBuffer(firstStream[:len(firstStream):len(firstStream)])); err != nil {
			err = fmt.Errorf("first message of the pooled instance: Reset: %w", err)
			return
		}
		if _, err = io.ReadAll(d); err != nil {
			err = fmt.Errorf("first message of the pooled instance: %w", err)
			return
		}
		_ = d.Close()
		_ = d.Reset(http.NoBody)
		if err = d.Reset(bytes.NewBuffer(stream[:len(stream):len(stream)])); err != nil {
			return
		}
		var sink bytes.Buffer
		_, err = sink.ReadFrom(d) // what connect-go does (data.ReadFrom(reader))
		out = sink.Bytes()
		_ = d.Close()
		_ = d.Reset(http.NoBody)
	}); p != "" {
		return nil, fmt.Errorf("panic: %s", p)
	}
	return out, err
}

// ---------------------------------------------------------------------------
// what the peers register with connect-go (read from the source of the tree under check)

type c20aReg struct {
	Where     string   // "server" | "client"
	Call      string   // WithCompression | WithAcceptCompression
	NameConst string   // identifier in package compression, e.g. "Brotli"
	Dec, Comp string   // constructor identifiers in package compression ("" = nil)
	CaseEnums []string // client: enum constants of the enclosing case clause
	SendConst []string // client: names passed to WithSendCompression in the same clause ("<gzip>" for WithSendGzip)
	Pos       string
}

var c20aNameConsts = map[string]string{
	"Identity": compression.Identity, "Gzip": compression.Gzip, "Brotli": compression.Brotli,
	"Deflate": compression.Deflate, "Snappy": compression.Snappy, "Zstd": compression.Zstd,
}

var c20aDecCtors = map[string]func() connect.Decompressor{
	"NewBrotliDecompressor": compression.NewBrotliDecompressor, "NewDeflateDecompressor": compression.NewDeflateDecompressor,
	"NewSnappyDecompressor": compression.NewSnappyDecompressor, "NewZstdDecompressor": compression.NewZstdDecompressor,
}

var c20aCompCtors = map[string]func() connect.Compressor{
	"NewBrotliCompressor": compression.NewBrotliCompressor, "NewDeflateCompressor": compression.NewDeflateCompressor,
	"NewSnappyCompressor": compression.NewSnappyCompressor, "NewZstdCompressor": compression.NewZstdCompressor,
}

func c20aSel(e ast.Expr, pkg string) string {
	if s, ok := e.(*ast.SelectorExpr); ok {
		if x, ok := s.X.(*ast.Ident); ok && x.Name == pkg {
			return s.Sel.Name
		}
	}
	return ""
}

func c20aCallsIn(fset *token.FileSet, where string, n ast.Node, caseEnums []string) (regs []c20aReg) {
	var sends []string
	ast.Inspect(n, func(x ast.Node) bool {
		call, ok := x.(*ast.CallExpr)
		if !ok {
			return true
		}
		switch fn := c20aSel(call.Fun, "connect"); fn {
		case "WithCompression", "WithAcceptCompression":
			if len(call.Args) != 3 {
				return true
			}
			reg := c20aReg{Where: where, Call: fn, NameConst: c20aSel(call.Args[0], "compression"),
				Dec: c20aSel(call.Args[1], "compression"), Comp: c20aSel(call.Args[2], "compression"),
				CaseEnums: caseEnums, Pos: fset.Position(call.Pos()).String()}
			if reg.NameConst == "" {
				reg.NameConst = "?" + fmt.Sprint(call.Args[0])
			}
			for i, a := range call.Args[1:] {
				if id, ok := a.(*ast.Ident); ok && id.Name == "nil" {
					continue
				}
				if c20aSel(a, "compression") == "" {
					if i == 0 {
						reg.Dec = "?"
					} else {
						reg.Comp = "?"
					}
				}
			}
			regs = append(regs, reg)
		case "WithSendCompression":
			if len(call.Args) == 1 {
				sends = append(sends, c20aSel(call.Args[0], "compression"))
			}
		case "WithSendGzip":
			sends = append(sends, "Gzip")
		}
		return true
	})
	for i := range regs {
		regs[i].SendConst = sends
	}
	if len(regs) == 0 && len(sends) > 0 {
		regs = append(regs, c20aReg{Where: where, Call: "send-only", CaseEnums: caseEnums, SendConst: sends})
	}
	return regs
}

func c20aRegistrations(repo string) (server, client []c20aReg, err error) {
	fset := token.NewFileSet()
	sf, err := parser.ParseFile(fset, filepath.Join(repo, "internal/app/referenceserver/server.go"), nil, 0)
	if err != nil {
		return nil, nil, err
	}
	server = c20aCallsIn(fset, "server", sf, nil)
	cf, err := parser.ParseFile(fset, filepath.Join(repo, "internal/app/referenceclient/client.go"), nil, 0)
	if err != nil {
		return nil, nil, err
	}
	// the switch over req.Compression: one clause per enum value
	ast.Inspect(cf, func(x ast.Node) bool {
		sw, ok := x.(*ast.SwitchStmt)
		if !ok || sw.Tag == nil {
			return true
		}
		if s, ok := sw.Tag.(*ast.SelectorExpr); !ok || s.Sel.Name != "Compression" {
			return true
		}
		for _, st := range sw.Body.List {
			cc, ok := st.(*ast.CaseClause)
			if !ok {
				continue
			}
			var enums []string
			for _, e := range cc.List {
				enums = append(enums, c20aSel(e, "conformancev1"))
			}
			for _, b := range cc.Body {
				client = append(client, c20aCallsIn(fset, "client", b, enums)...)
			}
		}
		return false
	})
	return server, client, nil
}

// ---------------------------------------------------------------------------
// the enum -> wire name mapping of the reference server, observed through checkCompression

type c20aPrinter struct{ lines []string }

func (p *c20aPrinter) Printf(msg string, args ...any) {
	p.lines = append(p.lines, fmt.Sprintf(msg, args...))
}
func (p *c20aPrinter) PrefixPrintf(prefix, msg string, args ...any) {
	p.lines = append(p.lines, prefix+": "+fmt.Sprintf(msg, args...))
}

var _ internal.Printer = (*c20aPrinter)(nil)

type c20aForm struct {
	Name, Method, ContentType, Header string
}

func c20aForms() []c20aForm {
	return []c20aForm{
		{"connect-unary-post", http.MethodPost, "application/proto", "Content-Encoding"},
		{"connect-unary-get", http.MethodGet, "", "?compression"},
		{"connect-stream", http.MethodPost, "application/connect+proto", "Connect-Content-Encoding"},
		{"grpc", http.MethodPost, "application/grpc", "Grpc-Encoding"},
		{"grpc-web", http.MethodPost, "application/grpc-web+proto", "Grpc-Encoding"},
	}
}

const c20aAbsent = "<absent>"

// c20aAccepted returns the candidate names for which checkCompression(enum) is silent.
func c20aAccepted(enum conformancev1.Compression, form c20aForm, candidates []string) (acc []string, panicked string) {
	for _, cand := range candidates {
		req := &http.Request{Method: form.Method, Header: http.Header{}, URL: &url.URL{Path: "/x"}}
		if form.ContentType != "" {
			req.Header.Set("Content-Type", form.ContentType)
		}
		if cand != c20aAbsent {
			if form.Method == http.MethodGet {
				req.URL.RawQuery = url.Values{"compression": {cand}}.Encode()
			} else {
				req.Header.Set(form.Header, cand)
			}
		}
		pr := &c20aPrinter{}
		if p := c20aGuard(func() { checkCompression(enum, req, &feedbackPrinter{p: pr, testCaseName: "c20"}) }); p != "" {
			return nil, p
		}
		if len(pr.lines) == 0 {
			acc = append(acc, cand)
		}
	}
	return acc, ""
}

// ---------------------------------------------------------------------------

const c20aPooledSuffix = " [pooled instance, 2nd message]"

type c20aParty struct {
	Label string
	Src   string // "enum" | "tracer" | "raw" | "server-reg" | "client-reg" | "connect-default" | "independent"
	Enc   func(data []byte) ([]byte, error)
	Dec   func(stream []byte) ([]byte, error)
	// constructors, where the party is an instance of connect.Compressor / connect.Decompressor: the party is then
	// also run as a POOLED instance (second message of an instance that went through connect-go's pool)
	NewComp func() (connect.Compressor, error)
	NewDec  func() (connect.Decompressor, error)
}

type c20aCase struct {
	Enc      string `json:"enc"`
	Input    string `json:"input"`
	Producer string `json:"producer"`
	Consumer string `json:"consumer"`
}

func TestVerifC20Agree(t *testing.T) {
	r := rep.New("c20-agree")
	defer r.Write()
	r.Rule = "for each of the 6 encodings (and UNSPECIFIED) x 6 inputs: every producer {compression.GetCompressor(enum), internal.WriteRawMessageContents(enum), constructor registered by reference server / client under the name, connect-go default for gzip, independent encoder of the algorithm the HTTP name denotes} x every consumer " +
		"{compression.GetDecompressor(enum), tracer.GetDecompressor(name) and upper-cased name, registered constructors, independent decoder}; name = the one checkCompression accepts for the enum on each of 5 request forms (14 candidate names); " +
		"every producer / consumer that is a connect.Compressor / Decompressor instance also as a POOLED instance (2nd message after Reset(dst) WriteTo Close Reset(io.Discard) resp. Reset(src) read Close Reset(http.NoBody), as connect-go's compressionPool; bytes.Buffer.WriteTo = no Write call for the empty message); " +
		"a (producer, consumer) pair is non-trivial when the two come from different sources; cross-decodes by the other 5 algorithms recorded as outcomes; " +
		"the same producer x consumer pairs for the extreme-ratio inputs {all-zero, repeated 'a', repeated 'abc' [thorough + 0xFF, 'ab', 'conform']} x sizes {2^k-1, 2^k, 2^k+1 : k = 10..20 [..21]} (expansion ratio classes recorded as outcomes)"
	var replayOnly *c20aCase
	if data := rep.ReplayInput(); data != nil {
		var file struct {
			Replay c20aCase `json:"replay"`
		}
		if err := json.Unmarshal(data, &file); err != nil {
			t.Fatalf("replay file: %v", err)
		}
		replayOnly = &file.Replay
		if replayOnly.Input == "" {
			// a finding of the static part (wire names, registrations): the whole unit is cheap, re-run it
			fmt.Printf("C20 replay of %+v: re-running the complete agreement unit\n", *replayOnly)
			replayOnly = nil
		}
	}
	replayMatched := false
	deadline := rep.Deadline()
	ratioBudgetHit := false
	repo := os.Getenv("VERIF_REPO")
	if repo == "" {
		repo = "../../.."
	}
	serverRegs, clientRegs, err := c20aRegistrations(repo)
	if err != nil {
		r.NotExhaustive("registrations could not be read from source: " + err.Error())
	}
	r.Count("server-registrations", int64(len(serverRegs)))
	r.Count("client-registrations", int64(len(clientRegs)))
	if r.Shard == 0 {
		r.Extra["server_registrations"] = serverRegs
		r.Extra["client_registrations"] = clientRegs
	}

	for _, reg := range append(append([]c20aReg{}, serverRegs...), clientRegs...) {
		if _, ok := c20aNameConsts[reg.NameConst]; !ok && reg.Call != "send-only" {
			r.NotExhaustive("registration under a name that is not a constant of package compression: " + reg.NameConst + " at " + reg.Pos)
		}
	}
	candidates := []string{c20aAbsent, "identity", "gzip", "deflate", "br", "zstd", "snappy", "", "x-gzip", "flate", "zlib", "brotli", "zstandard", "x-snappy-framed", "GZIP"}
	enumByName := map[string]string{} // enum constant name -> HTTP name expected by the property
	for _, e := range c20aEncs() {
		enumByName[e.Enum.String()] = e.Name
		enumByName["Compression_"+e.Enum.String()] = e.Name
	}
	var k int64
	for _, enc := range c20aEncs() {
		// 1. enum -> name on the wire
		if replayOnly == nil {
			for _, form := range c20aForms() {
				k++
				if !r.Mine(k) {
					continue
				}
				acc, p := c20aAccepted(enc.Enum, form, candidates)
				want := []string{enc.Name}
				if enc.Name == "identity" {
					want = []string{c20aAbsent, "identity"}
				}
				r.Eval(int64(len(candidates)))
				r.NonTrivial("wire-name:" + enc.Name + ":" + form.Name)
				r.Outcome("wire-name:" + enc.Name + "=" + strings.Join(acc, ","))
				if p != "" {
					r.Violate("panic:"+enc.Name, "checkCompression panicked: "+p, c20aCase{Enc: enc.Name, Producer: "checkCompression", Consumer: form.Name})
				} else if strings.Join(acc, "|") != strings.Join(want, "|") {
					r.Violate("name-mismatch:"+enc.Name, fmt.Sprintf("reference server checkCompression(%v) on a %s request accepts the names %q in %s; the property/IANA name of this algorithm is %q",
						enc.Enum, form.Name, acc, form.Header, want), c20aCase{Enc: enc.Name, Producer: "checkCompression", Consumer: form.Name})
				}
			}
			if v := c20aNameConsts[map[string]string{"identity": "Identity", "gzip": "Gzip", "deflate": "Deflate", "br": "Brotli", "zstd": "Zstd", "snappy": "Snappy"}[enc.Name]]; v != enc.Name {
				r.Violate("name-mismatch:"+enc.Name, fmt.Sprintf("constant in package compression for %s has the value %q", enc.Name, v), c20aCase{Enc: enc.Name, Producer: "const"})
			}
		}

		// 2. parties
		enum := enc.Enum
		name := enc.Name
		parties := []c20aParty{
			{Label: "independent:" + name, Src: "independent",
				Enc: func(d []byte) ([]byte, error) { return c20aIndepEncode(name, d) },
				Dec: func(s []byte) ([]byte, error) { return c20aIndepDecode(name, s) }},
			{Label: "compression.Get(" + enum.String() + ")", Src: "enum",
				NewComp: func() (connect.Compressor, error) { return compression.GetCompressor(enum) },
				NewDec:  func() (connect.Decompressor, error) { return compression.GetDecompressor(enum) },
				Enc: func(d []byte) ([]byte, error) {
					c, err := compression.GetCompressor(enum)
					if err != nil {
						return nil, err
					}
					return c20aCompress(c, d)
				},
				Dec: func(s []byte) ([]byte, error) {
					d, err := compression.GetDecompressor(enum)
					if err != nil {
						return nil, err
					}
					return c20aDecompress(d, s)
				}},
			{Label: "tracer.GetDecompressor(" + name + ")", Src: "tracer",
				NewDec: func() (connect.Decompressor, error) { return tracer.GetDecompressor(name), nil },
				Dec: func(s []byte) ([]byte, error) { return c20aDecompress(tracer.GetDecompressor(name), s) }},
			{Label: "tracer.GetDecompressor(" + strings.ToUpper(name) + ")", Src: "tracer",
				Dec: func(s []byte) ([]byte, error) {
					return c20aDecompress(tracer.GetDecompressor(strings.ToUpper(name)), s)
				}},
			{Label: "internal.WriteRawMessageContents(" + enum.String() + ")", Src: "raw",
				Enc: func(d []byte) (out []byte, err error) {
					var buf bytes.Buffer
					if p := c20aGuard(func() {
						err = internal.WriteRawMessageContents(&conformancev1.MessageContents{
							Data: &conformancev1.MessageContents_Binary{Binary: d}, Compression: enum,
						}, &buf)
					}); p != "" {
						return nil, fmt.Errorf("panic: %s", p)
					}
					return buf.Bytes(), err
				}},
		}
		if name == "identity" {
			parties = append(parties, c20aParty{Label: "compression.Get(COMPRESSION_UNSPECIFIED)", Src: "enum",
				NewComp: func() (connect.Compressor, error) {
					return compression.GetCompressor(conformancev1.Compression_COMPRESSION_UNSPECIFIED)
				},
				NewDec: func() (connect.Decompressor, error) {
					return compression.GetDecompressor(conformancev1.Compression_COMPRESSION_UNSPECIFIED)
				},
				Enc: func(d []byte) ([]byte, error) {
					c, err := compression.GetCompressor(conformancev1.Compression_COMPRESSION_UNSPECIFIED)
					if err != nil {
						return nil, err
					}
					return c20aCompress(c, d)
				},
				Dec: func(s []byte) ([]byte, error) {
					d, err := compression.GetDecompressor(conformancev1.Compression_COMPRESSION_UNSPECIFIED)
					if err != nil {
						return nil, err
					}
					return c20aDecompress(d, s)
				}},
				c20aParty{Label: "tracer.GetDecompressor(\"\")", Src: "tracer",
					Dec: func(s []byte) ([]byte, error) { return c20aDecompress(tracer.GetDecompressor(""), s) }})
		}
		if name == "gzip" {
			// connect-go registers gzip itself (compress/gzip); neither peer overrides it
			parties = append(parties, c20aParty{Label: "connect-go default gzip", Src: "connect-default",
				NewComp: func() (connect.Compressor, error) { return gzip.NewWriter(io.Discard), nil },
				NewDec:  func() (connect.Decompressor, error) { return &gzip.Reader{}, nil },
				Enc: func(d []byte) ([]byte, error) { return c20aCompress(gzip.NewWriter(io.Discard), d) },
				Dec: func(s []byte) ([]byte, error) { return c20aDecompress(&gzip.Reader{}, s) }})
		}
		// registered constructor pairs
		addReg := func(reg c20aReg) {
			lbl := fmt.Sprintf("%s %s(compression.%s, %s, %s)", reg.Where, reg.Call, reg.NameConst, reg.Dec, reg.Comp)
			p := c20aParty{Label: lbl, Src: reg.Where + "-reg"}
			if reg.Dec != "" {
				ctor := c20aDecCtors[reg.Dec]
				if ctor == nil {
					r.NotExhaustive("unknown decompressor constructor " + reg.Dec + " at " + reg.Pos)
				} else {
					p.Dec = func(s []byte) ([]byte, error) { return c20aDecompress(ctor(), s) }
					p.NewDec = func() (connect.Decompressor, error) { return ctor(), nil }
				}
			}
			if reg.Comp != "" {
				ctor := c20aCompCtors[reg.Comp]
				if ctor == nil {
					r.NotExhaustive("unknown compressor constructor " + reg.Comp + " at " + reg.Pos)
				} else {
					p.Enc = func(d []byte) ([]byte, error) { return c20aCompress(ctor(), d) }
					p.NewComp = func() (connect.Compressor, error) { return ctor(), nil }
				}
			}
			if p.Dec != nil || p.Enc != nil {
				parties = append(parties, p)
			}
		}
		nServer := 0
		for _, reg := range serverRegs {
			if v, ok := c20aNameConsts[reg.NameConst]; ok && v == name {
				nServer++
				addReg(reg)
			}
		}
		nClient := 0
		for _, reg := range clientRegs {
			// the clause that handles this enum value
			handles := false
			for _, e := range reg.CaseEnums {
				if enumByName[e] == name {
					handles = true
				}
			}
			if !handles {
				continue
			}
			nClient++
			if replayOnly == nil && r.Shard == 0 {
				if reg.Call == "WithAcceptCompression" {
					if v := c20aNameConsts[reg.NameConst]; v != name {
						r.Violate("name-mismatch:"+name, fmt.Sprintf("reference client, case %v: WithAcceptCompression registers the constructors under the name %q (compression.%s); the name of this algorithm is %q (%s)",
							reg.CaseEnums, v, reg.NameConst, name, reg.Pos), c20aCase{Enc: name, Producer: "client-registration"})
					}
				}
				for _, s := range reg.SendConst {
					if v := c20aNameConsts[s]; v != name {
						r.Violate("name-mismatch:"+name, fmt.Sprintf("reference client, case %v: sends with compression name %q (compression.%s); the name of this algorithm is %q",
							reg.CaseEnums, v, s, name), c20aCase{Enc: name, Producer: "client-send-name"})
					}
				}
				if len(reg.SendConst) == 0 && name != "identity" {
					r.Violate("name-mismatch:"+name, fmt.Sprintf("reference client, case %v: no WithSendCompression/WithSendGzip for %q", reg.CaseEnums, name), c20aCase{Enc: name, Producer: "client-send-name"})
				}
			}
			if reg.Call == "WithAcceptCompression" {
				addReg(reg)
			}
		}
		if replayOnly == nil && r.Shard == 0 && err == nil {
			switch name {
			case "identity", "gzip": // built into connect-go
			default:
				if nServer == 0 {
					r.Violate("unregistered:"+name, "the reference server registers no constructor pair under the name "+name, c20aCase{Enc: name, Producer: "server-registration"})
				}
				if nClient == 0 {
					r.Violate("unregistered:"+name, "the reference client has no case registering "+name, c20aCase{Enc: name, Producer: "client-registration"})
				}
			}
			r.Outcome(fmt.Sprintf("registrations:%s:server=%d,client=%d", name, nServer, nClient))
		}

		// every party that is a connect.Compressor / connect.Decompressor instance also as a pooled instance: the
		// message is the SECOND one of an instance used and parked exactly as connect-go's compressionPool does
		// (Reset(io.Discard) / Close + Reset(http.NoBody) between the uses, bytes.Buffer.WriteTo = no Write call at
		// all for the empty message)
		firstStream, firstErr := c20aIndepEncode(name, []byte("first message of the pooled instance"))
		if firstErr != nil {
			t.Fatalf("independent encoder %s: %v", name, firstErr)
		}
		for _, p := range append([]c20aParty{}, parties...) {
			if p.NewComp == nil && p.NewDec == nil {
				continue
			}
			pp := c20aParty{Label: p.Label + c20aPooledSuffix, Src: p.Src}
			if newComp := p.NewComp; newComp != nil {
				pp.Enc = func(d []byte) ([]byte, error) {
					c, err := newComp()
					if err != nil {
						return nil, err
					}
					return c20aCompressPooled(c, d)
				}
			}
			if newDec := p.NewDec; newDec != nil {
				pp.Dec = func(s []byte) ([]byte, error) {
					d, err := newDec()
					if err != nil {
						return nil, err
					}
					return c20aDecompressPooled(d, firstStream, s)
				}
			}
			parties = append(parties, pp)
		}

		// 3. all pairs
		for _, in := range c20aInputs() {
			for _, prod := range parties {
				if prod.Enc == nil {
					continue
				}
				var stream []byte
				var encErr error
				encoded := false
				for _, cons := range parties {
					if cons.Dec == nil {
						continue
					}
					k++
					cs := c20aCase{Enc: name, Input: in.Name, Producer: prod.Label, Consumer: cons.Label}
					if replayOnly != nil {
						if *replayOnly != cs {
							continue
						}
					} else if !r.Mine(k) {
						continue
					}
					replayMatched = true
					if !encoded {
						stream, encErr = prod.Enc(in.Data)
						encoded = true
					}
					r.Eval(1)
					if prod.Src != cons.Src {
						r.NonTrivial(fmt.Sprintf("%s|%s|%s|%s", name, in.Name, prod.Label, cons.Label))
					}
					if k%97 == 1 {
						r.Sample(cs)
					}
					var got []byte
					var decErr error
					if encErr == nil {
						got, decErr = cons.Dec(stream)
					}
					ok := encErr == nil && decErr == nil && bytes.Equal(got, in.Data)
					if replayOnly != nil {
						fmt.Printf("C20 replay %+v:\n stream (%d bytes) = %x\n enc_err=%v dec_err=%v got %d bytes identical=%v\n", cs, len(stream), stream[:min(len(stream), 64)], encErr, decErr, len(got), ok)
					}
					if ok {
						r.Outcome("agree:" + name + ":ok")
						continue
					}
					key := "name-mismatch:" + name
					if (encErr != nil && strings.HasPrefix(encErr.Error(), "panic:")) || (decErr != nil && strings.HasPrefix(decErr.Error(), "panic:")) {
						key = "panic:" + name
					}
					hint := ""
					if name == "deflate" && encErr == nil {
						if raw, e2 := io.ReadAll(flate.NewReader(bytes.NewReader(stream))); e2 == nil && bytes.Equal(raw, in.Data) {
							hint = " (the stream is raw RFC 1951 flate, not the zlib format HTTP calls deflate)"
						}
					}
					r.Outcome("agree:" + key)
					r.Violate(key, fmt.Sprintf("encoding %q, input %s: what [%s] emits (%d bytes, err=%v) is decoded by [%s] to %d bytes, err=%v, identical=%v; want the %d original bytes%s",
						name, in.Name, prod.Label, len(stream), encErr, cons.Label, len(got), decErr, bytes.Equal(got, in.Data), len(in.Data), hint), cs)
				}
				// non-vacuity: the other algorithms do not decode this stream to the input
				if replayOnly == nil && encoded && encErr == nil && prod.Src == "enum" && len(in.Data) > 0 && name != "identity" {
					var others []string
					for _, other := range c20aEncs() {
						if other.Name == name || other.Name == "identity" {
							continue
						}
						got, derr := c20aIndepDecode(other.Name, stream)
						if derr == nil && bytes.Equal(got, in.Data) {
							others = append(others, other.Name)
						}
					}
					sort.Strings(others)
					r.Outcome("cross-decode:" + name + ":also-decoded-by=[" + strings.Join(others, ",") + "]")
				}
			}
		}

		// 4. extreme expansion ratios: "any input" includes the inputs that compress best. Every decompressor the
		// tree hands out under the name (compression.GetDecompressor, tracer.GetDecompressor, the registered
		// constructors) must be the exact inverse also for messages that expand thousands of times: all-zero, one
		// repeated byte, a short repeated pattern, at sizes 2^k-1, 2^k, 2^k+1.
		for _, in := range c20aRatioInputs(rep.Thorough()) {
			for _, prod := range parties {
				if prod.Enc == nil {
					continue
				}
				if strings.HasSuffix(prod.Label, c20aPooledSuffix) {
					continue // this part is about the consumers (all of them, plain and pooled); the streams come from the plain producers
				}
				k++ // one shard item = one (input, producer): the message is built and compressed once
				if replayOnly != nil {
					if replayOnly.Enc != name || replayOnly.Input != in.Name || replayOnly.Producer != prod.Label {
						continue
					}
				} else if !r.Mine(k) {
					continue
				}
				if !deadline.IsZero() && time.Now().After(deadline) {
					if !ratioBudgetHit {
						r.NotExhaustive("budget reached in the extreme-ratio inputs at enc=" + name + " input=" + in.Name)
						ratioBudgetHit = true
					}
					continue
				}
				data := in.Make()
				stream, encErr := prod.Enc(data)
				if encErr == nil && len(stream) > 0 {
					ratio := len(data) / len(stream)
					class := "<=1032x"
					switch {
					case ratio > 1032 && len(data) > 64*1024:
						class = ">1032x and >64KiB"
					case ratio > 1032:
						class = ">1032x"
					case ratio > 100:
						class = ">100x"
					}
					r.Outcome("ratio:" + name + ":" + class)
					r.Count("ratio-streams", 1)
				}
				for _, cons := range parties {
					if cons.Dec == nil {
						continue
					}
					cs := c20aCase{Enc: name, Input: in.Name, Producer: prod.Label, Consumer: cons.Label}
					if replayOnly != nil && *replayOnly != cs {
						continue
					}
					replayMatched = true
					r.Eval(1)
					r.Count("ratio-pairs", 1)
					if prod.Src != cons.Src {
						r.NonTrivial(fmt.Sprintf("%s|%s|%s|%s", name, in.Name, prod.Label, cons.Label))
					}
					if k%197 == 1 && cons.Src == "tracer" {
						r.Sample(cs)
					}
					var got []byte
					var decErr error
					if encErr == nil {
						got, decErr = cons.Dec(stream)
					}
					ok := encErr == nil && decErr == nil && bytes.Equal(got, data)
					if replayOnly != nil {
						fmt.Printf("C20 replay %+v:\n message %d bytes, stream (%d bytes) = %x\n enc_err=%v dec_err=%v got %d bytes identical=%v\n", cs, len(data), len(stream), stream[:min(len(stream), 64)], encErr, decErr, len(got), ok)
					}
					if ok {
						r.Outcome("agree:" + name + ":ok")
						continue
					}
					key := "name-mismatch:" + name
					what := ""
					switch {
					case (encErr != nil && strings.HasPrefix(encErr.Error(), "panic:")) || (decErr != nil && strings.HasPrefix(decErr.Error(), "panic:")):
						key = "panic:" + name
					case encErr == nil && decErr == nil && len(got) < len(data) && bytes.Equal(got, data[:len(got)]):
						// the consumer is the right algorithm but stops early without an error
						key = "truncated-without-error:" + name
						what = fmt.Sprintf(" (a strict PREFIX of the message, no error: the message expands %dx)", len(data)/max(len(stream), 1))
					}
					r.Outcome("agree:" + key)
					r.Violate(key, fmt.Sprintf("encoding %q, input %s (%d bytes): what [%s] emits (%d bytes, err=%v) is decoded by [%s] to %d bytes, err=%v, identical=%v; want the %d original bytes%s",
						name, in.Name, len(data), prod.Label, len(stream), encErr, cons.Label, len(got), decErr, bytes.Equal(got, data), len(data), what), cs)
				}
			}
		}
	}
	if replayOnly != nil && !replayMatched {
		fmt.Printf("C20 replay: the pair %+v does not exist in this tree (producer/consumer labels are derived from the registrations found in the source)\n", *replayOnly)
	}
}
