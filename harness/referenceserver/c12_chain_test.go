// C12, unit c12-chain — the same truth table as c12-enum's matrix, but through
// the handler chain that createServer really installs (BidiStream HTTP/1.1
// wrapper, mux, referenceServerChecks, rawResponder, CORS, h2c) and over real
// connections: the servers createServer returns are started on 127.0.0.1:0 and
// spoken to with net/http's HTTP/1.1 client and x/net/http2's client (h2c with
// prior knowledge, and h2 over TLS). Every RPC procedure path of the
// conformance service is requested in every protocol shape, so that anything
// the chain does per procedure (such as the BidiStream-over-HTTP/1.1 trick)
// is seen by the checks exactly as in a conformance run.
//
// Oracle: c12JudgeMatrix (c12_test.go), i.e. the property text. Feedback is the
// text the real printer writes for the server (its stderr); lines are
// attributed to requests by the unique test name they must start with, after
// the server has been shut down gracefully (so nothing is in flight).
package referenceserver

import (
	"bytes"
	"context"
	"crypto/tls"
	"encoding/json"
	"fmt"
	"io"
	"net"
	"net/http"
	"strconv"
	"strings"
	"sync"
	"testing"
	"time"

	"connectrpc.com/conformance/internal"
	"connectrpc.com/conformance/internal/compression"
	conformancev1 "connectrpc.com/conformance/internal/gen/proto/go/connectrpc/conformance/v1"
	"connectrpc.com/conformance/internal/gen/proto/go/connectrpc/conformance/v1/conformancev1connect"
	"connectrpc.com/conformance/internal/verif/rep"
	"golang.org/x/net/http2"
	"google.golang.org/protobuf/encoding/protojson"
	"google.golang.org/protobuf/proto"
)

// c12ChainCase is the replay value of one request through the real chain.
type c12ChainCase struct {
	Kind      string    `json:"kind"` // "chain"
	Name      string    `json:"name"`
	Conn      string    `json:"conn"`      // label of c12Conns
	Procedure string    `json:"procedure"` // Unary, IdempotentUnary, ...
	Exp       c12Side   `json:"exp"`
	Act       c12Actual `json:"act"`
	Timeout   *string   `json:"timeout,omitempty"` // kind "chain-timeout": value of the protocol's timeout header
}

// c12Conn: how the client reaches which server. Version and TLS are what is
// actually on the wire (an HTTP/2 server also accepts HTTP/1.1 connections).
type c12Conn struct {
	Label   string
	Server  string // key of the server: "<version>/<tls>"
	Version int    // the client's HTTP version
	TLS     bool
}

//nolint:gochecknoglobals
var (
	c12Conns = []c12Conn{
		{"h1", "1/plain", 1, false},
		{"h2c", "2/plain", 2, false},
		{"h1-on-h2-server", "2/plain", 1, false},
		{"h1-tls", "1/tls", 1, true},
		{"h2-tls", "2/tls", 2, true},
		{"h1-on-h2-tls-server", "2/tls", 1, true},
	}
	c12Procedures = []struct{ Name, Path string }{
		{"Unary", conformancev1connect.ConformanceServiceUnaryProcedure},
		{"IdempotentUnary", conformancev1connect.ConformanceServiceIdempotentUnaryProcedure},
		{"ClientStream", conformancev1connect.ConformanceServiceClientStreamProcedure},
		{"ServerStream", conformancev1connect.ConformanceServiceServerStreamProcedure},
		{"BidiStream", conformancev1connect.ConformanceServiceBidiStreamProcedure},
		{"Unimplemented", conformancev1connect.ConformanceServiceUnimplementedProcedure},
	}
)

type c12SyncBuf struct {
	mu  sync.Mutex
	buf bytes.Buffer
}

func (b *c12SyncBuf) Write(p []byte) (int, error) {
	b.mu.Lock()
	defer b.mu.Unlock()
	return b.buf.Write(p)
}

func (b *c12SyncBuf) String() string {
	b.mu.Lock()
	defer b.mu.Unlock()
	return b.buf.String()
}

type c12ChainServer struct {
	srv    httpServer
	stderr *c12SyncBuf
	addr   string
	tls    bool
	done   chan error
	// one client per HTTP version
	h1 *http.Client
	h2 *http.Client
}

type c12Creds struct{ cert, key []byte }

// c12StartServer: createServer in reference mode, exactly as run() calls it
// (no tracer), listening on an ephemeral loopback port.
func c12StartServer(version int, useTLS bool, creds *c12Creds) (*c12ChainServer, error) {
	req := &conformancev1.ServerCompatRequest{
		Protocol:    conformancev1.Protocol_PROTOCOL_CONNECT,
		HttpVersion: conformancev1.HTTPVersion(version),
		UseTls:      useTLS,
	}
	if useTLS {
		req.ServerCreds = &conformancev1.TLSCreds{Cert: creds.cert, Key: creds.key}
	}
	cs := &c12ChainServer{stderr: &c12SyncBuf{}, tls: useTLS, done: make(chan error, 1)}
	srv, _, err := createServer(req, "127.0.0.1:0", "", "", true, internal.NewPrinter(cs.stderr), nil)
	if err != nil {
		return nil, err
	}
	cs.srv = srv
	cs.addr = srv.Addr()
	go func() { cs.done <- srv.Serve() }()
	clientTLS := &tls.Config{InsecureSkipVerify: true} //nolint:gosec // loopback test server with a throw-away certificate
	cs.h1 = &http.Client{Timeout: 30 * time.Second, Transport: &http.Transport{
		TLSClientConfig: clientTLS.Clone(),
		// HTTP/1.1 only
		TLSNextProto:        map[string]func(string, *tls.Conn) http.RoundTripper{},
		MaxIdleConnsPerHost: 2,
	}}
	if useTLS {
		h2tls := clientTLS.Clone()
		h2tls.NextProtos = []string{"h2"}
		cs.h2 = &http.Client{Timeout: 30 * time.Second, Transport: &http2.Transport{TLSClientConfig: h2tls}}
	} else {
		cs.h2 = &http.Client{Timeout: 30 * time.Second, Transport: &http2.Transport{
			AllowHTTP: true, // h2c with prior knowledge
			DialTLSContext: func(ctx context.Context, network, addr string, _ *tls.Config) (net.Conn, error) {
				var d net.Dialer
				return d.DialContext(ctx, network, addr)
			},
		}}
	}
	return cs, nil
}

// stop closes the client connections, shuts the server down gracefully (all
// handlers have returned afterwards) and returns everything it printed.
func (cs *c12ChainServer) stop() string {
	cs.h1.CloseIdleConnections()
	cs.h2.CloseIdleConnections()
	_ = cs.srv.GracefulShutdown(10 * time.Second)
	select {
	case <-cs.done:
	case <-time.After(10 * time.Second):
	}
	return cs.stderr.String()
}

// c12ChainBody: a well-formed empty request message in the framing of the shape.
func c12ChainBody(act c12Actual) ([]byte, error) {
	msg := []byte{}
	if act.Codec == 2 {
		msg = []byte("{}")
	}
	if act.Protocol == c12Connect && !act.Stream {
		if act.Compression == 1 {
			return msg, nil
		}
		comp, err := compression.GetCompressor(conformancev1.Compression(act.Compression))
		if err != nil {
			return nil, err
		}
		var out bytes.Buffer
		comp.Reset(&out)
		if _, err := comp.Write(msg); err != nil {
			return nil, err
		}
		if err := comp.Close(); err != nil {
			return nil, err
		}
		return out.Bytes(), nil
	}
	// enveloped: one uncompressed message (per-message compression is optional)
	env := []byte{0, 0, 0, 0, byte(len(msg))}
	return append(env, msg...), nil
}

type c12ChainObs struct {
	Lines       []string    `json:"lines"`
	Status      int         `json:"status"`
	RespProto   string      `json:"response_proto"`
	TransportEr string      `json:"transport_error,omitempty"`
	Timeout     *c12ChainTO `json:"timeout_answer,omitempty"` // kind "chain-timeout" only
}

// c12ChainDo sends one request; feedback lines are collected later.
func c12ChainDo(cs *c12ChainServer, conn c12Conn, c *c12ChainCase) (c12ChainObs, error) {
	var obs c12ChainObs
	name := c.Name
	syn := c12BuildRequest(c.Act, c12ReqOpts{name: &name, exp: &c.Exp}) // headers and query as in c12-enum
	scheme := "http"
	if cs.tls {
		scheme = "https"
	}
	path := ""
	for _, p := range c12Procedures {
		if p.Name == c.Procedure {
			path = p.Path
		}
	}
	if path == "" {
		return obs, fmt.Errorf("unknown procedure %q", c.Procedure)
	}
	target := scheme + "://" + cs.addr + path
	if syn.URL.RawQuery != "" {
		target += "?" + syn.URL.RawQuery
	}
	var body io.Reader
	if c.Act.Method == http.MethodPost {
		payload, err := c12ChainBody(c.Act)
		if err != nil {
			return obs, err
		}
		body = bytes.NewReader(payload)
	}
	req, err := http.NewRequest(c.Act.Method, target, body) //nolint:noctx
	if err != nil {
		return obs, err
	}
	req.Header = syn.Header.Clone()
	client := cs.h1
	if conn.Version == 2 {
		client = cs.h2
	}
	resp, err := client.Do(req)
	if err != nil {
		obs.TransportEr = err.Error()
		return obs, nil
	}
	_, _ = io.Copy(io.Discard, resp.Body)
	_ = resp.Body.Close()
	obs.Status = resp.StatusCode
	obs.RespProto = resp.Proto
	if resp.ProtoMajor != conn.Version {
		return obs, fmt.Errorf("connection %s answered with %s", conn.Label, resp.Proto)
	}
	return obs, nil
}

// c12ChainDoRetry: a transport error (connection reset, keep-alive race, client
// timeout on a busy machine) says nothing about what the server saw, so such an
// observation is inconclusive. The request is sent again, under a fresh test name
// (a second request of the same name would itself be a deviation), at most three
// more times; a server that persistently gives no response is still judged as such.
// c.Name is the name of the attempt that is judged.
func c12ChainDoRetry(cs *c12ChainServer, conn c12Conn, c *c12ChainCase, k int64) (c12ChainObs, int, error) {
	c12ChainDo := c12ChainDo
	if c.Kind == "chain-timeout" {
		c12ChainDo = c12ChainTimeoutDo
	}
	obs, err := c12ChainDo(cs, conn, c)
	retries := 0
	for err == nil && obs.TransportEr != "" && retries < 3 {
		retries++
		first := obs.TransportEr
		c.Name = c12ChainPrefix + strconv.FormatInt(k+int64(retries)*c12ChainRetryBase, 10)
		obs, err = c12ChainDo(cs, conn, c)
		if obs.TransportEr != "" {
			obs.TransportEr = first + " | retry: " + obs.TransportEr
		}
	}
	return obs, retries, err
}

const (
	c12ChainPrefix    = "C12 Chain/case-"
	c12ChainRetryBase = int64(1) << 40 // far above any case number
)

// c12ChainSplit attributes the server's output to test names; the second
// result are lines that do not start with "<a test name of this run>: ".
func c12ChainSplit(output string) (map[string][]string, []string) {
	byName := map[string][]string{}
	var stray []string
	if output == "" {
		return byName, nil
	}
	for _, line := range strings.Split(strings.TrimSuffix(output, "\n"), "\n") {
		ok := false
		if strings.HasPrefix(line, c12ChainPrefix) {
			rest := line[len(c12ChainPrefix):]
			i := 0
			for i < len(rest) && rest[i] >= '0' && rest[i] <= '9' {
				i++
			}
			if i > 0 && strings.HasPrefix(rest[i:], ": ") {
				name := c12ChainPrefix + rest[:i]
				byName[name] = append(byName[name], line)
				ok = true
			}
		}
		if !ok {
			stray = append(stray, line)
		}
	}
	return byName, stray
}

func c12ChainJudge(c *c12ChainCase, obs c12ChainObs) c12Result {
	if c.Kind == "chain-timeout" {
		return c12ChainTimeoutJudge(c, obs)
	}
	var res c12Result
	res.observed = obs
	dis := c12Disagree(c.Exp, c.Act.c12Side)
	res.outcome = fmt.Sprintf("chain:%s:deviating-aspects=%d:lines=%s", c.Conn, len(dis), c12Bucket(len(obs.Lines)))
	served := 1
	if obs.TransportEr != "" {
		served = 0
		res.outcome += ":no-response"
	}
	c12JudgeMatrix(&res, c.Name, c.Exp, c.Act, obs.Lines, &served, ":chain:"+c.Procedure)
	if obs.TransportEr != "" {
		for i := range res.verdicts {
			res.verdicts[i].detail += " [the client got no response, also when the request was repeated under fresh names: " + obs.TransportEr + "]"
		}
	}
	return res
}

// c12ChainExpected: the expected sides. quick: 3 versions x GET/POST x 3
// protocols x 2 codecs x {identity, gzip} x {plain, TLS}; thorough: all six
// compressions and TLS with a client certificate expected.
func c12ChainExpected(thorough bool) []c12Side {
	maxZ := 2
	if thorough {
		maxZ = 6
	}
	var out []c12Side
	for _, v := range []int{1, 2, 3} {
		for _, m := range []string{http.MethodPost, http.MethodGet} {
			for _, p := range []int{1, 2, 3} {
				for _, c := range []int{1, 2} {
					for z := 1; z <= maxZ; z++ {
						out = append(out, c12Side{v, m, p, c, z, false, false}, c12Side{v, m, p, c, z, true, false})
						if thorough {
							out = append(out, c12Side{v, m, p, c, z, true, true})
						}
					}
				}
			}
		}
	}
	return out
}

type c12ChainActual struct {
	Conn      c12Conn
	Procedure string
	Act       c12Actual
}

// c12ChainActuals: connection kind x procedure x protocol shape x codec x compression.
func c12ChainActuals(thorough bool) []c12ChainActual {
	maxZ := 2
	if thorough {
		maxZ = 6
	}
	var out []c12ChainActual
	for _, conn := range c12Conns {
		for _, proc := range c12Procedures {
			for _, c := range []int{1, 2} {
				for z := 1; z <= maxZ; z++ {
					add := func(m string, p int, stream bool) {
						out = append(out, c12ChainActual{conn, proc.Name, c12Actual{
							c12Side: c12Side{conn.Version, m, p, c, z, conn.TLS, false}, Stream: stream,
						}})
					}
					add(http.MethodPost, c12Connect, false)
					add(http.MethodPost, c12Connect, true)
					add(http.MethodGet, c12Connect, false)
					add(http.MethodPost, c12GRPC, false)
					add(http.MethodPost, c12GRPCWeb, false)
				}
			}
		}
	}
	return out
}

func TestVerifC12Chain(t *testing.T) {
	r := rep.New("c12-chain")
	defer r.Write()
	r.Rule = "every (connection kind of 6: HTTP/1.1 and h2c / h2 clients against the HTTP/1.1 and HTTP/2 reference servers that createServer builds, plain and TLS) x (RPC procedure path of 6) x (Connect unary POST, Connect stream POST, Connect GET, gRPC, gRPC-Web) x 2 codecs x compressions, each against every expected side (3 versions x GET/POST x 3 protocols x 2 codecs x compressions x TLS [x client cert]); one real request per pair with a unique test name; all pairs are distinct and non-trivial; outcomes = connection kind x number of deviating aspects x number of feedback lines"
	if err := c12EnumSanity(); err != nil {
		t.Fatal(err)
	}
	thorough := rep.Thorough()

	var creds *c12Creds
	servers := map[string]*c12ChainServer{}
	serverFor := func(conn c12Conn) *c12ChainServer {
		if cs := servers[conn.Server]; cs != nil {
			return cs
		}
		version := 1
		if strings.HasPrefix(conn.Server, "2/") {
			version = 2
		}
		if conn.TLS && creds == nil {
			cert, key, err := internal.NewServerCert()
			if err != nil {
				t.Fatalf("server certificate: %v", err)
			}
			creds = &c12Creds{cert, key}
		}
		cs, err := c12StartServer(version, conn.TLS, creds)
		if err != nil {
			t.Fatalf("createServer(%s): %v", conn.Server, err)
		}
		servers[conn.Server] = cs
		return cs
	}
	connByLabel := map[string]c12Conn{}
	for _, c := range c12Conns {
		connByLabel[c.Label] = c
	}

	if data := rep.ReplayInput(); data != nil {
		var rj struct {
			Replay c12ChainCase `json:"replay"`
		}
		if err := json.Unmarshal(data, &rj); err != nil {
			t.Fatal(err)
		}
		c := rj.Replay
		conn, ok := connByLabel[c.Conn]
		if !ok {
			t.Fatalf("replay: unknown connection kind %q", c.Conn)
		}
		cs := serverFor(conn)
		obs, _, err := c12ChainDoRetry(cs, conn, &c, 1)
		if err != nil {
			t.Fatal(err)
		}
		byName, stray := c12ChainSplit(cs.stop())
		obs.Lines = byName[c.Name]
		res := c12ChainJudge(&c, obs)
		oj, _ := json.MarshalIndent(obs, "", " ")
		cj, _ := json.Marshal(c)
		fmt.Printf("replay case: %s\noutcome: %s\nobserved: %s\nother output of the server: %q\n", cj, res.outcome, oj, stray)
		for _, v := range res.verdicts {
			r.Violate(v.key, v.detail, c)
			fmt.Printf("VERDICT %s: %s\n", v.key, v.detail)
		}
		r.Eval(1)
		return
	}

	exps := c12ChainExpected(thorough)
	acts := c12ChainActuals(thorough)
	r.Extra["expected_sides"] = len(exps)
	r.Extra["actual_requests"] = len(acts)
	r.Extra["connection_kinds"] = len(c12Conns)
	r.Extra["procedures"] = len(c12Procedures)

	deadline := rep.Deadline()
	type done struct {
		c   c12ChainCase
		obs c12ChainObs
	}
	var all []done
	var k int64
	stopped := false
	// ---- timeout headers through the chain: connection kind x (procedure, protocol shape, codec) x value.
	// They come first (a few thousand requests), so that a budget stop of the matrix on a busy machine does not cost them.
	var timeoutCases int64
	for _, conn := range c12Conns {
		if stopped {
			break
		}
		for _, a := range c12ChainTimeoutShapes(conn) {
			for _, v := range c12ChainTimeoutValues(a.Act.Protocol, thorough) {
				k++
				timeoutCases++
				if !r.Mine(k) || stopped {
					continue
				}
				if !deadline.IsZero() && time.Now().After(deadline) {
					stopped = true
					r.NotExhaustive("budget reached after " + strconv.FormatInt(k, 10) + " enumerated requests (timeout headers)")
					continue
				}
				c := c12ChainCase{
					Kind: "chain-timeout", Name: c12ChainPrefix + strconv.FormatInt(k, 10),
					Conn: conn.Label, Procedure: a.Procedure, Exp: a.Act.c12Side, Act: a.Act, Timeout: v,
				}
				obs, retries, err := c12ChainDoRetry(serverFor(conn), conn, &c, k)
				if err != nil {
					t.Fatalf("case %+v: %v", c, err)
				}
				if retries > 0 {
					r.Count("chain:requests-repeated-after-transport-error", int64(retries))
				}
				all = append(all, done{c, obs})
			}
		}
	}
	r.Extra["timeout_requests_all_shards"] = timeoutCases
outer:
	for ai := range acts {
		a := acts[ai]
		for ei := range exps {
			k++
			if !r.Mine(k) {
				continue
			}
			if !deadline.IsZero() && len(all)%128 == 0 && time.Now().After(deadline) {
				stopped = true
				r.NotExhaustive("budget reached after " + strconv.FormatInt(k, 10) + " enumerated requests")
				break outer
			}
			c := c12ChainCase{
				Kind: "chain", Name: c12ChainPrefix + strconv.FormatInt(k, 10),
				Conn: a.Conn.Label, Procedure: a.Procedure, Exp: exps[ei], Act: a.Act,
			}
			obs, retries, err := c12ChainDoRetry(serverFor(a.Conn), a.Conn, &c, k)
			if err != nil {
				t.Fatalf("case %+v: %v", c, err)
			}
			if retries > 0 {
				r.Count("chain:requests-repeated-after-transport-error", int64(retries))
			}
			all = append(all, done{c, obs})
		}
	}
	r.Extra["enumerated_total_all_shards"] = k
	r.Extra["stopped_early"] = stopped

	// all handlers have returned once the servers are shut down
	byName := map[string][]string{}
	for key, cs := range servers {
		names, stray := c12ChainSplit(cs.stop())
		for n, l := range names {
			byName[n] = append(byName[n], l...)
		}
		if len(stray) > 0 {
			var first any = map[string]any{"kind": "chain-stray", "server": key}
			for i := range all {
				if connByLabel[all[i].c.Conn].Server == key {
					first = all[i].c // replay: a request to that server; its other output is printed
					break
				}
			}
			r.Violate("feedback-without-test-name:chain", fmt.Sprintf("server %s printed %d line(s) that do not start with the name of a test, e.g. %q", key, len(stray), stray[0]), first)
		}
	}
	sampled := map[string]bool{}
	for i := range all {
		d := &all[i]
		d.obs.Lines = byName[d.c.Name]
		res := c12ChainJudge(&d.c, d.obs)
		r.Eval(1)
		r.NonTrivial("")
		r.Outcome(res.outcome)
		r.Count("cases:"+d.c.Kind+":"+d.c.Procedure, 1)
		if d.obs.TransportEr != "" {
			r.Count("chain:no-response", 1)
		}
		if d.c.Kind == "chain-timeout" && !sampled["chain-timeout"] && d.c.Timeout != nil {
			sampled["chain-timeout"] = true
			r.Sample(map[string]any{"case": d.c, "observed": d.obs, "outcome": res.outcome})
		} else if !sampled[d.c.Conn+d.c.Procedure] && len(sampled) < 6 && (len(d.obs.Lines) > 0) == (len(sampled)%2 == 0) {
			sampled[d.c.Conn+d.c.Procedure] = true
			r.Sample(map[string]any{"case": d.c, "observed": d.obs, "outcome": res.outcome})
		}
		for _, v := range res.verdicts {
			r.Violate(v.key, v.detail, d.c)
		}
	}
}

// ---------------------------------------------------------------------------
// timeout headers through the real chain (case kind "chain-timeout")
//
// c12-enum judges extractTimeout behind a recorder; here the timeout alphabet
// goes through createServer's chain INTO connect-go, whose own timeout parsers
// (more lenient than the protocol grammars: signs, zero-padded numbers of any
// length) run right behind the checks middleware. Observed on the wire: the
// feedback, whether the RPC was carried out, and the request info the RPC
// implementation echoes (timeout_ms, request_headers).
// ---------------------------------------------------------------------------

type c12ChainTO struct {
	RPCError   string   `json:"rpc_error,omitempty"` // "" = the RPC was carried out
	Decoded    bool     `json:"response_decoded"`
	EchoMs     *int64   `json:"echo_timeout_ms"`
	HeaderEcho []string `json:"timeout_header_among_echoed_request_headers,omitempty"`
}

func c12TimeoutHeaderName(protocol int) string {
	if protocol == c12Connect {
		return "Connect-Timeout-Ms"
	}
	return "Grpc-Timeout"
}

// c12ChainTimeoutValues: what is put into the timeout header, per protocol; simplest first.
func c12ChainTimeoutValues(protocol int, thorough bool) []*string {
	var vals []string
	if protocol == c12Connect {
		vals = []string{
			// in the grammar (1..10 digits)
			"0", "1", "30000", "0000000001", "9999999999", "0030000",
			// outside: signs, too many digits (zero-padded or not), units, empty, garbage, blanks
			"+30000", "-30000", "+0", "-0", "-1", "00000030000", "12345678901", "99999999999999999999",
			"", "soon", "30S", "30000ms", "1.5", "0x10", "1e3", "3 0", "+", " 30000", "30000 ", " +30000", "30_000",
		}
		if thorough {
			vals = append(vals, "9", "10", "00000000000", "+9999999999", "--1", "+-1", "30000+", "3+0", "\t30000", "30000\t", "0000000000000000000000000030000", "NaN", "٣٠")
		}
	} else {
		vals = []string{
			// in the grammar (1..8 digits, one unit)
			"0n", "1n", "1S", "30S", "00000030S", "99999999H", "1H", "100m", "5u", "2M", "0S",
			// outside
			"+30S", "-30S", "+0S", "-1n", "0000000030S", "000000001m", "123456789S", "30", "S", "30s", "30X", "30h",
			"", "soon", "3 0S", "30 S", "1.5S", "30SS", "+30", "30Sx", " 30S", "30S ", " +30S", "3_0S",
		}
		if thorough {
			vals = append(vals, "9u", "99999999n", "0000000000n", "+99999999H", "--1S", "30S+", "3+0S", "\t30S", "30S\t", "000000000000000000000030S", "Hm", "30µ", "30ms")
		}
	}
	out := []*string{nil}
	for i := range vals {
		out = append(out, &vals[i])
	}
	return out
}

// c12ChainTimeoutShapes: (procedure, request shape) pairs whose answer carries the request info
// without a response definition in the request.
func c12ChainTimeoutShapes(conn c12Conn) []c12ChainActual {
	var out []c12ChainActual
	for _, codec := range []int{1, 2} {
		add := func(proc, m string, p int, stream bool) {
			out = append(out, c12ChainActual{conn, proc, c12Actual{
				c12Side: c12Side{conn.Version, m, p, codec, 1, conn.TLS, false}, Stream: stream,
			}})
		}
		add("Unary", http.MethodPost, c12Connect, false)
		add("IdempotentUnary", http.MethodGet, c12Connect, false)
		add("ClientStream", http.MethodPost, c12Connect, true)
		add("Unary", http.MethodPost, c12GRPCWeb, false)
		add("ClientStream", http.MethodPost, c12GRPCWeb, false)
		if conn.Version == 2 { // gRPC needs HTTP/2
			add("Unary", http.MethodPost, c12GRPC, false)
			add("ClientStream", http.MethodPost, c12GRPC, false)
		}
	}
	return out
}

// c12ChainTimeoutDo sends the one request and reads the answer.
func c12ChainTimeoutDo(cs *c12ChainServer, conn c12Conn, c *c12ChainCase) (c12ChainObs, error) {
	var obs c12ChainObs
	name := c.Name
	syn := c12BuildRequest(c.Act, c12ReqOpts{name: &name, exp: &c.Exp, timeout: c.Timeout})
	scheme := "http"
	if cs.tls {
		scheme = "https"
	}
	path := ""
	for _, p := range c12Procedures {
		if p.Name == c.Procedure {
			path = p.Path
		}
	}
	if path == "" {
		return obs, fmt.Errorf("unknown procedure %q", c.Procedure)
	}
	target := scheme + "://" + cs.addr + path
	var body io.Reader
	if c.Act.Method == http.MethodGet {
		msg := "" // the empty message, base64url
		if c.Act.Codec == 2 {
			msg = "e30" // {}
		}
		target += "?connect=v1&encoding=" + c12CodecNames[c.Act.Codec] + "&base64=1&message=" + msg
	} else {
		payload, err := c12ChainBody(c.Act)
		if err != nil {
			return obs, err
		}
		body = bytes.NewReader(payload)
	}
	req, err := http.NewRequest(c.Act.Method, target, body) //nolint:noctx
	if err != nil {
		return obs, err
	}
	req.Header = syn.Header.Clone()
	client := cs.h1
	if conn.Version == 2 {
		client = cs.h2
	}
	resp, err := client.Do(req)
	if err != nil {
		obs.TransportEr = err.Error()
		return obs, nil
	}
	data, rerr := io.ReadAll(resp.Body)
	_ = resp.Body.Close()
	obs.Status = resp.StatusCode
	obs.RespProto = resp.Proto
	if rerr != nil {
		obs.TransportEr = "reading the response body: " + rerr.Error()
		return obs, nil
	}
	to := c12ChainParseAnswer(c, resp, data)
	obs.Timeout = &to
	return obs, nil
}

// c12ChainParseAnswer: RPC outcome and echoed request info from a response in the protocol of c.
func c12ChainParseAnswer(c *c12ChainCase, resp *http.Response, data []byte) (to c12ChainTO) {
	snippet := func(b []byte) string {
		if len(b) > 200 {
			b = b[:200]
		}
		return string(b)
	}
	var msg []byte
	haveMsg := false
	if c.Act.Protocol == c12Connect && !c.Act.Stream {
		if resp.StatusCode != http.StatusOK {
			to.RPCError = fmt.Sprintf("HTTP status %d: %s", resp.StatusCode, snippet(data))
			return to
		}
		msg, haveMsg = data, true
	} else {
		if resp.StatusCode != http.StatusOK {
			to.RPCError = fmt.Sprintf("HTTP status %d: %s", resp.StatusCode, snippet(data))
			return to
		}
		grpcStatus, grpcMessage, haveStatus := resp.Header.Get("Grpc-Status"), resp.Header.Get("Grpc-Message"), resp.Header.Get("Grpc-Status") != ""
		rest := data
		for len(rest) >= 5 {
			flag := rest[0]
			n := int(rest[1])<<24 | int(rest[2])<<16 | int(rest[3])<<8 | int(rest[4])
			if n < 0 || len(rest) < 5+n {
				to.RPCError = "truncated envelope in the response: " + snippet(data)
				return to
			}
			frame := rest[5 : 5+n]
			rest = rest[5+n:]
			switch {
			case c.Act.Protocol == c12Connect && flag&2 != 0: // end of stream
				var end struct {
					Error json.RawMessage `json:"error"`
				}
				if err := json.Unmarshal(frame, &end); err != nil {
					to.RPCError = "unreadable end-of-stream frame: " + snippet(frame)
					return to
				}
				if len(end.Error) > 0 && string(end.Error) != "null" {
					to.RPCError = "end-of-stream error: " + snippet(end.Error)
				}
				haveStatus, grpcStatus = true, "0"
			case c.Act.Protocol == c12GRPCWeb && flag&0x80 != 0: // trailers frame
				for _, line := range strings.Split(string(frame), "\r\n") {
					k, v, _ := strings.Cut(line, ":")
					switch strings.ToLower(strings.TrimSpace(k)) {
					case "grpc-status":
						grpcStatus, haveStatus = strings.TrimSpace(v), true
					case "grpc-message":
						grpcMessage = strings.TrimSpace(v)
					}
				}
			case flag&1 != 0:
				to.RPCError = "compressed message although no compression was offered"
				return to
			default:
				if !haveMsg {
					msg, haveMsg = frame, true
				}
			}
		}
		if c.Act.Protocol == c12GRPC && !haveStatus {
			if s := resp.Trailer.Get("Grpc-Status"); s != "" {
				grpcStatus, grpcMessage, haveStatus = s, resp.Trailer.Get("Grpc-Message"), true
			}
		}
		if to.RPCError == "" && !haveStatus {
			to.RPCError = "the response carries no RPC status: " + snippet(data)
		}
		if to.RPCError == "" && grpcStatus != "0" {
			to.RPCError = "grpc-status " + grpcStatus + ": " + grpcMessage
		}
		if to.RPCError != "" {
			return to
		}
	}
	if !haveMsg {
		return to
	}
	var out conformancev1.UnaryResponse // the answers of Unary, IdempotentUnary and ClientStream all are { payload = 1 }
	var err error
	if c.Act.Codec == 2 {
		err = protojson.UnmarshalOptions{DiscardUnknown: true}.Unmarshal(msg, &out)
	} else {
		err = proto.Unmarshal(msg, &out)
	}
	if err != nil || out.GetPayload().GetRequestInfo() == nil {
		return to
	}
	to.Decoded = true
	info := out.GetPayload().GetRequestInfo()
	if info.TimeoutMs != nil {
		v := info.GetTimeoutMs()
		to.EchoMs = &v
	}
	for _, h := range info.GetRequestHeaders() {
		if strings.EqualFold(h.GetName(), c12TimeoutHeaderName(c.Act.Protocol)) {
			to.HeaderEcho = append(to.HeaderEcho, h.GetValue()...)
			if len(h.GetValue()) == 0 {
				to.HeaderEcho = append(to.HeaderEcho, "<no value>")
			}
		}
	}
	return to
}

// c12ChainTimeoutJudge: the property's timeout sentence, seen from the wire: a header in the
// protocol's grammar draws no feedback and is echoed with the exact (saturated) duration; any other
// value is reported; in both cases the header is REMOVED: the RPC is carried out (neither refused
// nor cut short - also for a timeout of 0), the header is not among the echoed request headers, and
// a value outside the grammar is not echoed as timeout_ms.
func c12ChainTimeoutJudge(c *c12ChainCase, obs c12ChainObs) c12Result {
	var res c12Result
	res.observed = obs
	pname := c12ProtocolNames[c.Act.Protocol]
	sfx := ":chain:" + pname
	if obs.TransportEr != "" || obs.Timeout == nil {
		res.outcome = "chain-timeout:" + pname + ":no-response"
		res.fail("matching-request-not-served:chain-timeout", "%s request (every aspect matches, timeout header %q) got no response, also when repeated under fresh names: %s", pname, c12Str(c.Timeout), obs.TransportEr)
		return res
	}
	to := *obs.Timeout
	c12PrefixOK(&res, obs.Lines, c.Name, "chain-timeout")
	for _, line := range obs.Lines {
		if !strings.Contains(strings.ToLower(strings.TrimPrefix(line, c.Name+": ")), "timeout") {
			res.fail("false-feedback:unrelated-line"+sfx, "every aspect matches, the only possible deviation is the timeout header %q, but got line %q", c12Str(c.Timeout), line)
		}
	}
	common := func(what string) {
		if to.RPCError != "" {
			res.fail("timeout-enforced-or-refused"+sfx, "%s: the timeout header is to be removed before the RPC layer sees it, yet the RPC was not carried out: %s", what, to.RPCError)
		} else if !to.Decoded {
			res.fail("matching-request-not-served:chain-timeout", "%s: the answer carries no request info (HTTP status %d)", what, obs.Status)
		}
		if len(to.HeaderEcho) != 0 {
			res.fail("timeout-header-not-removed"+sfx, "%s: the header reached the RPC handler (echoed among request_headers: %q)", what, to.HeaderEcho)
		}
	}
	if c.Timeout == nil {
		res.outcome = "chain-timeout:" + pname + ":absent"
		if len(obs.Lines) != 0 {
			res.fail("false-feedback:no-timeout-header"+sfx, "no timeout header, but feedback %q", obs.Lines)
		}
		if to.EchoMs != nil {
			res.fail("timeout-invented"+sfx, "no timeout header, but timeout_ms=%d is echoed", *to.EchoMs)
		}
		common("no timeout header")
		return res
	}
	sent := *c.Timeout
	s := strings.Trim(sent, " \t") // HTTP drops optional whitespace around a field value (client and/or server side)
	valid, ns := c12Grammar(c.Act.Protocol, s)
	if valid && s != sent && len(obs.Lines) > 0 {
		// the padding reached the middleware: then the value is outside the grammar, and was reported
		valid = false
	}
	what := fmt.Sprintf("%s timeout %q over %s (%s)", pname, sent, c.Conn, c.Procedure)
	if !valid {
		class := c12InvalidClass(c.Act.Protocol, s)
		if s != sent {
			class = "space"
		}
		res.outcome = "chain-timeout:" + pname + ":invalid:" + class
		if len(obs.Lines) == 0 {
			res.fail("timeout-invalid-not-flagged"+sfx, "%s is not in the grammar (%s), but no feedback names the test", what, class)
		}
		if to.EchoMs != nil {
			res.outcome += ":ECHOED"
			res.fail("timeout-grammar:accepts-"+class+sfx, "%s is not in the protocol's grammar (%s) but the server echoes timeout_ms=%d (feedback %q)", what, class, *to.EchoMs, obs.Lines)
		}
		common(what + ", not in the grammar: " + class)
		return res
	}
	want, saturated := c12Saturate(ns)
	res.outcome = "chain-timeout:" + pname + ":valid"
	if saturated {
		res.outcome += ":saturated"
	}
	if len(obs.Lines) != 0 {
		res.fail("false-feedback:valid-timeout"+sfx, "%s follows the grammar but feedback was printed: %q", what, obs.Lines)
	}
	wantMs := int64(want) / 1000000
	if to.RPCError == "" && to.Decoded && (to.EchoMs == nil || *to.EchoMs != wantMs) {
		res.fail("timeout-value:wrong-echo"+sfx, "%s: request info should echo timeout_ms=%d, got %s", what, wantMs, c12I64(to.EchoMs))
	}
	common(what)
	return res
}
