package referenceserver

// C17 unit 2: the rawResponder middleware alone, around an adversarial inner
// handler, on real loopback HTTP/1.1, HTTP/2 (TLS) and h2c servers, read by a
// plain net/http client.
//
// The inner handler executes a script over
//   H  set headers X-Handler and Content-Type
//   T  set a trailer (http.TrailerPrefix) X-Handler-T
//   W  WriteHeader(418)
//   B  Write("HANDLER-BODY-<n>;")
//   F  Flush
//   R  choose the raw response: setRawResponse(ctx, def)  (what rawResponseRecorder does)
// Reference model (from the property and the doc comment of rawResponder):
// whichever of {R} and {W,B,F} comes first wins, the other is without effect.

import (
	"bytes"
	"context"
	"crypto/tls"
	"encoding/json"
	"fmt"
	"io"
	"log"
	"net"
	"net/http"
	"net/http/httptest"
	"sort"
	"strconv"
	"strings"
	"sync"
	"testing"
	"time"

	conformancev1 "connectrpc.com/conformance/internal/gen/proto/go/connectrpc/conformance/v1"
	"connectrpc.com/conformance/internal/verif/c17lib"
	"connectrpc.com/conformance/internal/verif/rep"
	"golang.org/x/net/http2"
	"golang.org/x/net/http2/h2c"
	"google.golang.org/protobuf/proto"
)

type c17rCase struct {
	Proto  string          `json:"proto"`            // h1 | h2tls | h2c
	Script string          `json:"script"`           // letters, see above
	Preset bool            `json:"preset,omitempty"` // outer middleware pre-sets c17lib.PresetHeaders before rawResponder runs
	Raw    json.RawMessage `json:"raw"`              // protojson RawHTTPResponse
}

// c17rOuter is a trivial middleware in FRONT of rawResponder (the position of
// CORS / tracing in createServer): when the request asks for it, it puts
// c17lib.PresetHeaders on the response before calling next, so rawResponder is
// entered with a non-empty header map ("pre-set header by outer middleware").
func c17rOuter(next http.Handler) http.Handler {
	return http.HandlerFunc(func(w http.ResponseWriter, req *http.Request) {
		if req.Header.Get("X-C17-Preset") != "" {
			for name, vals := range c17lib.PresetHeaders {
				w.Header()[name] = append([]string(nil), vals...)
			}
		}
		next.ServeHTTP(w, req)
	})
}

type c17rLive struct {
	script    string
	raw       *conformancev1.RawHTTPResponse
	chooseErr []string // one entry per executed R: "" = accepted
	panicked  any
}

var c17rCases sync.Map // id -> *c17rLive

const (
	c17rHandlerHeader  = "X-Handler"
	c17rHandlerCT      = "application/x-handler"
	c17rHandlerTrailer = "X-Handler-T"
	c17rHandlerStatus  = 418
	c17rHandlerBody    = "HANDLER-BODY-"
)

func c17rInner(w http.ResponseWriter, req *http.Request) {
	v, ok := c17rCases.Load(req.Header.Get("X-C17-Case"))
	if !ok {
		http.Error(w, "unknown case", http.StatusTeapot+1)
		return
	}
	live := v.(*c17rLive)
	_, _ = io.Copy(io.Discard, req.Body)
	nb := 0
	for _, a := range live.script {
		switch a {
		case 'H':
			w.Header().Set(c17rHandlerHeader, "h")
			w.Header().Set("Content-Type", c17rHandlerCT)
		case 'T':
			w.Header().Set(http.TrailerPrefix+c17rHandlerTrailer, "ht")
		case 'W':
			w.WriteHeader(c17rHandlerStatus)
		case 'B':
			nb++
			_, _ = w.Write([]byte(c17rHandlerBody + strconv.Itoa(nb) + ";"))
		case 'F':
			if f, ok := w.(http.Flusher); ok {
				f.Flush()
			}
		case 'R':
			err := setRawResponse(req.Context(), live.raw)
			if err != nil {
				live.chooseErr = append(live.chooseErr, err.Error())
			} else {
				live.chooseErr = append(live.chooseErr, "")
			}
		}
	}
}

type c17rServer struct {
	name   string
	url    string
	client *http.Client
	stop   func()
}

func c17rStart(handler http.Handler) map[string]*c17rServer {
	quiet := log.New(io.Discard, "", 0)
	out := map[string]*c17rServer{}

	h1 := httptest.NewUnstartedServer(handler)
	h1.Config.ErrorLog = quiet
	h1.Start()
	out["h1"] = &c17rServer{"h1", h1.URL, &http.Client{Transport: &http.Transport{DisableCompression: true}}, h1.Close}

	h2 := httptest.NewUnstartedServer(handler)
	h2.Config.ErrorLog = quiet
	h2.EnableHTTP2 = true
	h2.StartTLS()
	out["h2tls"] = &c17rServer{"h2tls", h2.URL, h2.Client(), h2.Close}
	if tr, ok := h2.Client().Transport.(*http.Transport); ok {
		tr.DisableCompression = true
	}

	hc := httptest.NewUnstartedServer(h2c.NewHandler(handler, &http2.Server{}))
	hc.Config.ErrorLog = quiet
	hc.Start()
	out["h2c"] = &c17rServer{"h2c", hc.URL, &http.Client{Transport: &http2.Transport{
		AllowHTTP:          true,
		DisableCompression: true,
		DialTLSContext: func(ctx context.Context, network, addr string, _ *tls.Config) (net.Conn, error) {
			return (&net.Dialer{}).DialContext(ctx, network, addr)
		},
	}}, hc.Close}
	return out
}

type c17rObs struct {
	Err        string      `json:"err,omitempty"`
	Proto      string      `json:"proto"`
	Status     int         `json:"status"`
	Header     http.Header `json:"header"`
	Trailer    http.Header `json:"trailer"`
	Body       []byte      `json:"body"`
	ChooseErrs []string    `json:"choose_errs"`
}

var c17rSeq int64

func c17rRun(srv *c17rServer, script string, preset bool, raw *conformancev1.RawHTTPResponse) c17rObs {
	c17rSeq++
	id := strconv.FormatInt(c17rSeq, 10)
	live := &c17rLive{script: script, raw: raw}
	c17rCases.Store(id, live)
	defer c17rCases.Delete(id)
	var obs c17rObs
	ctx, cancel := context.WithTimeout(context.Background(), 30*time.Second) // liveness guard only, never an oracle
	defer cancel()
	req, err := http.NewRequestWithContext(ctx, http.MethodPost, srv.url+"/c17", strings.NewReader("request-body"))
	if err != nil {
		obs.Err = "new request: " + err.Error()
		return obs
	}
	req.Header.Set("X-C17-Case", id)
	if preset {
		req.Header.Set("X-C17-Preset", "1")
	}
	req.Header.Set("Content-Type", "application/octet-stream")
	resp, err := srv.client.Do(req)
	if err != nil {
		obs.Err = "do: " + err.Error()
		obs.ChooseErrs = live.chooseErr
		return obs
	}
	body, err := io.ReadAll(resp.Body)
	_ = resp.Body.Close()
	obs.Proto = resp.Proto
	obs.Status = resp.StatusCode
	obs.Header = resp.Header
	obs.Trailer = resp.Trailer
	obs.Body = body
	obs.ChooseErrs = live.chooseErr
	if err != nil {
		obs.Err = "read body: " + err.Error()
	}
	return obs
}

// c17rModel is the reference model of the arbitration.
type c17rExpect struct {
	rawWins       bool
	chooseResults []bool // per R in the script: must setRawResponse succeed?
	status        int    // handler response
	handlerHeader bool   // H executed before the handler's response started
	body          string // handler body
}

func c17rModel(script string) c17rExpect {
	e := c17rExpect{status: 200}
	started, chosen := false, false
	nb := 0
	for _, a := range script {
		switch a {
		case 'H':
			if !started {
				e.handlerHeader = true
			}
		case 'W':
			if chosen {
				continue
			}
			if !started {
				started = true
				e.status = c17rHandlerStatus
			}
		case 'B':
			nb++
			if chosen {
				continue
			}
			started = true
			e.body += c17rHandlerBody + strconv.Itoa(nb) + ";"
		case 'F':
			if chosen {
				continue
			}
			started = true
		case 'R':
			if started {
				e.chooseResults = append(e.chooseResults, false)
			} else {
				chosen = true
				e.chooseResults = append(e.chooseResults, true)
			}
		}
	}
	e.rawWins = chosen
	return e
}

type c17rVerdict struct{ key, detail string }

func c17rBodyAllowed(status int) bool {
	return !(status == 204 || status == 304 || (status >= 100 && status < 200))
}

// c17rSuppressed: headers that net/http's HTTP/1.1 server removes from a
// response by itself (server.go, suppressedHeaders): Content-Type on a 304.
// rawResponder cannot send them through this transport; they are not demanded.
func c17rSuppressed(h2 bool, status int, name string) bool {
	return !h2 && status == 304 && name == "Content-Type"
}

func c17rJudge(protoName, script string, preset bool, raw *conformancev1.RawHTTPResponse, obs c17rObs) (out []c17rVerdict) {
	h2 := protoName != "h1"
	add := func(key, format string, a ...any) {
		out = append(out, c17rVerdict{key, fmt.Sprintf(format, a...)})
	}
	exp := c17rModel(script)
	// arbitration results reported to the caller of setRawResponse
	for i, must := range exp.chooseResults {
		if i >= len(obs.ChooseErrs) {
			break
		}
		got := obs.ChooseErrs[i] == ""
		if must && !got {
			add("raw-response:choice-refused-before-handler-started", "setRawResponse #%d returned %q although the handler had not written/flushed anything", i+1, obs.ChooseErrs[i])
		}
		if !must && got {
			add("raw-response:choice-accepted-after-handler-started", "setRawResponse #%d succeeded although the handler's normal response had already started", i+1)
		}
	}
	if obs.Err != "" {
		add("raw-response:transport-error", "plain HTTP client failed: %s (status %d, %d body bytes read)", obs.Err, obs.Status, len(obs.Body))
		return out
	}
	rawHeaders, _ := c17lib.Group(raw.GetHeaders())
	rawTrailers, _ := c17lib.Group(raw.GetTrailers())
	if exp.rawWins {
		wantStatus := int(raw.GetStatusCode())
		if wantStatus == 0 {
			wantStatus = 200
		}
		if obs.Status != wantStatus {
			add("raw-response:status", "status %d on the wire, %d specified (0 = 200)", obs.Status, raw.GetStatusCode())
		}
		hdrEntries, trlEntries := c17lib.Entries(raw.GetHeaders()), c17lib.Entries(raw.GetTrailers())
		for name, vals := range rawHeaders {
			// every given value, in list order - also when the name occurs in several entries
			if c17rSuppressed(h2, wantStatus, name) {
				continue
			}
			if preset && c17lib.PresetHeaders[name] != nil {
				// the outer middleware had set this header before rawResponder ran: its
				// values are tolerated, but every given value must be there, in list order
				if got := obs.Header.Values(name); !c17lib.Subsequence(vals, got) {
					add("raw-response:middleware-header-clobbers-given", "header %s (pre-set to %q by middleware in front of rawResponder): got %q, which does not contain the specified values %q in list order", name, c17lib.PresetHeaders[name], got, vals)
				}
				continue
			}
			if got := obs.Header.Values(name); !c17lib.EqualStrings(got, vals) {
				if hdrEntries[name] > 1 {
					add("raw-response:header-named-in-several-entries", "header %s is named in %d entries of the list: got %q, specified %q (all values, in list order)", name, hdrEntries[name], got, vals)
				} else {
					add("raw-response:header-missing-or-wrong", "header %s: got %q, specified %q", name, got, vals)
				}
			}
		}
		if got := obs.Header.Values(c17rHandlerHeader); len(got) > 0 {
			add("raw-response:handler-header-leaks", "handler-set header %s=%q present in the raw response", c17rHandlerHeader, got)
		}
		for _, v := range obs.Header.Values("Content-Type") {
			if v == c17rHandlerCT {
				add("raw-response:handler-header-leaks", "handler-set Content-Type %q present in the raw response", v)
			}
		}
		if got := obs.Trailer.Values(c17rHandlerTrailer); len(got) > 0 {
			add("raw-response:handler-trailer-leaks", "handler-set trailer %s=%q present in the raw response", c17rHandlerTrailer, got)
		}
		if got := obs.Header.Values(c17rHandlerTrailer); len(got) > 0 {
			add("raw-response:handler-trailer-leaks", "handler-set trailer %s=%q present as a header of the raw response", c17rHandlerTrailer, got)
		}
		if bytes.Contains(obs.Body, []byte(c17rHandlerBody)) { // no payload of the alphabet contains this marker
			add("raw-response:handler-body-leaks", "handler body bytes in the raw response body %q", obs.Body)
		}
		bodyAllowed := c17rBodyAllowed(wantStatus)
		// A 204 / 304 response has no body, and over HTTP/1.1 therefore no
		// trailers either; over HTTP/2 the trailers are a HEADERS frame of
		// their own and are demanded as for any other status.
		if bodyAllowed || h2 {
			for name, vals := range rawTrailers {
				got := obs.Trailer.Values(name)
				switch {
				case c17lib.EqualStrings(got, vals):
				case len(rawHeaders[name]) > 0 && c17lib.EqualStrings(got, append(append([]string{}, vals...), rawHeaders[name]...)):
					add("raw-response:trailer-repeats-header-values", "trailer %s: got %q, specified %q: the values of the response HEADER of the same name were sent again as trailer values", name, got, vals)
				case !bodyAllowed && len(got) < len(vals):
					add("raw-response:trailer-missing-on-bodyless-status", "status %d (no body possible) over %s: trailer %s: got %q, specified %q (all trailers received: %v)", wantStatus, obs.Proto, name, got, vals, obs.Trailer)
				case trlEntries[name] > 1:
					add("raw-response:trailer-named-in-several-entries", "trailer %s is named in %d entries of the list: got %q, specified %q (all values, in list order; all trailers received: %v)", name, trlEntries[name], got, vals, obs.Trailer)
				case len(got) < len(vals):
					add("raw-response:trailer-missing", "trailer %s: got %q, specified %q (all trailers received: %v)", name, got, vals, obs.Trailer)
				default:
					add("raw-response:trailer-wrong", "trailer %s: got %q, specified %q (all trailers received: %v)", name, got, vals, obs.Trailer)
				}
			}
		}
		if bodyAllowed {
			switch b := raw.GetBody().(type) {
			case nil:
				if len(obs.Body) != 0 {
					add("raw-response:body:unexpected-bytes", "no body specified, %d byte(s) received: %x", len(obs.Body), obs.Body)
				}
			case *conformancev1.RawHTTPResponse_Unary:
				if p := c17lib.CheckUnary(b.Unary, obs.Body); p != nil {
					add("raw-response:body:"+p.Kind, "%s", p.Detail)
				}
			case *conformancev1.RawHTTPResponse_Stream:
				if _, p := c17lib.CheckStream(b.Stream, obs.Body); p != nil {
					add("raw-response:body:"+p.Kind, "%s", p.Detail)
				}
			}
		}
		return out
	}
	// the handler's normal response must be intact and free of the raw definition
	if obs.Status != exp.status {
		add("normal-response:status", "handler response status %d, expected %d", obs.Status, exp.status)
	}
	if string(obs.Body) != exp.body {
		add("normal-response:body", "handler response body %q, the handler wrote %q", obs.Body, exp.body)
	}
	if exp.handlerHeader {
		if got := obs.Header.Values(c17rHandlerHeader); !c17lib.EqualStrings(got, []string{"h"}) {
			add("normal-response:handler-header-lost", "handler header %s: got %q", c17rHandlerHeader, got)
		}
		if got := obs.Header.Get("Content-Type"); got != c17rHandlerCT {
			add("normal-response:handler-header-lost", "handler Content-Type: got %q", got)
		}
	}
	for name := range rawHeaders {
		if name == "Content-Type" {
			for _, v := range obs.Header.Values(name) {
				for _, rv := range rawHeaders[name] {
					if v == rv {
						add("normal-response:raw-header-leaks", "raw header %s=%q present although the raw response was not chosen", name, v)
					}
				}
			}
			continue
		}
		got := obs.Header.Values(name)
		if preset && c17lib.PresetHeaders[name] != nil {
			// the outer middleware's own values are expected here, the raw ones are not
			var foreign []string
			for _, v := range got {
				if !c17rContains(c17lib.PresetHeaders[name], v) {
					foreign = append(foreign, v)
				}
			}
			got = foreign
		}
		if len(got) > 0 {
			add("normal-response:raw-header-leaks", "raw header %s=%q present although the raw response was not chosen", name, got)
		}
	}
	for name := range rawTrailers {
		if got := obs.Trailer.Values(name); len(got) > 0 {
			add("normal-response:raw-trailer-leaks", "raw trailer %s=%q present although the raw response was not chosen", name, got)
		}
	}
	return out
}

func c17rContains(list []string, v string) bool {
	for _, x := range list {
		if x == v {
			return true
		}
	}
	return false
}

// ---------------------------------------------------------------------------
// Enumeration

func c17rScripts(maxLen int, withR bool) []string {
	letters := "RHWBFT"
	var out []string
	var rec func(prefix string, hasR bool)
	rec = func(prefix string, hasR bool) {
		if hasR == withR {
			out = append(out, prefix)
		}
		if len(prefix) == maxLen {
			return
		}
		for _, l := range letters {
			if l == 'R' && hasR {
				continue
			}
			rec(prefix+string(l), hasR || l == 'R')
		}
	}
	rec("", false)
	sort.SliceStable(out, func(i, j int) bool { return len(out[i]) < len(out[j]) }) // simplest first
	return out
}

type c17rEnv struct {
	status   uint32
	headers  []*conformancev1.Header
	trailers []*conformancev1.Header
}

// c17rStatuses: unset, ordinary statuses, and the two final statuses for which
// HTTP forbids a body (the server's ResponseWriter refuses every body byte).
var c17rStatuses = []uint32{0, 200, 204, 304, 404, 500}

func c17rEnvs(full bool, level int) []c17rEnv {
	var out []c17rEnv
	if !full {
		hl, tl := c17lib.HeaderLists(0), c17lib.TrailerLists(0)
		if level == 0 {
			// hl[4], tl[3], tl[4]: a name in two entries of the list
			return []c17rEnv{{0, nil, nil}, {0, hl[2], tl[2]}, {404, nil, tl[2]}, {404, hl[2], nil}, {0, hl[4], tl[3]}, {404, hl[3], tl[4]}, {304, hl[1], tl[1]}}
		}
		for _, st := range []uint32{0, 404} {
			for _, h := range [][]*conformancev1.Header{hl[0], hl[2]} {
				for _, tr := range [][]*conformancev1.Header{tl[0], tl[2]} {
					out = append(out, c17rEnv{st, h, tr})
				}
			}
		}
		// a name in two entries of the header / trailer list (same spelling, case variants)
		out = append(out, c17rEnv{0, hl[4], tl[3]}, c17rEnv{404, hl[3], tl[4]}, c17rEnv{0, nil, tl[3]}, c17rEnv{404, hl[4], nil})
		// statuses that cannot carry a body (the body write is refused by the
		// http.ResponseWriter) with and without trailers
		out = append(out, c17rEnv{204, hl[1], tl[2]}, c17rEnv{304, hl[2], tl[1]}, c17rEnv{204, nil, tl[3]}, c17rEnv{304, hl[4], tl[4]}, c17rEnv{304, nil, nil})
		return out
	}
	for _, st := range c17rStatuses {
		for _, h := range c17lib.HeaderLists(level) {
			for _, tr := range c17lib.TrailerLists(level) {
				out = append(out, c17rEnv{st, h, tr})
			}
		}
	}
	return out
}

func c17rMake(env c17rEnv, body c17lib.Body) *conformancev1.RawHTTPResponse {
	raw := &conformancev1.RawHTTPResponse{StatusCode: env.status}
	for _, h := range env.headers {
		raw.Headers = append(raw.Headers, proto.Clone(h).(*conformancev1.Header))
	}
	for _, h := range env.trailers {
		raw.Trailers = append(raw.Trailers, proto.Clone(h).(*conformancev1.Header))
	}
	switch {
	case body.Unary != nil:
		raw.Body = &conformancev1.RawHTTPResponse_Unary{Unary: body.Unary}
	case body.Stream != nil:
		raw.Body = &conformancev1.RawHTTPResponse_Stream{Stream: body.Stream}
	}
	return raw
}

var c17rProtos = []string{"h1", "h2tls", "h2c"}

// c17rEnumerate visits (proto, script, raw definition) in a fixed order:
// grid S: every handler script x a few definitions; grid E: every status x
// header list x trailer list x a medium body set x a few scripts; grid B: the
// full body alphabet x a few status/header/trailer combinations x two scripts.
func c17rEnumerate(thorough bool, visit0 func(grid, proto, script string, preset bool, raw *conformancev1.RawHTTPResponse) bool) {
	visit := func(grid, proto, script string, raw *conformancev1.RawHTTPResponse) bool {
		return visit0(grid, proto, script, false, raw)
	}
	scriptLen := 3
	if thorough {
		scriptLen = 4
	}
	// grid S
	repBodies := c17lib.Bodies(0)
	repEnvs := []c17rEnv{
		{0, nil, nil},
		{404, c17lib.HeaderLists(0)[2], c17lib.TrailerLists(0)[2]},
		{500, c17lib.HeaderLists(0)[3], c17lib.TrailerLists(0)[1]},
		{204, c17lib.HeaderLists(0)[1], c17lib.TrailerLists(0)[2]},
		{304, c17lib.HeaderLists(0)[3], c17lib.TrailerLists(0)[1]},
	}
	var repRaws []*conformancev1.RawHTTPResponse
	for i, e := range repEnvs {
		// pair environments with bodies round-robin + the richest body with every environment
		repRaws = append(repRaws, c17rMake(e, repBodies[i%len(repBodies)]))
		repRaws = append(repRaws, c17rMake(e, repBodies[len(repBodies)-1]))
	}
	for _, s := range c17rScripts(scriptLen, false) {
		for _, p := range c17rProtos {
			if !visit("S", p, s, repRaws[3]) {
				return
			}
		}
	}
	for _, s := range c17rScripts(scriptLen, true) {
		for _, raw := range repRaws {
			for _, p := range c17rProtos {
				if !visit("S", p, s, raw) {
					return
				}
			}
		}
	}
	// grid E
	envScripts := []string{"R", "HTRWBF"}
	lvl := 0
	if thorough {
		lvl = 1
		envScripts = append(envScripts, "RHTWBF", "BR")
	}
	for _, e := range c17rEnvs(true, lvl) {
		for _, b := range c17lib.Bodies(1) {
			raw := c17rMake(e, b)
			for _, s := range envScripts {
				for _, p := range c17rProtos {
					if !visit("E", p, s, raw) {
						return
					}
				}
			}
		}
	}
	// grid P: an outer middleware has pre-set headers (c17lib.PresetHeaders) before
	// rawResponder is entered; header lists that name those headers (and, as a
	// control, the CORS names nobody pre-sets here), a trailer with the name of a
	// pre-set header, bodyless statuses; scripts where the raw response wins and
	// one where the handler wins
	var pHeaders [][]*conformancev1.Header
	pHeaders = append(pHeaders, c17lib.OuterHeaderLists(lvl)...)
	pHeaders = append(pHeaders, nil, c17lib.HeaderLists(0)[4])
	otl, tl := c17lib.OuterTrailerLists(lvl), c17lib.TrailerLists(0)
	pRest := []c17rEnv{{0, nil, nil}, {404, nil, otl[1]}, {0, nil, tl[3]}, {204, nil, otl[2]}}
	if thorough {
		pRest = append(pRest, c17rEnv{304, nil, tl[3]}, c17rEnv{500, nil, otl[4]})
	}
	pScripts := []string{"R", "HTRWBF", "BR"}
	pBodies := c17lib.Bodies(0)
	if thorough {
		pScripts = append(pScripts, "RHTWBF", "HR", "FR")
		pBodies = c17lib.Bodies(1)
	}
	for _, h := range pHeaders {
		for _, rest := range pRest {
			for _, b := range pBodies {
				raw := c17rMake(c17rEnv{rest.status, h, rest.trailers}, b)
				for _, s := range pScripts {
					for _, p := range c17rProtos {
						if !visit0("P", p, s, true, raw) {
							return
						}
					}
				}
			}
		}
	}
	// grid B
	if thorough {
		for _, b := range c17lib.Bodies(2) {
			for _, e := range c17rEnvs(false, 0) {
				raw := c17rMake(e, b)
				for _, s := range []string{"R", "HTRWBF"} {
					for _, p := range c17rProtos {
						if !visit("B", p, s, raw) {
							return
						}
					}
				}
			}
		}
	}
}

func TestVerifC17RawResponse(t *testing.T) {
	r := rep.New("c17-rawresp")
	defer r.Write()
	r.Rule = "case = (protocol h1|h2tls|h2c) x (handler script over H,T,W,B,F,R) x (outer middleware in front of rawResponder pre-sets headers: no|yes) x (RawHTTPResponse: status {unset,200,204,304,404,500} x header list x trailer list (incl. lists that name the same header / trailer in two entries, same spelling or differing in case: all values demanded in list order) x body none|unary|stream); grid S = all scripts up to length 3 (quick) / 4 (thorough) x 10 definitions, grid E = all status x header x trailer combinations x medium body set x 2-4 scripts, grid P = pre-set headers (Cache-Control, X-Raw-R) by an outer middleware x header lists that name the pre-set headers and the CORS names (one entry / two entries, case variants) x {trailers none, named like a pre-set header, status 204/304} x bodies x scripts where the raw response wins / the handler wins: every given value must be on the wire in list order (the middleware's own values are tolerated for the pre-set names only), grid B (thorough) = full body alphabet x 7 status/header/trailer combinations x 2 scripts; status 204/304: the ResponseWriter refuses the body, over HTTP/2 status, headers and TRAILERS are demanded, over HTTP/1.1 status and headers; a case is non-trivial when distinct (proto, script, preset, definition); oracle = reference arbitration model + independent body decoder on what a plain net/http client receives"

	servers := c17rStart(c17rOuter(rawResponder(http.HandlerFunc(c17rInner))))
	defer func() {
		for _, s := range servers {
			s.client.CloseIdleConnections()
			s.stop()
		}
	}()

	evalOne := func(protoName, script string, preset bool, raw *conformancev1.RawHTTPResponse, verbose bool) []c17rVerdict {
		srv := servers[protoName]
		obs := c17rRun(srv, script, preset, raw)
		verdicts := c17rJudge(protoName, script, preset, raw, obs)
		if len(verdicts) > 0 {
			// alarm discipline: a failing case is executed again on a fresh
			// connection; only what fails both times is reported
			srv.client.CloseIdleConnections()
			obs2 := c17rRun(srv, script, preset, raw)
			again := c17rJudge(protoName, script, preset, raw, obs2)
			keys := map[string]bool{}
			for _, v := range again {
				keys[v.key] = true
			}
			var kept []c17rVerdict
			for _, v := range verdicts {
				if keys[v.key] {
					kept = append(kept, v)
				} else {
					r.Note("UNSTABLE verdict %s on proto=%s script=%q raw=%s: %s", v.key, protoName, script, c17lib.Short(raw), v.detail)
					r.Count("unstable", 1)
				}
			}
			verdicts = kept
		}
		exp := c17rModel(script)
		winner := "handler"
		if exp.rawWins {
			winner = "raw"
		} else if exp.status == 200 && exp.body == "" && !strings.ContainsAny(script, "F") {
			winner = "nobody"
		}
		bodyKind := "none"
		switch raw.GetBody().(type) {
		case *conformancev1.RawHTTPResponse_Unary:
			bodyKind = "unary"
		case *conformancev1.RawHTTPResponse_Stream:
			bodyKind = "stream"
		}
		cls := fmt.Sprintf("%s/%s-wins/status%d/%s/trailers%d", obs.Proto, winner, obs.Status, bodyKind, len(obs.Trailer))
		if !exp.rawWins {
			cls = fmt.Sprintf("%s/%s-wins/status%d", obs.Proto, winner, obs.Status)
		}
		if obs.Err != "" {
			cls = protoName + "/transport-error"
		}
		r.Outcome(cls)
		if verbose {
			fmt.Printf("replay: proto=%s script=%q preset=%v raw=%s\nobserved: %+v\nbody=%x\nverdicts=%v\n", protoName, script, preset, c17lib.JSON(raw), obs, obs.Body, verdicts)
		}
		return verdicts
	}

	if data := rep.ReplayInput(); data != nil {
		var rj struct {
			Replay c17rCase `json:"replay"`
		}
		if err := json.Unmarshal(data, &rj); err != nil {
			t.Fatalf("bad replay file: %v", err)
		}
		raw := &conformancev1.RawHTTPResponse{}
		if err := c17lib.FromJSON(rj.Replay.Raw, raw); err != nil {
			t.Fatal(err)
		}
		r.Eval(1)
		r.NonTrivial("")
		r.NonTrivial("")
		r.Sample(rj.Replay)
		for _, v := range evalOne(rj.Replay.Proto, rj.Replay.Script, rj.Replay.Preset, raw, true) {
			r.Violate(v.key, v.detail, rj.Replay)
		}
		return
	}

	deadline := rep.Deadline()
	var k int64
	c17rEnumerate(rep.Thorough(), func(grid, protoName, script string, preset bool, raw *conformancev1.RawHTTPResponse) bool {
		k++
		if !r.Mine(k) {
			return true
		}
		if !deadline.IsZero() && time.Now().After(deadline) {
			r.NotExhaustive("budget reached in grid " + grid + " before the enumeration was complete")
			return false
		}
		t0 := time.Now()
		verdicts := evalOne(protoName, script, preset, raw, false)
		r.Count("info-wall-us:"+protoName, time.Since(t0).Microseconds())
		r.Eval(1)
		r.Count("grid:"+grid, 1)
		c := c17rCase{Proto: protoName, Script: script, Preset: preset, Raw: c17lib.JSON(raw)}
		r.NonTrivial(protoName + "|" + script + "|" + strconv.FormatBool(preset) + "|" + string(c.Raw))
		if k%1009 == 1 {
			r.Sample(c)
		}
		for _, v := range verdicts {
			r.Violate(v.key, fmt.Sprintf("proto=%s handler-script=%q preset-by-outer-middleware=%v raw=%s: %s", protoName, script, preset, c17lib.Short(raw), v.detail), c)
		}
		return true
	})
}
