package referenceserver

// C18 — "Error, metadata and message conversions are lossless", unit 3:
// the CALLERS of the conversion functions inside the reference server.
//
// The conversion helpers (ConvertProtoToConnectError, PercentEncodeMessage, ...)
// are judged in isolation by the units of packages internal and
// internal/grpcutil. What a peer finally sees also depends on the code that
// feeds them and carries their results to the wire: the reference server turns
// the Error of a response definition (test-case form) into the Connect form and,
// on some paths, hand-builds the gRPC status form itself (grpc-status /
// grpc-message / grpc-status-details-bin trailers of a raw response).
//
// This unit runs the real server (createServer; reference mode and normal mode;
// HTTP/1.1 and h2c) and sends it, with a stock connect-go client under the
// Connect, gRPC and gRPC-Web protocols, requests whose response definition holds
// an error from the C18 error alphabet (messages with '%', non-ASCII, control
// bytes, unset / empty; details incl. a non-canonical encoding and a foreign URL
// prefix; every code), with and without response headers / trailers, for unary,
// client-stream, server-stream and bidi-stream RPCs (error before or after a
// response message). A recording RoundTripper keeps what was on the wire. EVERY
// route on which the error can be read must give the error of the definition:
//
//	client           what connect-go hands to the caller, converted back to the
//	                 test-case form with internal.ConvertErrorToProtoError
//	json             Connect: the JSON error (unary body / end-stream message)
//	trailers         gRPC, gRPC-Web: grpc-status and the percent-DEcoded
//	                 grpc-message (independent decoder)
//	status-details   gRPC, gRPC-Web: the google.rpc.Status inside
//	                 grpc-status-details-bin (code, message, details)
//
// The server appends a RequestInfo detail when it has sent no response message;
// that detail is expected (type only) behind the details of the definition.

import (
	"bytes"
	"context"
	"crypto/tls"
	"encoding/base64"
	"encoding/binary"
	"encoding/json"
	"errors"
	"fmt"
	"io"
	"net"
	"net/http"
	"strconv"
	"strings"
	"sync"
	"testing"
	"time"

	"connectrpc.com/conformance/internal"
	conformancev1 "connectrpc.com/conformance/internal/gen/proto/go/connectrpc/conformance/v1"
	"connectrpc.com/conformance/internal/gen/proto/go/connectrpc/conformance/v1/conformancev1connect"
	"connectrpc.com/conformance/internal/verif/rep"
	"connectrpc.com/connect"
	"golang.org/x/net/http2"
	"google.golang.org/genproto/googleapis/rpc/status"
	"google.golang.org/protobuf/encoding/protowire"
	"google.golang.org/protobuf/proto"
	"google.golang.org/protobuf/types/known/anypb"
	"google.golang.org/protobuf/types/known/emptypb"
	"google.golang.org/protobuf/types/known/wrapperspb"
)

// ---------------------------------------------------------------------------
// case
// ---------------------------------------------------------------------------

type c18wCase struct {
	Mode      string   `json:"mode"`      // reference | normal
	HTTP      string   `json:"http"`      // h1 | h2c
	Protocol  string   `json:"protocol"`  // connect | grpc | grpcweb
	Codec     string   `json:"codec"`     // proto | json
	RPC       string   `json:"rpc"`       // unary | idempotent | client | server | bidi
	Responses int      `json:"responses"` // server / bidi: response messages sent before the error
	Code      int32    `json:"code"`
	MsgSet    bool     `json:"msg_set"`
	Msg       string   `json:"msg"`
	Details   []string `json:"details"` // names in c18wDetailPool
	Headers   bool     `json:"headers"` // response definition has response headers
	Trailers  bool     `json:"trailers"`
}

func (c c18wCase) id() string {
	return fmt.Sprintf("%s/%s/%s/%s/%s+%d/code=%d/msg=%v:%q/details=%s/h=%v/t=%v", c.Mode, c.HTTP, c.Protocol, c.Codec, c.RPC, c.Responses, c.Code, c.MsgSet, c.Msg, strings.Join(c.Details, ","), c.Headers, c.Trailers)
}

type c18wDetail struct {
	Name  string
	URL   string
	Value []byte
}

const c18wPrefix = "type.googleapis.com/"

func c18wMust(m proto.Message) []byte {
	b, err := proto.MarshalOptions{Deterministic: true}.Marshal(m)
	if err != nil {
		panic(err)
	}
	return b
}

func c18wDetailPool() map[string]c18wDetail {
	hdr := &conformancev1.Header{Name: "x-detail", Value: []string{"a", "b%"}}
	// Header{name:"n", value:["v"]}: fields in reverse order, name given twice
	var nonCanon []byte
	nonCanon = protowire.AppendTag(nonCanon, 2, protowire.BytesType)
	nonCanon = protowire.AppendString(nonCanon, "v")
	nonCanon = protowire.AppendTag(nonCanon, 1, protowire.BytesType)
	nonCanon = protowire.AppendString(nonCanon, "old")
	nonCanon = protowire.AppendTag(nonCanon, 1, protowire.BytesType)
	nonCanon = protowire.AppendString(nonCanon, "n")
	out := map[string]c18wDetail{}
	for _, d := range []c18wDetail{
		{"string", c18wPrefix + "google.protobuf.StringValue", c18wMust(wrapperspb.String("100% é\x00"))},
		{"header", c18wPrefix + "connectrpc.conformance.v1.Header", c18wMust(hdr)},
		{"empty", c18wPrefix + "google.protobuf.Empty", c18wMust(&emptypb.Empty{})},
		{"noncanon", c18wPrefix + "connectrpc.conformance.v1.Header", nonCanon},
		{"foreignprefix", "example.com/types/connectrpc.conformance.v1.Header", c18wMust(hdr)},
	} {
		out[d.Name] = d
	}
	return out
}

type c18wMsg struct {
	Set  bool
	Text string
}

// c18wMessages: the message alphabet of the other C18 units (unset, "", ascii,
// every single byte that is valid UTF-8, multi-byte and %-strings).
func c18wMessages() []c18wMsg {
	out := []c18wMsg{{false, ""}, {true, ""}, {true, "an ascii message"}}
	for _, s := range []string{
		"é", "€", "𝄞", "100% sure", "%41", "%", "%%", "日本語 %E3%81", "a b", "�",
		"x%\x00y", "line1\nline2\ttab", " leading and trailing ", "type.googleapis.com/", "café 100% ☺",
	} {
		out = append(out, c18wMsg{true, s})
	}
	for b := 0; b < 128; b++ {
		out = append(out, c18wMsg{true, string([]byte{byte(b)})})
	}
	return out
}

// c18wMultiByteMessages: number of messages in front of the single-byte ones.
const c18wMultiByteMessages = 18

// ---------------------------------------------------------------------------
// servers and clients
// ---------------------------------------------------------------------------

type c18wQuiet struct{}

func (c18wQuiet) Printf(string, ...any)               {}
func (c18wQuiet) PrefixPrintf(string, string, ...any) {}

var _ internal.Printer = c18wQuiet{}

type c18wObs struct {
	Status  int
	Header  http.Header
	Trailer http.Header
	Body    []byte
}

type c18wCapture struct {
	base http.RoundTripper
	mu   sync.Mutex
	last *c18wObs
}

type c18wBody struct {
	rc   io.ReadCloser
	resp *http.Response
	obs  *c18wObs
	mu   *sync.Mutex
}

func (b *c18wBody) Read(p []byte) (int, error) {
	n, err := b.rc.Read(p)
	b.mu.Lock()
	b.obs.Body = append(b.obs.Body, p[:n]...)
	if err != nil {
		b.obs.Trailer = b.resp.Trailer.Clone()
	}
	b.mu.Unlock()
	return n, err
}

func (b *c18wBody) Close() error {
	err := b.rc.Close()
	b.mu.Lock()
	if len(b.obs.Trailer) == 0 {
		b.obs.Trailer = b.resp.Trailer.Clone()
	}
	b.mu.Unlock()
	return err
}

func (c *c18wCapture) RoundTrip(req *http.Request) (*http.Response, error) {
	resp, err := c.base.RoundTrip(req)
	if err != nil {
		return resp, err
	}
	obs := &c18wObs{Status: resp.StatusCode, Header: resp.Header.Clone()}
	c.mu.Lock()
	c.last = obs
	c.mu.Unlock()
	resp.Body = &c18wBody{rc: resp.Body, resp: resp, obs: obs, mu: &c.mu}
	return resp, nil
}

func (c *c18wCapture) take() *c18wObs {
	c.mu.Lock()
	defer c.mu.Unlock()
	o := c.last
	c.last = nil
	if o == nil {
		return nil
	}
	cp := *o
	cp.Body = append([]byte(nil), o.Body...)
	return &cp
}

type c18wServer struct {
	url     string
	srv     httpServer
	done    chan struct{}
	capture *c18wCapture
	client  *http.Client
}

func c18wStart(mode, httpName string) (*c18wServer, error) {
	version := conformancev1.HTTPVersion_HTTP_VERSION_1
	if httpName == "h2c" {
		version = conformancev1.HTTPVersion_HTTP_VERSION_2
	}
	srv, _, err := createServer(&conformancev1.ServerCompatRequest{
		Protocol:    conformancev1.Protocol_PROTOCOL_CONNECT,
		HttpVersion: version,
	}, "127.0.0.1:0", "", "", mode == "reference", c18wQuiet{}, nil)
	if err != nil {
		return nil, err
	}
	s := &c18wServer{srv: srv, done: make(chan struct{}), url: "http://" + srv.Addr()}
	go func() {
		defer close(s.done)
		_ = srv.Serve()
	}()
	var base http.RoundTripper
	if httpName == "h2c" {
		base = &http2.Transport{
			AllowHTTP:          true,
			DisableCompression: true,
			DialTLSContext: func(ctx context.Context, network, addr string, _ *tls.Config) (net.Conn, error) {
				return (&net.Dialer{}).DialContext(ctx, network, addr)
			},
		}
	} else {
		base = &http.Transport{DisableCompression: true}
	}
	s.capture = &c18wCapture{base: base}
	s.client = &http.Client{Transport: s.capture}
	return s, nil
}

func (s *c18wServer) stop() {
	s.client.CloseIdleConnections()
	_ = s.srv.GracefulShutdown(0)
	select {
	case <-s.done:
	case <-time.After(5 * time.Second):
	}
}

// ---------------------------------------------------------------------------
// one call
// ---------------------------------------------------------------------------

func (c c18wCase) protoError(pool map[string]c18wDetail) *conformancev1.Error {
	e := &conformancev1.Error{Code: conformancev1.Code(c.Code)}
	if c.MsgSet {
		e.Message = proto.String(c.Msg)
	}
	for _, n := range c.Details {
		d := pool[n]
		e.Details = append(e.Details, &anypb.Any{TypeUrl: d.URL, Value: append([]byte(nil), d.Value...)})
	}
	return e
}

func c18wResponseHeaders(on bool) []*conformancev1.Header {
	if !on {
		return nil
	}
	return []*conformancev1.Header{{Name: "x-c18-header", Value: []string{"h1", "h2"}}}
}

func c18wResponseTrailers(on bool) []*conformancev1.Header {
	if !on {
		return nil
	}
	return []*conformancev1.Header{{Name: "x-c18-trailer", Value: []string{"t1"}}}
}

func c18wRequestHeaders(c c18wCase, h http.Header) {
	h.Set("X-Test-Case-Name", "c18/"+c.RPC)
	httpVersion := "1"
	if c.HTTP == "h2c" {
		httpVersion = "2"
	}
	h.Set("X-Expect-Http-Version", httpVersion)
	h.Set("X-Expect-Http-Method", http.MethodPost)
	h.Set("X-Expect-Protocol", map[string]string{"connect": "1", "grpc": "2", "grpcweb": "3"}[c.Protocol])
	h.Set("X-Expect-Codec", map[string]string{"proto": "1", "json": "2"}[c.Codec])
	h.Set("X-Expect-Compression", "1")
	h.Set("X-Expect-Tls", "false")
}

// c18wCall performs the RPC and returns the error the connect-go client reports.
func c18wCall(srv *c18wServer, c c18wCase, pool map[string]c18wDetail) (callErr error, responses int) {
	opts := []connect.ClientOption{connect.WithAcceptCompression("gzip", nil, nil)} // no compression: envelopes are read by hand
	switch c.Protocol {
	case "grpc":
		opts = append(opts, connect.WithGRPC())
	case "grpcweb":
		opts = append(opts, connect.WithGRPCWeb())
	}
	if c.Codec == "json" {
		opts = append(opts, connect.WithProtoJSON())
	}
	client := conformancev1connect.NewConformanceServiceClient(srv.client, srv.url, opts...)
	ctx, cancel := context.WithTimeout(context.Background(), 30*time.Second) // liveness guard only
	defer cancel()
	unaryDef := &conformancev1.UnaryResponseDefinition{
		ResponseHeaders:  c18wResponseHeaders(c.Headers),
		ResponseTrailers: c18wResponseTrailers(c.Trailers),
		Response:         &conformancev1.UnaryResponseDefinition_Error{Error: c.protoError(pool)},
	}
	streamDef := &conformancev1.StreamResponseDefinition{
		ResponseHeaders:  c18wResponseHeaders(c.Headers),
		ResponseTrailers: c18wResponseTrailers(c.Trailers),
		Error:            c.protoError(pool),
	}
	for i := 0; i < c.Responses; i++ {
		streamDef.ResponseData = append(streamDef.ResponseData, []byte(fmt.Sprintf("response-%d", i)))
	}
	switch c.RPC {
	case "unary":
		req := connect.NewRequest(&conformancev1.UnaryRequest{ResponseDefinition: unaryDef, RequestData: []byte("req")})
		c18wRequestHeaders(c, req.Header())
		_, err := client.Unary(ctx, req)
		return err, 0
	case "idempotent":
		req := connect.NewRequest(&conformancev1.IdempotentUnaryRequest{ResponseDefinition: unaryDef, RequestData: []byte("req")})
		c18wRequestHeaders(c, req.Header())
		_, err := client.IdempotentUnary(ctx, req)
		return err, 0
	case "client":
		stream := client.ClientStream(ctx)
		c18wRequestHeaders(c, stream.RequestHeader())
		_ = stream.Send(&conformancev1.ClientStreamRequest{ResponseDefinition: unaryDef, RequestData: []byte("one")})
		_ = stream.Send(&conformancev1.ClientStreamRequest{RequestData: []byte("two")})
		_, err := stream.CloseAndReceive()
		return err, 0
	case "server":
		req := connect.NewRequest(&conformancev1.ServerStreamRequest{ResponseDefinition: streamDef, RequestData: []byte("req")})
		c18wRequestHeaders(c, req.Header())
		stream, err := client.ServerStream(ctx, req)
		if err != nil {
			return err, 0
		}
		n := 0
		for stream.Receive() {
			n++
		}
		err = stream.Err()
		_ = stream.Close()
		return err, n
	case "bidi":
		stream := client.BidiStream(ctx)
		c18wRequestHeaders(c, stream.RequestHeader())
		_ = stream.Send(&conformancev1.BidiStreamRequest{ResponseDefinition: streamDef, RequestData: []byte("one")})
		_ = stream.Send(&conformancev1.BidiStreamRequest{RequestData: []byte("two")})
		_ = stream.CloseRequest()
		n := 0
		var err error
		for {
			if _, err = stream.Receive(); err != nil {
				break
			}
			n++
		}
		_ = stream.CloseResponse()
		if errors.Is(err, io.EOF) {
			err = nil
		}
		return err, n
	}
	panic("unknown rpc " + c.RPC)
}

// ---------------------------------------------------------------------------
// reading the wire (independent of connect-go and of internal/grpcutil)
// ---------------------------------------------------------------------------

type c18wSeenDetail struct {
	Type  string // type name (behind the last '/')
	URL   string // as seen, if the route carries a URL
	Value []byte
}

type c18wSeen struct {
	Route   string
	Code    int32
	Message string
	Details []c18wSeenDetail
	// HasDetails: the route is able to say something about details (the
	// grpc-status / grpc-message pair is not)
	HasDetails bool
	Note       string
}

var c18wConnectCodes = map[string]int32{
	"canceled": 1, "unknown": 2, "invalid_argument": 3, "deadline_exceeded": 4, "not_found": 5, "already_exists": 6,
	"permission_denied": 7, "resource_exhausted": 8, "failed_precondition": 9, "aborted": 10, "out_of_range": 11,
	"unimplemented": 12, "internal": 13, "unavailable": 14, "data_loss": 15, "unauthenticated": 16,
}

func c18wTypeName(url string) string { return url[strings.LastIndexByte(url, '/')+1:] }

func c18wUnhex(b byte) (byte, bool) {
	switch {
	case b >= '0' && b <= '9':
		return b - '0', true
	case b >= 'a' && b <= 'f':
		return b - 'a' + 10, true
	case b >= 'A' && b <= 'F':
		return b - 'A' + 10, true
	}
	return 0, false
}

// c18wPercentDecode: gRPC "Status-Message": %XX stands for the byte XX, every
// other byte for itself. ok=false when a '%' is not followed by two hex digits
// or a byte outside printable ASCII is on the wire.
func c18wPercentDecode(s string) (string, bool) {
	var out []byte
	ok := true
	for i := 0; i < len(s); i++ {
		ch := s[i]
		if ch == '%' {
			if i+2 <= len(s)-1 {
				hi, ok1 := c18wUnhex(s[i+1])
				lo, ok2 := c18wUnhex(s[i+2])
				if ok1 && ok2 {
					out = append(out, hi<<4|lo)
					i += 2
					continue
				}
			}
			ok = false
			out = append(out, ch)
			continue
		}
		if ch < 0x20 || ch > 0x7e {
			ok = false
		}
		out = append(out, ch)
	}
	return string(out), ok
}

func c18wB64(s string) ([]byte, error) {
	s = strings.TrimRight(s, "=")
	return base64.RawStdEncoding.DecodeString(s)
}

// c18wEnvelopes splits an enveloped body.
func c18wEnvelopes(body []byte) (flags []byte, payloads [][]byte, ok bool) {
	for len(body) > 0 {
		if len(body) < 5 {
			return flags, payloads, false
		}
		n := int(binary.BigEndian.Uint32(body[1:5]))
		if len(body) < 5+n {
			return flags, payloads, false
		}
		flags = append(flags, body[0])
		payloads = append(payloads, body[5:5+n])
		body = body[5+n:]
	}
	return flags, payloads, true
}

type c18wJSONError struct {
	Code    string `json:"code"`
	Message string `json:"message"`
	Details []struct {
		Type  string `json:"type"`
		Value string `json:"value"`
	} `json:"details"`
}

func c18wFromJSON(route string, raw []byte) (*c18wSeen, string) {
	var je c18wJSONError
	if err := json.Unmarshal(raw, &je); err != nil {
		return nil, fmt.Sprintf("the error is not JSON (%v): %q", err, raw)
	}
	code, ok := c18wConnectCodes[je.Code]
	if !ok {
		return nil, fmt.Sprintf("unknown Connect code %q in %s", je.Code, raw)
	}
	seen := &c18wSeen{Route: route, Code: code, Message: je.Message, HasDetails: true}
	for _, d := range je.Details {
		v, err := c18wB64(d.Value)
		if err != nil {
			return nil, fmt.Sprintf("detail value %q is not base64: %v", d.Value, err)
		}
		seen.Details = append(seen.Details, c18wSeenDetail{Type: c18wTypeName(d.Type), URL: d.Type, Value: v})
	}
	return seen, ""
}

// c18wFromGRPCMeta reads grpc-status / grpc-message / grpc-status-details-bin
// from a metadata block (HTTP trailers, trailers-only headers or the gRPC-Web
// trailer message).
func c18wFromGRPCMeta(md http.Header) (out []*c18wSeen, problem string) {
	st := md.Values("Grpc-Status")
	if len(st) != 1 {
		return nil, fmt.Sprintf("grpc-status given %d times", len(st))
	}
	code, err := strconv.ParseInt(st[0], 10, 32)
	if err != nil {
		return nil, fmt.Sprintf("grpc-status %q is not a number", st[0])
	}
	msgs := md.Values("Grpc-Message")
	if len(msgs) > 1 {
		return nil, fmt.Sprintf("grpc-message given %d times", len(msgs))
	}
	wireMsg := ""
	if len(msgs) == 1 {
		wireMsg = msgs[0]
	}
	msg, ok := c18wPercentDecode(wireMsg)
	tr := &c18wSeen{Route: "trailers", Code: int32(code), Message: msg}
	if !ok {
		tr.Note = fmt.Sprintf("grpc-message %q is not a well-formed percent-encoded Status-Message", wireMsg)
	}
	out = append(out, tr)
	bins := md.Values("Grpc-Status-Details-Bin")
	if len(bins) > 1 {
		return out, fmt.Sprintf("grpc-status-details-bin given %d times", len(bins))
	}
	if len(bins) == 1 {
		data, err := c18wB64(bins[0])
		if err != nil {
			return out, fmt.Sprintf("grpc-status-details-bin %q is not base64: %v", bins[0], err)
		}
		var stp status.Status
		if err := proto.Unmarshal(data, &stp); err != nil {
			return out, fmt.Sprintf("grpc-status-details-bin does not hold a google.rpc.Status: %v", err)
		}
		sd := &c18wSeen{Route: "status-details", Code: stp.GetCode(), Message: stp.GetMessage(), HasDetails: true}
		for _, d := range stp.GetDetails() {
			sd.Details = append(sd.Details, c18wSeenDetail{Type: c18wTypeName(d.GetTypeUrl()), URL: d.GetTypeUrl(), Value: d.GetValue()})
		}
		out = append(out, sd)
	}
	return out, ""
}

func c18wParseWebTrailers(block []byte) http.Header {
	md := http.Header{}
	for _, line := range strings.Split(string(block), "\r\n") {
		if line == "" {
			continue
		}
		name, value, _ := strings.Cut(line, ":")
		md.Add(http.CanonicalHeaderKey(strings.TrimSpace(name)), strings.TrimSpace(value))
	}
	return md
}

// c18wReadWire returns what each wire route says.
func c18wReadWire(c c18wCase, obs *c18wObs) (out []*c18wSeen, problem string) {
	if obs == nil {
		return nil, "no HTTP response was received"
	}
	streaming := c.RPC != "unary" && c.RPC != "idempotent"
	switch c.Protocol {
	case "connect":
		if !streaming {
			if obs.Status == http.StatusOK {
				return nil, fmt.Sprintf("HTTP status 200 for an error response, body %q", obs.Body)
			}
			seen, p := c18wFromJSON("json", obs.Body)
			if p != "" {
				return nil, p
			}
			return []*c18wSeen{seen}, ""
		}
		flags, payloads, ok := c18wEnvelopes(obs.Body)
		if !ok || len(flags) == 0 {
			return nil, fmt.Sprintf("body is not a sequence of envelopes: %x", obs.Body)
		}
		last := len(flags) - 1
		if flags[last] != 0x02 {
			return nil, fmt.Sprintf("last envelope has flags %#x, want the (uncompressed) end-stream message", flags[last])
		}
		var end struct {
			Error json.RawMessage `json:"error"`
		}
		if err := json.Unmarshal(payloads[last], &end); err != nil || len(end.Error) == 0 {
			return nil, fmt.Sprintf("end-stream message without error: %q", payloads[last])
		}
		seen, p := c18wFromJSON("json", end.Error)
		if p != "" {
			return nil, p
		}
		return []*c18wSeen{seen}, ""
	case "grpc":
		md := obs.Trailer
		if len(md.Values("Grpc-Status")) == 0 {
			md = obs.Header // trailers-only response
		}
		return c18wFromGRPCMeta(md)
	case "grpcweb":
		flags, payloads, ok := c18wEnvelopes(obs.Body)
		if !ok {
			return nil, fmt.Sprintf("body is not a sequence of envelopes: %x", obs.Body)
		}
		if n := len(flags); n > 0 && flags[n-1]&0x80 != 0 {
			if flags[n-1] != 0x80 {
				return nil, fmt.Sprintf("trailer message has flags %#x, want 0x80 (uncompressed)", flags[n-1])
			}
			return c18wFromGRPCMeta(c18wParseWebTrailers(payloads[n-1]))
		}
		return c18wFromGRPCMeta(obs.Header) // trailers-only response
	}
	panic("unknown protocol " + c.Protocol)
}

// ---------------------------------------------------------------------------
// oracle
// ---------------------------------------------------------------------------

type c18wVerdict struct{ key, detail string }

const c18wRequestInfoType = "connectrpc.conformance.v1.ConformancePayload.RequestInfo"

// c18wTrimOWS: HTTP field values do not include leading / trailing blanks
// (RFC 9110 5.5; the gRPC-Web trailer block is parsed the same way), and the
// gRPC Status-Message leaves the space unescaped (a tab is escaped): a message
// that starts or ends with spaces cannot be told from the trimmed one on the
// grpc-message route. That limit is one of the wire format, not of a conversion
// of this repository. It applies to the route "trailers" and to the client view
// when the response has no grpc-status-details-bin (grpc-message is then the
// client's only source). The google.rpc.Status and the Connect JSON carry the
// message exactly and are compared exactly.
func c18wTrimOWS(s string) string { return strings.Trim(s, " ") }

func c18wJudge(c c18wCase, pool map[string]c18wDetail, seen *c18wSeen, wantReqInfo, modOWS bool) (aspect, detail string) {
	if seen.Note != "" {
		return "malformed", seen.Note
	}
	if seen.Code != c.Code {
		return "code", fmt.Sprintf("code %d arrives as %d", c.Code, seen.Code)
	}
	want := ""
	if c.MsgSet {
		want = c.Msg
	}
	got := seen.Message
	if modOWS {
		want, got = c18wTrimOWS(want), c18wTrimOWS(got)
	}
	if got != want {
		return "message", fmt.Sprintf("message %q arrives as %q", want, seen.Message)
	}
	if !seen.HasDetails {
		return "", ""
	}
	wantN := len(c.Details)
	if wantReqInfo {
		wantN++
	}
	if len(seen.Details) != wantN {
		return "detail-count", fmt.Sprintf("%d details (%d of the definition, request info appended by the server: %v) arrive as %d", wantN, len(c.Details), wantReqInfo, len(seen.Details))
	}
	for i, n := range c.Details {
		d, g := pool[n], seen.Details[i]
		if g.Type != c18wTypeName(d.URL) {
			return "detail-type", fmt.Sprintf("detail %d type %q arrives as %q", i, c18wTypeName(d.URL), g.URL)
		}
		if !bytes.Equal(g.Value, d.Value) {
			return "detail-bytes", fmt.Sprintf("detail %d (%s) bytes %x arrive as %x", i, d.Name, d.Value, g.Value)
		}
	}
	if wantReqInfo {
		g := seen.Details[wantN-1]
		if g.Type != c18wRequestInfoType {
			return "detail-type", fmt.Sprintf("the detail appended by the server has type %q, want %s", g.URL, c18wRequestInfoType)
		}
		if err := proto.Unmarshal(g.Value, &conformancev1.ConformancePayload_RequestInfo{}); err != nil {
			return "detail-bytes", fmt.Sprintf("the request info detail does not decode: %v", err)
		}
	}
	return "", ""
}

func c18wRunCase(srv *c18wServer, c c18wCase, pool map[string]c18wDetail, verbose bool) (verdicts []c18wVerdict, routes []string) {
	srv.capture.take()
	callErr, responses := c18wCall(srv, c, pool)
	obs := srv.capture.take()
	add := func(route, aspect, detail string) {
		verdicts = append(verdicts, c18wVerdict{
			key:    fmt.Sprintf("errwire:%s:%s:%s", c.Protocol, route, aspect),
			detail: fmt.Sprintf("%s: definition error{code %d, message set=%v %q, details %v}: route %s: %s", c.id(), c.Code, c.MsgSet, c.Msg, c.Details, route, detail),
		})
	}
	if responses != c.Responses {
		add("client", "responses", fmt.Sprintf("%d response messages before the error, want %d", responses, c.Responses))
	}
	wantReqInfo := c.Responses == 0
	// routes on the wire
	wire, problem := c18wReadWire(c, obs)
	if problem != "" {
		add("wire", "unreadable", problem)
	}
	sawDetails := false
	for _, seen := range wire {
		routes = append(routes, seen.Route)
		if seen.HasDetails {
			sawDetails = true
		}
		if verbose {
			fmt.Printf("C18 replay: route %s: code=%d message=%q details=%d %s\n", seen.Route, seen.Code, seen.Message, len(seen.Details), seen.Note)
		}
		if aspect, detail := c18wJudge(c, pool, seen, wantReqInfo, seen.Route == "trailers"); aspect != "" {
			add(seen.Route, aspect, detail)
		}
	}
	if problem == "" && !sawDetails && (len(c.Details) > 0 || wantReqInfo) {
		add("status-details", "missing", "details are expected but the response has no grpc-status-details-bin")
	}
	// route: what the caller of connect-go gets, back in test-case form
	if callErr == nil {
		add("client", "no-error", "the call succeeded")
	} else {
		back := internal.ConvertErrorToProtoError(callErr)
		seen := &c18wSeen{Route: "client", Code: int32(back.GetCode()), Message: back.GetMessage(), HasDetails: true}
		for _, d := range back.GetDetails() {
			seen.Details = append(seen.Details, c18wSeenDetail{Type: c18wTypeName(d.GetTypeUrl()), URL: d.GetTypeUrl(), Value: d.GetValue()})
		}
		routes = append(routes, "client")
		if verbose {
			fmt.Printf("C18 replay: client sees code=%d message=%q details=%d (%v)\n", seen.Code, seen.Message, len(seen.Details), callErr)
		}
		onlyGRPCMessage := c.Protocol != "connect" && problem == "" && !sawDetails
		if aspect, detail := c18wJudge(c, pool, seen, wantReqInfo, onlyGRPCMessage); aspect != "" {
			add("client", aspect, detail)
		}
	}
	if verbose && obs != nil {
		fmt.Printf("C18 replay: HTTP %d header=%v trailer=%v body=%q\n", obs.Status, obs.Header, obs.Trailer, obs.Body)
	}
	return verdicts, routes
}

// ---------------------------------------------------------------------------
// enumeration
// ---------------------------------------------------------------------------

type c18wEnv struct{ mode, http, protocol string }

func c18wEnvs() []c18wEnv {
	var out []c18wEnv
	for _, mode := range []string{"reference", "normal"} {
		out = append(out,
			c18wEnv{mode, "h2c", "grpc"},
			c18wEnv{mode, "h2c", "grpcweb"},
			c18wEnv{mode, "h2c", "connect"},
			c18wEnv{mode, "h1", "grpcweb"},
			c18wEnv{mode, "h1", "connect"},
		)
	}
	return out
}

type c18wRPC struct {
	name      string
	responses int
}

func c18wEnumerate(thorough bool, visit func(c c18wCase) bool) {
	rpcs := []c18wRPC{{"unary", 0}, {"client", 0}, {"server", 0}, {"server", 1}}
	codecs := []string{"proto"}
	if thorough {
		rpcs = append(rpcs, c18wRPC{"bidi", 0}, c18wRPC{"bidi", 1}, c18wRPC{"idempotent", 0})
		codecs = append(codecs, "json")
	}
	type ht struct{ h, t bool }
	hts := []ht{{false, false}, {true, true}, {true, false}, {false, true}}
	detailLists := [][]string{{}, {"string"}, {"header", "noncanon"}, {"foreignprefix"}, {"empty", "string", "header"}}
	msgs := c18wMessages()
	emit := func(env c18wEnv, codec string, rpc c18wRPC, code int32, m c18wMsg, details []string, x ht) bool {
		if rpc.name == "bidi" && env.http == "h1" {
			return true // connect-go clients refuse bidi streams over HTTP/1.1
		}
		if codec == "json" {
			for _, d := range details {
				if d == "noncanon" {
					// the JSON form of the REQUEST (an Any is written as its expanded message) cannot carry
					// a particular binary encoding to the server: the definition itself would not arrive
					return true
				}
			}
		}
		return visit(c18wCase{Mode: env.mode, HTTP: env.http, Protocol: env.protocol, Codec: codec, RPC: rpc.name, Responses: rpc.responses,
			Code: code, MsgSet: m.Set, Msg: m.Text, Details: details, Headers: x.h, Trailers: x.t})
	}
	// grid 1: every message x {no detail, one detail} x {no metadata, headers+trailers, headers only}
	g1Details := detailLists[:2]
	g1HT := hts[:3]
	if thorough {
		g1Details = detailLists
		g1HT = hts
	}
	for mi, m := range msgs {
		for _, details := range g1Details {
			for xi, x := range g1HT {
				if !thorough && mi >= c18wMultiByteMessages && xi >= 2 {
					continue // quick: the single-byte messages without the "headers only" combination
				}
				for _, rpc := range rpcs {
					for _, codec := range codecs {
						for _, env := range c18wEnvs() {
							if !emit(env, codec, rpc, 8, m, details, x) {
								return
							}
						}
					}
				}
			}
		}
	}
	// grid 2: every code x every detail list x every metadata combination, two messages
	for code := int32(1); code <= 16; code++ {
		for _, m := range []c18wMsg{{false, ""}, {true, "é 50%"}} {
			for _, details := range detailLists {
				for xi, x := range hts {
					if !thorough && xi >= 3 {
						continue // quick: without "trailers only"
					}
					for _, rpc := range rpcs {
						for _, codec := range codecs {
							for _, env := range c18wEnvs() {
								if !emit(env, codec, rpc, code, m, details, x) {
									return
								}
							}
						}
					}
				}
			}
		}
	}
}

func TestVerifC18ErrWire(t *testing.T) {
	r := rep.New("c18-errwire")
	defer r.Write()
	r.Rule = "error response definitions = (grid 1) every message of the C18 alphabet {unset, \"\", ascii, 15 multi-byte / %-strings, each single byte 0..127} x code 8 x details {none, one} (thorough: 5 lists incl. a non-canonical encoding and a foreign URL prefix) x response metadata {none, headers+trailers, headers only [quick: not for the single-byte messages]} (thorough: + trailers only); (grid 2) codes 1..16 x messages {unset, \"é 50%\"} x 5 detail lists x 3 (thorough 4) metadata combinations; each x RPC {unary, client stream, server stream with the error after 0 and after 1 response} (thorough: + bidi after 0 / 1, idempotent unary; JSON codec) x {reference mode, normal mode} x {gRPC/h2c, gRPC-Web/h2c, Connect/h2c, gRPC-Web/h1, Connect/h1}, sent to the real createServer with a connect-go client; every route on which the error can be read (client view converted back to the test-case form; Connect JSON error; grpc-status + percent-decoded grpc-message; google.rpc.Status of grpc-status-details-bin) must give code, message and details of the definition (+ the request info detail when no response was sent); a case is non-trivial when an error was read on at least two routes"
	pool := c18wDetailPool()
	servers := map[string]*c18wServer{}
	defer func() {
		for _, s := range servers {
			s.stop()
		}
	}()
	server := func(c c18wCase) *c18wServer {
		key := c.Mode + "/" + c.HTTP
		if s, ok := servers[key]; ok {
			return s
		}
		s, err := c18wStart(c.Mode, c.HTTP)
		if err != nil {
			t.Fatalf("C18: starting the reference server (%s): %v", key, err)
		}
		servers[key] = s
		return s
	}

	if in := rep.ReplayInput(); in != nil {
		var rec struct {
			Replay c18wCase `json:"replay"`
		}
		if err := json.Unmarshal(in, &rec); err != nil || rec.Replay.Protocol == "" {
			t.Fatalf("C18: unusable replay file: %v", err)
		}
		c := rec.Replay
		fmt.Printf("C18 replay: re-running case %s\n", c.id())
		verdicts, _ := c18wRunCase(server(c), c, pool, true)
		r.Eval(1)
		r.NonTrivial("")
		r.NonTrivial("replay")
		r.Sample(c)
		for _, v := range verdicts {
			fmt.Printf("C18 replay: STILL FAILS key=%s\n  %s\n", v.key, v.detail)
			r.Violate(v.key, v.detail, c)
		}
		if len(verdicts) == 0 {
			fmt.Println("C18 replay: every route agrees with the definition")
		}
		return
	}

	deadline := rep.Deadline()
	seen := map[string]bool{}
	var k int64
	c18wEnumerate(rep.Thorough(), func(c c18wCase) bool {
		k++
		if !r.Mine(k) {
			return true
		}
		if !deadline.IsZero() && k%64 == 0 && time.Now().After(deadline) {
			r.NotExhaustive("soft budget reached; cases are enumerated simplest-first, the rest was not evaluated")
			return false
		}
		verdicts, routes := c18wRunCase(server(c), c, pool, false)
		r.Eval(1)
		if len(routes) >= 2 {
			r.NonTrivial("")
		}
		r.Outcome(c.Protocol + ":" + c.RPC + ":routes=" + strings.Join(routes, "+"))
		if k%4001 == 1 {
			r.Sample(c)
		}
		for _, v := range verdicts {
			if seen[v.key] {
				r.Count("violations:"+v.key, 1)
				continue
			}
			seen[v.key] = true
			r.Violate(v.key, v.detail, c)
		}
		return true
	})
	r.Count("cases-enumerated", 0)
	if r.Shard == 0 {
		r.Count("size:errwire:cases", k)
		r.Count("size:errwire:messages", int64(len(c18wMessages())))
	}
}
