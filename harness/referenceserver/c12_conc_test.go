// C12, unit c12-conc — feedback of requests that are checked AT THE SAME TIME.
//
// The reference server checks every request on its own goroutine and all of them
// report through one printer (internal.NewPrinter over the server's stderr, which
// in the runner is a synchronous pipe read line by line and attributed by the text
// before the first ": "). The property wants feedback NAMING THE TEST CASE for
// each deviating aspect - also when several requests deviate at the same moment.
//
// This unit runs K = 2..4 real requests through the real referenceServerChecks ->
// internal.NewPrinter(w) path on K goroutines under the GATE scheduler: the
// packages `internal` and `internal/app/referenceserver` are compiled with the
// vsync shims, so every mutex acquisition (the printer's lock, the call counter's
// lock) is a scheduling point, and - in the scenarios that ask for it - so is every
// Write the printer issues to the server's stderr (a slow / blocking writer).
// Every interleaving at that granularity is executed (no preemption bound unless
// the scenario says so) and judged:
//   - every output line starts with the name of ONE test of the scenario that is
//     due feedback, followed by ": ", and the rest names no other test;
//   - no line without a test name, no unterminated line;
//   - every test that is due feedback (deviating request, trailers, repeated name)
//     is named by at least one line, a test that is not due any is never named;
//   - per test with one request: the truth table of c12-enum (every deviating
//     aspect mentioned, every line about a deviating aspect);
//   - the lines, as a multiset, are those of the same requests served one after
//     the other (in some order) - concurrency adds, loses and changes nothing;
//   - every request is handed to the inner handler exactly once; no deadlock,
//     no panic.
package referenceserver

import (
	"bytes"
	"encoding/json"
	"fmt"
	"io"
	"net/http"
	"net/http/httptest"
	"sort"
	"strconv"
	"strings"
	"testing"
	"testing/synctest"
	"time"

	"connectrpc.com/conformance/internal"
	"connectrpc.com/conformance/internal/verif/gate"
	"connectrpc.com/conformance/internal/verif/rep"
)

// c12ConcReq: one request of a scenario. Name is a letter (requests with the same
// letter carry the same test name); Kind says how the request relates to its
// expectation:
//
//	ok                 every aspect matches (due no feedback unless the name repeats)
//	codec              expected the other codec                     (1 aspect)
//	codec+compression  expected the other codec and gzip            (2 aspects)
//	many               expected HTTP/1.1, json, gzip, TLS           (4 aspects)
//	trailers           matches, but the body ends with HTTP trailers (reported AFTER the inner handler ran)
//
// Block says where the INNER handler (the RPC) of the request is held up - a
// scheduling point of its own, so that other requests arrive, are checked and
// finish while this one is "inside its RPC":
//
//	""            the inner handler returns at once
//	entry         a scheduling point when the inner handler is entered (body unread)
//	body          the inner handler reads the body to EOF (HTTP/2-style trailers become visible), then a scheduling point
//	entry+body    both
type c12ConcReq struct {
	Name  string `json:"name"`
	Kind  string `json:"kind"`
	Block string `json:"block,omitempty"`
}

type c12ConcScenario struct {
	Protocol   int          `json:"protocol"`
	Reqs       []c12ConcReq `json:"reqs"`
	WriterGate bool         `json:"writer_gate,omitempty"`  // every Write to the server's stderr is a scheduling point
	Arrival    bool         `json:"arrival_gate,omitempty"` // the arrival of every request at the middleware is a scheduling point (requests do not all start their checks together: one may arrive while another is in any phase - checked, inside its RPC, finished)
	Bound      int          `json:"bound,omitempty"`        // preemption bound + 1 (0: unbounded)
}

func c12ConcFullName(letter string) string { return "C12 Suite/concurrent/" + letter }

// c12ConcBuild: the request and its expectation.
func c12ConcBuild(sc c12ConcScenario, i int) (*http.Request, c12Side, c12Actual) {
	rq := sc.Reqs[i]
	act := c12TimeoutActual(sc.Protocol)
	exp := act.c12Side
	opts := c12ReqOpts{}
	switch rq.Kind {
	case "ok":
	case "codec":
		exp.Codec = 2
	case "codec+compression":
		exp.Codec, exp.Compression = 2, 2
	case "many":
		exp.Version, exp.Codec, exp.Compression, exp.TLS = 1, 2, 2, true
	case "trailers":
		opts.trailers = "eof"
	case "trailers-declared":
		opts.trailers = "declared" // HTTP/1.1 style: the key is announced in the header block, the value arrives at EOF
	default:
		panic("c12ConcBuild: unknown kind " + rq.Kind)
	}
	name := c12ConcFullName(rq.Name)
	opts.name, opts.exp = &name, &exp
	var holder *http.Request
	opts.holder = &holder
	req := c12BuildRequest(act, opts)
	if rq.Kind == "trailers" && req.Trailer == nil {
		req.Trailer = http.Header{} // as net/http's HTTP/2 server does: the map exists and is filled at EOF (see c12RunTrailers)
	}
	req.Header.Set("X-C12-Request-Id", strconv.Itoa(i))
	return req, exp, act
}

// c12ConcWriter is the server's stderr. Writes are serialised by whoever calls
// (that is the printer's job); with gated == true every Write is a scheduling
// point BEFORE the bytes are taken, like a pipe whose reader is slow.
type c12ConcWriter struct {
	buf   bytes.Buffer
	gated bool
}

func (w *c12ConcWriter) Write(p []byte) (int, error) {
	if w.gated {
		gate.PointAt("stderr.Write")
	}
	return w.buf.Write(p)
}

type c12ConcInner struct {
	calls []int
	block []string // per request: where the RPC is held up (c12ConcReq.Block)
}

func (in *c12ConcInner) ServeHTTP(_ http.ResponseWriter, req *http.Request) {
	id, err := strconv.Atoi(req.Header.Get("X-C12-Request-Id"))
	if err != nil || id < 0 || id >= len(in.calls) {
		return
	}
	in.calls[id]++
	// without a block the body is left to the middleware (it drains it afterwards "to look for trailers")
	switch in.block[id] {
	case "entry":
		gate.PointAt("rpc.entry")
	case "body":
		_, _ = io.Copy(io.Discard, req.Body)
		gate.PointAt("rpc.after-body")
	case "entry+body":
		gate.PointAt("rpc.entry")
		_, _ = io.Copy(io.Discard, req.Body)
		gate.PointAt("rpc.after-body")
	}
}

type c12ConcResult struct {
	Output   string   `json:"output"`
	Finished []bool   `json:"finished"`
	Panics   []string `json:"panics"`
	Inner    []int    `json:"inner_calls"`
	w        *c12ConcWriter
}

// collect fetches the output; to be called when every request has returned or is parked.
func (res *c12ConcResult) collect() { res.Output = res.w.buf.String() }

// c12ConcRun serves the requests of sc, request i through spawn("req<i>", ...).
// With spawn == nil the requests are served one after the other in the given order.
func c12ConcRun(sc c12ConcScenario, order []int, spawn func(name string, f func())) *c12ConcResult {
	n := len(sc.Reqs)
	w := &c12ConcWriter{gated: sc.WriterGate && spawn != nil}
	res := &c12ConcResult{Finished: make([]bool, n), Panics: make([]string, n), w: w}
	inner := &c12ConcInner{calls: make([]int, n), block: make([]string, n)}
	for i, rq := range sc.Reqs {
		inner.block[i] = rq.Block
	}
	handler := referenceServerChecks(inner, internal.NewPrinter(w))
	reqs := make([]*http.Request, n)
	for i := range sc.Reqs {
		reqs[i], _, _ = c12ConcBuild(sc, i)
	}
	serve := func(i int) {
		defer func() {
			if p := recover(); p != nil {
				res.Panics[i] = fmt.Sprint(p)
			}
			res.Finished[i] = true
		}()
		if sc.Arrival && spawn != nil {
			gate.PointAt("arrival")
		}
		handler.ServeHTTP(httptest.NewRecorder(), reqs[i])
	}
	for _, i := range order {
		i := i
		if spawn == nil {
			serve(i)
		} else {
			spawn("req"+strconv.Itoa(i), func() { serve(i) })
		}
	}
	res.Inner = inner.calls
	if spawn == nil {
		res.collect()
	}
	return res
}

func c12ConcLines(out string) (lines []string, unterminated bool) {
	if out == "" {
		return nil, false
	}
	unterminated = !strings.HasSuffix(out, "\n")
	return strings.Split(strings.TrimSuffix(out, "\n"), "\n"), unterminated
}

func c12ConcMultiset(lines []string) string {
	s := append([]string(nil), lines...)
	sort.Strings(s)
	return strings.Join(s, "\n")
}

// c12ConcSequential: the multisets of lines the scenario's requests produce when they
// are served one after the other, for every order (cached per scenario).
var c12ConcSeqCache = map[string]map[string]bool{}

func c12ConcSequential(sc c12ConcScenario) map[string]bool {
	sj, _ := json.Marshal(sc)
	if m, ok := c12ConcSeqCache[string(sj)]; ok {
		return m
	}
	m := map[string]bool{}
	n := len(sc.Reqs)
	perm := make([]int, n)
	for i := range perm {
		perm[i] = i
	}
	var rec func(k int)
	rec = func(k int) {
		if k == n {
			res := c12ConcRun(sc, perm, nil)
			lines, _ := c12ConcLines(res.Output)
			m[c12ConcMultiset(lines)] = true
			return
		}
		for i := k; i < n; i++ {
			perm[k], perm[i] = perm[i], perm[k]
			rec(k + 1)
			perm[k], perm[i] = perm[i], perm[k]
		}
	}
	rec(0)
	c12ConcSeqCache[string(sj)] = m
	return m
}

func c12ConcJudge(sc c12ConcScenario, res *c12ConcResult, parked []string, sequential map[string]bool) (verdicts []gateVerdict, outcome string) {
	add := func(key, format string, a ...any) {
		verdicts = append(verdicts, gateVerdict{key, fmt.Sprintf(format, a...)})
	}
	for i, p := range res.Panics {
		if p != "" {
			add("panic:concurrent", "request #%d panicked: %s", i+1, p)
		}
	}
	stuck := 0
	for _, f := range res.Finished {
		if !f {
			stuck++
		}
	}
	if stuck > 0 {
		add("concurrent-feedback:deadlock", "%d of %d requests never returned from the checks middleware; parked: %v; output so far %q", stuck, len(sc.Reqs), parked, res.Output)
		return verdicts, "conc:deadlock"
	}
	// who is due feedback
	group := map[string][]int{}
	var letters []string
	for i, rq := range sc.Reqs {
		if _, ok := group[rq.Name]; !ok {
			letters = append(letters, rq.Name)
		}
		group[rq.Name] = append(group[rq.Name], i)
	}
	due := map[string]bool{}
	for _, l := range letters {
		if len(group[l]) > 1 {
			due[l] = true
		}
		for _, i := range group[l] {
			if sc.Reqs[i].Kind != "ok" {
				due[l] = true
			}
		}
	}
	lines, unterminated := c12ConcLines(res.Output)
	if unterminated {
		add("concurrent-feedback:unterminated-line", "the feedback does not end with a newline: %q", res.Output)
	}
	byName := map[string][]string{}
	for _, line := range lines {
		owner := ""
		for _, l := range letters {
			if strings.HasPrefix(line, c12ConcFullName(l)+": ") {
				owner = l
				break
			}
		}
		if owner == "" {
			add("concurrent-feedback:line-without-test-name", "feedback line %q does not start with the name of any test in flight (%v); whole output %q", line, letters, res.Output)
			continue
		}
		rest := strings.TrimPrefix(line, c12ConcFullName(owner)+": ")
		for _, l := range letters {
			if strings.Contains(rest, c12ConcFullName(l)) {
				add("concurrent-feedback:line-names-several-tests", "feedback line %q names test %q and, after it, test %q; whole output %q", line, c12ConcFullName(owner), c12ConcFullName(l), res.Output)
				break
			}
		}
		byName[owner] = append(byName[owner], line)
	}
	dueCount := 0
	for _, l := range letters {
		full := c12ConcFullName(l)
		if due[l] {
			dueCount++
		}
		if due[l] && len(byName[l]) == 0 {
			add("concurrent-feedback:test-not-named", "test %q is due feedback (requests %v of %+v) but no line starts with its name; whole output %q", full, group[l], sc.Reqs, res.Output)
		}
		if !due[l] && len(byName[l]) != 0 {
			add("false-feedback:concurrent", "test %q (one request, every aspect matches) got feedback %q while other requests were being checked", full, byName[l])
		}
		if len(group[l]) == 1 && len(byName[l]) > 0 {
			i := group[l][0]
			_, exp, act := c12ConcBuild(sc, i)
			var jr c12Result
			if strings.HasPrefix(sc.Reqs[i].Kind, "trailers") {
				for _, line := range byName[l] {
					if !strings.Contains(strings.ToLower(strings.TrimPrefix(line, full+": ")), "trailer") {
						jr.fail("false-feedback:trailers:concurrent", "request deviates only by carrying trailers, but got line %q", line)
					}
				}
			} else {
				c12JudgeMatrix(&jr, full, exp, act, byName[l], nil, ":concurrent")
			}
			for _, v := range jr.verdicts {
				add(v.key, "%s; whole output %q", v.detail, res.Output)
			}
		}
	}
	if !sequential[c12ConcMultiset(lines)] {
		var want []string
		for m := range sequential {
			want = append(want, m)
		}
		sort.Strings(want)
		add("concurrent-feedback:differs-from-sequential", "the feedback lines of the concurrent requests are not those the same requests produce one after the other (in any order): got %q, want (as a multiset) one of %q", lines, want)
	}
	for i, c := range res.Inner {
		if c != 1 {
			add("request-not-served-once:concurrent", "request #%d reached the inner handler %d times", i+1, c)
		}
	}
	return verdicts, fmt.Sprintf("conc:requests=%d:tests-due-feedback=%d:lines=%s", len(sc.Reqs), dueCount, c12Bucket(len(lines)))
}

// c12ConcNamings: assignments of test names to K requests, canonical up to renaming
// (restricted growth strings): K=2: aa ab; K=3: aaa aab aba abb abc; ...
func c12ConcNamings(k int) []string {
	var out []string
	var rec func(prefix []byte, max byte)
	rec = func(prefix []byte, max byte) {
		if len(prefix) == k {
			out = append(out, string(prefix))
			return
		}
		for c := byte('a'); c <= max+1; c++ {
			m := max
			if c > m {
				m = c
			}
			rec(append(prefix, c), m)
		}
	}
	rec(nil, 'a'-1)
	return out
}

// c12ConcStaggered: sc with the arrival gate and the given RPC block places.
func c12ConcStaggered(sc c12ConcScenario, blocks []string) c12ConcScenario {
	sc.Arrival = true
	for i := range blocks {
		sc.Reqs[i].Block = blocks[i]
	}
	return sc
}

// c12ConcScenarios, simplest first.
func c12ConcScenarios(thorough bool) []c12ConcScenario {
	var out []c12ConcScenario
	protocols := []int{c12Connect}
	if thorough {
		protocols = []int{c12Connect, c12GRPC, c12GRPCWeb}
	}
	mk := func(p int, naming string, kinds []string, wg bool, bound int) c12ConcScenario {
		sc := c12ConcScenario{Protocol: p, WriterGate: wg, Bound: bound}
		for i := range kinds {
			sc.Reqs = append(sc.Reqs, c12ConcReq{Name: string(naming[i]), Kind: kinds[i]})
		}
		return sc
	}
	product := func(alpha []string, k int, yield func([]string)) {
		idx := make([]int, k)
		for {
			kinds := make([]string, k)
			for i, j := range idx {
				kinds[i] = alpha[j]
			}
			yield(kinds)
			i := k - 1
			for ; i >= 0; i-- {
				idx[i]++
				if idx[i] < len(alpha) {
					break
				}
				idx[i] = 0
			}
			if i < 0 {
				return
			}
		}
	}
	for _, p := range protocols {
		// two requests: every kind pair, same / different names, with and without the slow writer
		for _, wg := range []bool{false, true} {
			for _, naming := range c12ConcNamings(2) {
				product([]string{"ok", "codec", "codec+compression", "trailers", "many"}, 2, func(kinds []string) {
					out = append(out, mk(p, naming, kinds, wg, 0))
				})
			}
		}
		// three requests, lock granularity. quick: three different tests x every kind triple over {ok,
		// codec, codec+compression}, namings with a repeated test (aaa aab aba abb) x every triple over
		// {ok, codec}; thorough: every naming x every triple over {ok, codec, codec+compression, trailers}
		for _, naming := range c12ConcNamings(3) {
			alpha3 := []string{"ok", "codec", "codec+compression", "trailers"}
			if !thorough {
				alpha3 = []string{"ok", "codec"}
				if naming == "abc" {
					alpha3 = []string{"ok", "codec", "codec+compression"}
				}
			}
			product(alpha3, 3, func(kinds []string) {
				out = append(out, mk(p, naming, kinds, false, 0))
			})
		}
		// three requests with the slow writer: one deviating aspect each
		for _, naming := range c12ConcNamings(3) {
			out = append(out, mk(p, naming, []string{"codec", "codec", "codec"}, true, 0))
		}
		// requests that arrive while others are inside their RPC: the arrival of every request is a
		// scheduling point of its own and the inner handler may be held up (Block), so a request can be
		// checked from start to end - or only start - while another one sits in its RPC and still owes
		// its after-the-handler feedback (trailers). Axes: which requests carry trailers (eof-style /
		// declared) or deviate x where each RPC blocks x names x every interleaving.
		// K=2: every kind pair x every block pair x same / different name
		kinds2 := []string{"ok", "codec", "trailers", "trailers-declared"}
		blocks2 := []string{"", "entry", "body"}
		if thorough && p == c12Connect { // the middleware's concurrency does not depend on the protocol: the large programs once
			blocks2 = append(blocks2, "entry+body")
		}
		for _, naming := range c12ConcNamings(2) {
			product(kinds2, 2, func(kinds []string) {
				product(blocks2, 2, func(blocks []string) {
					out = append(out, c12ConcStaggered(mk(p, naming, kinds, false, 0), blocks))
				})
			})
		}
		// K=3. quick: one request carries trailers (each position) and is held up at entry / after the body,
		// the two others match and return at once, or are held up at entry as well; namings abc, aba, aab.
		// thorough (Connect; the other protocols: K=2 only): every naming x every non-empty set of trailer carriers x
		// block place of the carriers x the others returning at once / held up at entry, under preemption bound 2
		if !thorough {
			for _, naming := range []string{"abc", "aba", "aab"} {
				for pos := 0; pos < 3; pos++ {
					for _, b := range []string{"entry", "body"} {
						for _, ob := range []string{"", "entry"} {
							kinds, blocks := []string{"ok", "ok", "ok"}, []string{ob, ob, ob}
							kinds[pos], blocks[pos] = "trailers", b
							if ob != "" {
								blocks[(pos+2)%3] = "" // one of the others returns at once
								if naming != "abc" {
									continue
								}
							}
							out = append(out, c12ConcStaggered(mk(p, naming, kinds, false, 0), blocks))
						}
					}
				}
			}
		} else if p == c12Connect {
			for _, naming := range c12ConcNamings(3) {
				for set := 1; set < 8; set++ {
					for _, b := range []string{"entry", "body"} {
						for _, ob := range []string{"", "entry"} {
							kinds, blocks := []string{"ok", "ok", "ok"}, []string{ob, ob, ob}
							for pos := 0; pos < 3; pos++ {
								if set&(1<<pos) != 0 {
									kinds[pos], blocks[pos] = "trailers", b
								}
							}
							if set == 7 && ob != "" {
								continue
							}
							out = append(out, c12ConcStaggered(mk(p, naming, kinds, false, 3), blocks))
						}
					}
				}
			}
		}
		// four requests, lock granularity. quick: four different tests with one deviating aspect each,
		// and bare repeats (aabb, aaaa); thorough: every naming with one deviating aspect each, a mixed
		// program, and two aspects each under preemption bound 2
		if !thorough {
			out = append(out, mk(p, "abcd", []string{"codec", "codec", "codec", "codec"}, false, 0))
			out = append(out, mk(p, "aabb", []string{"ok", "ok", "ok", "ok"}, false, 0))
			out = append(out, mk(p, "aaaa", []string{"ok", "ok", "ok", "ok"}, false, 0))
		} else {
			for _, naming := range c12ConcNamings(4) {
				out = append(out, mk(p, naming, []string{"ok", "ok", "ok", "ok"}, false, 0))
				out = append(out, mk(p, naming, []string{"codec", "codec", "codec", "codec"}, false, 0))
				out = append(out, mk(p, naming, []string{"codec", "ok", "trailers", "codec"}, false, 0))
				out = append(out, mk(p, naming, []string{"codec+compression", "codec+compression", "codec+compression", "codec+compression"}, false, 3))
			}
		}
	}
	return out
}

func TestVerifC12Conc(t *testing.T) {
	r := rep.New("c12-conc")
	defer r.Write()
	r.Rule = "K = 2..4 requests served at the same time by the real referenceServerChecks -> internal.NewPrinter(stderr) path on K goroutines under the GATE scheduler (packages internal and internal/app/referenceserver compiled with the vsync shims: every mutex acquisition is a scheduling point; in writer_gate scenarios every Write to the server's stderr is one as well = a slow pipe). Scenario = protocol x assignment of test names to the requests (canonical up to renaming: all the same ... all different) x kind of every request (ok / codec / codec+compression / many = 4 aspects / trailers) [x slow writer]; K=2: all kind pairs with and without the slow writer; K=3: three different tests x all kind triples over {ok, codec, codec+compression}, namings with a repeated test x all triples over {ok, codec} (thorough: every naming x all triples over {ok, codec, codec+compression, trailers}) and, with the slow writer, codec x 3 for every naming; K=4: codec x 4 for four different tests, bare repeats aabb / aaaa (thorough: all 15 namings x {ok x 4, codec x 4, a mixed program, two aspects each under preemption bound 2}). Every interleaving of every scenario is one evaluation, distinct by its choice list; judged: each line = `<name of ONE test due feedback>: <message naming no other test>`, every test due feedback named, none else, truth table per single-request test, multiset of lines equal to that of a sequential execution, inner handler reached exactly once, no deadlock / panic"
	gateBoundOf = func(sc any) (int, bool) {
		if s, ok := sc.(c12ConcScenario); ok && s.Bound > 0 {
			return s.Bound - 1, true
		}
		return 0, false
	}
	defer func() { gateBoundOf = nil }()
	// one kind of failure shows in hundreds of interleavings of dozens of scenarios: the first two
	// executions per violation key (of this shard) are reported - and confirmed by the driver's
	// replays, which must see the same verdict again - the rest is only counted
	reported := map[string][]string{}
	replaying := rep.ReplayInput() != nil
	filter := func(sc c12ConcScenario, x *gate.Exec, verdicts []gateVerdict) []gateVerdict {
		if replaying || len(verdicts) == 0 {
			return verdicts
		}
		sj, _ := json.Marshal(sc)
		id := string(sj) + fmt.Sprint(x.Choices())
		var keep []gateVerdict
		for _, v := range verdicts {
			known := false
			for _, have := range reported[v.key] {
				known = known || have == id
			}
			if !known && len(reported[v.key]) >= 2 {
				r.Count("violating_executions_not_reported_individually", 1)
				continue
			}
			if !known {
				reported[v.key] = append(reported[v.key], id)
			}
			keep = append(keep, v)
		}
		return keep
	}
	gateExplore(t, r, c12ConcScenarios(rep.Thorough()), -1, func(sc c12ConcScenario, prefix []int, expect []gate.PointRec) (g gateRun) {
		sequential := c12ConcSequential(sc) // outside the bubble, no gating: gates are no-ops without an execution
		defer func() {
			if rr := recover(); rr != nil {
				g.leak = fmt.Sprint(rr)
			}
		}()
		synctest.Test(t, func(t *testing.T) {
			x := gate.Begin(prefix, expect)
			g.x = x
			order := make([]int, len(sc.Reqs))
			for i := range order {
				order[i] = i
			}
			res := c12ConcRun(sc, order, func(name string, f func()) { x.Go(name, f) })
			x.Run(time.Hour, nil)
			res.collect()
			g.verdicts, g.outcome = c12ConcJudge(sc, res, x.Waiting(), sequential)
			g.verdicts = filter(sc, x, g.verdicts)
			x.End()
			synctest.Wait()
		})
		return
	})
}
