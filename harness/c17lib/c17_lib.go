// Package c17lib is shared by the C17 harness files (which live in three
// different packages of the repository).  bin/check maps it to
// connectrpc.com/conformance/internal/verif/c17lib through the unit's
// extra_files entry.
//
// It holds (a) the alphabets: payloads, MessageContents, StreamContents, header
// and trailer lists, ordered simplest first; and (b) the reference side of the
// property: an INDEPENDENT decoder of raw bodies.  The decoder never calls the
// repository's compression package or its body encoders; it parses the 5-byte
// envelope prefix by hand and decompresses with compress/gzip, compress/zlib
// and the brotli / zstd / snappy modules directly.
package c17lib

import (
	"bytes"
	"compress/gzip"
	"compress/zlib"
	"encoding/binary"
	"encoding/json"
	"fmt"
	"io"
	"net/textproto"
	"strings"
	"sync"

	conformancev1 "connectrpc.com/conformance/internal/gen/proto/go/connectrpc/conformance/v1"
	"github.com/andybalholm/brotli"
	"github.com/golang/snappy"
	"github.com/klauspost/compress/zstd"
	"google.golang.org/protobuf/encoding/protojson"
	"google.golang.org/protobuf/proto"
	"google.golang.org/protobuf/types/known/anypb"
)

// ---------------------------------------------------------------------------
// Alphabets

// Compressions lists all seven enum values (unspecified + the six codings).
func Compressions() []conformancev1.Compression {
	return []conformancev1.Compression{
		conformancev1.Compression_COMPRESSION_UNSPECIFIED,
		conformancev1.Compression_COMPRESSION_IDENTITY,
		conformancev1.Compression_COMPRESSION_GZIP,
		conformancev1.Compression_COMPRESSION_BR,
		conformancev1.Compression_COMPRESSION_ZSTD,
		conformancev1.Compression_COMPRESSION_DEFLATE,
		conformancev1.Compression_COMPRESSION_SNAPPY,
	}
}

// FewCompressions is a sub-alphabet for the wide HTTP grids.
func FewCompressions() []conformancev1.Compression {
	return []conformancev1.Compression{
		conformancev1.Compression_COMPRESSION_UNSPECIFIED,
		conformancev1.Compression_COMPRESSION_GZIP,
		conformancev1.Compression_COMPRESSION_SNAPPY,
	}
}

func pattern(n int) []byte {
	out := make([]byte, n)
	for i := range out {
		out[i] = byte((i*7 + i/251) % 256)
	}
	return out
}

// SmallMessage is the "small proto" wrapped into an Any for binary_message.
func SmallMessage() proto.Message {
	return &conformancev1.Header{Name: "k", Value: []string{"v1", "v2"}}
}

// Payloads returns MessageContents without compression, simplest first.
// level 0: 3 payloads, 1: 5, 2: 8.
func Payloads(level int) []*conformancev1.MessageContents {
	anyMsg, err := anypb.New(SmallMessage())
	if err != nil {
		panic(err)
	}
	out := []*conformancev1.MessageContents{
		{Data: &conformancev1.MessageContents_Text{Text: "hello"}},
		{Data: &conformancev1.MessageContents_Binary{Binary: []byte{0x00, 0xff, 0x80, 0x01}}},
		{Data: &conformancev1.MessageContents_BinaryMessage{BinaryMessage: anyMsg}},
	}
	if level >= 1 {
		out = append(out,
			&conformancev1.MessageContents{}, // data unset
			&conformancev1.MessageContents{Data: &conformancev1.MessageContents_Text{Text: ""}},
		)
	}
	if level >= 2 {
		out = append(out,
			&conformancev1.MessageContents{Data: &conformancev1.MessageContents_Binary{Binary: []byte{}}},
			&conformancev1.MessageContents{Data: &conformancev1.MessageContents_Text{Text: strings.Repeat("The quick brown fox. ", 15)}},
			&conformancev1.MessageContents{Data: &conformancev1.MessageContents_Binary{Binary: pattern(5000)}},
		)
	}
	return out
}

// Messages = payloads x compressions.
func Messages(payloads []*conformancev1.MessageContents, comps []conformancev1.Compression) []*conformancev1.MessageContents {
	var out []*conformancev1.MessageContents
	for _, p := range payloads {
		for _, c := range comps {
			m := proto.Clone(p).(*conformancev1.MessageContents)
			m.Compression = c
			out = append(out, m)
		}
	}
	return out
}

// Items = flags x length mode x (payload absent | messages).
// lengths: nil entry = unset.
func Items(flags []uint32, lengths []*uint32, msgs []*conformancev1.MessageContents, withAbsent bool) []*conformancev1.StreamContents_StreamItem {
	var out []*conformancev1.StreamContents_StreamItem
	pls := msgs
	if withAbsent {
		pls = append([]*conformancev1.MessageContents{nil}, msgs...)
	}
	for _, p := range pls {
		for _, l := range lengths {
			for _, f := range flags {
				it := &conformancev1.StreamContents_StreamItem{Flags: f}
				if l != nil {
					it.Length = proto.Uint32(*l)
				}
				if p != nil {
					it.Payload = proto.Clone(p).(*conformancev1.MessageContents)
				}
				out = append(out, it)
			}
		}
	}
	return out
}

func U32s(vals ...int64) []*uint32 {
	var out []*uint32
	for _, v := range vals {
		if v < 0 {
			out = append(out, nil)
			continue
		}
		u := uint32(v)
		out = append(out, &u)
	}
	return out
}

var AllFlags = []uint32{0, 1, 2, 128, 255}

// Streams builds: the empty stream, every single item of `first`, and every
// pair first x second.
func Streams(first, second []*conformancev1.StreamContents_StreamItem) []*conformancev1.StreamContents {
	out := []*conformancev1.StreamContents{{}}
	for _, a := range first {
		out = append(out, &conformancev1.StreamContents{Items: []*conformancev1.StreamContents_StreamItem{a}})
	}
	for _, a := range first {
		for _, b := range second {
			out = append(out, &conformancev1.StreamContents{Items: []*conformancev1.StreamContents_StreamItem{a, b}})
		}
	}
	return out
}

// Body is the body of a raw request / response: none, one message, or a stream.
type Body struct {
	Unary  *conformancev1.MessageContents
	Stream *conformancev1.StreamContents
}

// Bodies: level 0 = a representative handful, 1 = quick set, 2 = full alphabet
// (stream items never lack a payload here: see unit c17-body for that shape).
func Bodies(level int) []Body {
	out := []Body{{}}
	var unary []*conformancev1.MessageContents
	var singles, first, second []*conformancev1.StreamContents_StreamItem
	switch level {
	case 0: // representative handful for the script grid
		ms := Messages(Payloads(0)[:1], FewCompressions()[:2])
		unary = ms
		singles = Items([]uint32{2}, U32s(-1), ms[:1], false)
		first = Items([]uint32{0}, U32s(3), ms, false)
		second = Items([]uint32{255}, U32s(-1), ms[1:], false)
	case 1: // quick
		unary = append(Messages(Payloads(0), FewCompressions()), &conformancev1.MessageContents{})
		hello := Payloads(0)[:1]
		bin := Payloads(0)[1:2]
		singles = Items(AllFlags, U32s(-1, 3), Messages(hello, FewCompressions()), false)
		first = Items([]uint32{0, 255}, U32s(-1, 3), Messages(hello, FewCompressions()[:1]), false)
		second = Items([]uint32{2}, U32s(-1, 3), Messages(bin, FewCompressions()[2:]), false)
	default: // thorough
		all := Messages(Payloads(2), Compressions())
		unary = all
		singles = Items(AllFlags, U32s(-1, 0, 3, 4294967295), all, false)
		first = Items(AllFlags, U32s(-1, 3, 4294967295), Messages(Payloads(0), Compressions()), false)
		second = Items([]uint32{0, 2}, U32s(-1, 3), Messages(Payloads(0)[:2], FewCompressions()), false)
	}
	for _, m := range unary {
		out = append(out, Body{Unary: m})
	}
	for _, s := range Streams(first, second)[:1] {
		out = append(out, Body{Stream: s})
	}
	for _, a := range singles {
		out = append(out, Body{Stream: &conformancev1.StreamContents{Items: []*conformancev1.StreamContents_StreamItem{a}}})
	}
	for _, s := range Streams(first, second)[1+len(first):] {
		out = append(out, Body{Stream: s})
	}
	return out
}

func H(name string, vals ...string) *conformancev1.Header {
	return &conformancev1.Header{Name: name, Value: vals}
}

// HeaderLists: 0-3 headers with 1-2 values; includes a Content-Type (which
// net/http would otherwise sniff) and names that occur in two entries of the
// list - spelled identically or differing only in case, adjacent or with another
// entry in between: all values of such a name must arrive, in list order.
// (Indices 0-3 are referred to by the harness files: new lists go behind them.)
func HeaderLists(level int) [][]*conformancev1.Header {
	a := H("X-Raw-A", "a1")
	b := H("X-Raw-B", "b1", "b 2; q=x")
	ct := H("Content-Type", "application/x-raw")
	a2 := H("x-raw-a", "a2", "a3")
	out := [][]*conformancev1.Header{
		nil,
		{b},
		{ct, a},
		{a, a2}, // same name in two entries, different case
		{H("X-Raw-R", "r1", "r2"), H("X-Raw-B", "b1"), H("X-Raw-R", "r3")}, // same name, same spelling, another entry in between
	}
	if level >= 1 {
		out = append(out, [][]*conformancev1.Header{{a}, {ct}, {a, b}, {b, a},
			{H("x-raw-r", "r1"), ct, H("X-RAW-R", "r2", "r3")}, // case variants around another entry
			{a, H("X-Raw-A", "a1")},                            // the same entry twice: the value must arrive twice
		}...)
	}
	return out
}

// TrailerLists: 0-3 trailers; X-Raw-A also occurs as a header name; names that
// occur in two entries of the list (identical spelling with another entry in
// between; spellings that differ only in case): all their values must arrive,
// in list order.  (Indices 0-2 are referred to by the harness files.)
func TrailerLists(level int) [][]*conformancev1.Header {
	t := H("X-Raw-T", "t1")
	u := H("X-Raw-U", "u1", "u2")
	a := H("X-Raw-A", "ta")
	t2 := H("x-raw-t", "t2")
	out := [][]*conformancev1.Header{
		nil,
		{t},
		{u, a},
		{H("X-Raw-R", "ra", "rb"), H("X-Raw-O", "rc"), H("X-Raw-R", "rd")}, // same name, same spelling, another entry in between
		{H("x-raw-s", "1"), H("X-Raw-S", "2")},                             // same name, different case
	}
	if level >= 1 {
		out = append(out, [][]*conformancev1.Header{{u}, {t, t2}, {t, u},
			{a, H("X-Raw-A", "tb", "tc")}, // repeated name that is also a header name of some header lists
			{t, t},                        // the same entry twice
			{H("X-RAW-S", "1", "2"), u, H("x-raw-s", "3")}, // case variants around another entry
		}...)
	}
	return out
}

// CORSHeaderNames are the response headers that the reference server's outermost
// middleware (rs/cors, in front of rawResponder) sets before the handler runs:
// Vary on every request, the three others when the request has an Origin.
var CORSHeaderNames = []string{"Vary", "Access-Control-Allow-Origin", "Access-Control-Expose-Headers", "Access-Control-Allow-Credentials"}

// PresetHeaders is what the generic outer middleware of unit c17-rawresp puts on
// the response before it calls rawResponder ("pre-set header by outer
// middleware"): one name outside and one inside the ordinary header alphabet.
var PresetHeaders = map[string][]string{"Cache-Control": {"no-store"}, "X-Raw-R": {"pre-1", "pre-2"}}

// OuterHeaderLists: raw header lists that name headers which middleware in front
// of rawResponder has already set when rawResponder is entered - in different
// case spellings, in one entry and in two entries (adjacent / around another
// entry).  The given values must all reach the wire, in list order.  Used by
// c17-refserver (real chain of createServer, with and without an Origin request
// header) and by c17-rawresp (generic pre-setting outer middleware).  These
// lists are NOT part of HeaderLists, so units c17-body / c17-rawreq keep their size.
func OuterHeaderLists(level int) [][]*conformancev1.Header {
	out := [][]*conformancev1.Header{
		{H("vary", "Accept-Encoding", "X-Custom")},
		{H("Vary", "v1"), H("X-Raw-B", "b1"), H("VARY", "v2", "v3")}, // two entries around another one
		{H("access-control-allow-origin", "https://raw.example")},
		{H("Access-Control-Allow-Origin", "o1"), H("Content-Type", "application/x-raw"), H("access-control-allow-origin", "o2")},
		{H("Access-Control-Expose-Headers", "X-A", "X-B"), H("access-control-allow-credentials", "false")},
		{H("Cache-Control", "max-age=60"), H("X-Raw-R", "r1", "r2")},
		{H("x-raw-r", "r1"), H("cache-control", "private"), H("X-Raw-R", "r2"), H("Cache-Control", "max-age=1", "must-revalidate")},
	}
	if level >= 1 {
		out = append(out, [][]*conformancev1.Header{
			{H("Vary", "*")},
			{H("VARY", "a"), H("vary", "b")},                // adjacent case variants
			{H("Access-Control-Allow-Credentials", "true")}, // the value the middleware sets itself
			{H("Vary", "Origin")},                           // the value the middleware sets itself
			{H("access-control-expose-headers", "X-A"), H("Vary", "v"), H("Access-Control-Expose-Headers", "X-B")},
			{H("Vary", "v1"), H("Access-Control-Allow-Origin", "o"), H("Access-Control-Expose-Headers", "e1", "e2"), H("Access-Control-Allow-Credentials", "c")},
			{H("cache-control", "public")},
			{H("X-Raw-R", "r1"), H("X-Raw-R", "r1")}, // the same entry twice
		}...)
	}
	return out
}

// OuterTrailerLists: trailers named like headers that outer middleware sets (no
// middleware sets trailers, so exactly the given values are demanded).  Names
// that net/http refuses as trailers (Cache-Control, ...) are not used.
func OuterTrailerLists(level int) [][]*conformancev1.Header {
	out := [][]*conformancev1.Header{
		nil,
		{H("Vary", "tv1", "tv2")},
		{H("access-control-allow-origin", "t-o1"), H("X-Raw-T", "t1"), H("Access-Control-Allow-Origin", "t-o2")},
	}
	if level >= 1 {
		out = append(out, [][]*conformancev1.Header{
			{H("vary", "tv1"), H("Access-Control-Expose-Headers", "te")},
			{H("X-Raw-R", "tr1"), H("Access-Control-Allow-Credentials", "tc")},
		}...)
	}
	return out
}

// Subsequence: do all of want's elements occur in got, in order?
func Subsequence(want, got []string) bool {
	i := 0
	for _, g := range got {
		if i < len(want) && g == want[i] {
			i++
		}
	}
	return i == len(want)
}

// Entries returns, per canonical name, the number of list entries that name it.
func Entries(hs []*conformancev1.Header) map[string]int {
	m := map[string]int{}
	for _, h := range hs {
		m[textproto.CanonicalMIMEHeaderKey(h.GetName())]++
	}
	return m
}

// Group returns canonical name -> values in listed order, and the names in
// first-appearance order.
func Group(hs []*conformancev1.Header) (map[string][]string, []string) {
	m := map[string][]string{}
	var names []string
	for _, h := range hs {
		k := textproto.CanonicalMIMEHeaderKey(h.GetName())
		if _, ok := m[k]; !ok {
			names = append(names, k)
		}
		m[k] = append(m[k], h.GetValue()...)
	}
	return m, names
}

func EqualStrings(a, b []string) bool {
	if len(a) != len(b) {
		return false
	}
	for i := range a {
		if a[i] != b[i] {
			return false
		}
	}
	return true
}

// ---------------------------------------------------------------------------
// Independent decoder

var (
	zstdOnce sync.Once
	zstdDec  *zstd.Decoder
)

// Decompress undoes one of the six codings with the library that defines it.
func Decompress(c conformancev1.Compression, in []byte) ([]byte, error) {
	switch c {
	case conformancev1.Compression_COMPRESSION_UNSPECIFIED, conformancev1.Compression_COMPRESSION_IDENTITY:
		return in, nil
	case conformancev1.Compression_COMPRESSION_GZIP:
		zr, err := gzip.NewReader(bytes.NewReader(in))
		if err != nil {
			return nil, err
		}
		zr.Multistream(false)
		return io.ReadAll(zr)
	case conformancev1.Compression_COMPRESSION_DEFLATE:
		// HTTP "deflate" content-coding = zlib format (RFC 1950)
		zr, err := zlib.NewReader(bytes.NewReader(in))
		if err != nil {
			return nil, err
		}
		return io.ReadAll(zr)
	case conformancev1.Compression_COMPRESSION_BR:
		if len(in) == 0 {
			return nil, io.ErrUnexpectedEOF // an empty brotli stream is at least one byte
		}
		out, err := io.ReadAll(brotli.NewReader(bytes.NewReader(in)))
		if err != nil {
			return nil, err
		}
		// This reader reports a clean EOF also for a stream that is cut before
		// its final (empty, ISLAST) meta-block.  A stream is complete iff the
		// decoder has reached its end state, which the reader reveals by
		// rejecting any further byte as "excessive input".
		more := append(append([]byte{}, in...), 0)
		_, err2 := io.ReadAll(brotli.NewReader(bytes.NewReader(more)))
		if err2 == nil || err2.Error() != "brotli: excessive input" {
			return nil, io.ErrUnexpectedEOF
		}
		return out, nil
	case conformancev1.Compression_COMPRESSION_ZSTD:
		zstdOnce.Do(func() {
			var err error
			zstdDec, err = zstd.NewReader(nil, zstd.WithDecoderConcurrency(1))
			if err != nil {
				panic(err)
			}
		})
		return zstdDec.DecodeAll(in, nil)
	case conformancev1.Compression_COMPRESSION_SNAPPY:
		return io.ReadAll(snappy.NewReader(bytes.NewReader(in)))
	}
	return nil, fmt.Errorf("unknown compression %v", c)
}

// payloadMatches: do the decompressed bytes `got` equal what the definition
// specifies?  text/binary: the bytes; binary_message: a serialization of the
// message inside the Any (compared as messages, so any valid protobuf binary
// encoding of it is accepted); unset / absent: nothing.
func payloadMatches(mc *conformancev1.MessageContents, got []byte) bool {
	switch d := mc.GetData().(type) {
	case nil:
		return len(got) == 0
	case *conformancev1.MessageContents_Binary:
		return bytes.Equal(d.Binary, got)
	case *conformancev1.MessageContents_Text:
		return string(got) == d.Text
	case *conformancev1.MessageContents_BinaryMessage:
		want, err := d.BinaryMessage.UnmarshalNew()
		if err != nil {
			return false
		}
		have := want.ProtoReflect().New().Interface()
		if err := proto.Unmarshal(got, have); err != nil {
			return false
		}
		return proto.Equal(want, have)
	}
	return false
}

// wireMatches: does `wire` decode (with the coding the definition names) to the
// specified payload?
func wireMatches(mc *conformancev1.MessageContents, wire []byte) bool {
	if mc.GetData() == nil {
		// proto comment + property: nothing specified, nothing written
		return len(wire) == 0
	}
	plain, err := Decompress(mc.GetCompression(), wire)
	if err != nil {
		return false
	}
	return payloadMatches(mc, plain)
}

// Extent returns the smallest n such that wire[:n] is a complete encoding of
// mc, or -1.  All six codings are self-delimiting or yield less output when
// cut short, so the smallest n is where the encoding of mc ends.
func Extent(mc *conformancev1.MessageContents, wire []byte) int {
	switch mc.GetCompression() {
	case conformancev1.Compression_COMPRESSION_UNSPECIFIED, conformancev1.Compression_COMPRESSION_IDENTITY:
		// identity, text/binary/unset: the only candidate is the payload's own
		// length.  (binary_message is compared as a message: fall through to
		// the search.)
		if _, isMsg := mc.GetData().(*conformancev1.MessageContents_BinaryMessage); !isMsg {
			n := payloadLen(mc)
			if n <= len(wire) && wireMatches(mc, wire[:n]) {
				return n
			}
			return -1
		}
	}
	for n := 0; n <= len(wire); n++ {
		if wireMatches(mc, wire[:n]) {
			return n
		}
	}
	return -1
}

func payloadLen(mc *conformancev1.MessageContents) int {
	switch d := mc.GetData().(type) {
	case *conformancev1.MessageContents_Binary:
		return len(d.Binary)
	case *conformancev1.MessageContents_Text:
		return len(d.Text)
	case *conformancev1.MessageContents_BinaryMessage:
		return len(d.BinaryMessage.GetValue())
	}
	return 0
}

// Problem is a mismatch between a body on the wire and its definition.
type Problem struct {
	Kind   string // stable: becomes part of the violation key
	Detail string
}

func hexs(b []byte) string {
	if len(b) > 96 {
		return fmt.Sprintf("%x...(%d bytes)", b[:96], len(b))
	}
	return fmt.Sprintf("%x", b)
}

// CheckUnary: the wire bytes are exactly one encoding of mc.
func CheckUnary(mc *conformancev1.MessageContents, wire []byte) *Problem {
	if !wireMatches(mc, wire) {
		return &Problem{"unary-payload", fmt.Sprintf("body %s does not decode (%v) to the specified payload", hexs(wire), mc.GetCompression())}
	}
	if len(wire) > 0 && wireMatches(mc, wire[:len(wire)-1]) {
		return &Problem{"unary-trailing-bytes", fmt.Sprintf("body %s carries bytes after the complete payload", hexs(wire))}
	}
	return nil
}

// DecodedItem is what the independent decoder recovered for one stream item.
type DecodedItem struct {
	Flags    uint32 `json:"flags"`
	Declared uint32 `json:"declared_length"`
	Extent   int    `json:"payload_bytes_on_wire"`
}

// CheckStream parses the wire bytes as the sequence of enveloped items that sc
// specifies: flags byte, big-endian declared length (= explicit length if set,
// else number of payload bytes that follow), payload in the item's coding; and
// nothing after the last item.
func CheckStream(sc *conformancev1.StreamContents, wire []byte) ([]DecodedItem, *Problem) {
	pos := 0
	var items []DecodedItem
	for i, it := range sc.GetItems() {
		rest := wire[pos:]
		if len(rest) < 5 {
			return items, &Problem{"stream-item-missing", fmt.Sprintf("item #%d of %d: only %d byte(s) left on the wire (body %s)", i+1, len(sc.GetItems()), len(rest), hexs(wire))}
		}
		flags := uint32(rest[0])
		declared := binary.BigEndian.Uint32(rest[1:5])
		rest = rest[5:]
		di := DecodedItem{Flags: flags, Declared: declared}
		if flags != it.GetFlags() {
			return items, &Problem{"stream-flags", fmt.Sprintf("item #%d: flags %d on the wire, %d specified", i+1, flags, it.GetFlags())}
		}
		if it.Length != nil {
			if declared != it.GetLength() {
				return items, &Problem{"stream-explicit-length", fmt.Sprintf("item #%d: declared length %d on the wire, explicit length %d specified", i+1, declared, it.GetLength())}
			}
			ext := Extent(it.GetPayload(), rest)
			if ext < 0 {
				return items, &Problem{"stream-explicit-length-payload", fmt.Sprintf("item #%d (explicit length %d): the specified payload does not follow the prefix; rest of body %s", i+1, declared, hexs(rest))}
			}
			di.Extent = ext
			pos += 5 + ext
		} else {
			if int64(declared) > int64(len(rest)) {
				return items, &Problem{"stream-computed-length", fmt.Sprintf("item #%d: declared length %d exceeds the %d byte(s) that follow", i+1, declared, len(rest))}
			}
			chunk := rest[:declared]
			if !wireMatches(it.GetPayload(), chunk) {
				return items, &Problem{"stream-computed-length-payload", fmt.Sprintf("item #%d: the %d declared byte(s) %s do not decode (%v) to the specified payload", i+1, declared, hexs(chunk), it.GetPayload().GetCompression())}
			}
			if declared > 0 && wireMatches(it.GetPayload(), chunk[:declared-1]) {
				return items, &Problem{"stream-computed-length", fmt.Sprintf("item #%d: declared length %d is larger than the encoded payload", i+1, declared)}
			}
			di.Extent = int(declared)
			pos += 5 + int(declared)
		}
		items = append(items, di)
	}
	if pos != len(wire) {
		return items, &Problem{"stream-trailing-bytes", fmt.Sprintf("%d byte(s) after the last specified item: %s", len(wire)-pos, hexs(wire[pos:]))}
	}
	return items, nil
}

// ---------------------------------------------------------------------------
// Replay helpers

func JSON(m proto.Message) json.RawMessage {
	if m == nil {
		return json.RawMessage("null")
	}
	b, err := protojson.Marshal(m)
	if err != nil {
		panic(err)
	}
	// protojson output is deliberately unstable in whitespace; normalise
	var buf bytes.Buffer
	if err := json.Compact(&buf, b); err != nil {
		panic(err)
	}
	return buf.Bytes()
}

func FromJSON(raw json.RawMessage, m proto.Message) error {
	return protojson.Unmarshal(raw, m)
}

func Short(m proto.Message) string {
	s := string(JSON(m))
	if len(s) > 600 {
		s = s[:600] + "..."
	}
	return s
}
