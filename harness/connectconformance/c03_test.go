package connectconformance

// C03 — "Result assertion flags every semantic deviation, allows only
// documented leniency".
//
// Plain bounded-exhaustive ENUM harness around the real testResults.assert.
// Expected results E come from (1) every distinct ExpectedResponse of the
// expanded embedded corpus and (2) a hand-enumerated grammar. For every E:
//
//   identity   assert(E, clone(E)) passes;
//   leniency   every rewrite the statement documents as tolerated, applied at
//              every position, passes;
//   deviation  every single deviation the statement lists, applied at every
//              position, fails AND the failure text names the discrepancy.
//
//   code route every E with an error is met again under other_allowed_error_codes
//              lists of 1, 2 and 3 alternatives (and its own list) with the
//              reported code being the primary one / each alternative; every
//              leniency and every deviation above is applied on top and must
//              keep its verdict (an allowed alternative waives the code only);
//   composed   every ordered pair of leniency rewrites of one E (first A, then B
//              applied to the result of A) passes (c03LeniencyPairs);
//   unknown    fields unknown to the schema, in front of / behind / inside every
//              nested message of an echoed request, are a deviation of that request;
//              expectations whose requests carry such fields themselves
//              (c03UnknownEdits, c03UnknownFamily);
//   history    two assertions in one process: the verdict of the second one is
//              the verdict it gets in a fresh state (c03History*).
//
// The rewrites, the deviations and the tokens that a failure text must contain
// are written from the property statement, the proto comments and docs/; nothing
// here is derived from results.go except the call signature and the three
// definition fields assert() reads (expected_response, other_allowed_error_codes,
// request.stream_type).

import (
	"crypto/sha1"
	"encoding/hex"
	"encoding/json"
	"fmt"
	"os"
	"os/exec"
	"path/filepath"
	"sort"
	"strconv"
	"strings"
	"sync"
	"testing"
	"time"

	"connectrpc.com/conformance/internal/app/connectconformance/testsuites"
	conformancev1 "connectrpc.com/conformance/internal/gen/proto/go/connectrpc/conformance/v1"
	"connectrpc.com/conformance/internal/verif/rep"
	"google.golang.org/protobuf/encoding/protojson"
	"google.golang.org/protobuf/encoding/protowire"
	"google.golang.org/protobuf/proto"
	"google.golang.org/protobuf/reflect/protoreflect"
	"google.golang.org/protobuf/types/known/anypb"
)

// ---------------------------------------------------------------------------
// expected results
// ---------------------------------------------------------------------------

type c03Expected struct {
	ID     string // stable identity (replay)
	Source string // corpus permutation name or "grammar"
	Def    *conformancev1.TestCase
	// composed leniencies (c03LeniencyPairs) in the quick / in the thorough tier: 0 none, 1 the
	// representative pairs, 2 every ordered pair
	PairQuick, PairFull int
}

const c03BigData = 4096 // bytes fields above this size are the padding of size-limit cases

func c03Repo() string {
	if repo := os.Getenv("VERIF_REPO"); repo != "" {
		return repo
	}
	return "/repo"
}

// c03LoadCorpus expands the embedded suites the way Run() does, in the three
// run modes, against the reference configuration, and keeps one test case per
// distinct (stream type, other allowed codes, expected response); payload data
// of size-limit cases is abstracted to its length class so those are kept once
// per shape.
func c03LoadCorpus() ([]*c03Expected, map[string]int64, error) {
	stats := map[string]int64{}
	cfgPath := filepath.Join(c03Repo(), "testing/reference-impls-config.yaml")
	cfgData, err := os.ReadFile(cfgPath)
	if err != nil {
		cfgPath, cfgData = "", nil // default config: all features
		stats["corpus_default_config"] = 1
	}
	configCases, err := parseConfig(cfgPath, cfgData)
	if err != nil {
		return nil, nil, err
	}
	stats["corpus_config_cases"] = int64(len(configCases))
	byKey := map[string]*c03Expected{}
	for _, mode := range []conformancev1.TestSuite_TestMode{
		conformancev1.TestSuite_TEST_MODE_UNSPECIFIED,
		conformancev1.TestSuite_TEST_MODE_CLIENT,
		conformancev1.TestSuite_TEST_MODE_SERVER,
	} {
		data, err := testsuites.LoadTestSuites()
		if err != nil {
			return nil, nil, err
		}
		suites, err := parseTestSuites(data)
		if err != nil {
			return nil, nil, err
		}
		lib, err := newTestCaseLibrary(suites, configCases, mode)
		if err != nil {
			return nil, nil, err
		}
		names := make([]string, 0, len(lib.testCases))
		for name := range lib.testCases {
			names = append(names, name)
		}
		sort.Strings(names)
		stats["corpus_permutations"] += int64(len(names))
		for _, name := range names {
			tc := lib.testCases[name]
			if tc.ExpectedResponse == nil || tc.Request == nil {
				stats["corpus_without_expectation"]++
				continue
			}
			key := c03ShapeKey(tc)
			if _, ok := byKey[key]; ok {
				continue
			}
			byKey[key] = &c03Expected{ID: "corpus:" + key, Source: name, Def: tc, PairQuick: 1, PairFull: 2}
		}
	}
	keys := make([]string, 0, len(byKey))
	for k := range byKey {
		keys = append(keys, k)
	}
	sort.Strings(keys)
	out := make([]*c03Expected, 0, len(keys))
	for _, k := range keys {
		e := byKey[k]
		// only the fields assert() consults are kept in the definition
		e.Def = &conformancev1.TestCase{
			Request:                &conformancev1.ClientCompatRequest{StreamType: e.Def.Request.StreamType},
			ExpectedResponse:       e.Def.ExpectedResponse,
			OtherAllowedErrorCodes: e.Def.OtherAllowedErrorCodes,
		}
		out = append(out, e)
	}
	stats["corpus_distinct_expected"] = int64(len(out))
	return out, stats, nil
}

func c03ShapeKey(tc *conformancev1.TestCase) string {
	exp := tc.ExpectedResponse
	if c03IsBig(tc) {
		// abstract the padding of size-limit cases to "BIG"
		exp = proto.Clone(exp).(*conformancev1.ClientResponseResult)
		for _, p := range exp.Payloads {
			if len(p.Data) > c03BigData {
				p.Data = []byte("BIG")
			}
			for _, q := range p.GetRequestInfo().GetRequests() {
				if len(q.Value) > c03BigData {
					q.Value = []byte("BIG")
				}
			}
		}
		for _, d := range exp.GetError().GetDetails() {
			if len(d.Value) > c03BigData {
				d.Value = []byte("BIG")
			}
		}
	}
	h := sha1.New()
	fmt.Fprintf(h, "%d|%v|", tc.Request.GetStreamType(), tc.OtherAllowedErrorCodes)
	b, err := proto.MarshalOptions{Deterministic: true}.Marshal(exp)
	if err != nil {
		panic(err)
	}
	h.Write(b)
	return hex.EncodeToString(h.Sum(nil))[:16]
}

// c03Full: the thorough tier, and a replay (which looks its case up in the largest enumeration)
func c03Full() bool {
	c03FullOnce.Do(func() { c03FullVal = rep.Thorough() || rep.ReplayInput() != nil })
	return c03FullVal
}

var (
	c03FullOnce sync.Once
	c03FullVal  bool
)

func c03IsBig(tc *conformancev1.TestCase) bool {
	return proto.Size(tc.ExpectedResponse) > 16*c03BigData
}

// --- grammar ----------------------------------------------------------------

func c03Hdr(name string, vals ...string) *conformancev1.Header {
	return &conformancev1.Header{Name: name, Value: vals}
}

func c03Any(typeName string, value []byte) *anypb.Any {
	return &anypb.Any{TypeUrl: "type.googleapis.com/" + typeName, Value: value}
}

// a Header{name: n, value: [v]} message, hand-encoded
func c03HeaderBytes(n, v string) []byte {
	b := []byte{0x0a, byte(len(n))}
	b = append(b, n...)
	b = append(b, 0x12, byte(len(v)))
	b = append(b, v...)
	return b
}

var c03GrammarDims = []struct {
	name string
	n    int
}{
	{"st", 5}, // stream type
	{"p", 4},  // payload count 0..3
	{"e", 7},  // error shape
	{"o", 4},  // other allowed codes (none, 1, 2, 3 entries)
	{"m", 6},  // metadata shape
	{"r", 5},  // request info shape
	{"h", 2},  // http status
}

// base values of the non-stream coordinates (the quick tier keeps the
// combinations that differ from the base in at most two coordinates)
var c03GrammarBase = []int{0, 1, 0, 0, 0, 0, 0}

func c03GrammarBuild(c []int) *conformancev1.TestCase {
	st := []conformancev1.StreamType{
		conformancev1.StreamType_STREAM_TYPE_UNARY,
		conformancev1.StreamType_STREAM_TYPE_CLIENT_STREAM,
		conformancev1.StreamType_STREAM_TYPE_SERVER_STREAM,
		conformancev1.StreamType_STREAM_TYPE_HALF_DUPLEX_BIDI_STREAM,
		conformancev1.StreamType_STREAM_TYPE_FULL_DUPLEX_BIDI_STREAM,
	}[c[0]]
	nPayloads, errShape, other, meta, reqInfo, status := c[1], c[2], c[3], c[4], c[5], c[6]
	single := st == conformancev1.StreamType_STREAM_TYPE_UNARY || st == conformancev1.StreamType_STREAM_TYPE_CLIENT_STREAM
	// validity of the combination
	if single && nPayloads > 1 {
		return nil
	}
	if single && errShape != 0 && nPayloads != 0 {
		return nil // docs/testing_clients.md: unary and client-stream errors have zero payloads
	}
	if single && errShape == 0 && nPayloads != 1 {
		return nil // a successful unary / client-stream RPC has exactly one response
	}
	if other != 0 && errShape == 0 {
		return nil
	}
	if reqInfo != 0 && nPayloads == 0 {
		return nil
	}
	if reqInfo == 3 && st != conformancev1.StreamType_STREAM_TYPE_UNARY {
		return nil // Connect GET is unary only
	}
	exp := &conformancev1.ClientResponseResult{}
	// error
	mkErr := func(code conformancev1.Code, msg *string, details int) *conformancev1.Error {
		e := &conformancev1.Error{Code: code, Message: msg}
		reqInfo := func(info *c03Info) *anypb.Any {
			b, err := proto.MarshalOptions{Deterministic: true}.Marshal(info)
			if err != nil {
				panic(err)
			}
			return &anypb.Any{TypeUrl: c03InfoTypeURL, Value: b}
		}
		switch details {
		case 1:
			// docs/testing_servers.md: an RPC that fails echoes the request info in the error details
			e.Details = append(e.Details, reqInfo(&c03Info{
				RequestHeaders: c03Headers{c03Hdr("X-Req-Detail", "r1", "r2")},
				TimeoutMs:      proto.Int64(2000),
				Requests:       []*anypb.Any{c03Any("connectrpc.conformance.v1.Header", c03HeaderBytes("req", "0"))},
			}))
		case 2:
			e.Details = append(e.Details, c03Any("google.protobuf.StringValue", []byte{0x0a, 0x02, 'd', '1'}))
			e.Details = append(e.Details, reqInfo(&c03Info{
				RequestHeaders: c03Headers{c03Hdr("x-req-detail", "c,d")},
				Requests: []*anypb.Any{
					c03Any("connectrpc.conformance.v1.Header", c03HeaderBytes("req", "0")),
					c03Any("connectrpc.conformance.v1.Header", c03HeaderBytes("req", "1")),
				},
			}))
		case 3:
			e.Details = append(e.Details, c03Any("connectrpc.conformance.v1.Header", c03HeaderBytes("detail-one", "d1")))
			e.Details = append(e.Details, c03Any("google.protobuf.StringValue", []byte{0x0a, 0x02, 'd', '2'}))
			e.Details = append(e.Details, c03Any("verif.NotLinkedIn", []byte{0x08, 0x07}))
		}
		return e
	}
	switch errShape {
	case 1:
		exp.Error = mkErr(conformancev1.Code_CODE_RESOURCE_EXHAUSTED, nil, 0)
	case 2:
		exp.Error = mkErr(conformancev1.Code_CODE_INVALID_ARGUMENT, proto.String("bad argument: x=1"), 0)
	case 3:
		exp.Error = mkErr(conformancev1.Code_CODE_ABORTED, proto.String("aborted"), 1)
	case 4:
		exp.Error = mkErr(conformancev1.Code_CODE_UNAUTHENTICATED, proto.String("näme, with ünicode"), 2)
	case 5:
		exp.Error = mkErr(conformancev1.Code_CODE_CANCELED, proto.String(""), 0)
	case 6:
		exp.Error = mkErr(conformancev1.Code_CODE_DATA_LOSS, nil, 3)
	}
	var otherCodes []conformancev1.Code
	switch other {
	case 1:
		otherCodes = []conformancev1.Code{conformancev1.Code_CODE_UNKNOWN}
	case 2:
		otherCodes = []conformancev1.Code{conformancev1.Code_CODE_INTERNAL, conformancev1.Code_CODE_UNAVAILABLE}
	case 3:
		otherCodes = []conformancev1.Code{conformancev1.Code_CODE_DEADLINE_EXCEEDED, conformancev1.Code_CODE_UNKNOWN, conformancev1.Code_CODE_UNIMPLEMENTED}
	}
	// metadata
	switch meta {
	case 1:
		exp.ResponseHeaders = []*conformancev1.Header{c03Hdr("x-one", "a")}
	case 2:
		exp.ResponseTrailers = []*conformancev1.Header{c03Hdr("x-tr", "b")}
	case 3:
		exp.ResponseHeaders = []*conformancev1.Header{c03Hdr("X-Mixed-Case", "v1", "v2")}
		exp.ResponseTrailers = []*conformancev1.Header{c03Hdr("x-rep", "t1", "t2", "t3")}
	case 4:
		exp.ResponseHeaders = []*conformancev1.Header{c03Hdr("x-comma", "a, b", "c")}
		exp.ResponseTrailers = []*conformancev1.Header{c03Hdr("x-comma-t", "p,q"), c03Hdr("X-Second-T", "z")}
	case 5:
		exp.ResponseHeaders = []*conformancev1.Header{c03Hdr("x-a", "1"), c03Hdr("x-b", "2", "3")}
		exp.ResponseTrailers = []*conformancev1.Header{c03Hdr("x-a", "9")}
	}
	// payloads
	req := func(i int) *anypb.Any {
		return c03Any("connectrpc.conformance.v1.Header", c03HeaderBytes("req", strconv.Itoa(i)))
	}
	for i := 0; i < nPayloads; i++ {
		p := &conformancev1.ConformancePayload{Data: []byte(fmt.Sprintf("data-%d", i))}
		if i == 2 {
			p.Data = []byte{0x00, 0xff, 0x10}
		}
		if reqInfo != 0 {
			info := &conformancev1.ConformancePayload_RequestInfo{}
			first := i == 0
			switch st {
			case conformancev1.StreamType_STREAM_TYPE_FULL_DUPLEX_BIDI_STREAM:
				info.Requests = []*anypb.Any{req(i)}
			case conformancev1.StreamType_STREAM_TYPE_UNARY, conformancev1.StreamType_STREAM_TYPE_SERVER_STREAM:
				if !first {
					info = nil
				} else {
					info.Requests = []*anypb.Any{req(0)}
				}
			default:
				info.Requests = []*anypb.Any{req(0), req(1)}
			}
			if info != nil && first {
				switch reqInfo {
				case 2:
					info.RequestHeaders = []*conformancev1.Header{c03Hdr("x-req", "r1", "r2"), c03Hdr("X-Req-Two", "c,d")}
					info.TimeoutMs = proto.Int64(2000)
				case 3:
					info.RequestHeaders = []*conformancev1.Header{c03Hdr("x-get", "g")}
					info.ConnectGetInfo = &conformancev1.ConformancePayload_ConnectGetInfo{
						QueryParams: []*conformancev1.Header{c03Hdr("encoding", "proto"), c03Hdr("message", "abc", "def")},
					}
				case 4:
					info.TimeoutMs = proto.Int64(501)
				}
			}
			p.RequestInfo = info
		}
		exp.Payloads = append(exp.Payloads, p)
	}
	if status == 1 {
		if exp.Error != nil {
			exp.HttpStatusCode = proto.Int32(400)
		} else {
			exp.HttpStatusCode = proto.Int32(200)
		}
	}
	return &conformancev1.TestCase{
		Request:                &conformancev1.ClientCompatRequest{StreamType: st},
		ExpectedResponse:       exp,
		OtherAllowedErrorCodes: otherCodes,
	}
}

// c03Grammar enumerates the product of c03GrammarDims with an odometer,
// simplest (fewest non-base coordinates) first.
func c03Grammar(full bool) []*c03Expected {
	type item struct {
		e       *c03Expected
		nonBase int
		ord     int
	}
	var items []item
	c := make([]int, len(c03GrammarDims))
	ord := 0
	for {
		nonBase := 0
		for i := 1; i < len(c); i++ {
			if c[i] != c03GrammarBase[i] {
				nonBase++
			}
		}
		// the merged-metadata leniency only exists for unary / client-stream errors without
		// payloads: keep every metadata shape for those also in the quick tier
		mergedFamily := c[0] <= 1 && c[1] == 0 && c[2] != 0 && c[3] == c03GrammarBase[3] && c[5] == c03GrammarBase[5] && c[6] == c03GrammarBase[6]
		if full || nonBase <= 2 || mergedFamily {
			if def := c03GrammarBuild(c); def != nil {
				parts := make([]string, len(c))
				for i, d := range c03GrammarDims {
					parts[i] = fmt.Sprintf("%s=%d", d.name, c[i])
				}
				// composed leniencies: quick tier on the simplest expectations and the merged-metadata family
				// (thorough: every pair up to two non-base coordinates, representatives with three, none beyond)
				pairQuick, pairFull := 0, 0
				switch {
				case nonBase <= 2 || mergedFamily:
					pairFull = 2
				case nonBase == 3:
					pairFull = 1
				}
				if nonBase <= 1 || mergedFamily {
					pairQuick = 1
				}
				items = append(items, item{&c03Expected{ID: "grammar:" + strings.Join(parts, ","), Source: "grammar", Def: def, PairQuick: pairQuick, PairFull: pairFull}, nonBase, ord})
			}
		}
		ord++
		i := len(c) - 1
		for ; i >= 0; i-- {
			c[i]++
			if c[i] < c03GrammarDims[i].n {
				break
			}
			c[i] = 0
		}
		if i < 0 {
			break
		}
	}
	sort.SliceStable(items, func(a, b int) bool {
		if items[a].nonBase != items[b].nonBase {
			return items[a].nonBase < items[b].nonBase
		}
		return items[a].ord < items[b].ord
	})
	out := make([]*c03Expected, len(items))
	for i, it := range items {
		out[i] = it.e
	}
	return out
}

// --- sized family -------------------------------------------------------------
//
// Threshold probes: the byte-carrying fields of an expected result (payload
// data, error message, error detail value, echoed request value) at sizes
// around powers of two. The ordinary deviations (first / middle / last byte,
// one byte dropped or appended at the end) are then applied by c03Mutations,
// so a comparison that stops looking after some prefix, at a buffer boundary or
// beyond some length shows up as an accepted deviation.

var c03Sizes = []int{255, 256, 257, 1023, 1024, 1025, 4095, 4096, 4097, 65535, 65536, 65537}

func c03SizedBytes(n, seed int) []byte {
	b := make([]byte, n)
	for i := range b {
		b[i] = byte((i*131 + seed*29 + 7) % 251)
	}
	return b
}

func c03SizedText(n, seed int) string {
	b := make([]byte, n)
	for i := range b {
		b[i] = 'a' + byte((i*7+seed)%26)
		if i%11 == 10 {
			b[i] = ' '
		}
	}
	return string(b)
}

// c03SizedMsg: the encoding of a message whose field 1 is a string, `total`
// bytes long altogether (google.protobuf.StringValue, conformance Header with
// a long name).
func c03SizedMsg(total, seed int) []byte {
	for hdr := 2; hdr <= 4; hdr++ {
		n := total - hdr
		if n < 0 {
			break
		}
		var lenBytes []byte
		for v := uint64(n); ; {
			if v < 0x80 {
				lenBytes = append(lenBytes, byte(v))
				break
			}
			lenBytes = append(lenBytes, byte(v)|0x80)
			v >>= 7
		}
		if 1+len(lenBytes) != hdr {
			continue
		}
		b := append([]byte{0x0a}, lenBytes...)
		return append(b, c03SizedText(n, seed)...)
	}
	panic(fmt.Sprintf("no field-1 string message is %d bytes long", total))
}

var c03SizedFamilies = []string{"payload-unary", "payload-x3", "error-message", "error-details", "echoed-request"}

func c03SizedBuild(fam string, size int) *conformancev1.TestCase {
	st := conformancev1.StreamType_STREAM_TYPE_UNARY
	exp := &conformancev1.ClientResponseResult{}
	switch fam {
	case "payload-unary":
		exp.Payloads = []*conformancev1.ConformancePayload{{Data: c03SizedBytes(size, 0)}}
	case "payload-x3":
		st = conformancev1.StreamType_STREAM_TYPE_FULL_DUPLEX_BIDI_STREAM
		for i := 0; i < 3; i++ {
			exp.Payloads = append(exp.Payloads, &conformancev1.ConformancePayload{Data: c03SizedBytes(size, i+1)})
		}
	case "error-message":
		exp.Error = &conformancev1.Error{Code: conformancev1.Code_CODE_FAILED_PRECONDITION, Message: proto.String(c03SizedText(size, 3))}
	case "error-details":
		exp.Error = &conformancev1.Error{Code: conformancev1.Code_CODE_OUT_OF_RANGE, Message: proto.String("sized details"), Details: []*anypb.Any{
			c03Any("google.protobuf.StringValue", c03SizedMsg(size, 1)),
			c03Any("verif.NotLinkedIn", c03SizedBytes(size, 5)),
		}}
	case "echoed-request":
		exp.Payloads = []*conformancev1.ConformancePayload{{
			Data: []byte("data-0"),
			RequestInfo: &conformancev1.ConformancePayload_RequestInfo{
				Requests: []*anypb.Any{c03Any("connectrpc.conformance.v1.Header", c03SizedMsg(size, 2))},
			},
		}}
	default:
		panic(fam)
	}
	return &conformancev1.TestCase{Request: &conformancev1.ClientCompatRequest{StreamType: st}, ExpectedResponse: exp}
}

// c03Sized: sizes ascending, families in the order above.
func c03Sized() []*c03Expected {
	var out []*c03Expected
	for _, size := range c03Sizes {
		for _, fam := range c03SizedFamilies {
			out = append(out, &c03Expected{ID: fmt.Sprintf("sized:fam=%s,size=%d", fam, size), Source: "sized", Def: c03SizedBuild(fam, size)})
		}
	}
	return out
}

// c03ByteEdits: the single-byte deviations of a non-empty byte string: first,
// middle and last byte altered, one byte dropped at the end.
func c03ByteEdits(n int, add func(variant string, f func(d []byte) []byte)) {
	if n == 0 {
		return
	}
	add("first-byte", func(d []byte) []byte { d[0] ^= 1; return d })
	if n > 1 {
		add("last-byte", func(d []byte) []byte { d[len(d)-1] ^= 0x80; return d })
	}
	if n > 2 {
		add("middle-byte", func(d []byte) []byte { d[len(d)/2] ^= 0x10; return d })
	}
	add("truncated", func(d []byte) []byte { return d[:len(d)-1] })
}

// ---------------------------------------------------------------------------
// rewrites and deviations (knows the message schema, the property text, the
// proto comments and docs/ only)
// ---------------------------------------------------------------------------

type c03Result = conformancev1.ClientResponseResult
type c03Info = conformancev1.ConformancePayload_RequestInfo

// c03Tok is one alternative of a token group: a case-insensitive substring or
// a number that must appear delimited by non-digits.
type c03Tok struct {
	Word string
	Num  int64
	IsN  bool
}

func c03W(words ...string) []c03Tok {
	out := make([]c03Tok, len(words))
	for i, w := range words {
		out[i] = c03Tok{Word: w}
	}
	return out
}

func c03N(nums ...int) []c03Tok {
	out := make([]c03Tok, len(nums))
	for i, n := range nums {
		out[i] = c03Tok{Num: int64(n), IsN: true}
	}
	return out
}

// index tokens: the harness does not assume 0- or 1-based numbering
func c03Idx(idx ...int) []c03Tok {
	var out []c03Tok
	for _, i := range idx {
		out = append(out, c03N(i, i+1)...)
	}
	return out
}

func c03HasNumber(msg string, n int64) bool {
	s := strconv.FormatInt(n, 10)
	for from := 0; ; {
		i := strings.Index(msg[from:], s)
		if i < 0 {
			return false
		}
		i += from
		before := i == 0 || msg[i-1] < '0' || msg[i-1] > '9'
		after := i+len(s) == len(msg) || msg[i+len(s)] < '0' || msg[i+len(s)] > '9'
		if before && after {
			return true
		}
		from = i + 1
	}
}

// c03Named reports whether every token group has an alternative present in msg.
func c03Named(msg string, groups [][]c03Tok) (bool, string) {
	lower := strings.ToLower(msg)
	for _, g := range groups {
		ok := false
		for _, t := range g {
			if t.IsN && c03HasNumber(msg, t.Num) || !t.IsN && strings.Contains(lower, strings.ToLower(t.Word)) {
				ok = true
				break
			}
		}
		if !ok {
			var alts []string
			for _, t := range g {
				if t.IsN {
					alts = append(alts, strconv.FormatInt(t.Num, 10))
				} else {
					alts = append(alts, strconv.Quote(t.Word))
				}
			}
			return false, "none of {" + strings.Join(alts, ", ") + "}"
		}
	}
	return true, ""
}

type c03Mut struct {
	Class   string // "leniency" | "deviation"
	Kind    string
	Pos     string
	Variant string
	Tokens  [][]c03Tok // deviation: what the failure text must name
	apply   func(a *c03Result)
}

type c03Adder func(class, kind, pos, variant string, tokens [][]c03Tok, apply func(a *c03Result))

type c03Headers = []*conformancev1.Header

// one block of name/values entries of the expected result and the way to
// rewrite the same block of an actual result
type c03HdrSet struct {
	class   string // header | trailer | request-header | query-param
	label   string
	lenient bool // the header leniencies of the statement apply (metadata, not query params)
	minKeep int  // removals that leave fewer entries than this are not generated
	exp     c03Headers
	edit    func(a *c03Result, f func(h c03Headers) c03Headers)
}

func c03AltCase(s string) string {
	b := []byte(s)
	up := true
	for i, ch := range b {
		if ch >= 'a' && ch <= 'z' || ch >= 'A' && ch <= 'Z' {
			if up {
				b[i] = strings.ToUpper(string(ch))[0]
			} else {
				b[i] = strings.ToLower(string(ch))[0]
			}
			up = !up
		}
	}
	return string(b)
}

// pieces of a list of values under the "joined or split on commas" reading of
// HTTP field values (RFC 9110 §5.3: "a, b" == "a" + "b"; optional whitespace
// around list members is not significant)
func c03Pieces(vals []string) ([]string, bool) {
	var out []string
	wellFormed := true
	for _, v := range vals {
		for _, p := range strings.Split(v, ",") {
			p = strings.TrimSpace(p)
			if p == "" {
				wellFormed = false
			}
			out = append(out, p)
		}
	}
	return out, wellFormed
}

func c03SameStrings(a, b []string) bool {
	if len(a) != len(b) {
		return false
	}
	for i := range a {
		if a[i] != b[i] {
			return false
		}
	}
	return true
}

func c03CloneHdrs(hs c03Headers) c03Headers {
	out := make(c03Headers, len(hs))
	for i, h := range hs {
		out[i] = proto.Clone(h).(*conformancev1.Header)
	}
	return out
}

// all metadata of a response in one bag: header entries first, then trailer
// entries; values of a name present in both are appended in that order.
func c03MergeMetadata(headers, trailers c03Headers) c03Headers {
	out := c03CloneHdrs(headers)
	for _, t := range trailers {
		found := false
		for _, h := range out {
			if strings.EqualFold(h.Name, t.Name) {
				h.Value = append(h.Value, t.Value...)
				found = true
				break
			}
		}
		if !found {
			out = append(out, proto.Clone(t).(*conformancev1.Header))
		}
	}
	return out
}

func c03CodeWords(codes ...conformancev1.Code) []c03Tok {
	var out []c03Tok
	for _, c := range codes {
		name := strings.TrimPrefix(strings.ToLower(c.String()), "code_")
		out = append(out, c03Tok{Word: name})
		out = append(out, c03N(int(c))...)
	}
	return out
}

var (
	c03FieldOne     = []byte{0x0a, 0x01, 'x'}  // field 1, length-delimited, "x"
	c03UnknownField = []byte{0xc0, 0x3e, 0x01} // field 1000, varint 1
)

func c03Extend(b []byte, tail []byte) []byte {
	return append(append([]byte{}, b...), tail...)
}

// c03HeaderMutations: leniencies and deviations of one block of entries.
func c03HeaderMutations(add c03Adder, hs c03HdrSet) {
	pf := fmt.Sprintf
	orig := hs.exp
	names := map[string]int{}
	for _, h := range orig {
		names[strings.ToLower(h.Name)]++
	}
	// (the rewrites are written against the block as it is when they are applied, so that two of them
	// can be composed: an entry that is not there any more - the other rewrite moved the block - is left alone)
	entry := func(i int, f func(h *conformancev1.Header)) func(a *c03Result) {
		return func(a *c03Result) {
			hs.edit(a, func(cur c03Headers) c03Headers {
				if i < len(cur) {
					f(cur[i])
				}
				return cur
			})
		}
	}
	if hs.lenient {
		// L: header-name case
		for i, h := range orig {
			seen := map[string]bool{h.Name: true}
			for _, v := range []struct {
				how string
				f   func(string) string
			}{
				{"upper", strings.ToUpper}, {"lower", strings.ToLower}, {"alternating", c03AltCase},
			} {
				if seen[v.f(h.Name)] {
					continue
				}
				seen[v.f(h.Name)] = true
				recase := v.f
				add("leniency", hs.class+"-case", pf("%s[%d]", hs.label, i), v.how, nil, entry(i, func(h *conformancev1.Header) { h.Name = recase(h.Name) }))
			}
		}
		// L: extra metadata, at every insertion point
		extra := "x-verif-unrelated"
		for names[extra] > 0 {
			extra += "-x"
		}
		for at := 0; at <= len(orig); at++ {
			at := at
			for _, v := range []struct {
				how  string
				vals []string
			}{{"one-value", []string{"extra"}}, {"two-values", []string{"e1", "e2, e3"}}} {
				vals := v.vals
				add("leniency", hs.class+"-extra", pf("%s@%d", hs.label, at), v.how, nil, func(a *c03Result) {
					hs.edit(a, func(cur c03Headers) c03Headers {
						at := min(at, len(cur))
						out := append(c03Headers{}, cur[:at]...)
						out = append(out, c03Hdr(extra, vals...))
						return append(out, cur[at:]...)
					})
				})
			}
		}
		// L: values joined / split on commas
		for i, h := range orig {
			if _, ok := c03Pieces(h.Value); !ok {
				continue // empty list members: the statement does not say
			}
			if len(h.Value) >= 2 {
				for _, sep := range []struct{ how, sep string }{{"comma", ","}, {"comma-space", ", "}} {
					sep := sep
					add("leniency", hs.class+"-values-joined", pf("%s[%d]", hs.label, i), "all:"+sep.how, nil, entry(i, func(h *conformancev1.Header) {
						if _, ok := c03Pieces(h.Value); ok && len(h.Value) >= 2 {
							h.Value = []string{strings.Join(h.Value, sep.sep)}
						}
					}))
					if len(h.Value) >= 3 {
						for n := 0; n+1 < len(h.Value); n++ {
							n := n
							add("leniency", hs.class+"-values-joined", pf("%s[%d].value[%d,%d]", hs.label, i, n, n+1), "pair:"+sep.how, nil, entry(i, func(h *conformancev1.Header) {
								if _, ok := c03Pieces(h.Value); !ok || n+1 >= len(h.Value) {
									return
								}
								out := append([]string{}, h.Value[:n]...)
								out = append(out, h.Value[n]+sep.sep+h.Value[n+1])
								h.Value = append(out, h.Value[n+2:]...)
							}))
						}
					}
				}
			}
			for n, v := range h.Value {
				n := n
				if !strings.Contains(v, ",") {
					continue
				}
				add("leniency", hs.class+"-value-split", pf("%s[%d].value[%d]", hs.label, i, n), "", nil, entry(i, func(h *conformancev1.Header) {
					if _, ok := c03Pieces(h.Value); !ok || n >= len(h.Value) {
						return
					}
					pieces, _ := c03Pieces([]string{h.Value[n]})
					out := append([]string{}, h.Value[:n]...)
					out = append(out, pieces...)
					h.Value = append(out, h.Value[n+1:]...)
				}))
			}
		}
	}
	// D: expected entry removed; its n-th value altered or removed; two values swapped
	for i, h := range orig {
		i := i
		if names[strings.ToLower(h.Name)] > 1 {
			continue // same name twice in one block: not a shape the statement speaks about
		}
		nameTok := [][]c03Tok{c03W(h.Name)}
		if len(orig)-1 >= hs.minKeep {
			add("deviation", hs.class+"-removed", pf("%s[%d]", hs.label, i), "", nameTok, func(a *c03Result) {
				hs.edit(a, func(cur c03Headers) c03Headers {
					out := append(c03Headers{}, cur[:i]...)
					return append(out, cur[i+1:]...)
				})
			})
		}
		for n, v := range h.Value {
			n := n
			vpos := pf("%s[%d].value[%d]", hs.label, i, n)
			add("deviation", hs.class+"-value-altered", vpos, "append", nameTok, entry(i, func(h *conformancev1.Header) { h.Value[n] += "x" }))
			if v != "" {
				repl := "Q" + v[1:]
				if v[0] == 'Q' {
					repl = "R" + v[1:]
				}
				add("deviation", hs.class+"-value-altered", vpos, "first-char", nameTok, entry(i, func(h *conformancev1.Header) { h.Value[n] = repl }))
			}
			if len(h.Value) >= 2 {
				add("deviation", hs.class+"-value-removed", vpos, "", nameTok, entry(i, func(h *conformancev1.Header) {
					out := append([]string{}, h.Value[:n]...)
					h.Value = append(out, h.Value[n+1:]...)
				}))
			}
			if n+1 < len(h.Value) {
				swapped := append([]string{}, h.Value...)
				swapped[n], swapped[n+1] = swapped[n+1], swapped[n]
				before, _ := c03Pieces(h.Value)
				after, _ := c03Pieces(swapped)
				if !c03SameStrings(before, after) {
					add("deviation", hs.class+"-values-swapped", pf("%s[%d].value[%d,%d]", hs.label, i, n, n+1), "", nameTok, entry(i, func(h *conformancev1.Header) {
						h.Value[n], h.Value[n+1] = h.Value[n+1], h.Value[n]
					}))
				}
			}
		}
	}
}

// an echoed request info of the expected result (in a payload, or packed into
// an error detail: docs/testing_servers.md "Error") and the way to rewrite the
// corresponding one of an actual result
type c03InfoAcc struct {
	label      string
	exp        *c03Info
	headerInfo bool // request headers, timeout and query params are echoed here (first response / error detail)
	full       bool // thorough tier: every variant of the unknown-field deviations
	with       func(a *c03Result, f func(ri *c03Info))
}

func c03InfoMutations(add c03Adder, acc c03InfoAcc) {
	pf := fmt.Sprintf
	info := acc.exp
	// echoed requests
	nReq := len(info.Requests)
	countTok := func(actual int) [][]c03Tok { return [][]c03Tok{c03W("request"), c03N(nReq, actual)} }
	add("deviation", "echoed-request-added", acc.label+".requests", "", countTok(nReq+1), func(a *c03Result) {
		acc.with(a, func(ri *c03Info) {
			if k := len(ri.Requests); k > 0 {
				ri.Requests = append(ri.Requests, proto.Clone(ri.Requests[k-1]).(*anypb.Any))
			} else {
				ri.Requests = append(ri.Requests, c03Any("connectrpc.conformance.v1.Header", c03HeaderBytes("req", "extra")))
			}
		})
	})
	for k, q := range info.Requests {
		k := k
		qpos := pf("%s.requests[%d]", acc.label, k)
		add("deviation", "echoed-request-dropped", qpos, "", countTok(nReq-1), func(a *c03Result) {
			acc.with(a, func(ri *c03Info) {
				out := append([]*anypb.Any{}, ri.Requests[:k]...)
				ri.Requests = append(out, ri.Requests[k+1:]...)
			})
		})
		reqTok := [][]c03Tok{c03W("request"), c03Idx(k)}
		alter := func(variant string, f func(q *anypb.Any)) {
			add("deviation", "echoed-request-altered", qpos, variant, reqTok, func(a *c03Result) {
				acc.with(a, func(ri *c03Info) { f(ri.Requests[k]) })
			})
		}
		alter("append-field-1", func(q *anypb.Any) { q.Value = c03Extend(q.Value, c03FieldOne) })
		alter("append-unknown-field", func(q *anypb.Any) { q.Value = c03Extend(q.Value, c03UnknownField) })
		alter("type", func(q *anypb.Any) { q.TypeUrl += "Other" })
		if len(q.Value) > 0 {
			alter("empty", func(q *anypb.Any) { q.Value = nil })
		}
		c03ByteEdits(len(q.Value), func(variant string, f func(d []byte) []byte) {
			alter(variant, func(q *anypb.Any) { q.Value = f(append([]byte{}, q.Value...)) })
		})
		if len(q.Value) <= 100_000 { // (not the padded requests of the size-limit cases)
			c03UnknownEdits(q, acc.full, func(variant string, f func(q *anypb.Any)) {
				add("deviation", "echoed-request-unknown-field", qpos, variant, reqTok, func(a *c03Result) {
					acc.with(a, func(ri *c03Info) { f(ri.Requests[k]) })
				})
			})
		}
		for m := k + 1; m < nReq; m++ {
			m := m
			if proto.Equal(q, info.Requests[m]) {
				continue
			}
			add("deviation", "echoed-request-order", pf("%s.requests[%d,%d]", acc.label, k, m), "", [][]c03Tok{c03W("request"), c03Idx(k, m)}, func(a *c03Result) {
				acc.with(a, func(ri *c03Info) { ri.Requests[k], ri.Requests[m] = ri.Requests[m], ri.Requests[k] })
			})
		}
	}
	if !acc.headerInfo {
		return // later responses of a stream echo requests only (service.proto)
	}
	c03HeaderMutations(add, c03HdrSet{class: "request-header", label: acc.label + ".request_headers", lenient: true, exp: info.RequestHeaders,
		edit: func(a *c03Result, f func(c03Headers) c03Headers) {
			acc.with(a, func(ri *c03Info) { ri.RequestHeaders = f(ri.RequestHeaders) })
		}})
	if info.ConnectGetInfo != nil {
		// minKeep 1: service.proto lets a server that cannot observe the query string echo an empty message
		c03HeaderMutations(add, c03HdrSet{class: "query-param", label: acc.label + ".connect_get_info.query_params", minKeep: 1, exp: info.ConnectGetInfo.QueryParams,
			edit: func(a *c03Result, f func(c03Headers) c03Headers) {
				acc.with(a, func(ri *c03Info) { ri.ConnectGetInfo.QueryParams = f(ri.ConnectGetInfo.QueryParams) })
			}})
	}
	// echoed timeout
	timeoutTok := [][]c03Tok{c03W("timeout")}
	tpos := acc.label + ".timeout_ms"
	setTimeout := func(t *int64) func(a *c03Result) {
		return func(a *c03Result) { acc.with(a, func(ri *c03Info) { ri.TimeoutMs = t }) }
	}
	if info.TimeoutMs != nil {
		e := info.GetTimeoutMs()
		seen := map[int64]bool{e: true}
		for _, d := range []int64{500, 499, 250, 1} {
			t := e - d
			if t < 0 || seen[t] {
				continue
			}
			seen[t] = true
			add("leniency", "timeout-in-grace-window", tpos, fmt.Sprintf("e-%d", d), nil, setTimeout(proto.Int64(t)))
		}
		if e < 500 && !seen[0] {
			// the low end of the window for short timeouts (a negative remaining time is not a value a server reports)
			add("leniency", "timeout-in-grace-window", tpos, "zero", nil, setTimeout(proto.Int64(0)))
		}
		for _, v := range []struct {
			how string
			t   int64
		}{{"e+1", e + 1}, {"e+1000", e + 1000}, {"e-501", e - 501}, {"e-5000", e - 5000}} {
			add("deviation", "timeout-outside-window", tpos, v.how, timeoutTok, setTimeout(proto.Int64(v.t)))
		}
		add("deviation", "timeout-missing", tpos, "", timeoutTok, setTimeout(nil))
	} else {
		add("deviation", "timeout-unexpected", tpos, "", timeoutTok, setTimeout(proto.Int64(1000)))
	}
}

const c03InfoTypeURL = "type.googleapis.com/connectrpc.conformance.v1.ConformancePayload.RequestInfo"

func c03Mutations(def *conformancev1.TestCase) []c03Mut {
	exp := def.ExpectedResponse
	st := def.Request.GetStreamType()
	var muts []c03Mut
	add := func(class, kind, pos, variant string, tokens [][]c03Tok, apply func(a *c03Result)) {
		muts = append(muts, c03Mut{Class: class, Kind: kind, Pos: pos, Variant: variant, Tokens: tokens, apply: apply})
	}
	pf := fmt.Sprintf

	// ----- response headers and trailers -----
	c03HeaderMutations(add, c03HdrSet{class: "header", label: "response_headers", lenient: true, exp: exp.ResponseHeaders,
		edit: func(a *c03Result, f func(c03Headers) c03Headers) { a.ResponseHeaders = f(a.ResponseHeaders) }})
	c03HeaderMutations(add, c03HdrSet{class: "trailer", label: "response_trailers", lenient: true, exp: exp.ResponseTrailers,
		edit: func(a *c03Result, f func(c03Headers) c03Headers) { a.ResponseTrailers = f(a.ResponseTrailers) }})

	// ----- headers and trailers as one bag of error metadata -----
	if len(exp.ResponseHeaders)+len(exp.ResponseTrailers) > 0 {
		single := st == conformancev1.StreamType_STREAM_TYPE_UNARY || st == conformancev1.StreamType_STREAM_TYPE_CLIENT_STREAM
		class, applies := "leniency", true
		switch {
		case single && exp.Error != nil && len(exp.Payloads) == 0:
		case single && exp.Error != nil:
			applies = false // an error together with a response on a unary RPC: the statement does not say
		default:
			class = "deviation" // streams, and results without error, keep headers and trailers apart
		}
		if applies {
			for _, toTrailers := range []bool{true, false} {
				toTrailers := toTrailers
				moved := exp.ResponseHeaders
				variant := "all-as-trailers"
				if !toTrailers {
					moved = exp.ResponseTrailers
					variant = "all-as-headers"
				}
				if len(moved) == 0 {
					continue
				}
				var tokens [][]c03Tok
				kind := "metadata-merged"
				if class == "deviation" {
					kind = "metadata-moved"
					var names []string
					for _, h := range moved {
						names = append(names, h.Name)
					}
					tokens = [][]c03Tok{c03W(names...)}
				}
				add(class, kind, "response_headers+response_trailers", variant, tokens, func(a *c03Result) {
					merged := c03MergeMetadata(a.ResponseHeaders, a.ResponseTrailers)
					if toTrailers {
						a.ResponseHeaders, a.ResponseTrailers = nil, merged
					} else {
						a.ResponseHeaders, a.ResponseTrailers = merged, nil
					}
				})
				if class == "leniency" {
					// The merged form is a legal way to report the metadata, so an expected value
					// that is missing from it is still a missing header/trailer value: every
					// (name, value) of the merged expectation removed in turn must fail.
					mergedExp := c03MergeMetadata(exp.ResponseHeaders, exp.ResponseTrailers)
					for hi, h := range mergedExp {
						for vi := range h.Value {
							hi, vi, name := hi, vi, h.Name
							if len(h.Value) == 1 {
								// removing the only value removes the entry
								add("deviation", "merged-metadata-entry-removed", pf("merged[%d]", hi), variant, [][]c03Tok{c03W(name)}, func(a *c03Result) {
									merged := c03MergeMetadata(a.ResponseHeaders, a.ResponseTrailers)
									merged = append(merged[:hi:hi], merged[hi+1:]...)
									if toTrailers {
										a.ResponseHeaders, a.ResponseTrailers = nil, merged
									} else {
										a.ResponseHeaders, a.ResponseTrailers = merged, nil
									}
								})
								continue
							}
							add("deviation", "merged-metadata-value-removed", pf("merged[%d].value[%d]", hi, vi), variant, [][]c03Tok{c03W(name)}, func(a *c03Result) {
								merged := c03MergeMetadata(a.ResponseHeaders, a.ResponseTrailers)
								vals := merged[hi].Value
								merged[hi].Value = append(append([]string{}, vals[:vi]...), vals[vi+1:]...)
								if toTrailers {
									a.ResponseHeaders, a.ResponseTrailers = nil, merged
								} else {
									a.ResponseHeaders, a.ResponseTrailers = merged, nil
								}
							})
						}
					}
				}
			}
		}
	}

	// ----- error -----
	allCodes := make([]conformancev1.Code, 0, 17)
	for c := 0; c <= 16; c++ {
		allCodes = append(allCodes, conformancev1.Code(c))
	}
	if exp.Error == nil {
		for _, c := range allCodes[1:] {
			c := c
			add("deviation", "error-added", "error", c.String(), [][]c03Tok{c03W("error")}, func(a *c03Result) {
				a.Error = &conformancev1.Error{Code: c, Message: proto.String("unexpected failure")}
			})
		}
	} else {
		want := exp.Error
		add("deviation", "error-removed", "error", "", [][]c03Tok{c03W("error")}, func(a *c03Result) { a.Error = nil })
		allowed := map[conformancev1.Code]bool{want.Code: true}
		for i, c := range def.OtherAllowedErrorCodes {
			c := c
			allowed[c] = true
			if c != want.Code {
				add("leniency", "other-allowed-code", pf("other_allowed_error_codes[%d]", i), c.String(), nil, func(a *c03Result) { a.Error.Code = c })
			}
		}
		for _, c := range allCodes {
			c := c
			if allowed[c] {
				continue
			}
			add("deviation", "error-code", "error.code", c.String(), [][]c03Tok{c03W("code"), c03CodeWords(c, want.Code)}, func(a *c03Result) { a.Error.Code = c })
		}
		if want.Message == nil {
			for _, v := range []struct {
				how string
				msg *string
			}{{"some-text", proto.String("verif: any text at all")}, {"set-but-empty", proto.String("")}} {
				msg := v.msg
				add("leniency", "unspecified-message", "error.message", v.how, nil, func(a *c03Result) { a.Error.Message = msg })
			}
		} else {
			msgTok := [][]c03Tok{c03W("message")}
			add("deviation", "error-message", "error.message", "append", msgTok, func(a *c03Result) {
				a.Error.Message = proto.String(a.Error.GetMessage() + "!")
			})
			if m := want.GetMessage(); m != "" {
				add("deviation", "error-message", "error.message", "truncate", msgTok, func(a *c03Result) {
					a.Error.Message = proto.String(m[:len(m)-1])
				})
				// one character altered at the beginning, in the middle, at the end
				runes := []rune(m)
				seenAt := map[int]bool{}
				for _, v := range []struct {
					how string
					at  int
				}{{"first-char", 0}, {"last-char", len(runes) - 1}, {"middle-char", len(runes) / 2}} {
					if seenAt[v.at] {
						continue // short message: positions coincide
					}
					seenAt[v.at] = true
					at := v.at
					add("deviation", "error-message", "error.message", v.how, msgTok, func(a *c03Result) {
						rs := []rune(a.Error.GetMessage())
						if rs[at] == 'Q' {
							rs[at] = 'R'
						} else {
							rs[at] = 'Q'
						}
						a.Error.Message = proto.String(string(rs))
					})
				}
				add("deviation", "error-message", "error.message", "empty", msgTok, func(a *c03Result) { a.Error.Message = proto.String("") })
				add("deviation", "error-message", "error.message", "unset", msgTok, func(a *c03Result) { a.Error.Message = nil })
			}
		}
		nDet := len(want.Details)
		countTok := func(actual int) [][]c03Tok { return [][]c03Tok{c03W("detail"), c03N(nDet, actual)} }
		detTok := func(n int) [][]c03Tok { return [][]c03Tok{c03W("detail"), c03Idx(n)} }
		add("deviation", "detail-count", "error.details", "plus-one-new", countTok(nDet+1), func(a *c03Result) {
			a.Error.Details = append(a.Error.Details, c03Any("verif.Unrelated", []byte{0x08, 0x01}))
		})
		if nDet > 0 {
			add("deviation", "detail-count", "error.details", "plus-one-duplicate", countTok(nDet+1), func(a *c03Result) {
				a.Error.Details = append(a.Error.Details, proto.Clone(a.Error.Details[nDet-1]).(*anypb.Any))
			})
		}
		for n, d := range want.Details {
			n := n
			dpos := pf("error.details[%d]", n)
			add("deviation", "detail-count", dpos, "minus-one", countTok(nDet-1), func(a *c03Result) {
				out := append([]*anypb.Any{}, a.Error.Details[:n]...)
				a.Error.Details = append(out, a.Error.Details[n+1:]...)
			})
			add("deviation", "detail-type", dpos, "", detTok(n), func(a *c03Result) { a.Error.Details[n].TypeUrl += "Other" })
			for m := n + 1; m < nDet; m++ {
				m := m
				if proto.Equal(d, want.Details[m]) {
					continue
				}
				add("deviation", "detail-order", pf("error.details[%d,%d]", n, m), "", [][]c03Tok{c03W("detail"), c03Idx(n, m)}, func(a *c03Result) {
					a.Error.Details[n], a.Error.Details[m] = a.Error.Details[m], a.Error.Details[n]
				})
			}
			info := &c03Info{}
			if d.TypeUrl == c03InfoTypeURL && proto.Unmarshal(d.Value, info) == nil {
				// the echoed request info of an RPC that ended in an error
				c03InfoMutations(add, c03InfoAcc{label: dpos + "<RequestInfo>", exp: info, headerInfo: true, full: c03Full(),
					with: func(a *c03Result, f func(ri *c03Info)) {
						det := a.Error.Details[n]
						ri := &c03Info{}
						if err := proto.Unmarshal(det.Value, ri); err != nil {
							panic(err)
						}
						f(ri)
						b, err := proto.MarshalOptions{Deterministic: true}.Marshal(ri)
						if err != nil {
							panic(err)
						}
						det.Value = b
					}})
				continue
			}
			add("deviation", "detail-bytes", dpos, "append-field-1", detTok(n), func(a *c03Result) {
				a.Error.Details[n].Value = c03Extend(a.Error.Details[n].Value, c03FieldOne)
			})
			add("deviation", "detail-bytes", dpos, "append-unknown-field", detTok(n), func(a *c03Result) {
				a.Error.Details[n].Value = c03Extend(a.Error.Details[n].Value, c03UnknownField)
			})
			if len(d.Value) > 0 {
				add("deviation", "detail-bytes", dpos, "empty", detTok(n), func(a *c03Result) { a.Error.Details[n].Value = nil })
			}
			c03ByteEdits(len(d.Value), func(variant string, f func(d []byte) []byte) {
				add("deviation", "detail-bytes", dpos, variant, detTok(n), func(a *c03Result) {
					a.Error.Details[n].Value = f(append([]byte{}, a.Error.Details[n].Value...))
				})
			})
		}
	}

	// ----- payloads -----
	nExp := len(exp.Payloads)
	payloadWord := c03W("payload", "response", "message")
	add("deviation", "payload-count", "payloads", "plus-one", [][]c03Tok{payloadWord, c03N(nExp, nExp+1)}, func(a *c03Result) {
		if n := len(a.Payloads); n > 0 {
			a.Payloads = append(a.Payloads, proto.Clone(a.Payloads[n-1]).(*conformancev1.ConformancePayload))
		} else {
			a.Payloads = append(a.Payloads, &conformancev1.ConformancePayload{Data: []byte("x")})
		}
	})
	for n, p := range exp.Payloads {
		n := n
		pos := pf("payloads[%d]", n)
		add("deviation", "payload-count", pos, "minus-one", [][]c03Tok{payloadWord, c03N(nExp, nExp-1)}, func(a *c03Result) {
			out := append([]*conformancev1.ConformancePayload{}, a.Payloads[:n]...)
			a.Payloads = append(out, a.Payloads[n+1:]...)
		})
		dataTok := [][]c03Tok{c03Idx(n)}
		data := func(variant string, f func(d []byte) []byte) {
			add("deviation", "payload-data", pos, variant, dataTok, func(a *c03Result) {
				a.Payloads[n].Data = f(append([]byte{}, a.Payloads[n].Data...))
			})
		}
		if len(p.Data) == 0 {
			data("non-empty", func(d []byte) []byte { return []byte("x") })
		} else {
			c03ByteEdits(len(p.Data), data)
		}
		data("extended", func(d []byte) []byte { return append(d, 0) })
		for m := n + 1; m < nExp; m++ {
			m := m
			if proto.Equal(p, exp.Payloads[m]) {
				continue
			}
			add("deviation", "payload-order", pf("payloads[%d,%d]", n, m), "", [][]c03Tok{c03Idx(n, m)}, func(a *c03Result) {
				a.Payloads[n], a.Payloads[m] = a.Payloads[m], a.Payloads[n]
			})
		}
		if p.RequestInfo != nil {
			c03InfoMutations(add, c03InfoAcc{label: pos + ".request_info", exp: p.RequestInfo, headerInfo: n == 0, full: c03Full(),
				with: func(a *c03Result, f func(ri *c03Info)) { f(a.Payloads[n].RequestInfo) }})
		}
	}

	// ----- HTTP status -----
	if exp.HttpStatusCode != nil {
		c := exp.GetHttpStatusCode()
		add("leniency", "http-status-absent", "http_status_code", "actual-unset", nil, func(a *c03Result) { a.HttpStatusCode = nil })
		other := int32(200)
		if c == 200 {
			other = 500
		}
		for _, v := range []int32{c + 1, other} {
			v := v
			add("deviation", "http-status", "http_status_code", fmt.Sprint(v), [][]c03Tok{c03W("HTTP status")}, func(a *c03Result) {
				a.HttpStatusCode = proto.Int32(v)
			})
		}
	} else {
		for _, v := range []int32{200, 418} {
			v := v
			add("leniency", "http-status-absent", "http_status_code", fmt.Sprintf("expected-unset-actual-%d", v), nil, func(a *c03Result) {
				a.HttpStatusCode = proto.Int32(v)
			})
		}
	}

	// ----- unsent-request count -----
	for _, d := range []int32{1, 7} {
		d := d
		add("leniency", "unsent-request-count", "num_unsent_requests", fmt.Sprintf("+%d", d), nil, func(a *c03Result) { a.NumUnsentRequests += d })
	}
	if exp.NumUnsentRequests != 0 {
		add("leniency", "unsent-request-count", "num_unsent_requests", "zero", nil, func(a *c03Result) { a.NumUnsentRequests = 0 })
	}
	return muts
}

// ---------------------------------------------------------------------------
// leniencies composed
// ---------------------------------------------------------------------------
//
// The statement's leniencies are independent of one another: a result that
// agrees with the expected one up to leniency A is a result that passes, and
// applying leniency B to it gives again a result that agrees up to documented
// leniencies. So every ordered pair (A applied first, then B) of the leniency
// rewrites of an expected result must pass - e.g. "all metadata reported as
// headers" and then "one unrelated trailer", "name in another case" and then
// "values joined", "alternative code" and then "any message". Two rewrites with
// the same kind at the same position only override one another and are not paired.

var c03Digits = strings.NewReplacer("0", "#", "1", "#", "2", "#", "3", "#", "4", "#", "5", "#", "6", "#", "7", "#", "8", "#", "9", "#")

// c03LeniencyPairs: level 2 = every ordered pair; level 1 = ordered pairs of representatives: per
// (kind, block of the result) the first position with its first variant and the last position with
// its last variant.
func c03LeniencyPairs(muts []c03Mut, level int) []c03Mut {
	if level <= 0 {
		return nil
	}
	var len_ []int
	for i := range muts {
		if muts[i].Class == "leniency" {
			len_ = append(len_, i)
		}
	}
	if level == 1 {
		first, last := map[string]int{}, map[string]int{}
		var order []string
		for _, i := range len_ {
			key := muts[i].Kind + "|" + c03Digits.Replace(muts[i].Pos)
			if _, ok := first[key]; !ok {
				first[key] = i
				order = append(order, key)
			}
			last[key] = i
		}
		len_ = len_[:0]
		for _, key := range order {
			len_ = append(len_, first[key])
			if last[key] != first[key] {
				len_ = append(len_, last[key])
			}
		}
	}
	var out []c03Mut
	for _, ia := range len_ {
		for _, ib := range len_ {
			a, b := &muts[ia], &muts[ib]
			if ia == ib || a.Kind == b.Kind && a.Pos == b.Pos {
				continue
			}
			out = append(out, c03Mut{
				Class: "leniency", Kind: a.Kind + "&" + b.Kind, Pos: a.Pos + " & " + b.Pos, Variant: a.Variant + " & " + b.Variant,
				apply: func(r *c03Result) { a.apply(r); b.apply(r) },
			})
		}
	}
	return out
}

// ---------------------------------------------------------------------------
// fields unknown to the schema
// ---------------------------------------------------------------------------
//
// The protobuf wire format keeps fields the reader's schema does not know and
// re-emits them; an echoed request that has such a field where the request sent
// has none (or lacks one that was sent, or has another value in it) is not the
// request that was sent. Places: in front of / behind the serialized message,
// and inside every nested message of it.

func c03UnknownWire(how string) []byte {
	switch how {
	case "varint":
		return protowire.AppendVarint(protowire.AppendTag(nil, 1000, protowire.VarintType), 1)
	case "bytes":
		return protowire.AppendBytes(protowire.AppendTag(nil, 1001, protowire.BytesType), []byte("extra"))
	case "fixed32":
		return protowire.AppendFixed32(protowire.AppendTag(nil, 1002, protowire.Fixed32Type), 7)
	case "fixed64":
		return protowire.AppendFixed64(protowire.AppendTag(nil, 1003, protowire.Fixed64Type), 7)
	case "zero-varint":
		return protowire.AppendVarint(protowire.AppendTag(nil, 1000, protowire.VarintType), 0)
	}
	panic(how)
}

// c03NestedPaths: the populated message-typed fields of m (elements of repeated ones too), depth first,
// fields in schema order.
func c03NestedPaths(m protoreflect.Message, prefix string, out *[]string) {
	fields := m.Descriptor().Fields()
	for i := 0; i < fields.Len(); i++ {
		fd := fields.Get(i)
		if fd.Message() == nil || fd.IsMap() || !m.Has(fd) {
			continue
		}
		if fd.IsList() {
			l := m.Get(fd).List()
			for k := 0; k < l.Len(); k++ {
				path := fmt.Sprintf("%s%s[%d]", prefix, fd.Name(), k)
				*out = append(*out, path)
				c03NestedPaths(l.Get(k).Message(), path+".", out)
			}
			continue
		}
		path := prefix + string(fd.Name())
		*out = append(*out, path)
		c03NestedPaths(m.Get(fd).Message(), path+".", out)
	}
}

func c03AtPath(m protoreflect.Message, path string) protoreflect.Message {
	if path == "" {
		return m
	}
	for _, step := range strings.Split(path, ".") {
		name, idx := step, -1
		if i := strings.IndexByte(step, '['); i >= 0 {
			name = step[:i]
			idx, _ = strconv.Atoi(strings.TrimSuffix(step[i+1:], "]"))
		}
		fd := m.Descriptor().Fields().ByName(protoreflect.Name(name))
		if fd == nil || !m.Has(fd) {
			return nil
		}
		if idx >= 0 {
			l := m.Mutable(fd).List()
			if idx >= l.Len() {
				return nil
			}
			m = l.Get(idx).Message()
		} else {
			m = m.Mutable(fd).Message()
		}
	}
	return m
}

// c03HasUnknown / c03StripUnknown: over the whole tree of messages
func c03HasUnknown(m protoreflect.Message) bool {
	if len(m.GetUnknown()) > 0 {
		return true
	}
	var paths []string
	c03NestedPaths(m, "", &paths)
	for _, p := range paths {
		if sub := c03AtPath(m, p); sub != nil && len(sub.GetUnknown()) > 0 {
			return true
		}
	}
	return false
}

func c03StripUnknown(m protoreflect.Message) {
	m.SetUnknown(nil)
	var paths []string
	c03NestedPaths(m, "", &paths)
	for _, p := range paths {
		if sub := c03AtPath(m, p); sub != nil {
			sub.SetUnknown(nil)
		}
	}
}

// c03EditAny: decode the value of q with the linked-in schema, edit, encode again.
func c03EditAny(q *anypb.Any, f func(m protoreflect.Message)) {
	msg, err := anypb.UnmarshalNew(q, proto.UnmarshalOptions{})
	if err != nil {
		return
	}
	f(msg.ProtoReflect())
	b, err := proto.MarshalOptions{Deterministic: true}.Marshal(msg)
	if err != nil {
		panic(err)
	}
	q.Value = b
}

// c03UnknownEdits: the deviations of one serialized message (an Any) in its unknown fields.
func c03UnknownEdits(q *anypb.Any, full bool, add func(variant string, f func(q *anypb.Any))) {
	kinds := []string{"bytes", "fixed32"}
	if full {
		kinds = []string{"bytes", "fixed32", "fixed64", "zero-varint"}
	}
	for _, how := range kinds { // (the varint field behind the message is the older variant "append-unknown-field")
		field := c03UnknownWire(how)
		add("behind:"+how, func(q *anypb.Any) { q.Value = c03Extend(q.Value, field) })
	}
	add("in-front:varint", func(q *anypb.Any) { q.Value = c03Extend(c03UnknownWire("varint"), q.Value) })
	msg, err := anypb.UnmarshalNew(q, proto.UnmarshalOptions{})
	if err != nil {
		return // a type that is not linked in: only the serialized form can be edited
	}
	var paths []string
	c03NestedPaths(msg.ProtoReflect(), "", &paths)
	for n, path := range paths {
		if !full && n >= 2 && n != len(paths)-1 {
			continue // quick tier: the first two nested messages and the last one
		}
		how := []string{"bytes", "varint", "fixed64"}[n%3]
		add("nested:"+path+":"+how, func(q *anypb.Any) {
			c03EditAny(q, func(m protoreflect.Message) {
				if sub := c03AtPath(m, path); sub != nil {
					sub.SetUnknown(append(append(protoreflect.RawFields{}, sub.GetUnknown()...), c03UnknownWire(how)...))
				}
			})
		})
	}
	if c03HasUnknown(msg.ProtoReflect()) {
		// the request sent has unknown fields: an echo without them
		add("all-dropped", func(q *anypb.Any) { c03EditAny(q, c03StripUnknown) })
		for _, path := range append([]string{""}, paths...) {
			sub := c03AtPath(msg.ProtoReflect(), path)
			if sub == nil || len(sub.GetUnknown()) == 0 {
				continue
			}
			where := path
			if where == "" {
				where = "<top>"
			}
			add("dropped-at:"+where, func(q *anypb.Any) {
				c03EditAny(q, func(m protoreflect.Message) {
					if sub := c03AtPath(m, path); sub != nil {
						sub.SetUnknown(nil)
					}
				})
			})
		}
	}
}

// c03UnknownFamily: expectations whose echoed requests carry unknown fields themselves (at the top, in
// nested messages), echoed in the payload of a unary response, in every payload of a stream and in the
// RequestInfo detail of an error.
func c03UnknownFamily() []*c03Expected {
	mkAny := func(m proto.Message) *anypb.Any {
		b, err := proto.MarshalOptions{Deterministic: true}.Marshal(m)
		if err != nil {
			panic(err)
		}
		return &anypb.Any{TypeUrl: "type.googleapis.com/" + string(m.ProtoReflect().Descriptor().FullName()), Value: b}
	}
	unary := func(top, def, hdr string) *anypb.Any {
		m := &conformancev1.UnaryRequest{
			ResponseDefinition: &conformancev1.UnaryResponseDefinition{
				ResponseHeaders: c03Headers{c03Hdr("x-custom-header", "foo")},
				Response:        &conformancev1.UnaryResponseDefinition_ResponseData{ResponseData: []byte("test response")},
			},
			RequestData: []byte("test request"),
		}
		if top != "" {
			m.ProtoReflect().SetUnknown(c03UnknownWire(top))
		}
		if def != "" {
			m.ResponseDefinition.ProtoReflect().SetUnknown(c03UnknownWire(def))
		}
		if hdr != "" {
			m.ResponseDefinition.ResponseHeaders[0].ProtoReflect().SetUnknown(c03UnknownWire(hdr))
		}
		return mkAny(m)
	}
	bidi := func(i int, top, def string) *anypb.Any {
		m := &conformancev1.BidiStreamRequest{RequestData: []byte(fmt.Sprintf("request-%d", i))}
		if i == 0 {
			m.FullDuplex = true
			m.ResponseDefinition = &conformancev1.StreamResponseDefinition{ResponseData: [][]byte{[]byte("data-0"), []byte("data-1"), []byte("data-2")}}
			if def != "" {
				m.ResponseDefinition.ProtoReflect().SetUnknown(c03UnknownWire(def))
			}
		}
		if top != "" {
			m.ProtoReflect().SetUnknown(c03UnknownWire(top))
		}
		return mkAny(m)
	}
	infoDetail := func(info *c03Info) *anypb.Any { return mkAny(info) }
	unarySt, clientSt, fullSt := conformancev1.StreamType_STREAM_TYPE_UNARY, conformancev1.StreamType_STREAM_TYPE_CLIENT_STREAM, conformancev1.StreamType_STREAM_TYPE_FULL_DUPLEX_BIDI_STREAM
	payload := func(i int, reqs ...*anypb.Any) *conformancev1.ConformancePayload {
		return &conformancev1.ConformancePayload{Data: []byte(fmt.Sprintf("data-%d", i)), RequestInfo: &c03Info{Requests: reqs}}
	}
	type shape struct {
		name string
		st   conformancev1.StreamType
		exp  *c03Result
	}
	shapes := []shape{
		{"unary-plain", unarySt, &c03Result{Payloads: []*conformancev1.ConformancePayload{payload(0, unary("", "", ""))}}},
		{"unary-top", unarySt, &c03Result{Payloads: []*conformancev1.ConformancePayload{payload(0, unary("varint", "", ""))}}},
		{"unary-nested", unarySt, &c03Result{Payloads: []*conformancev1.ConformancePayload{payload(0, unary("", "bytes", "fixed32"))}}},
		{"unary-error-detail", unarySt, &c03Result{Error: &conformancev1.Error{Code: conformancev1.Code_CODE_INTERNAL, Message: proto.String("unary failed"),
			Details: []*anypb.Any{infoDetail(&c03Info{Requests: []*anypb.Any{unary("bytes", "varint", "")}})}}}},
		{"unary-error-detail-plain", unarySt, &c03Result{Error: &conformancev1.Error{Code: conformancev1.Code_CODE_INTERNAL, Message: proto.String("unary failed"),
			Details: []*anypb.Any{infoDetail(&c03Info{Requests: []*anypb.Any{unary("", "", "")}})}}}},
		{"client-stream-error-detail", clientSt, &c03Result{Error: &conformancev1.Error{Code: conformancev1.Code_CODE_ABORTED,
			Details: []*anypb.Any{infoDetail(&c03Info{Requests: []*anypb.Any{bidi(1, "", ""), bidi(2, "fixed64", "")}})}}}},
		{"full-duplex-x3", fullSt, &c03Result{Payloads: []*conformancev1.ConformancePayload{
			payload(0, bidi(0, "varint", "bytes")), payload(1, bidi(1, "bytes", "")), payload(2, bidi(2, "zero-varint", ""))}}},
		{"full-duplex-x3-plain", fullSt, &c03Result{Payloads: []*conformancev1.ConformancePayload{
			payload(0, bidi(0, "", "")), payload(1, bidi(1, "", "")), payload(2, bidi(2, "", ""))}}},
	}
	var out []*c03Expected
	for _, s := range shapes {
		out = append(out, &c03Expected{ID: "unknown:shape=" + s.name, Source: "unknown-fields", PairQuick: 1, PairFull: 2,
			Def: &conformancev1.TestCase{Request: &conformancev1.ClientCompatRequest{StreamType: s.st}, ExpectedResponse: s.exp}})
	}
	return out
}

// ---------------------------------------------------------------------------
// the call into the real code
// ---------------------------------------------------------------------------

func c03Assert(def *conformancev1.TestCase, actual *c03Result) (failure error, panicked any) {
	defer func() {
		if p := recover(); p != nil {
			panicked = p
		}
	}()
	const name = "Suite/verif/c03"
	res := newResults(1, &testTrie{}, &testTrie{}, nil)
	res.assert(name, proto.Clone(def).(*conformancev1.TestCase), actual)
	res.mu.Lock()
	defer res.mu.Unlock()
	outcome, ok := res.outcomes[name]
	if !ok {
		return nil, "assert recorded no outcome"
	}
	if outcome.setupError {
		return nil, "assert recorded a setup error"
	}
	return outcome.actualFailure, nil
}

// ---------------------------------------------------------------------------
// reporting helpers
// ---------------------------------------------------------------------------

type c03Replay struct {
	ID      string `json:"id"`
	Source  string `json:"source"`
	Class   string `json:"class"`
	Kind    string `json:"kind"`
	Pos     string `json:"pos"`
	Variant string `json:"variant"`
	// code route: Overlay = number of alternatives of the other_allowed_error_codes list laid over the
	// definition (0: the definition's own list); Route = which code the result reports (0: the primary
	// one or whatever the rewrite sets, i: the i-th alternative of the list)
	Overlay int `json:"overlay,omitempty"`
	Route   int `json:"route,omitempty"`
	// a two-call history (phase H) instead of a single assertion
	History *c03HistReplay `json:"history,omitempty"`
}

// ---------------------------------------------------------------------------
// code routes
// ---------------------------------------------------------------------------
//
// "Alternative allowed error codes" is a leniency about the CODE: when the
// reported code is one of other_allowed_error_codes the code comparison passes,
// and everything else of the statement stays as it is. So for every expected
// result with an error, under every list of alternatives and with every member
// of the list reported in place of the primary code, every other leniency must
// still pass and every other deviation must still fail and be named.

type c03Frame struct {
	Overlay int
	Route   int
	Def     *conformancev1.TestCase
	Alt     conformancev1.Code // Route > 0: the code reported
}

// alternatives laid over a definition: the first n of these that differ from the primary code
var c03OverlayCodes = []conformancev1.Code{
	conformancev1.Code_CODE_UNKNOWN, conformancev1.Code_CODE_UNAVAILABLE, conformancev1.Code_CODE_INTERNAL, conformancev1.Code_CODE_DEADLINE_EXCEEDED,
}

func c03OverlayList(primary conformancev1.Code, n int) []conformancev1.Code {
	var out []conformancev1.Code
	for _, c := range c03OverlayCodes {
		if c != primary && len(out) < n {
			out = append(out, c)
		}
	}
	return out
}

// c03Frames: frame 0 is the definition as it is with the primary code. For an
// expectation with an error: its own list with each alternative reported, then
// lists of 1, 2 (thorough) and 3 alternatives with the primary code and with
// each alternative reported.
func c03Frames(def *conformancev1.TestCase, overlays []int) []c03Frame {
	frames := []c03Frame{{Def: def}}
	want := def.ExpectedResponse.GetError()
	if want == nil {
		return frames
	}
	routes := func(overlay int, d *conformancev1.TestCase, from int) {
		if from == 0 {
			frames = append(frames, c03Frame{Overlay: overlay, Def: d})
		}
		for i, c := range d.OtherAllowedErrorCodes {
			if c != want.Code {
				frames = append(frames, c03Frame{Overlay: overlay, Route: i + 1, Def: d, Alt: c})
			}
		}
	}
	routes(0, def, 1)
	for _, n := range overlays {
		d := &conformancev1.TestCase{Request: def.Request, ExpectedResponse: def.ExpectedResponse, OtherAllowedErrorCodes: c03OverlayList(want.Code, n)}
		routes(n, d, 0)
	}
	return frames
}

// rewrites that decide the reported code themselves (or remove the error) are not combined with a route
func c03SetsCode(kind string) bool {
	return kind == "error-code" || kind == "other-allowed-code" || kind == "error-removed"
}

func c03Show(m proto.Message) string {
	c := proto.Clone(m)
	var shorten func(r *c03Result)
	shorten = func(r *c03Result) {
		for _, p := range r.GetPayloads() {
			if len(p.Data) > 48 {
				p.Data = append(append([]byte{}, p.Data[:16]...), []byte(fmt.Sprintf("...(%d bytes)", len(p.Data)))...)
			}
			for _, q := range p.GetRequestInfo().GetRequests() {
				if len(q.Value) > 96 {
					q.Value = append(append([]byte{}, q.Value[:16]...), []byte(fmt.Sprintf("...(%d bytes)", len(q.Value)))...)
				}
			}
		}
	}
	switch v := c.(type) {
	case *conformancev1.TestCase:
		shorten(v.ExpectedResponse)
	case *c03Result:
		shorten(v)
	}
	b, err := protojson.MarshalOptions{}.Marshal(c)
	if err != nil {
		return fmt.Sprint(c)
	}
	return string(b)
}

func c03Clip(s string, n int) string {
	if len(s) > n {
		return s[:n] + fmt.Sprintf("...(%d more bytes)", len(s)-n)
	}
	return s
}

func c03StreamName(def *conformancev1.TestCase) string {
	return strings.TrimPrefix(def.Request.GetStreamType().String(), "STREAM_TYPE_")
}

// ---------------------------------------------------------------------------
// phase H: two-call histories
// ---------------------------------------------------------------------------
//
// The statement speaks of comparing A reported result with THE expected one: the
// verdict is a function of the pair, not of what was compared before. One
// assertion C1 followed by a second assertion C2 in the same process must give
// C2 the verdict it gets when nothing was asserted before ("cold").
//
// A comparison is (place, expected values, reported values) of one name: place =
// response header / response trailer / echoed request header / echoed query
// parameter; the value lists come from an alphabet of shapes rich in commas,
// blanks at the edge of a value, empty values and zero values. The shapes are
// instantiated with tokens: C1 and C2 of one history share their tokens (so
// "p, q" in C1 and "p"," q" in C2 are made of the same pieces), every history
// and every cold evaluation gets tokens never used before in the process. The
// cold verdict of a comparison is taken
//   * in this process, with fresh tokens, when both lists contain a token: no
//     earlier assertion involved these strings; the verdict does not depend on
//     how the pieces are spelled;
//   * in a child process (this test binary re-executed, one comparison per
//     process) when a list has no token to make it fresh ([] and [""]).
// Where the statement fixes the verdict (identical lists pass; values joined or
// split on "," / ", " pass for metadata; a removed, altered or swapped piece
// fails) the cold verdict is checked against that as well.

var c03HistPlaces = []string{"header", "trailer", "request-header", "query-param"}

// value-list shapes; P and Q stand for tokens
var c03HistShapesQuick = [][]string{
	{}, {""}, {"P"}, {"P, Q"}, {"P", "Q"}, {"P", " Q"}, {"P ", "Q"}, {"P ,Q"}, {"P,Q"}, {"Q", "P"},
}

var c03HistShapesMore = [][]string{
	{"P,", " Q"}, {"P", ""}, {"", "P"}, {" P"}, {"P,,Q"}, {"P", "Q "},
}

func c03HistShapes(full bool) [][]string {
	if full {
		return append(append([][]string{}, c03HistShapesQuick...), c03HistShapesMore...)
	}
	return c03HistShapesQuick
}

type c03HistCmp struct {
	Place int      `json:"place"`
	Exp   []string `json:"expected_values"` // shapes (P, Q) or, in the child, instantiated values
	Act   []string `json:"reported_values"`
}

type c03HistReplay struct {
	First  c03HistCmp `json:"first"`
	Second c03HistCmp `json:"second"`
}

func c03HistHasToken(shape []string) bool {
	for _, v := range shape {
		if strings.ContainsAny(v, "PQ") {
			return true
		}
	}
	return false
}

func c03HistInst(shape []string, n int64) []string {
	if len(shape) == 0 {
		return nil
	}
	rp := strings.NewReplacer("P", fmt.Sprintf("p%d", n), "Q", fmt.Sprintf("q%d", n))
	out := make([]string, len(shape))
	for i, v := range shape {
		out[i] = rp.Replace(v)
	}
	return out
}

// c03HistBuild: a successful unary result carrying one name with the given values at the place.
func c03HistBuild(place int, exp, act []string) (*conformancev1.TestCase, *c03Result) {
	mk := func(vals []string) *c03Result {
		hs := c03Headers{{Name: "x-hist", Value: vals}}
		res := &c03Result{Payloads: []*conformancev1.ConformancePayload{{Data: []byte("data-0")}}}
		switch place {
		case 0:
			res.ResponseHeaders = hs
		case 1:
			res.ResponseTrailers = hs
		case 2:
			res.Payloads[0].RequestInfo = &c03Info{RequestHeaders: hs}
		case 3:
			res.Payloads[0].RequestInfo = &c03Info{ConnectGetInfo: &conformancev1.ConformancePayload_ConnectGetInfo{QueryParams: hs}}
		default:
			panic(place)
		}
		return res
	}
	def := &conformancev1.TestCase{
		Request:          &conformancev1.ClientCompatRequest{StreamType: conformancev1.StreamType_STREAM_TYPE_UNARY},
		ExpectedResponse: mk(exp),
	}
	return def, mk(act)
}

// c03HistVerdict: "pass", "fail" or "panic: ..." of one assertion with the values as given.
func c03HistVerdict(c c03HistCmp) (verdict, text string) {
	def, actual := c03HistBuild(c.Place, c.Exp, c.Act)
	failure, panicked := c03Assert(def, actual)
	switch {
	case panicked != nil:
		return fmt.Sprintf("panic: %v", panicked), ""
	case failure != nil:
		return "fail", failure.Error()
	}
	return "pass", ""
}

// c03HistPieces: the members of a list under the joined-or-split reading; clean = every value is
// made of non-empty members without blanks at their edges, joined by "," or ", ".
func c03HistPieces(vals []string) (pieces []string, clean, commaFree bool) {
	clean, commaFree = true, true
	for _, v := range vals {
		parts := strings.Split(v, ",")
		if len(parts) > 1 {
			commaFree = false
		}
		for i, part := range parts {
			if i > 0 {
				part = strings.TrimPrefix(part, " ")
			}
			if part == "" || part != strings.TrimSpace(part) {
				clean = false
			}
			pieces = append(pieces, part)
		}
	}
	return pieces, clean, commaFree
}

// c03HistModel: "pass" / "fail" where the statement fixes the verdict, "" where it does not
// (blanks at the edge of a value, empty values, more values than expected, joined values of a
// query parameter).
func c03HistModel(place int, exp, act []string) string {
	if c03SameStrings(exp, act) {
		return "pass"
	}
	pe, cleanE, freeE := c03HistPieces(exp)
	pa, cleanA, freeA := c03HistPieces(act)
	if !cleanE || !cleanA {
		return ""
	}
	if place == 3 && !(freeE && freeA) {
		return "" // the joined-or-split leniency is stated for metadata
	}
	if c03SameStrings(pe, pa) {
		return "pass"
	}
	if len(pa) <= len(pe) {
		return "fail" // a piece is missing, altered or out of order
	}
	return ""
}

// c03HistChild runs a sequence of comparisons in a fresh process (this test binary re-executed)
// and returns their verdicts.
func c03HistChild(seq []c03HistCmp) ([]string, error) {
	in, err := json.Marshal(seq)
	if err != nil {
		return nil, err
	}
	cmd := exec.Command(os.Args[0], "-test.run", "^TestVerifC03Child$", "-test.count=1", "-test.timeout", "120s")
	for _, kv := range os.Environ() {
		if strings.HasPrefix(kv, "VERIF_REPORT=") || strings.HasPrefix(kv, "VERIF_REPLAY=") || strings.HasPrefix(kv, "C03_CHILD=") {
			continue
		}
		cmd.Env = append(cmd.Env, kv)
	}
	cmd.Env = append(cmd.Env, "C03_CHILD="+string(in))
	out, err := cmd.CombinedOutput()
	if err != nil {
		return nil, fmt.Errorf("child process: %v\n%s", err, c03Clip(string(out), 2000))
	}
	var verdicts []string
	for _, line := range strings.Split(string(out), "\n") {
		if rest, ok := strings.CutPrefix(line, "C03CHILD "); ok {
			verdicts = append(verdicts, rest)
		}
	}
	if len(verdicts) != len(seq) {
		return nil, fmt.Errorf("child process printed %d verdicts for %d comparisons:\n%s", len(verdicts), len(seq), c03Clip(string(out), 2000))
	}
	return verdicts, nil
}

// TestVerifC03Child is the child side of c03HistChild; it does nothing unless C03_CHILD is set.
func TestVerifC03Child(t *testing.T) {
	in := os.Getenv("C03_CHILD")
	if in == "" {
		return
	}
	var seq []c03HistCmp
	if err := json.Unmarshal([]byte(in), &seq); err != nil {
		t.Fatalf("bad C03_CHILD: %v", err)
	}
	for _, c := range seq {
		verdict, _ := c03HistVerdict(c)
		fmt.Println("C03CHILD " + verdict)
	}
}

func c03HistShow(c c03HistCmp) string {
	return fmt.Sprintf("%s x-hist: expected values %q, reported values %q", c03HistPlaces[c.Place], c.Exp, c.Act)
}

// c03HistoryPhase: every ordered pair (C1, C2) of comparisons; sharded by C2.
func c03HistoryPhase(t *testing.T, r *rep.Report, replay *c03HistReplay, deadline time.Time) {
	shapes := c03HistShapes(rep.Thorough() || replay != nil)
	var cmps []c03HistCmp
	for place := range c03HistPlaces {
		for _, e := range shapes {
			for _, a := range shapes {
				cmps = append(cmps, c03HistCmp{Place: place, Exp: e, Act: a})
			}
		}
	}
	if r.Shard == 0 {
		r.Count("history_comparisons", int64(len(cmps)))
		r.Count("history_value_list_shapes", int64(len(shapes)))
	}
	var tok int64
	inst := func(c c03HistCmp, n int64) c03HistCmp {
		return c03HistCmp{Place: c.Place, Exp: c03HistInst(c.Exp, n), Act: c03HistInst(c.Act, n)}
	}
	cold := func(c c03HistCmp) string {
		if c03HistHasToken(c.Exp) && c03HistHasToken(c.Act) {
			tok++
			v, _ := c03HistVerdict(inst(c, tok))
			return v
		}
		tok++
		vs, err := c03HistChild([]c03HistCmp{inst(c, tok)})
		if err != nil {
			t.Fatalf("cold verdict of %s: %v", c03HistShow(c), err)
		}
		r.Count("history_cold_verdicts_from_a_child_process", 1)
		return vs[0]
	}
	one := func(c1, c2 c03HistCmp, coldVerdict string) {
		tok++
		first, second := inst(c1, tok), inst(c2, tok)
		v1, _ := c03HistVerdict(first)
		v2, text := c03HistVerdict(second)
		r.Eval(1)
		r.NonTrivial("")
		r.Outcome("history:" + c03HistPlaces[c1.Place] + "->" + c03HistPlaces[c2.Place] + ":second-" + strings.SplitN(v2, ":", 2)[0])
		rp := c03Replay{ID: "history", Source: "history", Class: "history", History: &c03HistReplay{First: c1, Second: c2}}
		if replay != nil {
			fmt.Printf("REPLAY history\n  first:  %s -> %s\n  second: %s -> %s %s\n  second in a fresh state: %s\n", c03HistShow(first), v1, c03HistShow(second), v2, text, coldVerdict)
		}
		if strings.HasPrefix(v1, "panic") || strings.HasPrefix(v2, "panic") {
			r.Violate("panic:history", fmt.Sprintf("assert panicked in the history\n  first:  %s -> %s\n  second: %s -> %s", c03HistShow(first), v1, c03HistShow(second), v2), rp)
			return
		}
		if v2 != coldVerdict {
			what := "a deviation is accepted"
			if v2 == "fail" {
				what = "an accepted result is refused"
			}
			r.Violate("verdict-depends-on-history:"+c03HistPlaces[c2.Place],
				fmt.Sprintf("the verdict of an assertion depends on an assertion made before it in the same process (%s)\n  first assertion:  %s -> %s\n  second assertion: %s -> %s %s\n  the second assertion alone, in a fresh state: %s",
					what, c03HistShow(first), v1, c03HistShow(second), v2, c03Clip(text, 400), coldVerdict), rp)
		}
	}
	if replay != nil {
		// fresh process: the history first, then the cold verdict from a child
		vs, err := c03HistChild([]c03HistCmp{inst(replay.Second, 1)})
		if err != nil {
			t.Fatalf("cold verdict: %v", err)
		}
		tok = 1
		one(replay.First, replay.Second, vs[0])
		return
	}
	var mine int64
	for i2, c2 := range cmps {
		if !r.Mine(int64(i2) + 1) {
			continue
		}
		if !deadline.IsZero() && time.Now().After(deadline) {
			r.NotExhaustive("budget reached in the two-call histories")
			return
		}
		coldVerdict := cold(c2)
		if strings.HasPrefix(coldVerdict, "panic") {
			r.Violate("panic:history", fmt.Sprintf("assert panicked: %s -> %s", c03HistShow(c2), coldVerdict), c03Replay{ID: "history", Source: "history", Class: "history", History: &c03HistReplay{First: c2, Second: c2}})
			continue
		}
		r.Outcome("history:cold:" + c03HistPlaces[c2.Place] + ":" + coldVerdict)
		if want := c03HistModel(c2.Place, c2.Exp, c2.Act); want != "" {
			r.Count("history_cold_verdicts_fixed_by_the_statement", 1)
			if want != coldVerdict {
				key := "deviation-accepted:" + c03HistPlaces[c2.Place] + "-values"
				if want == "pass" {
					key = "leniency-rejected:" + c03HistPlaces[c2.Place] + "-values"
				}
				r.Violate(key, fmt.Sprintf("%s: the statement gives %q, assert in a fresh state gives %q", c03HistShow(c2), want, coldVerdict),
					c03Replay{ID: "history", Source: "history", Class: "history", History: &c03HistReplay{First: c2, Second: c2}})
			}
		}
		for _, c1 := range cmps {
			one(c1, c2, coldVerdict)
			mine++
			if mine%2048 == 1 {
				r.Sample(map[string]any{"history": c03HistReplay{First: c1, Second: c2}, "second_in_a_fresh_state": coldVerdict})
			}
		}
	}
}

// ---------------------------------------------------------------------------
// the check
// ---------------------------------------------------------------------------

func TestVerifC03(t *testing.T) {
	r := rep.New("c03-enum")
	defer r.Write()
	r.Rule = "enumeration: (expected result E) x (identity | leniency rewrite | single deviation) x (position, variant); " +
		"E = distinct (stream type, other allowed codes, expected response) of the expanded embedded corpus (size-limit payloads once per shape) " +
		"followed by the grammar product (quick: at most two non-base coordinates besides the stream type; thorough: full product), simplest first; " +
		"then the sized family (payload data of a unary and of three full-duplex responses, error message, two error details, echoed request, each " +
		"255/256/257, 1023/1024/1025, 4095/4096/4097, 65535/65536/65537 bytes long; deviations at the first, middle and last byte and one byte dropped / appended at the end); " +
		"the size-limit expectations come last and, in the quick tier, get only the identity and (unary, full-duplex) the payload / echoed-request deviations. " +
		"code routes: every E with an error again under other_allowed_error_codes lists of 1 and 3 (thorough: 1, 2, 3) alternatives and its own list, the result reporting the primary code / each alternative, x every leniency rewrite and deviation (the 200 KB expectations in the thorough tier only). " +
		"composed leniencies (primary code, the definition's own list): ordered pairs (A then B) of the leniency rewrites of one E, not two of the same kind at the same position; quick: representatives (per kind and block of the result the first position with its first variant and the last position with its last variant) on the corpus, the grammar expectations with at most one non-base coordinate, the merged-metadata family and the unknown-field family; thorough: every ordered pair on the corpus and the quick grammar, representatives on the grammar expectations with three non-base coordinates. " +
		"unknown fields: every echoed request (payloads at every position, RequestInfo error detail) gets a field unknown to its schema behind it (varint, bytes, fixed32; thorough also fixed64, zero varint), in front of it, and inside its nested messages (quick: the first two and the last; thorough: all); the unknown-field family (8 expectations: unary, unary error detail, client-stream error detail, three full-duplex responses; requests with unknown fields at the top / in the response definition / in a header of it, and without) adds 'unknown fields dropped' (all, per place). " +
		"two-call histories (run first): every ordered pair of comparisons (place: response header, trailer, echoed request header, echoed query parameter) x (expected value list, reported value list) over 10 (thorough 16) value-list shapes with commas, edge blanks, empty and zero values, tokens shared inside a history and never reused; the second verdict must equal the fresh-state verdict. " +
		"distinct_nontrivial counts (E, code route, kind, position, variant) tuples whose rewritten actual result differs (proto.Equal) from E, and histories; identity pairs are evaluated but not counted."

	startAll := time.Now()
	var replay *c03Replay
	if data := rep.ReplayInput(); data != nil {
		var rf struct {
			Replay c03Replay `json:"replay"`
		}
		if err := json.Unmarshal(data, &rf); err != nil {
			t.Fatalf("bad replay file: %v", err)
		}
		replay = &rf.Replay
	}

	// phase H first: the process is still fresh
	if replay == nil || replay.History != nil {
		var hr *c03HistReplay
		if replay != nil {
			hr = replay.History
		}
		startH := time.Now()
		c03HistoryPhase(t, r, hr, rep.Deadline())
		r.Count("history_phase_ms_summed_over_shards", time.Since(startH).Milliseconds())
		if replay != nil {
			return
		}
	}

	corpus, stats, err := c03LoadCorpus()
	if err != nil {
		t.Fatalf("cannot expand the embedded corpus: %v", err)
	}
	if r.Shard == 0 {
		for k, v := range stats {
			r.Count(k, v)
		}
	}
	grammar := c03Grammar(rep.Thorough() || (replay != nil && strings.HasPrefix(replay.ID, "grammar:")))
	if r.Shard == 0 {
		r.Count("grammar_expected", int64(len(grammar)))
	}
	// order: corpus, grammar (simplest first), and the expensive size-limit cases of the corpus last
	var all, big []*c03Expected
	for _, e := range corpus {
		if c03IsBig(e.Def) {
			big = append(big, e)
		} else {
			all = append(all, e)
		}
	}
	sized := c03Sized()
	unknown := c03UnknownFamily()
	all = append(append(append(append(all, grammar...), unknown...), sized...), big...)
	if r.Shard == 0 {
		r.Count("corpus_size_limit_expected", int64(len(big)))
		r.Count("sized_expected", int64(len(sized)))
		r.Count("unknown_field_expected", int64(len(unknown)))
	}

	deadline := rep.Deadline()
	var k, mine, skippedBig int64
	sampled := map[string]bool{}
	evalOne := func(e *c03Expected, fr *c03Frame, m *c03Mut) {
		// m == nil: identity
		def := fr.Def
		rp := c03Replay{ID: e.ID, Source: e.Source, Class: "identity", Overlay: fr.Overlay, Route: fr.Route}
		actual := proto.Clone(def.ExpectedResponse).(*c03Result)
		if m != nil {
			rp = c03Replay{ID: e.ID, Source: e.Source, Class: m.Class, Kind: m.Kind, Pos: m.Pos, Variant: m.Variant, Overlay: fr.Overlay, Route: fr.Route}
			m.apply(actual)
		}
		if fr.Route > 0 {
			// the result reports the alternative instead of the primary code
			if actual.Error == nil {
				return
			}
			actual.Error.Code = fr.Alt
			if m == nil {
				rp.Class, rp.Kind, rp.Pos, rp.Variant = "leniency", "other-allowed-code", fmt.Sprintf("other_allowed_error_codes[%d]", fr.Route-1), "route:"+fr.Alt.String()
			}
		}
		if m != nil || fr.Route > 0 {
			if proto.Equal(actual, def.ExpectedResponse) {
				r.Count("rewrites_without_effect", 1)
				return
			}
			r.NonTrivial("")
		}
		if fr.Overlay > 0 || fr.Route > 0 {
			r.Count("evaluations_under_a_code_route", 1)
		}
		failure, panicked := c03Assert(def, actual)
		r.Eval(1)
		describe := func(what string) string {
			msg := "<nil>"
			if failure != nil {
				msg = c03Clip(failure.Error(), 1200)
			}
			route := "primary code reported"
			if fr.Route > 0 {
				route = fmt.Sprintf("allowed alternative #%d (%s) reported in place of the primary code", fr.Route-1, fr.Alt)
			}
			return fmt.Sprintf("%s\n  case: %s %s at %s (%s); stream type %s; other allowed codes %v (overlay %d); %s; source %s\n  expected: %s\n  actual:   %s\n  assert outcome: %s",
				what, rp.Class, rp.Kind, rp.Pos, rp.Variant, c03StreamName(def), def.OtherAllowedErrorCodes, fr.Overlay, route, e.Source,
				c03Clip(c03Show(def.ExpectedResponse), 1500), c03Clip(c03Show(actual), 1500), msg)
		}
		if replay != nil {
			fmt.Println(describe("REPLAY"))
		}
		if panicked != nil {
			r.Outcome(rp.Class + ":" + rp.Kind + ":panic")
			r.Violate("panic:"+rp.Class+":"+rp.Kind, describe(fmt.Sprintf("assert panicked: %v", panicked)), rp)
			return
		}
		sampleKey := rp.Class + ":" + rp.Kind
		if first, _, composed := strings.Cut(rp.Kind, "&"); composed {
			sampleKey = rp.Class + ":composed:" + first
		}
		if fr.Route > 0 {
			sampleKey += ":alt"
		}
		if !sampled[sampleKey] && len(sampled) < 96 {
			sampled[sampleKey] = true
			if m != nil && (len(sampled)%7 == 1 || m.Class == "deviation" && len(sampled)%5 == 0) {
				outcome := "pass"
				if failure != nil {
					outcome = c03Clip(failure.Error(), 300)
				}
				r.Sample(map[string]any{"case": rp, "stream_type": c03StreamName(def), "actual": c03Clip(c03Show(actual), 600), "outcome": outcome})
			}
		}
		// outcome classes and violation keys of a deviation / leniency met under an allowed alternative code
		via := ""
		if fr.Route > 0 && !(m == nil) {
			via = "+alternative-code"
		}
		switch rp.Class {
		case "identity":
			if failure != nil {
				r.Outcome("identity:fail")
				r.Violate("identity-rejected", describe("assert(E, E) does not pass"), rp)
			} else {
				r.Outcome("identity:pass")
			}
		case "leniency":
			// (composed leniencies: one outcome class per first rewrite, the key names both)
			class, what := rp.Kind, "a documented leniency is rejected"
			if first, _, composed := strings.Cut(rp.Kind, "&"); composed {
				class, what = "composed:"+first+"&...", "a result that agrees with the expected one up to two documented leniencies (the first rewrite applied, then the second) is rejected"
			}
			if failure != nil {
				r.Outcome("leniency:" + class + via + ":fail")
				r.Violate("leniency-rejected:"+rp.Kind+via, describe(what), rp)
			} else {
				r.Outcome("leniency:" + class + via + ":pass")
			}
		case "deviation":
			if failure == nil {
				r.Outcome("deviation:" + rp.Kind + via + ":pass")
				r.Violate("deviation-accepted:"+rp.Kind+via, describe("a deviation passes"), rp)
				return
			}
			if ok, missing := c03Named(failure.Error(), m.Tokens); !ok {
				r.Outcome("deviation:" + rp.Kind + via + ":fail-unnamed")
				r.Violate("message-does-not-name:"+rp.Kind+via, describe("the failure text does not name the discrepancy (contains "+missing+")"), rp)
				return
			}
			r.Outcome("deviation:" + rp.Kind + via + ":fail-named")
		}
	}

	// lists of alternatives laid over every expectation with an error (see c03Frames)
	overlays := []int{1, 3}
	if rep.Thorough() {
		overlays = []int{1, 2, 3}
	}
	found := false
outer:
	for _, e := range all {
		if replay != nil && e.ID != replay.ID {
			continue
		}
		bigQuick := c03IsBig(e.Def) && e.Source != "sized" && !rep.Thorough() && replay == nil
		frames := c03Frames(e.Def, overlays)
		if replay != nil {
			frames = c03Frames(e.Def, []int{1, 2, 3})
		}
		if bigQuick {
			frames = frames[:1] // the 200 KB expectations meet the code routes in the thorough tier
		}
		for fi := range frames {
			fr := &frames[fi]
			if replay != nil && (fr.Overlay != replay.Overlay || fr.Route != replay.Route) {
				continue
			}
			muts := c03Mutations(fr.Def)
			if fi == 0 && !c03IsBig(e.Def) {
				// composed leniencies, with the definition as it is and the primary code
				level := e.PairQuick
				if c03Full() {
					level = e.PairFull
				}
				pairs := c03LeniencyPairs(muts, level)
				if r.Shard == 0 {
					r.Count("leniency_pairs", int64(len(pairs)))
				}
				muts = append(muts, pairs...)
			}
			if bigQuick {
				// quick tier: one assert on a 200 KB expectation costs about a second of CPU, so only the
				// rewrites that touch the padded messages are run there, on the unary and the full-duplex
				// expectation; the identity is run on all five
				st := e.Def.Request.GetStreamType()
				stKept := st == conformancev1.StreamType_STREAM_TYPE_UNARY || st == conformancev1.StreamType_STREAM_TYPE_FULL_DUPLEX_BIDI_STREAM
				kept := muts[:0]
				for _, m := range muts {
					if stKept && (strings.HasPrefix(m.Kind, "payload-") || strings.HasPrefix(m.Kind, "echoed-request-")) && m.Kind != "echoed-request-unknown-field" {
						kept = append(kept, m)
					} else {
						skippedBig++
					}
				}
				muts = kept
			}
			for i := -1; i < len(muts); i++ {
				var m *c03Mut
				if i >= 0 {
					m = &muts[i]
					if fr.Route > 0 && c03SetsCode(m.Kind) {
						continue
					}
				}
				if replay != nil {
					// (an identity met under a route is recorded as the leniency other-allowed-code)
					routeIdentity := m == nil && fr.Route > 0 && replay.Class == "leniency" && replay.Kind == "other-allowed-code" && strings.HasPrefix(replay.Variant, "route:")
					if m == nil && replay.Class != "identity" && !routeIdentity {
						continue
					}
					if m != nil && (m.Class != replay.Class || m.Kind != replay.Kind || m.Pos != replay.Pos || m.Variant != replay.Variant) {
						continue
					}
					found = true
					evalOne(e, fr, m)
					break outer
				}
				k++
				if !r.Mine(k) {
					continue
				}
				mine++
				if !deadline.IsZero() && (mine%64 == 0 || c03IsBig(e.Def)) && time.Now().After(deadline) {
					r.NotExhaustive(fmt.Sprintf("budget reached in expected result %s (order: corpus, grammar simplest first, size-limit cases of the corpus last)", e.ID))
					break outer
				}
				evalOne(e, fr, m)
			}
		}
	}
	r.Count("whole_run_ms_summed_over_shards", time.Since(startAll).Milliseconds())
	if r.Shard == 0 {
		r.Count("size_limit_rewrites_left_to_thorough_tier", skippedBig)
	}
	if replay != nil && !found {
		t.Fatalf("replay case %+v not found in the enumeration", *replay)
	}
}
