package connectconformance

// C11 — a server batch always yields exactly one outcome per case and
// terminates. GATE exploration of the real runTestCasesForServer against a
// scripted server process and a scripted clientRunner. The same executions feed
// C04's multi-case truth table (c04BatchJudge) when VERIF_C04=1.

import (
	"bytes"
	"context"
	"encoding/binary"
	"errors"
	"fmt"
	"io"
	"sort"
	"strings"
	"sync"
	"testing"
	"testing/synctest"
	"time"

	"connectrpc.com/conformance/internal"
	conformancev1 "connectrpc.com/conformance/internal/gen/proto/go/connectrpc/conformance/v1"
	"connectrpc.com/conformance/internal/verif/gate"
	"connectrpc.com/conformance/internal/verif/rep"
	"google.golang.org/protobuf/proto"
)

type c11Scenario struct {
	N         int      `json:"n"`
	TLS       bool     `json:"tls"`
	RefServer bool     `json:"ref_server"`
	RefClient bool     `json:"ref_client"`
	StartErr  bool     `json:"start_err"`
	StdinErr  string   `json:"stdin_err"`  // none write close
	Resp      string   `json:"resp"`       // ok nocert cut<k> oversize zero garbage never eof
	ExitAfter int      `json:"exit_after"` // -1: only when aborted; k: on its own once k requests reached the client
	SendErrAt int      `json:"send_err_at"`
	Answers   []string `json:"answers"` // per position: pass mismatch clienterr empty noresult, optional +fb
	Sync      bool     `json:"sync"`    // callbacks fire inside sendRequest
	Stderr    []string `json:"stderr"`  // chunks written to stderr (reference server only)
	Marks     []string `json:"marks"`   // per position: "", failing, flaky (used by the C04 judge)
	// StderrFirst: the server writes its stderr output before it answers the start-up request, and
	// (as on a pipe) does not get any further until somebody has read it
	StderrFirst bool `json:"stderr_first,omitempty"`
	// RawReq: the cases carry a raw HTTP request; ClientCerts: the server instance uses client certificates
	RawReq      bool `json:"raw_req,omitempty"`
	ClientCerts bool `json:"client_certs,omitempty"`
	// Host: the host the server reports ("" = 127.0.0.1; "none" = it leaves the field empty, which stands for
	// the default host); EchoCert: under TLS it uses (and reports) the certificate it was offered
	Host     string `json:"host,omitempty"`
	EchoCert bool   `json:"echo_cert,omitempty"`
	// Order: the order in which the cases of the batch are handed to the runner ("" = by name, "rev", "rot");
	// a real batch comes out of a map, in any order
	Order string `json:"order,omitempty"`
	// SlowErr: the runner's own stderr takes this many (virtual) seconds per line it is given
	SlowErr int `json:"slow_err,omitempty"`
}

// --- scripted server process -------------------------------------------------

type c11Server struct {
	x  *gate.Exec
	sc c11Scenario

	mu         sync.Mutex
	started    bool
	stdinBuf   []byte
	stdinEOF   bool
	gotRequest *conformancev1.ServerCompatRequest
	out        []byte
	outClosed  bool
	outNotify  chan struct{}
	errbuf     []byte
	errClosed  bool
	errNotify  chan struct{}
	exited     bool
	aborted    int
	done       chan struct{}
	respDone   bool
	port       uint32
	errEmitted []byte
	clientSeen func() int
	repHost    string // what the response said
	repCert    []byte
}

func (s *c11Server) starter() processStarter {
	return func(ctx context.Context, pipeStderr bool) (*process, error) {
		if s.sc.StartErr {
			return nil, errors.New("exec: \"server\": executable file not found")
		}
		s.mu.Lock()
		s.started = true
		s.mu.Unlock()
		if s.sc.Resp != "never" {
			s.x.Go("server.respond", func() {
				gate.PointIf("server.respond", func() bool {
					s.mu.Lock()
					defer s.mu.Unlock()
					if s.sc.StderrFirst && pipeStderr && !s.exited && (len(s.errEmitted) < len(strings.Join(s.sc.Stderr, "")) || len(s.errbuf) > 0) {
						return false // still blocked writing to its stderr pipe
					}
					return s.gotRequest != nil || s.exited || s.sc.Resp == "eof"
				})
				s.respond()
			})
		}
		if s.sc.ExitAfter >= 0 {
			s.x.Go("server.exit", func() {
				gate.PointIf("server.exit", func() bool {
					s.mu.Lock()
					defer s.mu.Unlock()
					return !s.exited && len(s.out) == 0 && s.clientSeen() >= s.sc.ExitAfter && (s.outClosed || s.respondedLocked())
				})
				s.exit()
			})
		}
		if pipeStderr && len(s.sc.Stderr) > 0 {
			s.x.Go("server.stderr", func() {
				for i, chunk := range s.sc.Stderr {
					gate.PointAt(fmt.Sprintf("server.stderr#%d", i))
					s.mu.Lock()
					if !s.errClosed {
						s.errbuf = append(s.errbuf, chunk...)
						s.errEmitted = append(s.errEmitted, chunk...)
						close(s.errNotify)
						s.errNotify = make(chan struct{})
					}
					s.mu.Unlock()
				}
			})
		}
		var stderr io.Reader = io.NopCloser(&emptyReader{})
		if pipeStderr {
			stderr = (*c11Stderr)(s)
		}
		return &process{processController: s, stdin: (*c11Stdin)(s), stdout: (*c11Stdout)(s), stderr: stderr}, nil
	}
}

func (s *c11Server) respondedLocked() bool { return s.respDone }

func (s *c11Server) respond() {
	s.mu.Lock()
	defer s.mu.Unlock()
	s.respDone = true
	if s.exited {
		return
	}
	port := s.port
	if port == 0 {
		port = 4242
	}
	host := s.sc.Host
	switch host {
	case "":
		host = "127.0.0.1"
	case "none":
		host = ""
	}
	resp := &conformancev1.ServerCompatResponse{Host: host, Port: port}
	if s.sc.TLS || (s.gotRequest != nil && s.gotRequest.UseTls) {
		resp.PemCert = []byte(fmt.Sprintf("-----BEGIN CERTIFICATE-----\nfake%d\n-----END CERTIFICATE-----\n", port))
		if s.sc.EchoCert && s.gotRequest != nil && len(s.gotRequest.GetServerCreds().GetCert()) > 0 {
			resp.PemCert = s.gotRequest.GetServerCreds().GetCert()
		}
	}
	s.repHost, s.repCert = host, resp.PemCert
	if false {
		resp.PemCert = []byte("-----BEGIN CERTIFICATE-----\nfake\n-----END CERTIFICATE-----\n")
	}
	emit := func(b []byte) {
		s.out = append(s.out, b...)
		close(s.outNotify)
		s.outNotify = make(chan struct{})
	}
	switch {
	case s.sc.Resp == "ok":
		emit(frame(resp))
	case s.sc.Resp == "ok-exit":
		// a complete, valid response, and the process is gone right after writing it
		emit(frame(resp))
		s.exitLocked()
	case s.sc.Resp == "nocert":
		resp.PemCert = nil
		emit(frame(resp))
	case strings.HasPrefix(s.sc.Resp, "cut"):
		var k int
		fmt.Sscanf(s.sc.Resp, "cut%d", &k)
		b := frame(resp)
		if k >= len(b) {
			k = len(b) - 1
		}
		emit(b[:k])
		s.exitLocked()
	case s.sc.Resp == "oversize":
		var p [4]byte
		binary.BigEndian.PutUint32(p[:], maxServerResponseSize+1)
		emit(p[:])
	case s.sc.Resp == "zero":
		emit([]byte{0, 0, 0, 0})
	case s.sc.Resp == "garbage":
		emit([]byte{0, 0, 0, 3, 0xff, 0xff, 0xff})
	case s.sc.Resp == "garbage-high":
		emit([]byte{0xef, 0xbb, 0xbf, 'b', 'o', 'o', 'm'})
	case s.sc.Resp == "oversize-max":
		emit([]byte{0xff, 0xff, 0xff, 0xff})
	case s.sc.Resp == "oversize-valid":
		// a complete, well-formed response that is one byte larger than the limit for server
		// responses (but well below the limit for client responses)
		big := &conformancev1.ServerCompatResponse{Host: "127.0.0.1", Port: port, PemCert: bytes.Repeat([]byte("c"), maxServerResponseSize)}
		b := frame(big)
		over := len(b) - 4 - (maxServerResponseSize + 1)
		big.PemCert = big.PemCert[:len(big.PemCert)-over]
		emit(frame(big))
	case s.sc.Resp == "eof":
		s.exitLocked()
	default:
		panic("bad resp script " + s.sc.Resp)
	}
}

func (s *c11Server) exit() {
	s.mu.Lock()
	defer s.mu.Unlock()
	s.exitLocked()
}

func (s *c11Server) exitLocked() {
	if s.exited {
		return
	}
	s.exited = true
	s.outClosed = true
	s.errClosed = true
	close(s.outNotify)
	s.outNotify = make(chan struct{})
	close(s.errNotify)
	s.errNotify = make(chan struct{})
	close(s.done)
	gate.Poke()
}

func (s *c11Server) result() error {
	<-s.done
	return nil
}

func (s *c11Server) abort() {
	s.mu.Lock()
	s.aborted++
	first := s.aborted == 1 && !s.exited
	s.mu.Unlock()
	if !first {
		return
	}
	if !gate.Active() {
		s.exit()
		return
	}
	s.x.Go("server.sigterm", func() {
		gate.Point("server.sigterm")
		s.exit()
	})
}

func (s *c11Server) whenDone(action func(error)) {
	go func() {
		<-s.done
		action(nil)
	}()
}

func (s *c11Server) stateKey() string {
	s.mu.Lock()
	defer s.mu.Unlock()
	return fmt.Sprintf("srv: st=%v in=%d eof=%v req=%v out=%d oc=%v err=%d ec=%v ex=%v ab=%d rd=%v", s.started, len(s.stdinBuf), s.stdinEOF, s.gotRequest != nil, len(s.out), s.outClosed, len(s.errbuf), s.errClosed, s.exited, s.aborted, s.respDone)
}

type c11Stdin c11Server

func (w *c11Stdin) Write(p []byte) (int, error) {
	s := (*c11Server)(w)
	s.mu.Lock()
	defer s.mu.Unlock()
	if s.sc.StdinErr == "write" {
		return 0, errors.New("write |1: broken pipe")
	}
	if s.exited {
		return 0, io.ErrClosedPipe
	}
	s.stdinBuf = append(s.stdinBuf, p...)
	return len(p), nil
}

func (w *c11Stdin) Close() error {
	s := (*c11Server)(w)
	s.mu.Lock()
	defer s.mu.Unlock()
	if s.sc.StdinErr == "close" {
		return errors.New("close |1: input/output error")
	}
	s.stdinEOF = true
	if len(s.stdinBuf) >= 4 {
		n := int(binary.BigEndian.Uint32(s.stdinBuf))
		if len(s.stdinBuf) >= 4+n {
			req := &conformancev1.ServerCompatRequest{}
			if err := proto.Unmarshal(s.stdinBuf[4:4+n], req); err == nil {
				s.gotRequest = req
			}
		}
	}
	gate.Poke()
	return nil
}

type c11Stdout c11Server

func (r *c11Stdout) Read(p []byte) (int, error) {
	s := (*c11Server)(r)
	for {
		s.mu.Lock()
		if len(s.out) > 0 {
			n := copy(p, s.out)
			s.out = s.out[n:]
			s.mu.Unlock()
			gate.Poke()
			return n, nil
		}
		if s.outClosed {
			s.mu.Unlock()
			return 0, io.EOF
		}
		ch := s.outNotify
		s.mu.Unlock()
		<-ch
	}
}

type c11Stderr c11Server

func (r *c11Stderr) Read(p []byte) (int, error) {
	s := (*c11Server)(r)
	for {
		s.mu.Lock()
		if len(s.errbuf) > 0 {
			n := copy(p, s.errbuf)
			s.errbuf = s.errbuf[n:]
			s.mu.Unlock()
			gate.Poke()
			return n, nil
		}
		if s.errClosed {
			s.mu.Unlock()
			return 0, io.EOF
		}
		ch := s.errNotify
		s.mu.Unlock()
		<-ch
	}
}

// --- scripted client runner ---------------------------------------------------

type c11Client struct {
	x       *gate.Exec
	sc      c11Scenario
	mu      sync.Mutex
	calls   int
	sent    []*conformancev1.ClientCompatRequest // accepted, in order
	sentAt  []bool                               // server alive when sent
	refused []string
	// requests handed over although the server process had already exited when the call began
	sentToDead []string
	answers    map[string]string
	inflight   int // asynchronous answers not delivered yet
	srv        *c11Server
}

func (c *c11Client) seen() int { c.mu.Lock(); defer c.mu.Unlock(); return len(c.sent) }

func (c *c11Client) answerFor(k int, req *conformancev1.ClientCompatRequest) (*conformancev1.ClientCompatResponse, error) {
	kind := "pass"
	if k < len(c.sc.Answers) {
		kind = c.sc.Answers[k]
	}
	fb := strings.HasSuffix(kind, "+fb")
	kind = strings.TrimSuffix(kind, "+fb")
	var feedback []string
	if fb {
		feedback = []string{"client feedback for " + req.TestName}
	}
	switch kind {
	case "pass":
		return &conformancev1.ClientCompatResponse{TestName: req.TestName, Result: &conformancev1.ClientCompatResponse_Response{Response: &conformancev1.ClientResponseResult{
			Payloads: []*conformancev1.ConformancePayload{{Data: []byte("ok")}}, Feedback: feedback}}}, nil
	case "mismatch":
		return &conformancev1.ClientCompatResponse{TestName: req.TestName, Result: &conformancev1.ClientCompatResponse_Response{Response: &conformancev1.ClientResponseResult{
			Payloads: []*conformancev1.ConformancePayload{{Data: []byte("wrong")}}, Feedback: feedback}}}, nil
	case "clienterr":
		return &conformancev1.ClientCompatResponse{TestName: req.TestName, Result: &conformancev1.ClientCompatResponse_Error{Error: &conformancev1.ClientErrorResult{Message: "client could not issue RPC"}}}, nil
	case "clienterr-blank":
		// the error member of the oneof is set; its text is empty / white space only
		return &conformancev1.ClientCompatResponse{TestName: req.TestName, Result: &conformancev1.ClientCompatResponse_Error{Error: &conformancev1.ClientErrorResult{Message: " \n"}}}, nil
	case "empty":
		return &conformancev1.ClientCompatResponse{TestName: req.TestName}, nil
	case "noresult":
		return nil, &failedToGetResultError{errNoOutcome}
	}
	panic("bad answer kind " + kind)
}

func (c *c11Client) sendRequest(req *conformancev1.ClientCompatRequest, whenDone func(string, *conformancev1.ClientCompatResponse, error)) error {
	// There is no gate between the runner's "is the server still there" check and this
	// call, so the server's state now is what the runner saw (or could have seen).
	if c.srv.hasExited() {
		c.mu.Lock()
		c.sentToDead = append(c.sentToDead, req.TestName)
		c.mu.Unlock()
	}
	gate.Point("client.send")
	c.mu.Lock()
	k := c.calls
	c.calls++
	if c.sc.SendErrAt >= 0 && k >= c.sc.SendErrAt {
		c.refused = append(c.refused, req.TestName)
		c.mu.Unlock()
		return errClosed
	}
	c.sent = append(c.sent, req)
	alive := !c.srv.hasExited()
	c.sentAt = append(c.sentAt, alive)
	nth := len(c.sent) - 1
	c.mu.Unlock()
	gate.Poke()
	resp, err := c.answerFor(nth, req)
	kind := "pass"
	if nth < len(c.sc.Answers) {
		kind = c.sc.Answers[nth]
	}
	c.mu.Lock()
	c.answers[req.TestName] = kind
	c.mu.Unlock()
	if c.sc.Sync {
		whenDone(req.TestName, resp, err)
		return nil
	}
	c.mu.Lock()
	c.inflight++
	c.mu.Unlock()
	c.x.Go(fmt.Sprintf("client.answer#%d", nth), func() {
		gate.Point("client.answer")
		whenDone(req.TestName, resp, err)
		c.mu.Lock()
		c.inflight--
		c.mu.Unlock()
		gate.Poke()
	})
	return nil
}

// idle: every request handed to the client has had its completion callback (what run() waits
// for, through closeSend/waitForResponses, before it reports).
func (c *c11Client) idle() bool {
	c.mu.Lock()
	defer c.mu.Unlock()
	return c.inflight == 0
}

func (c *c11Client) closeSend()              {}
func (c *c11Client) waitForResponses() error { return nil }
func (c *c11Client) isRunning() bool         { return true }
func (c *c11Client) stop()                   {}

func (s *c11Server) hasExited() bool { s.mu.Lock(); defer s.mu.Unlock(); return s.exited }

// --- one execution -------------------------------------------------------------

type c11Obs struct {
	Returned bool
	Outcomes map[string]testOutcome
	Sideband map[string]string
	ErrLines []string
	Sent     []*conformancev1.ClientCompatRequest
	SentLive []bool
	Refused  []string
	SentDead []string
	Answers  map[string]string
	Aborted  int
	Started  bool
	Exited   bool
	Report   []string
	ReportOK bool
	Stderr   string
	// outcomes as they are after report() merged the peers' feedback into them
	AfterReport map[string]testOutcome
	Names       []string
}

func c11Cases(sc c11Scenario) []*conformancev1.TestCase {
	var out []*conformancev1.TestCase
	for i := 0; i < sc.N; i++ {
		out = append(out, &conformancev1.TestCase{
			Request: &conformancev1.ClientCompatRequest{
				TestName:   fmt.Sprintf("s/c%d", i),
				StreamType: conformancev1.StreamType_STREAM_TYPE_UNARY,
				Protocol:   conformancev1.Protocol_PROTOCOL_CONNECT,
				Codec:      conformancev1.Codec_CODEC_PROTO,
			},
			ExpectedResponse: &conformancev1.ClientResponseResult{Payloads: []*conformancev1.ConformancePayload{{Data: []byte("ok")}}},
		})
		if sc.RawReq {
			out[i].Request.RawRequest = &conformancev1.RawHTTPRequest{Verb: "POST", Uri: "/svc/Method", Headers: []*conformancev1.Header{{Name: "x-raw", Value: []string{"1"}}}}
		}
	}
	return out
}

type c11Printer struct {
	mu    sync.Mutex
	lines []string
	delay time.Duration // every line takes this long to write (a stalled terminal or log sink), virtual time
}

func (p *c11Printer) Printf(msg string, args ...any) {
	p.mu.Lock()
	p.lines = append(p.lines, fmt.Sprintf(msg, args...))
	p.mu.Unlock()
}
func (p *c11Printer) PrefixPrintf(prefix, msg string, args ...any) {
	if p.delay > 0 {
		time.Sleep(p.delay)
	}
	p.mu.Lock()
	p.lines = append(p.lines, prefix+": "+fmt.Sprintf(msg, args...))
	p.mu.Unlock()
}

func c11RunOne(t *testing.T, sc c11Scenario, prefix []int, expect []gate.PointRec) (x *gate.Exec, obs *c11Obs, leak string) {
	defer func() {
		if r := recover(); r != nil {
			leak = fmt.Sprint(r)
		}
	}()
	synctest.Test(t, func(t *testing.T) {
		x = gate.Begin(prefix, expect)
		obs = &c11Obs{}
		srv := &c11Server{x: x, sc: sc, outNotify: make(chan struct{}), errNotify: make(chan struct{}), done: make(chan struct{})}
		cl := &c11Client{x: x, sc: sc, answers: map[string]string{}, srv: srv}
		srv.clientSeen = cl.seen
		cases := c11Cases(sc)
		failing, flaky := &testTrie{}, &testTrie{}
		for i, tc := range cases {
			obs.Names = append(obs.Names, tc.Request.TestName)
			if i < len(sc.Marks) {
				switch sc.Marks[i] {
				case "failing":
					failing.addPattern(tc.Request.TestName)
				case "flaky":
					flaky.addPattern(tc.Request.TestName)
				}
			}
		}
		results := newResults(len(cases), failing, flaky, nil)
		errPrinter := &c11Printer{delay: time.Duration(sc.SlowErr) * time.Second}
		logPrinter := &c11Printer{}
		ctx, cancel := context.WithCancel(context.Background())
		var returned bool
		var retMu sync.Mutex
		if !gateNoCache {
			x.KeyFn = func() string {
				var sb strings.Builder
				sb.WriteString(srv.stateKey())
				// every field of the result table, known to this harness or not (see gate.DeepKey)
				sb.WriteString("|deep:")
				sb.WriteString(gate.DeepKeyFields(results, "tracer"))
				cl.mu.Lock()
				fmt.Fprintf(&sb, "|cl: calls=%d sent=%d refused=%d ans=%d", cl.calls, len(cl.sent), len(cl.refused), len(cl.answers))
				cl.mu.Unlock()
				names := make([]string, 0, len(results.outcomes))
				for k, o := range results.outcomes {
					names = append(names, fmt.Sprintf("%s=%v/%v", k, o.setupError, o.actualFailure))
				}
				sort.Strings(names)
				sbn := make([]string, 0, len(results.serverSideband))
				for k, v := range results.serverSideband {
					sbn = append(sbn, k+"="+v)
				}
				sort.Strings(sbn)
				retMu.Lock()
				fmt.Fprintf(&sb, "|res=%v sb=%v mu=%v ret=%v errl=%d", names, sbn, mutexHeld(&results.mu), returned, len(errPrinter.lines))
				retMu.Unlock()
				return sb.String()
			}
		}
		x.Go("batch", func() {
			var creds *conformancev1.TLSCreds
			if sc.TLS {
				creds = &conformancev1.TLSCreds{Cert: []byte("cert"), Key: []byte("key")}
			}
			var clientCreds *conformancev1.TLSCreds
			if sc.ClientCerts {
				clientCreds = &conformancev1.TLSCreds{Cert: []byte("client-cert"), Key: []byte("client-key")}
			}
			batch := append([]*conformancev1.TestCase(nil), cases...)
			switch sc.Order {
			case "rev":
				for i, j := 0, len(batch)-1; i < j; i, j = i+1, j-1 {
					batch[i], batch[j] = batch[j], batch[i]
				}
			case "rot":
				batch = append(batch[1:], batch[0])
			}
			runTestCasesForServer(ctx, sc.RefClient, sc.RefServer,
				serverInstance{protocol: conformancev1.Protocol_PROTOCOL_CONNECT, httpVersion: conformancev1.HTTPVersion_HTTP_VERSION_1, useTLS: sc.TLS, useTLSClientCerts: sc.ClientCerts},
				batch, creds, clientCreds, srv.starter(), logPrinter, errPrinter, results, cl, nil, false)
			// The batch is complete. As in run(), the report is produced once every batch has returned
			// and the client has delivered the callbacks of everything it was sent - for the last
			// batch of a run that is right away. Whatever the batch still does afterwards comes too late.
			gate.PointIf("run.client-finished", cl.idle)
			outcomes, sideband := map[string]testOutcome{}, map[string]string{}
			results.mu.Lock()
			for k, v := range results.outcomes {
				outcomes[k] = v
			}
			for k, v := range results.serverSideband {
				sideband[k] = v
			}
			results.mu.Unlock()
			rp := &c11Printer{}
			ok := results.report(rp)
			after := map[string]testOutcome{}
			results.mu.Lock()
			for k, v := range results.outcomes {
				after[k] = v
			}
			results.mu.Unlock()
			retMu.Lock()
			returned = true
			obs.Outcomes, obs.Sideband = outcomes, sideband
			obs.ReportOK, obs.Report, obs.AfterReport = ok, rp.lines, after
			retMu.Unlock()
		})
		x.Run(time.Hour, nil)
		retMu.Lock()
		obs.Returned = returned
		retMu.Unlock()
		if obs.Outcomes == nil {
			obs.Outcomes = map[string]testOutcome{}
		}
		obs.ErrLines = append([]string(nil), errPrinter.lines...)
		cl.mu.Lock()
		obs.Sent = append(obs.Sent, cl.sent...)
		obs.SentLive = append(obs.SentLive, cl.sentAt...)
		obs.Refused = append(obs.Refused, cl.refused...)
		obs.SentDead = append(obs.SentDead, cl.sentToDead...)
		obs.Answers = map[string]string{}
		for k, v := range cl.answers {
			obs.Answers[k] = v
		}
		cl.mu.Unlock()
		srv.mu.Lock()
		obs.Aborted, obs.Started, obs.Exited = srv.aborted, srv.started, srv.exited
		obs.Stderr = string(srv.errEmitted)
		srv.mu.Unlock()
		x.End()
		srv.exit()
		cancel()
		synctest.Wait()
	})
	return
}

// c11ServerBroken says whether the scripted server never becomes usable, so
// that every case of the batch must be a setup error.
func c11ServerBroken(sc c11Scenario) bool {
	if sc.StartErr || sc.StdinErr != "none" {
		return true
	}
	switch {
	case sc.Resp == "ok", sc.Resp == "ok-exit":
		return false
	case sc.Resp == "zero":
		return sc.TLS // an empty response is valid without TLS (no cert needed)
	case sc.Resp == "nocert":
		return sc.TLS
	}
	return true
}

func c11Judge(sc c11Scenario, obs *c11Obs, x *gate.Exec) []gateVerdict {
	var out []gateVerdict
	add := func(key, format string, a ...any) {
		out = append(out, gateVerdict{key, fmt.Sprintf(format, a...)})
	}
	if x.Overrun {
		add("step-overrun", "execution did not finish within %d steps", x.MaxSteps)
		return out
	}
	if !obs.Returned {
		add("batch-never-returns", "runTestCasesForServer did not return within a virtual hour; parked: %v", x.Waiting())
		return out
	}
	want := map[string]bool{}
	for _, n := range obs.Names {
		want[n] = true
		if _, ok := obs.Outcomes[n]; !ok {
			add("outcome-missing", "case %q has no outcome after the batch returned", n)
		}
	}
	for n := range obs.Outcomes {
		if !want[n] {
			add("outcome-for-foreign-case", "outcome recorded for %q which is not in the batch", n)
		}
	}
	broken := c11ServerBroken(sc)
	sentIdx := map[string]int{}
	for i, r := range obs.Sent {
		sentIdx[r.TestName] = i
	}
	refused := map[string]bool{}
	for _, n := range obs.Refused {
		refused[n] = true
	}
	for _, n := range obs.Names {
		o, ok := obs.Outcomes[n]
		if !ok {
			continue
		}
		_, wasSent := sentIdx[n]
		switch {
		case broken:
			if wasSent {
				add("sent-despite-broken-server", "case %q was handed to the client although the server never became usable (resp=%s)", n, sc.Resp)
			}
			if !o.setupError || o.actualFailure == nil {
				add("broken-server-not-setup-error", "server unusable (start_err=%v stdin=%s resp=%s tls=%v) but case %q has outcome setup=%v failure=%v", sc.StartErr, sc.StdinErr, sc.Resp, sc.TLS, n, o.setupError, o.actualFailure)
			}
		case wasSent:
			kind := strings.TrimSuffix(obs.Answers[n], "+fb")
			switch kind {
			case "pass":
				if o.setupError || o.actualFailure != nil {
					add("answered-case-lost-verdict:pass", "case %q was answered correctly but has outcome setup=%v failure=%v", n, o.setupError, o.actualFailure)
				}
			case "mismatch", "clienterr", "clienterr-blank", "empty":
				if o.setupError || o.actualFailure == nil {
					add("answered-case-lost-verdict:"+kind, "case %q was answered with %s but has outcome setup=%v failure=%v", n, kind, o.setupError, o.actualFailure)
				}
			case "noresult":
				if !o.setupError || o.actualFailure == nil {
					add("no-result-not-setup-error", "client never produced a result for %q but outcome is setup=%v failure=%v", n, o.setupError, o.actualFailure)
				}
			}
		default:
			// never reached the client: server died first or the client pipe broke
			if !o.setupError || o.actualFailure == nil {
				add("unsent-case-not-setup-error", "case %q never reached the client (refused=%v) but outcome is setup=%v failure=%v", n, refused[n], o.setupError, o.actualFailure)
			}
		}
	}
	// producing the report (which merges peer feedback into the outcomes) must not turn a
	// setup error into an ordinary verdict
	for _, n := range obs.Names {
		before, ok1 := obs.Outcomes[n]
		after, ok2 := obs.AfterReport[n]
		if ok1 && ok2 && before.setupError && before.actualFailure != nil && (!after.setupError || after.actualFailure == nil) {
			add("setup-error-lost-in-report", "case %q was recorded as a setup error (%v) but after the report it is setup=%v failure=%v", n, before.actualFailure, after.setupError, after.actualFailure)
		}
	}
	// with a usable server that stays up and a client that accepts everything, every case of
	// the batch must actually be handed to the client
	if !broken && sc.Resp == "ok" && sc.ExitAfter < 0 && sc.SendErrAt < 0 {
		for _, n := range obs.Names {
			if _, ok := sentIdx[n]; !ok {
				add("case-not-sent-although-peers-healthy", "case %q was never handed to the client although the server answered and stayed up and the client accepted everything (outcome: %+v)", n, obs.Outcomes[n])
			}
		}
	}
	// what the runner adds to a request must reach both forms of it: the ordinary request
	// headers and, where the case carries a raw request, the raw request's headers
	for _, r := range obs.Sent {
		want := map[string]string{"x-test-case-name": r.TestName}
		if sc.RefServer {
			want["x-expect-http-version"], want["x-expect-protocol"], want["x-expect-codec"], want["x-expect-compression"] = "", "", "", ""
			want["x-expect-http-method"], want["x-expect-tls"] = "", ""
			if sc.ClientCerts {
				want["x-expect-client-cert"] = ""
			}
		}
		check := func(what string, hdrs []*conformancev1.Header) {
			have := map[string][]string{}
			for _, h := range hdrs {
				have[strings.ToLower(h.Name)] = append(have[strings.ToLower(h.Name)], h.Value...)
			}
			for name, val := range want {
				vs := have[name]
				if len(vs) != 1 || (val != "" && vs[0] != val) {
					add("runner-header-missing:"+what+":"+name, "request for %q: %s lack the runner's header %s (have %v)", r.TestName, what, name, vs)
				}
			}
		}
		check("request headers", r.RequestHeaders)
		if r.RawRequest != nil {
			check("raw request headers", r.RawRequest.Headers)
			if sc.RefServer {
				a, b := map[string]string{}, map[string]string{}
				for _, h := range r.RequestHeaders {
					if strings.HasPrefix(strings.ToLower(h.Name), "x-expect-") {
						a[strings.ToLower(h.Name)] = strings.Join(h.Value, ",")
					}
				}
				for _, h := range r.RawRequest.Headers {
					if strings.HasPrefix(strings.ToLower(h.Name), "x-expect-") {
						b[strings.ToLower(h.Name)] = strings.Join(h.Value, ",")
					}
				}
				if fmt.Sprint(a) != fmt.Sprint(b) {
					add("raw-request-expectations-differ", "request for %q: expectation headers %v, raw request carries %v", r.TestName, a, b)
				}
			}
		}
	}
	for _, n := range obs.SentDead {
		add("sent-after-server-death", "case %q was handed to the client although the server process had already exited; it must be recorded as a setup error instead", n)
	}
	if obs.Started && obs.Aborted == 0 {
		add("server-not-stopped", "the server process was started but never asked to stop")
	}
	if obs.Started && !obs.Exited {
		add("server-left-running", "batch returned while the server process is still running")
	}
	// stderr attribution (reference server only, and only if the server got as far as running)
	if sc.RefServer && !sc.StartErr && len(obs.Stderr) > 0 && obs.Exited {
		all := obs.Stderr
		inBatch := map[string]bool{}
		for _, n := range obs.Names {
			inBatch[n] = true
		}
		wantSide := map[string][]string{}
		var wantPass []string
		for _, line := range strings.Split(all, "\n") {
			str := strings.TrimSpace(line)
			if str == "" {
				continue
			}
			if i := strings.Index(str, ": "); i > 0 && inBatch[str[:i]] {
				wantSide[str[:i]] = append(wantSide[str[:i]], str[i+2:])
				continue
			}
			wantPass = append(wantPass, str)
		}
		printed := strings.Join(obs.ErrLines, "\n")
		for _, l := range wantPass {
			if !strings.Contains(printed, l) {
				add("stderr-line-swallowed", "stderr line %q of the reference server was neither attributed nor passed through (printed: %q)", l, obs.ErrLines)
			}
		}
		rep := strings.Join(obs.Report, "\n")
		for n, msgs := range wantSide {
			found := false
			for _, m := range msgs {
				if strings.Contains(rep, m) {
					found = true
				}
				// a case that could not be run is not listed in the printed report; its
				// feedback is attributed if it is part of that case's recorded failure
				if o, ok := obs.AfterReport[n]; ok && o.actualFailure != nil && strings.Contains(o.actualFailure.Error(), m) {
					found = true
				}
			}
			if !found {
				add("feedback-not-attributed", "feedback %q for case %q does not show up in that case's reported failure:\n%s", msgs, n, rep)
			}
			for _, m := range msgs {
				if strings.Contains(printed, n+": "+m) {
					add("feedback-also-passed-through", "feedback line for %q was printed as ordinary stderr output", n)
				}
			}
		}
	}
	return out
}

func c11Outcome(sc c11Scenario, obs *c11Obs) string {
	var parts []string
	for _, n := range obs.Names {
		o, ok := obs.Outcomes[n]
		switch {
		case !ok:
			parts = append(parts, n+"=none")
		case o.actualFailure == nil:
			parts = append(parts, n+"=pass")
		default:
			var nr *couldNotRunError
			kind := "fail"
			if o.setupError {
				kind = "setup"
			}
			if errors.As(o.actualFailure, &nr) {
				kind += "(norun)"
			}
			parts = append(parts, n+"="+kind)
		}
	}
	return fmt.Sprintf("resp=%s|ret=%v|%s|sent=%d|ab=%d|rep=%v", sc.Resp, obs.Returned, strings.Join(parts, ","), len(obs.Sent), obs.Aborted, obs.ReportOK)
}

func c11AnswerTuples(n int, kinds []string) [][]string {
	if n == 0 {
		return [][]string{{}}
	}
	var out [][]string
	for _, rest := range c11AnswerTuples(n-1, kinds) {
		for _, k := range kinds {
			out = append(out, append(append([]string{}, rest...), k))
		}
	}
	return out
}

func c11Scenarios(thorough bool) []c11Scenario {
	var out []c11Scenario
	maxN := 3
	if thorough {
		maxN = 4
	}
	base := func(n int) c11Scenario {
		return c11Scenario{N: n, StdinErr: "none", Resp: "ok", ExitAfter: -1, SendErrAt: -1}
	}
	kinds := []string{"pass", "mismatch", "clienterr", "clienterr-blank", "empty", "noresult"}
	for n := 1; n <= maxN; n++ {
		// server faults before any case can run
		for _, tls := range []bool{false, true} {
			s := base(n)
			s.TLS = tls
			s.StartErr = true
			out = append(out, s)
			for _, se := range []string{"write", "close"} {
				s := base(n)
				s.TLS, s.StdinErr = tls, se
				out = append(out, s)
			}
			resps := []string{"nocert", "oversize", "zero", "garbage", "never", "eof", "garbage-high", "oversize-max"}
			if n == 1 {
				resps = append(resps, "oversize-valid")
			}
			full := len(frame(&conformancev1.ServerCompatResponse{Host: "127.0.0.1", Port: 4242}))
			for k := 1; k < full; k++ {
				if thorough || k <= 5 || k == full-1 {
					resps = append(resps, fmt.Sprintf("cut%d", k))
				}
			}
			for _, rs := range resps {
				s := base(n)
				s.TLS, s.Resp = tls, rs
				out = append(out, s)
			}
		}
		// answers: all tuples, async and sync
		for _, ans := range c11AnswerTuples(n, kinds) {
			for _, sync := range []bool{false, true} {
				s := base(n)
				s.Answers, s.Sync = ans, sync
				out = append(out, s)
			}
		}
		// server dies after k of n requests, x answer kinds of a reduced set
		for k := 0; k <= n; k++ {
			for _, ans := range c11AnswerTuples(n, []string{"pass", "mismatch", "noresult"}) {
				s := base(n)
				s.ExitAfter, s.Answers = k, ans
				out = append(out, s)
				s.Sync = true // callbacks inside sendRequest: the runner is parked there when the server dies
				out = append(out, s)
			}
		}
		// server answers and is gone immediately (before the first request can be sent)
		for _, tls := range []bool{false, true} {
			for _, sync := range []bool{false, true} {
				s := base(n)
				s.TLS, s.Resp, s.Sync = tls, "ok-exit", sync
				out = append(out, s)
			}
		}
		// client pipe closes at the k-th send
		for k := 0; k < n; k++ {
			for _, ans := range c11AnswerTuples(n, []string{"pass", "mismatch"}) {
				s := base(n)
				s.SendErrAt, s.Answers = k, ans
				out = append(out, s)
				if thorough {
					for e := 0; e <= n; e++ {
						s2 := s
						s2.ExitAfter = e
						out = append(out, s2)
					}
				}
			}
		}
		// reference server stderr scripts
		scripts := [][]string{
			{"s/c0: bad header\n"},
			{"s/c0: bad ", "header\nnoise line\n"},
			{"other/case: not mine\n", "\n", "   \n"},
			{"no colon here\ns/c0: tail without newline"},
			{"s/c0:nospace\n", "s/c9: unknown case\n"},
			{"panic: something: with: colons\n"},
			{"s/c0: invalid value for \"x\" header: \"y\": bad\n"},
			{"s/c0: first: a\ns/c0: second\n"},
		}
		for _, st := range scripts {
			for _, ans := range [][]string{nil, {"mismatch"}} {
				s := base(n)
				s.RefServer, s.Stderr, s.Answers = true, st, ans
				out = append(out, s)
				if n >= 2 && ans == nil {
					for _, o := range []string{"rev", "rot"} {
						s.Order = o
						out = append(out, s)
					}
				}
			}
		}
		// feedback for every case of a batch that is not in name order
		if n >= 2 {
			for _, o := range []string{"rev", "rot"} {
				s := base(n)
				s.RefServer, s.Order = true, o
				for i := 0; i < n; i++ {
					s.Stderr = append(s.Stderr, fmt.Sprintf("s/c%d: feedback %d\n", i, i))
				}
				out = append(out, s)
			}
		}
		// the runner's own stderr is slow: feedback queued behind other output must still be collected
		for _, st := range [][]string{{"noise line\n", "s/c0: late feedback\n"}, {"noise 1\nnoise 2\ns/c0: late feedback\n"}, {"other/case: not mine\n", "s/c0: late feedback\n"}} {
			for _, slow := range []int{4, 30} {
				s := base(n)
				s.RefServer, s.Stderr, s.SlowErr = true, st, slow
				out = append(out, s)
			}
		}
		// reference server feedback about a case that ends up as a setup error
		for k := 0; k <= n; k++ {
			s := base(n)
			s.RefServer, s.ExitAfter = true, k
			s.Stderr = []string{fmt.Sprintf("s/c%d: feedback for a case that may not run\n", n-1)}
			out = append(out, s)
		}
		for k := 0; k < n; k++ {
			s := base(n)
			s.RefServer, s.SendErrAt = true, k
			s.Stderr = []string{fmt.Sprintf("s/c%d: feedback for a case that may not run\n", n-1)}
			out = append(out, s)
			s.Answers = []string{"noresult", "noresult", "noresult", "noresult"}[:n]
			s.SendErrAt = -1
			out = append(out, s)
		}
		// a reference server that logs before it answers (and blocks on that, as on a pipe)
		for _, st := range [][]string{{"starting up\n"}, {"s/c0: early feedback\n", "more\n"}} {
			s := base(n)
			s.RefServer, s.Stderr, s.StderrFirst = true, st, true
			out = append(out, s)
		}
		// raw requests and client certificates: what the runner adds must reach both header lists
		for _, ref := range []bool{false, true} {
			for _, certs := range []bool{false, true} {
				s := base(n)
				s.RefServer, s.RawReq, s.ClientCerts, s.TLS = ref, true, certs, certs
				out = append(out, s)
				s.RawReq = false
				out = append(out, s)
			}
		}
		// reference client feedback
		for _, a := range []string{"pass+fb", "mismatch+fb"} {
			s := base(n)
			s.RefClient = true
			s.Answers = []string{a}
			out = append(out, s)
		}
	}
	return out
}

func TestVerifC11(t *testing.T) {
	r := rep.New("c11-gate")
	defer r.Write()
	r.Rule = "scenario = batch size x server fault (start, stdin, response kind incl. every cut offset, exit after k requests) x client fault (send error at k) x answer kinds per position x sync/async callbacks x stderr script; every scenario explored by DFS over all gate choices up to the preemption bound; non-trivial = distinct (scenario, choice list)"
	bound := 2
	if rep.Thorough() {
		bound = 3
	}
	scs := c11Scenarios(rep.Thorough())
	gateExplore(t, r, scs, bound, func(sc c11Scenario, prefix []int, expect []gate.PointRec) gateRun {
		x, obs, leak := c11RunOne(t, sc, prefix, expect)
		return gateRun{x: x, outcome: c11Outcome(sc, obs), verdicts: c11Judge(sc, obs, x), leak: leak}
	})
}

var _ = bytes.NewReader
var _ = internal.DefaultHost

// TestVerifC09CallSites is C09's view of the runner's use of the framing code: the limits,
// timeouts and truncation handling it passes to ReadDelimitedMessage for server responses
// (every cut offset, oversize prefixes incl. a complete message one byte over the limit, empty,
// garbage, never, exit) must turn into setup errors for the whole batch.
func TestVerifC09CallSites(t *testing.T) {
	r := rep.New("c09-callsites")
	defer r.Write()
	r.Rule = "server-response framing scenarios of the batch runner (cut at every byte, oversize prefix, complete message of limit+1 bytes, zero-length, garbage, never, exit) through the real runTestCasesForServer; all orders of peer events; non-trivial = distinct (scenario, choice list)"
	var scs []c11Scenario
	for _, sc := range c11Scenarios(true) {
		if sc.N > 2 || sc.Resp == "ok" || sc.Resp == "nocert" || sc.StartErr || sc.StdinErr != "none" {
			continue
		}
		scs = append(scs, sc)
	}
	gateExplore(t, r, scs, 1, func(sc c11Scenario, prefix []int, expect []gate.PointRec) gateRun {
		x, obs, leak := c11RunOne(t, sc, prefix, expect)
		return gateRun{x: x, outcome: c11Outcome(sc, obs), verdicts: c11Judge(sc, obs, x), leak: leak}
	})
}

// TestVerifC12RunnerHeaders is C12's view of the runner's side of the contract: the
// expectation headers the reference server checks against are attached by
// runTestCasesForServer, to the ordinary request headers and to a raw request's headers alike.
func TestVerifC12RunnerHeaders(t *testing.T) {
	r := rep.New("c12-runner-headers")
	defer r.Write()
	r.Rule = "batches of 1-3 cases with and without a raw HTTP request, with and without client certificates, against a reference and a non-reference server, through the real runTestCasesForServer; every request handed to the client must carry the test name and (reference server) every x-expect-* header in both header lists; all orders of peer events; non-trivial = distinct (scenario, choice list)"
	var scs []c11Scenario
	for _, sc := range c11Scenarios(true) {
		if sc.N <= 3 && (sc.RawReq || sc.ClientCerts) {
			scs = append(scs, sc)
		}
	}
	gateExplore(t, r, scs, 1, func(sc c11Scenario, prefix []int, expect []gate.PointRec) gateRun {
		x, obs, leak := c11RunOne(t, sc, prefix, expect)
		var vs []gateVerdict
		for _, v := range c11Judge(sc, obs, x) {
			if strings.HasPrefix(v.key, "runner-header-missing") || v.key == "raw-request-expectations-differ" {
				vs = append(vs, v)
			}
		}
		return gateRun{x: x, outcome: c11Outcome(sc, obs), verdicts: vs, leak: leak}
	})
}
