package connectconformance

// C02 (a'), in-process: the generated suites (written by checks.d/C02.py into the
// work directory) run through the real run() with no commands given, i.e. with
// both reference peers in reference mode in this process (plus the gRPC peers).
// Only in this mode do the reference client's wire checks and the reference
// server's request checks report feedback, which the runner turns into failures.

import (
	"connectrpc.com/conformance/internal"
	"fmt"
	"os"
	"path/filepath"
	"regexp"
	"sort"
	"strings"
	"testing"

	"connectrpc.com/conformance/internal/verif/rep"
)

var c02AxisRe = regexp.MustCompile(`^(HTTPVersion|Protocol|Codec|Compression|TLS):`)
var c02FamilyRe = regexp.MustCompile(`bidi-full/n(\d)/r(\d)-(noerr|err)`)

func c02ShapeOf(name string) string {
	var keep []string
	for _, p := range strings.Split(name, "/") {
		if c02AxisRe.MatchString(p) || strings.HasPrefix(p, "Gen ") {
			continue
		}
		keep = append(keep, p)
	}
	shape := strings.Join(keep, "/")
	if m := c02FamilyRe.FindStringSubmatch(shape); m != nil && m[2] < m[1] {
		peer := "reference-peers"
		switch {
		case strings.Contains(shape, "(grpc impls)"):
			peer = "grpc-peers"
		case strings.Contains(shape, "(grpc server impl)"):
			peer = "grpc-server"
		case strings.Contains(shape, "(grpc client impl)"):
			peer = "grpc-client"
		}
		return fmt.Sprintf("bidi-full:fewer-responses-than-requests:%s:%s", m[3], peer)
	}
	return shape
}

func TestVerifC02InProcess(t *testing.T) {
	r := rep.New("c02-inprocess")
	defer r.Write()
	r.Rule = "the generated test-case shapes (same grammar as c02-agreement) run through run() in-process with both reference peers in reference mode and both gRPC peers; one evaluation = one permutation; non-trivial = distinct permutation name"
	level := "quick"
	if rep.Thorough() {
		level = "mini"
	}
	work := os.Getenv("VERIF_WORKDIR")
	files, _ := filepath.Glob(filepath.Join(work, level+"-suites", "*.yaml"))
	if len(files) == 0 {
		t.Fatalf("no generated suites under %s/%s-suites (the c02-agreement unit writes them)", work, level)
	}
	data := map[string][]byte{}
	for _, f := range files {
		b, err := os.ReadFile(f)
		if err != nil {
			t.Fatal(err)
		}
		data[f] = b
	}
	suites, err := parseTestSuites(data)
	if err != nil {
		r.Violate("suite-rejected", "generated suites are rejected: "+err.Error(), map[string]any{"level": level})
		return
	}
	confPath := filepath.Join(work, "c02-config-"+level+".yaml")
	confData, err := os.ReadFile(confPath)
	if err != nil {
		t.Fatal(err)
	}
	configCases, err := parseConfig(confPath, confData)
	if err != nil {
		t.Fatal(err)
	}
	logP, errP := &c02Printer{}, &c02Printer{}
	results, runErr := run(configCases, &testTrie{}, &testTrie{}, nil, nil, suites, logP, errP, &Flags{MaxServers: 4, Parallelism: 8, ServerBind: internal.DefaultHost}) // the bind address is the command line's default
	if results == nil {
		r.Violate("run-refused", fmt.Sprintf("run() returned no results: %v", runErr), map[string]any{"level": level})
		return
	}
	rp := &c02Printer{}
	results.report(rp)
	text := strings.Join(rp.lines, "\n")
	r.Eval(int64(len(results.outcomes)))
	for range results.outcomes {
		r.NonTrivial("")
	}
	byShape := map[string][]string{}
	detail := map[string]string{}
	for name, o := range results.outcomes {
		if o.actualFailure == nil {
			r.Outcome("pass")
			continue
		}
		r.Outcome("fail")
		sh := c02ShapeOf(name)
		byShape[sh] = append(byShape[sh], name)
		if _, ok := detail[sh]; !ok {
			detail[sh] = o.actualFailure.Error()
		}
	}
	shapes := make([]string, 0, len(byShape))
	for sh := range byShape {
		shapes = append(shapes, sh)
	}
	sort.Strings(shapes)
	for i, sh := range shapes {
		if i >= 25 {
			r.Note("%d further failing shapes not listed", len(shapes)-25)
			break
		}
		names := byShape[sh]
		sort.Strings(names)
		d := detail[sh]
		if len(d) > 1500 {
			d = d[:1500]
		}
		r.Violate("disagreement:inprocess:"+sh, fmt.Sprintf("%d permutation(s) of shape %s fail in-process (reference mode), e.g. %s:\n%s", len(names), sh, names[0], d),
			map[string]any{"level": level, "test": names[0], "shape": sh})
	}
	if runErr != nil {
		r.Violate("run-error", "run() returned an error: "+runErr.Error(), map[string]any{"level": level})
	}
	r.Sample(map[string]any{"level": level, "suites": len(suites), "config_cases": len(configCases), "permutations": len(results.outcomes)})
	_ = text
}

type c02Printer struct{ lines []string }

func (p *c02Printer) Printf(msg string, args ...any) {
	p.lines = append(p.lines, fmt.Sprintf(msg, args...))
}
func (p *c02Printer) PrefixPrintf(prefix, msg string, args ...any) {
	p.lines = append(p.lines, prefix+": "+fmt.Sprintf(msg, args...))
}
