package connectconformance

// C11 (in-process servers) — the real runInProcess / makeProcess / localProcess
// path, which the PEERSIM hook replaces in the other units: a batch is run by the
// real runTestCasesForServer against a server that is a scripted Go function
// started through runInProcess (as the reference server and the gRPC server are
// in client mode), inside a synctest bubble so that the runner's timeouts are
// virtual. The scripts are enumerated completely; the schedule is the default
// one (the GATE units explore the interleavings of the same runner code).

import (
	"context"
	"sync"
	"errors"
	"fmt"
	"io"
	"sort"
	"strings"
	"testing"
	"testing/synctest"
	"time"

	"connectrpc.com/conformance/internal"
	conformancev1 "connectrpc.com/conformance/internal/gen/proto/go/connectrpc/conformance/v1"
	"connectrpc.com/conformance/internal/verif/rep"
)

type c11InprocScenario struct {
	N       int      `json:"n"`
	Read    string   `json:"read"`  // all | one | none: how the server takes its start-up request
	Early   []string `json:"early"` // stderr lines before it answers
	Resp    string   `json:"resp"`  // ok | garbage | none
	Late    []string `json:"late"`  // stderr lines after it answered (feedback or other output)
	End     string   `json:"end"`   // wait-nil | wait-err | err-now | err-after-cases | nil-now
	RefSrv  bool     `json:"ref_server"`
	Answers string   `json:"answers"` // pass | mismatch
	// LongLine: a stderr line of this many bytes (other output) is written before the late lines
	LongLine int `json:"long_line,omitempty"`
	// PctNames: the case names contain per-cent signs and the server emits its feedback the way the
	// reference server does, through internal.NewPrinter(stderr).PrefixPrintf(name, ...)
	PctNames bool `json:"pct_names,omitempty"`
}

var errC11Impl = errors.New("listen tcp 127.0.0.1:8080: bind: address already in use")

func c11InprocScenarios(thorough bool) []c11InprocScenario {
	var out []c11InprocScenario
	ns := []int{1, 3}
	for _, n := range ns {
		for _, rd := range []string{"all", "one"} {
			for _, early := range [][]string{nil, {"starting up\n"}} {
				for _, resp := range []string{"ok", "garbage", "none"} {
					for _, late := range [][]string{nil, {"s/c0: server feedback\n"}, {"some log line\n", "s/c0: server feedback\n"}} {
						for _, end := range []string{"wait-nil", "wait-err", "err-now", "err-after-cases", "nil-now"} {
							for _, ref := range []bool{true, false} {
								if !ref && (early != nil || late != nil) {
									continue // stderr of other servers is not piped
								}
								if resp != "ok" && (late != nil || end == "err-after-cases") {
									continue
								}
								if !thorough && n == 3 && rd == "one" {
									continue
								}
								out = append(out, c11InprocScenario{N: n, Read: rd, Early: early, Resp: resp, Late: late, End: end, RefSrv: ref, Answers: "pass"})
							}
						}
					}
				}
			}
		}
	}
	// long stderr lines (a feedback line behind one must still arrive and the server must still be stoppable)
	for _, size := range []int{4095, 65535, 65536, 70000, 1 << 20} {
		for _, end := range []string{"wait-nil", "err-after-cases"} {
			out = append(out, c11InprocScenario{N: 2, Read: "all", Resp: "ok", Late: []string{"s/c0: server feedback\n"}, End: end, RefSrv: true, Answers: "pass", LongLine: size})
		}
	}
	// names with per-cent signs, feedback through the real printer
	for _, n := range []int{1, 3} {
		out = append(out, c11InprocScenario{N: n, Read: "all", Resp: "ok", Late: []string{"s/c0: server feedback\n"}, End: "wait-nil", RefSrv: true, Answers: "pass", PctNames: true})
		out = append(out, c11InprocScenario{N: n, Read: "all", Resp: "ok", Late: []string{"other output 100%\n", "s/c0: server feedback: 50% done\n"}, End: "wait-err", RefSrv: true, Answers: "pass", PctNames: true})
	}
	return out
}

// c11InprocName maps the script's case names to the names used in the batch.
func c11InprocName(sc c11InprocScenario, n string) string {
	if !sc.PctNames {
		return n
	}
	switch n {
	case "s/c0":
		return "s/100%/c0"
	case "s/c1":
		return "s/%d %s/c1"
	case "s/c2":
		return "s/%!v(MISSING)/%/c2"
	}
	return n
}

type c11InprocObs struct {
	returned  bool
	outcomes  map[string]testOutcome
	errLines  []string
	report    []string
	reportOK  bool
	implErr   error
	implDone  bool
	casesSeen int
}

func c11InprocRun(t *testing.T, sc c11InprocScenario) (obs *c11InprocObs, leak string) {
	defer func() {
		if r := recover(); r != nil {
			leak = fmt.Sprint(r)
		}
	}()
	obs = &c11InprocObs{}
	synctest.Test(t, func(t *testing.T) {
		ctx, cancel := context.WithCancel(context.Background())
		defer cancel()
		casesDone := make(chan struct{})
		impl := func(ctx context.Context, _ []string, in io.ReadCloser, out, errw io.WriteCloser) error {
			defer func() { obs.implDone = true }()
			switch sc.Read {
			case "all":
				_, _ = io.ReadAll(in)
			case "one":
				req := &conformancev1.ServerCompatRequest{}
				if err := internal.ReadDelimitedMessage(in, req, "runner", time.Hour, 1<<24); err != nil {
					return err
				}
			}
			for _, l := range sc.Early {
				_, _ = io.WriteString(errw, l)
			}
			if sc.End == "err-now" && sc.Resp == "none" {
				obs.implErr = errC11Impl
				return errC11Impl
			}
			switch sc.Resp {
			case "ok":
				_ = internal.WriteDelimitedMessage(out, &conformancev1.ServerCompatResponse{Host: "127.0.0.1", Port: 4242})
			case "garbage":
				_, _ = out.Write([]byte{0, 0, 0, 3, 0xff, 0xff, 0xff})
			}
			if sc.LongLine > 0 {
				_, _ = io.WriteString(errw, strings.Repeat("x", sc.LongLine-1)+"\n")
			}
			for _, l := range sc.Late {
				if i := strings.Index(l, ": "); sc.PctNames && strings.HasPrefix(l, "s/c") && i > 0 {
					internal.NewPrinter(errw).PrefixPrintf(c11InprocName(sc, l[:i]), "%s", strings.TrimSuffix(l[i+2:], "\n"))
					continue
				}
				_, _ = io.WriteString(errw, l)
			}
			switch sc.End {
			case "err-now":
				obs.implErr = errC11Impl
				return errC11Impl
			case "nil-now":
				return nil
			case "err-after-cases":
				select {
				case <-casesDone:
				case <-ctx.Done():
				}
				obs.implErr = errC11Impl
				return errC11Impl
			case "wait-err":
				<-ctx.Done()
				obs.implErr = errC11Impl
				return errC11Impl
			}
			<-ctx.Done()
			return nil
		}
		argv := []string{"scripted-in-process-server"}
		cases := c11Cases(c11Scenario{N: sc.N})
		for _, tc := range cases {
			tc.Request.TestName = c11InprocName(sc, tc.Request.TestName)
		}
		results := newResults(len(cases), &testTrie{}, &testTrie{}, nil)
		dummy := &c11Server{outNotify: make(chan struct{}), errNotify: make(chan struct{}), done: make(chan struct{})}
		cl := &c11Client{sc: c11Scenario{N: sc.N, Sync: true, SendErrAt: -1}, answers: map[string]string{}, srv: dummy}
		var closed bool
		clWrap := &c11CountingClient{c11Client: cl, after: func(n int) {
			if n == sc.N && !closed {
				closed = true
				close(casesDone)
			}
		}}
		logP := &c11Printer{}
		errBuf := &c11LockedBuffer{}
		errP := internal.NewPrinter(errBuf)
		done := make(chan struct{})
		go func() {
			defer close(done)
			runTestCasesForServer(ctx, false, sc.RefSrv,
				serverInstance{protocol: conformancev1.Protocol_PROTOCOL_CONNECT, httpVersion: conformancev1.HTTPVersion_HTTP_VERSION_1},
				cases, nil, nil, runInProcess(argv, impl), logP, errP, results, clWrap, nil, false)
			rp := &c11Printer{}
			obs.reportOK = results.report(rp)
			obs.report = rp.lines
			obs.returned = true
		}()
		// the runner's own limits (10 s for the server's answer, 5 s to stop) are virtual here
		select {
		case <-done:
		case <-time.After(10 * time.Minute):
		}
		if !closed {
			closed = true
			close(casesDone)
		}
		cancel()
		synctest.Wait()
		obs.outcomes = map[string]testOutcome{}
		for k, v := range results.outcomes {
			obs.outcomes[k] = v
		}
		obs.errLines = strings.Split(strings.TrimSuffix(errBuf.String(), "\n"), "\n")
		obs.casesSeen = clWrap.n
	})
	return
}

type c11LockedBuffer struct {
	mu sync.Mutex
	b  strings.Builder
}

func (l *c11LockedBuffer) Write(p []byte) (int, error) {
	l.mu.Lock()
	defer l.mu.Unlock()
	return l.b.Write(p)
}

func (l *c11LockedBuffer) String() string {
	l.mu.Lock()
	defer l.mu.Unlock()
	return l.b.String()
}

type c11CountingClient struct {
	*c11Client
	n     int
	after func(int)
}

func (c *c11CountingClient) sendRequest(req *conformancev1.ClientCompatRequest, whenDone func(string, *conformancev1.ClientCompatResponse, error)) error {
	err := c.c11Client.sendRequest(req, whenDone)
	c.n++
	c.after(c.n)
	return err
}

func c11InprocJudge(sc c11InprocScenario, obs *c11InprocObs, leak string) (verdicts []gateVerdict, outcome string) {
	add := func(key, format string, a ...any) {
		verdicts = append(verdicts, gateVerdict{key, fmt.Sprintf(format, a...)})
	}
	if leak != "" {
		add("inproc-panic", "%s", leak)
		return verdicts, "panic"
	}
	if !obs.returned {
		add("batch-never-returns", "runTestCasesForServer did not return within ten (virtual) minutes")
		return verdicts, "hang"
	}
	names := make([]string, 0, sc.N)
	for i := 0; i < sc.N; i++ {
		names = append(names, c11InprocName(sc, fmt.Sprintf("s/c%d", i)))
	}
	if !obs.implDone {
		add("server-not-stopped", "the in-process server function was still running (blocked) after the batch had returned and everything else was quiet")
	}
	if sc.LongLine > 0 && sc.RefSrv && !strings.Contains(strings.Join(obs.errLines, "\n"), strings.Repeat("x", sc.LongLine-1)) {
		add("stderr-line-swallowed", "a stderr line of %d bytes of the in-process reference server was not passed through in full", sc.LongLine)
	}
	usable := sc.Resp == "ok"
	setup, ran := 0, 0
	for _, n := range names {
		o, ok := obs.outcomes[n]
		switch {
		case !ok:
			add("outcome-missing", "case %q has no outcome after the batch returned", n)
		case o.setupError:
			setup++
			if usable && sc.End != "err-now" && sc.End != "nil-now" {
				add("setup-error-although-server-usable", "case %q recorded as set-up error although the in-process server answered and stayed: %v", n, o.actualFailure)
			}
		default:
			ran++
			if !usable {
				add("case-ran-without-server", "case %q has a verdict although the server never became usable", n)
			}
		}
	}
	printed := strings.Join(obs.errLines, "\n")
	rep := strings.Join(obs.report, "\n")
	if sc.RefSrv {
		// other stderr output is passed through; that includes the reason an in-process server gives up with
		for _, l := range append(append([]string{}, sc.Early...), sc.Late...) {
			l = strings.TrimSpace(l)
			if strings.HasPrefix(l, "s/c") {
				continue
			}
			if !strings.Contains(printed, l) {
				add("stderr-line-swallowed", "stderr line %q of the in-process reference server was not passed through (printed: %q)", l, obs.errLines)
			}
		}
		if obs.implErr != nil && !strings.Contains(printed, obs.implErr.Error()) {
			add("server-exit-reason-swallowed", "the in-process reference server gave up with %q; that text never reached the runner's stderr (printed: %q)", obs.implErr, obs.errLines)
		}
		for _, l := range sc.Late {
			l = strings.TrimSpace(l)
			if !strings.HasPrefix(l, "s/c0: ") {
				continue
			}
			msg := strings.TrimPrefix(l, "s/c0: ")
			o := obs.outcomes[c11InprocName(sc, "s/c0")]
			if !strings.Contains(rep, msg) && !(o.actualFailure != nil && strings.Contains(o.actualFailure.Error(), msg)) {
				add("feedback-not-attributed", "feedback %q for s/c0 does not show up in that case's reported failure:\n%s", msg, rep)
			}
			if strings.Contains(printed, c11InprocName(sc, "s/c0")+": "+msg) {
				add("feedback-also-passed-through", "feedback line %q was printed as ordinary stderr output", l)
			}
		}
	}
	var keys []string
	for k, o := range obs.outcomes {
		keys = append(keys, fmt.Sprintf("%s=%v/%v", k, o.setupError, o.actualFailure != nil))
	}
	sort.Strings(keys)
	outcome = fmt.Sprintf("ran=%d setup=%d ok=%v implerr=%v", ran, setup, obs.reportOK, obs.implErr != nil)
	return verdicts, outcome
}

func TestVerifC11InProcess(t *testing.T) {
	r := rep.New("c11-inproc")
	defer r.Write()
	r.Rule = "the real runTestCasesForServer against a scripted server function started through the real runInProcess: batch size x how it takes its start-up request (to EOF / one message) x stderr output before answering x answer (ok, garbage, none) x stderr after answering (feedback alone or behind other output) x how it ends (stays until stopped then nil or an error, gives up at once with an error or nil, gives up with an error after the cases) x reference server or not; default schedule, virtual time; oracle: the batch returns, every case has one outcome (set-up error iff the server never became usable or left), stderr lines and the server's exit reason are passed through, feedback is attributed"
	var k int64
	if data := rep.ReplayInput(); data != nil {
		sc, _ := osReplayScenario[c11InprocScenario](r, t)
		obs, leak := c11InprocRun(t, sc)
		verdicts, outcome := c11InprocJudge(sc, obs, leak)
		fmt.Printf("replay: scenario=%+v\noutcome=%s\nerr lines=%q\nreport=%q\n", sc, outcome, obs.errLines, obs.report)
		for _, v := range verdicts {
			r.Violate(v.key, v.detail, map[string]any{"scenario": sc})
			fmt.Printf("VERDICT %s: %s\n", v.key, v.detail)
		}
		r.Eval(1)
		return
	}
	for _, sc := range c11InprocScenarios(rep.Thorough()) {
		k++
		if !r.Mine(k) {
			continue
		}
		obs, leak := c11InprocRun(t, sc)
		verdicts, outcome := c11InprocJudge(sc, obs, leak)
		r.Eval(1)
		r.NonTrivial("")
		r.Outcome(outcome)
		for _, v := range verdicts {
			r.Violate(v.key, v.detail+fmt.Sprintf(" | scenario=%+v", sc), map[string]any{"scenario": sc})
		}
		if k%40 == 1 {
			r.Sample(sc)
		}
	}
	if len(r.Samples) == 0 {
		r.Sample("no scenario in this shard")
	}
}
