package connectconformance

// C06 — config expansion equals the declarative feature/include/exclude
// specification. Bounded-exhaustive ENUM harness for parseConfig (config.go).
//
// The reference model ("Spec") below is written from
//   - proto/connectrpc/conformance/v1/config.proto (field comments),
//   - docs/configuring_and_running_tests.md ("Features", "Config Cases"),
//   - the property statement,
// as plain set algebra over the finite universe of config cases; it shares no
// code and no loop structure with config.go.
//
// There is no function in config.go that takes a *conformancev1.Config:
// parseConfig unmarshals and expands in one go. Therefore every configuration
// is built as a conformancev1.Config Go struct, serialised with protojson and
// handed to parseConfig; a sub-family is additionally handed over as
// hand-written block-style YAML with the proto field names (the form real
// configuration files have), and the all-default configuration also as empty
// input.

import (
	"encoding/json"
	"fmt"
	"math/bits"
	"os"
	"sort"
	"strings"
	"testing"
	"time"

	conformancev1 "connectrpc.com/conformance/internal/gen/proto/go/connectrpc/conformance/v1"
	"connectrpc.com/conformance/internal/verif/rep"
	"google.golang.org/protobuf/encoding/protojson"
	"google.golang.org/protobuf/proto"
)

// ---------------------------------------------------------------------------
// Universe of config cases
// ---------------------------------------------------------------------------

// c06Case is one cell of the table the docs talk about. Field values are the
// enum numbers of config.proto (Version 1..3, Protocol 1..3 = Connect, gRPC,
// gRPC-Web, Codec 1..2 = proto, json, Compression 1..6, StreamType 1..5 =
// unary, client, server, half-duplex, full-duplex). CODEC_TEXT is "not used;
// will be ignored" and therefore not part of any case.
type c06Case struct {
	V, P, Cd, Cm, S        int
	TLS, Certs, Get, Limit bool
}

const (
	c06N     = 3 * 3 * 2 * 6 * 5 * 2 * 2 * 2 * 2 // 8640
	c06Words = c06N / 64                         // 135, exact
)

const (
	c06Connect = 1
	c06GRPC    = 2
	c06GRPCWeb = 3
	c06Half    = 4
	c06Full    = 5
	c06Text    = 3
)

type c06Set [c06Words]uint64

var c06Universe [c06N]c06Case

func c06b(b bool) int {
	if b {
		return 1
	}
	return 0
}

func c06Index(c c06Case) int {
	i := c.V - 1
	i = i*3 + (c.P - 1)
	i = i*2 + (c.Cd - 1)
	i = i*6 + (c.Cm - 1)
	i = i*5 + (c.S - 1)
	i = i*2 + c06b(c.TLS)
	i = i*2 + c06b(c.Certs)
	i = i*2 + c06b(c.Get)
	i = i*2 + c06b(c.Limit)
	return i
}

func (s *c06Set) add(i int)      { s[i>>6] |= 1 << (uint(i) & 63) }
func (s *c06Set) has(i int) bool { return s[i>>6]&(1<<(uint(i)&63)) != 0 }
func (s *c06Set) empty() bool {
	for _, w := range s {
		if w != 0 {
			return false
		}
	}
	return true
}
func (s *c06Set) count() int {
	n := 0
	for _, w := range s {
		n += bits.OnesCount64(w)
	}
	return n
}
func (s c06Set) and(o *c06Set) c06Set {
	for i := range s {
		s[i] &= o[i]
	}
	return s
}
func (s c06Set) or(o *c06Set) c06Set {
	for i := range s {
		s[i] |= o[i]
	}
	return s
}
func (s c06Set) minus(o *c06Set) c06Set {
	for i := range s {
		s[i] &^= o[i]
	}
	return s
}
func (s *c06Set) members(max int) []c06Case {
	var out []c06Case
	for i := 0; i < c06N && len(out) < max; i++ {
		if s.has(i) {
			out = append(out, c06Universe[i])
		}
	}
	return out
}

// c06Where is the set comprehension { c in Universe | pred(c) }.
func c06Where(pred func(c06Case) bool) c06Set {
	var s c06Set
	for i, c := range c06Universe {
		if pred(c) {
			s.add(i)
		}
	}
	return s
}

// Atomic sets, all built by comprehension from the predicates below.
var (
	c06All       c06Set
	c06VersionIs [4]c06Set
	c06ProtoIs   [4]c06Set
	c06CodecIs   [4]c06Set // [c06Text] stays empty: CODEC_TEXT is "not used; will be ignored", no case has it
	c06ComprIs   [7]c06Set
	c06StreamIs  [6]c06Set
	c06TLSIs     [2]c06Set
	c06CertsIs   [2]c06Set
	c06GetIs     [2]c06Set
	c06LimitIs   [2]c06Set
	// c06PossibleSet[h2c][halfOverH1] = { c | Possible(c, flags) }
	c06PossibleSet [2][2]c06Set
)

func init() {
	n := 0
	for v := 1; v <= 3; v++ {
		for p := 1; p <= 3; p++ {
			for cd := 1; cd <= 2; cd++ {
				for cm := 1; cm <= 6; cm++ {
					for s := 1; s <= 5; s++ {
						for m := 0; m < 16; m++ {
							c := c06Case{v, p, cd, cm, s, m&8 != 0, m&4 != 0, m&2 != 0, m&1 != 0}
							if c06Index(c) != n {
								panic("c06: index function is not the enumeration order")
							}
							c06Universe[n] = c
							n++
						}
					}
				}
			}
		}
	}
	c06All = c06Where(func(c06Case) bool { return true })
	for v := 1; v <= 3; v++ {
		v := v
		c06VersionIs[v] = c06Where(func(c c06Case) bool { return c.V == v })
		c06ProtoIs[v] = c06Where(func(c c06Case) bool { return c.P == v })
	}
	for x := 1; x <= 2; x++ {
		x := x
		c06CodecIs[x] = c06Where(func(c c06Case) bool { return c.Cd == x })
	}
	for x := 1; x <= 6; x++ {
		x := x
		c06ComprIs[x] = c06Where(func(c c06Case) bool { return c.Cm == x })
	}
	for x := 1; x <= 5; x++ {
		x := x
		c06StreamIs[x] = c06Where(func(c c06Case) bool { return c.S == x })
	}
	for x := 0; x <= 1; x++ {
		x := x == 1
		c06TLSIs[c06b(x)] = c06Where(func(c c06Case) bool { return c.TLS == x })
		c06CertsIs[c06b(x)] = c06Where(func(c c06Case) bool { return c.Certs == x })
		c06GetIs[c06b(x)] = c06Where(func(c c06Case) bool { return c.Get == x })
		c06LimitIs[c06b(x)] = c06Where(func(c c06Case) bool { return c.Limit == x })
	}
	for h2c := 0; h2c <= 1; h2c++ {
		for half := 0; half <= 1; half++ {
			h2c, half := h2c == 1, half == 1
			c06PossibleSet[c06b(h2c)][c06b(half)] = c06Where(func(c c06Case) bool {
				return c06Impossible(c, h2c, half) == ""
			})
		}
	}
}

// c06Impossible is the property's list of what makes a case internally
// impossible; "" means possible. supportsH2C / halfOverH1 are the (defaulted)
// feature flags the list refers to.
func c06Impossible(c c06Case, supportsH2C, halfOverH1 bool) string {
	switch {
	case c.P == c06GRPC && c.V != 2:
		return "grpc-not-over-http2"
	case c.V == 3 && !c.TLS:
		return "http3-without-tls"
	case c.V == 2 && !c.TLS && !supportsH2C:
		return "cleartext-http2-without-h2c-support"
	case c.Certs && !c.TLS:
		return "client-certs-without-tls"
	case c.S == c06Full && c.V == 1:
		return "full-duplex-over-http1"
	case c.S == c06Half && c.V == 1 && !halfOverH1:
		return "half-duplex-over-http1-not-declared"
	case c.Get && c.P != c06Connect:
		return "get-without-connect"
	}
	return ""
}

// ---------------------------------------------------------------------------
// Input alphabet
// ---------------------------------------------------------------------------

const (
	c06Unset = 0
	c06True  = 1
	c06False = 2
)

// flag order in c06Config.Flags
const (
	c06FH2C = iota
	c06FTLS
	c06FCerts
	c06FTrailers
	c06FHalf
	c06FGet
	c06FLimit
)

var c06FlagNames = [7]string{"supports_h2c", "supports_tls", "supports_tls_client_certs", "supports_trailers",
	"supports_half_duplex_bidi_over_http1", "supports_connect_get", "supports_message_receive_limit"}

// c06Entry is one include/exclude entry; 0 = field omitted.
type c06Entry struct {
	Version     int `json:"version,omitempty"`
	Protocol    int `json:"protocol,omitempty"`
	Codec       int `json:"codec,omitempty"`
	Compression int `json:"compression,omitempty"`
	StreamType  int `json:"stream_type,omitempty"`
	TLS         int `json:"use_tls,omitempty"`   // tri-state
	Certs       int `json:"use_certs,omitempty"` // tri-state
	Limit       int `json:"use_limit,omitempty"` // tri-state
}

// c06Config is one element of the enumeration and the replay value. The five
// axes are bit masks (bit i-1 = enum value i); 0 = field empty.
type c06Config struct {
	Versions     int        `json:"versions"`
	Protocols    int        `json:"protocols"`
	Codecs       int        `json:"codecs"`
	Compressions int        `json:"compressions"`
	StreamTypes  int        `json:"stream_types"`
	// CodecList, when non-empty, is the codecs field exactly as written (order
	// and repetitions); Codecs is then the set of its elements. Empty: the
	// elements of Codecs in ascending enum order. config.proto gives the list no
	// order semantics ("If empty, 'proto' and 'json' are assumed"; CODEC_TEXT "not
	// used; will be ignored"), so Spec only ever looks at Codecs.
	CodecList []int `json:"codec_list,omitempty"`
	Flags        [7]int     `json:"flags"` // tri-state each, order of c06FlagNames
	Include      []c06Entry `json:"include,omitempty"`
	Exclude      []c06Entry `json:"exclude,omitempty"`
	// Form: 0 protojson of the Go struct, 1 hand-written YAML, 2 empty input
	// (only for the all-default configuration), 3 protojson with the repeated
	// fields in descending order and the first element repeated at the end
	// ([2,1,2]; a single element: [1,1]), 4 protojson with the repeated fields in
	// ascending order and every element written twice ([1,1,2,2]). The repeated
	// fields denote sets (config.proto speaks of what is "supported"), so forms 3
	// and 4 denote the same configuration as form 0.
	Form int `json:"form"`
}

func c06Bits(mask, n int) []int {
	var out []int
	for i := 1; i <= n; i++ {
		if mask&(1<<(i-1)) != 0 {
			out = append(out, i)
		}
	}
	return out
}

// c06CodecSeq is the codecs field as it is written into the input.
func c06CodecSeq(cfg *c06Config) []int {
	if len(cfg.CodecList) > 0 {
		return cfg.CodecList
	}
	return c06Bits(cfg.Codecs, 3)
}

func c06MaskOf(list []int) int {
	m := 0
	for _, v := range list {
		m |= 1 << (v - 1)
	}
	return m
}

// c06WithCodecList returns cfg with the codecs field written as list.
func c06WithCodecList(cfg c06Config, list []int) c06Config {
	c := c06Clone(&cfg)
	c.CodecList = append([]int(nil), list...)
	c.Codecs = c06MaskOf(list)
	return c
}

func c06TriPtr(t int) *bool {
	switch t {
	case c06True:
		return proto.Bool(true)
	case c06False:
		return proto.Bool(false)
	}
	return nil
}

func c06Scramble(xs []int, form int) []int {
	if len(xs) == 0 {
		return xs
	}
	switch form {
	case 3:
		out := make([]int, 0, len(xs)+1)
		for i := len(xs) - 1; i >= 0; i-- {
			out = append(out, xs[i])
		}
		return append(out, out[0])
	case 4:
		out := make([]int, 0, 2*len(xs))
		for _, x := range xs {
			out = append(out, x, x)
		}
		return out
	}
	return xs
}

// c06HasLists: does the configuration write any repeated field at all?
func c06HasLists(cfg *c06Config) bool {
	return cfg.Versions != 0 || cfg.Protocols != 0 || cfg.Codecs != 0 || cfg.Compressions != 0 || cfg.StreamTypes != 0
}

func c06EntryMsg(e c06Entry) *conformancev1.ConfigCase {
	return &conformancev1.ConfigCase{
		Version:                conformancev1.HTTPVersion(e.Version),
		Protocol:               conformancev1.Protocol(e.Protocol),
		Codec:                  conformancev1.Codec(e.Codec),
		Compression:            conformancev1.Compression(e.Compression),
		StreamType:             conformancev1.StreamType(e.StreamType),
		UseTls:                 c06TriPtr(e.TLS),
		UseTlsClientCerts:      c06TriPtr(e.Certs),
		UseMessageReceiveLimit: c06TriPtr(e.Limit),
	}
}

func c06Message(cfg *c06Config) *conformancev1.Config {
	f := &conformancev1.Features{
		SupportsH2C:                     c06TriPtr(cfg.Flags[c06FH2C]),
		SupportsTls:                     c06TriPtr(cfg.Flags[c06FTLS]),
		SupportsTlsClientCerts:          c06TriPtr(cfg.Flags[c06FCerts]),
		SupportsTrailers:                c06TriPtr(cfg.Flags[c06FTrailers]),
		SupportsHalfDuplexBidiOverHttp1: c06TriPtr(cfg.Flags[c06FHalf]),
		SupportsConnectGet:              c06TriPtr(cfg.Flags[c06FGet]),
		SupportsMessageReceiveLimit:     c06TriPtr(cfg.Flags[c06FLimit]),
	}
	for _, v := range c06Scramble(c06Bits(cfg.Versions, 3), cfg.Form) {
		f.Versions = append(f.Versions, conformancev1.HTTPVersion(v))
	}
	for _, v := range c06Scramble(c06Bits(cfg.Protocols, 3), cfg.Form) {
		f.Protocols = append(f.Protocols, conformancev1.Protocol(v))
	}
	for _, v := range c06Scramble(c06CodecSeq(cfg), cfg.Form) {
		f.Codecs = append(f.Codecs, conformancev1.Codec(v))
	}
	for _, v := range c06Scramble(c06Bits(cfg.Compressions, 6), cfg.Form) {
		f.Compressions = append(f.Compressions, conformancev1.Compression(v))
	}
	for _, v := range c06Scramble(c06Bits(cfg.StreamTypes, 5), cfg.Form) {
		f.StreamTypes = append(f.StreamTypes, conformancev1.StreamType(v))
	}
	msg := &conformancev1.Config{Features: f}
	for _, e := range cfg.Include {
		msg.IncludeCases = append(msg.IncludeCases, c06EntryMsg(e))
	}
	for _, e := range cfg.Exclude {
		msg.ExcludeCases = append(msg.ExcludeCases, c06EntryMsg(e))
	}
	return msg
}

func c06TriYAML(sb *strings.Builder, indent, name string, t int) {
	switch t {
	case c06True:
		sb.WriteString(indent + name + ": true\n")
	case c06False:
		sb.WriteString(indent + name + ": false\n")
	}
}

func c06ListYAML(sb *strings.Builder, name string, vals []int, enum func(int) string) {
	if len(vals) == 0 {
		return
	}
	sb.WriteString("  " + name + ":\n")
	for _, v := range vals {
		sb.WriteString("    - " + enum(v) + "\n")
	}
}

func c06EntriesYAML(sb *strings.Builder, name string, es []c06Entry) {
	if len(es) == 0 {
		return
	}
	sb.WriteString(name + ":\n")
	for _, e := range es {
		var lines []string
		if e.Version != 0 {
			lines = append(lines, "version: "+conformancev1.HTTPVersion(e.Version).String())
		}
		if e.Protocol != 0 {
			lines = append(lines, "protocol: "+conformancev1.Protocol(e.Protocol).String())
		}
		if e.Codec != 0 {
			lines = append(lines, "codec: "+conformancev1.Codec(e.Codec).String())
		}
		if e.Compression != 0 {
			lines = append(lines, "compression: "+conformancev1.Compression(e.Compression).String())
		}
		if e.StreamType != 0 {
			lines = append(lines, "stream_type: "+conformancev1.StreamType(e.StreamType).String())
		}
		for _, tf := range []struct {
			n string
			t int
		}{{"use_tls", e.TLS}, {"use_tls_client_certs", e.Certs}, {"use_message_receive_limit", e.Limit}} {
			if tf.t == c06True {
				lines = append(lines, tf.n+": true")
			} else if tf.t == c06False {
				lines = append(lines, tf.n+": false")
			}
		}
		if len(lines) == 0 {
			sb.WriteString("  - {}\n")
			continue
		}
		for i, l := range lines {
			if i == 0 {
				sb.WriteString("  - " + l + "\n")
			} else {
				sb.WriteString("    " + l + "\n")
			}
		}
	}
}

// c06YAML writes the configuration the way the docs show configuration files.
func c06YAML(cfg *c06Config) []byte {
	var sb strings.Builder
	sb.WriteString("# generated by the C06 harness\nfeatures:\n")
	c06ListYAML(&sb, "versions", c06Bits(cfg.Versions, 3), func(v int) string { return conformancev1.HTTPVersion(v).String() })
	c06ListYAML(&sb, "protocols", c06Bits(cfg.Protocols, 3), func(v int) string { return conformancev1.Protocol(v).String() })
	c06ListYAML(&sb, "codecs", c06CodecSeq(cfg), func(v int) string { return conformancev1.Codec(v).String() })
	c06ListYAML(&sb, "compressions", c06Bits(cfg.Compressions, 6), func(v int) string { return conformancev1.Compression(v).String() })
	c06ListYAML(&sb, "stream_types", c06Bits(cfg.StreamTypes, 5), func(v int) string { return conformancev1.StreamType(v).String() })
	for i, n := range c06FlagNames {
		c06TriYAML(&sb, "  ", n, cfg.Flags[i])
	}
	s := sb.String()
	if strings.HasSuffix(s, "features:\n") {
		s = strings.TrimSuffix(s, "features:\n") + "features: {}\n"
		sb.Reset()
		sb.WriteString(s)
	}
	c06EntriesYAML(&sb, "include_cases", cfg.Include)
	c06EntriesYAML(&sb, "exclude_cases", cfg.Exclude)
	return []byte(sb.String())
}

func c06Serialize(cfg *c06Config) []byte {
	switch cfg.Form {
	case 1:
		return c06YAML(cfg)
	case 2:
		return nil
	}
	data, err := protojson.Marshal(c06Message(cfg))
	if err != nil {
		panic("c06: protojson.Marshal: " + err.Error())
	}
	return data
}

// ---------------------------------------------------------------------------
// Reference model
// ---------------------------------------------------------------------------

// c06Reading selects between readings where the documents are genuinely
// ambiguous; an observation is accepted if any relevant reading accepts it.
type c06Reading struct {
	// codecs: [CODEC_TEXT] only — "not used; will be ignored": ignored and the
	// list counts as empty (defaults apply), or ignored and nothing is left.
	TextOnlyIsDefault bool
	// supports_trailers: false "implies that gRPC protocol is not allowed": also
	// for an entry that names PROTOCOL_GRPC explicitly, or only for the features.
	TrailersBindEntries bool
}

type c06Flags struct{ h2c, tls, certs, trailers, half, get, limit bool }

func c06Eff(tri int, def bool) bool {
	switch tri {
	case c06True:
		return true
	case c06False:
		return false
	}
	return def
}

// c06EffFlags applies the documented defaults: H2C, TLS, trailers, Connect GET
// and message receive limit default to true; client certs and half-duplex bidi
// over HTTP/1.1 default to false.
func c06EffFlags(cfg *c06Config) c06Flags {
	return c06Flags{
		h2c:      c06Eff(cfg.Flags[c06FH2C], true),
		tls:      c06Eff(cfg.Flags[c06FTLS], true),
		certs:    c06Eff(cfg.Flags[c06FCerts], false),
		trailers: c06Eff(cfg.Flags[c06FTrailers], true),
		half:     c06Eff(cfg.Flags[c06FHalf], false),
		get:      c06Eff(cfg.Flags[c06FGet], true),
		limit:    c06Eff(cfg.Flags[c06FLimit], true),
	}
}

// c06Axes is "what the features support" per axis, after defaulting.
type c06Axes struct {
	fl                           c06Flags
	versions, protocols, streams c06Set
	codecs, compressions         c06Set
	tls, certs, limit, get       c06Set
}

func c06Union(table []c06Set, mask, n int) c06Set {
	var s c06Set
	for _, v := range c06Bits(mask, n) {
		s = s.or(&table[v])
	}
	return s
}

type c06Outcome struct {
	Must string // non-empty: an error is required (reason)
	May  string // non-empty: an error is acceptable (reason); otherwise Set is required
	Set  c06Set
}

func c06Has(mask, v int) bool { return mask&(1<<(v-1)) != 0 }

func c06Spec(cfg *c06Config, rd c06Reading) c06Outcome {
	var out c06Outcome
	must := func(why string) {
		if out.Must == "" {
			out.Must = why
		}
	}
	may := func(why string) {
		if out.May == "" {
			out.May = why
		}
	}
	fl := c06EffFlags(cfg)

	// --- defaulted feature axes -------------------------------------------
	// versions: "If not configured, support is assumed for HTTP 1.1 and HTTP/2";
	// "If TLS is not supported, HTTP/3 cannot be supported and HTTP/2 can only be
	// supported if the implementation supports H2C."
	versions := cfg.Versions
	if versions == 0 {
		versions = 1 << 0
		if fl.tls || fl.h2c {
			versions |= 1 << 1
		}
	}
	// protocols: all three; "gRPC requires HTTP/2"; without trailers "the gRPC
	// protocol cannot be supported".
	protocols := cfg.Protocols
	if protocols == 0 {
		protocols = 1<<(c06Connect-1) | 1<<(c06GRPCWeb-1)
		if fl.trailers && c06Has(versions, 2) {
			protocols |= 1 << (c06GRPC - 1)
		}
	}
	// codecs: "proto" and "json"; CODEC_TEXT is ignored.
	codecs := cfg.Codecs &^ (1 << (c06Text - 1))
	if cfg.Codecs == 0 || (codecs == 0 && rd.TextOnlyIsDefault) {
		codecs = 1<<0 | 1<<1
	}
	// compressions: "identity" and "gzip".
	compressions := cfg.Compressions
	if compressions == 0 {
		compressions = 1<<0 | 1<<1
	}
	// stream types: all; full-duplex "requires HTTP/2 or HTTP/3"; without the
	// half-duplex flag "bidirectional streams (regardless of whether they are
	// half- or full-duplex) are only supported over HTTP/2 or HTTP/3".
	onlyHTTP1 := versions == 1<<0
	streams := cfg.StreamTypes
	if streams == 0 {
		streams = 1<<0 | 1<<1 | 1<<2
		if !onlyHTTP1 {
			streams |= 1<<(c06Half-1) | 1<<(c06Full-1)
		} else if fl.half {
			streams |= 1 << (c06Half - 1)
		}
	}

	// --- contradictory features (the statement's list, at feature level) ------
	if fl.certs && !fl.tls {
		must("features:client-certs-without-tls")
	}
	if c06Has(cfg.Versions, 3) && !fl.tls {
		must("features:http3-without-tls")
	}
	if c06Has(cfg.Versions, 2) && !fl.tls && !fl.h2c {
		must("features:http2-without-tls-or-h2c")
	}
	if c06Has(cfg.Protocols, c06GRPC) && !fl.trailers {
		must("features:grpc-without-trailers")
	}
	if c06Has(cfg.Protocols, c06GRPC) && !c06Has(versions, 2) {
		must("features:grpc-without-http2")
	}
	if c06Has(cfg.StreamTypes, c06Full) && onlyHTTP1 {
		must("features:full-duplex-with-only-http1")
	}
	if c06Has(cfg.StreamTypes, c06Half) && onlyHTTP1 && !fl.half {
		must("features:half-duplex-with-only-http1-not-declared")
	}
	// Not in the statement's list, arguably contradictory: either behaviour is accepted.
	if cfg.Flags[c06FH2C] == c06True && cfg.Versions != 0 && !c06Has(cfg.Versions, 2) {
		may("features:h2c-declared-without-http2")
	}
	if cfg.Flags[c06FCerts] == c06False && !fl.tls {
		may("features:client-certs-flag-set-although-tls-unsupported") // "should not be set if supports_tls is false"
	}

	ax := c06Axes{fl: fl}
	ax.versions = c06Union(c06VersionIs[:], versions, 3)
	ax.protocols = c06Union(c06ProtoIs[:], protocols, 3)
	ax.codecs = c06Union(c06CodecIs[:], codecs, 2)
	ax.compressions = c06Union(c06ComprIs[:], compressions, 6)
	ax.streams = c06Union(c06StreamIs[:], streams, 5)
	// use_tls absent: "cases for plaintext (no TLS) but also for TLS if features
	// indicate that TLS is supported"; same shape for client certs and the limit.
	ax.tls = c06TLSIs[0]
	if fl.tls {
		ax.tls = c06All
	}
	ax.certs = c06CertsIs[0]
	if fl.certs {
		ax.certs = c06All
	}
	ax.limit = c06LimitIs[0]
	if fl.limit {
		ax.limit = c06All
	}
	// GET is not a field of an entry; it always follows supports_connect_get
	// ("the GET HTTP method with the Connect protocol").
	ax.get = c06GetIs[0]
	if fl.get {
		withGet := c06GetIs[1].and(&c06ProtoIs[c06Connect])
		ax.get = ax.get.or(&withGet)
	}

	// --- the set --------------------------------------------------------------
	result, _ := c06Match(c06Entry{}, &ax, rd) // cases implied by the features = the all-wildcard entry
	for _, e := range cfg.Include {
		m, self := c06Match(e, &ax, rd)
		if self {
			must("include-entry-self-contradictory")
		} else if m.empty() {
			may("include-entry-matches-nothing-under-these-features")
		}
		result = result.or(&m)
	}
	for _, e := range cfg.Exclude {
		m, self := c06Match(e, &ax, rd)
		if self {
			must("exclude-entry-self-contradictory")
		} else if m.empty() {
			may("exclude-entry-matches-nothing-under-these-features")
		}
		result = result.minus(&m)
	}
	if result.empty() {
		must("empty-result")
	}
	out.Set = result
	return out
}

// c06Match = { c in Universe | every set field of e equals c's, every omitted
// field of e lies in what the features support, Possible(c, flags) }.
// selfContradictory: no internally possible case agrees with the set fields of
// e under any features at all (HTTP/3 without TLS, gRPC over HTTP/1.1 or
// HTTP/3, client certs without TLS, full-duplex over HTTP/1.1).
func c06Match(e c06Entry, ax *c06Axes, rd c06Reading) (m c06Set, selfContradictory bool) {
	explicit := c06All
	m = c06PossibleSet[c06b(ax.fl.h2c)][c06b(ax.fl.half)]
	pick := func(val int, table []c06Set, axis *c06Set) {
		if val != 0 {
			explicit = explicit.and(&table[val])
			m = m.and(&table[val])
		} else {
			m = m.and(axis)
		}
	}
	pickTri := func(tri int, table *[2]c06Set, axis *c06Set) {
		switch tri {
		case c06True:
			explicit = explicit.and(&table[1])
			m = m.and(&table[1])
		case c06False:
			explicit = explicit.and(&table[0])
			m = m.and(&table[0])
		default:
			m = m.and(axis)
		}
	}
	pick(e.Version, c06VersionIs[:], &ax.versions)
	pick(e.Protocol, c06ProtoIs[:], &ax.protocols)
	if e.Codec == c06Text {
		// config.proto: CODEC_TEXT "not used; will be ignored" — no config case has
		// this codec, so an entry that names it agrees with no case at all, whatever
		// its other fields and the features say. That is not a contradiction between
		// the fields of the entry (explicit is left alone): the entry simply matches
		// nothing.
		m = m.and(&c06CodecIs[c06Text])
	} else {
		pick(e.Codec, c06CodecIs[:], &ax.codecs)
	}
	pick(e.Compression, c06ComprIs[:], &ax.compressions)
	pick(e.StreamType, c06StreamIs[:], &ax.streams)
	pickTri(e.TLS, &c06TLSIs, &ax.tls)
	pickTri(e.Certs, &c06CertsIs, &ax.certs)
	pickTri(e.Limit, &c06LimitIs, &ax.limit)
	m = m.and(&ax.get)
	if rd.TrailersBindEntries && !ax.fl.trailers {
		m = m.minus(&c06ProtoIs[c06GRPC])
	}
	intrinsic := explicit.and(&c06PossibleSet[1][1])
	return m, intrinsic.empty()
}

func c06Readings(cfg *c06Config) []c06Reading {
	rds := []c06Reading{{}}
	textOnly := cfg.Codecs == 1<<(c06Text-1)
	grpcEntry := false
	if cfg.Flags[c06FTrailers] == c06False {
		for _, e := range cfg.Include {
			grpcEntry = grpcEntry || e.Protocol == c06GRPC
		}
		for _, e := range cfg.Exclude {
			grpcEntry = grpcEntry || e.Protocol == c06GRPC
		}
	}
	if textOnly {
		rds = append(rds, c06Reading{TextOnlyIsDefault: true})
	}
	if grpcEntry {
		rds = append(rds, c06Reading{TrailersBindEntries: true})
	}
	if textOnly && grpcEntry {
		rds = append(rds, c06Reading{TextOnlyIsDefault: true, TrailersBindEntries: true})
	}
	return rds
}

// ---------------------------------------------------------------------------
// Running the real code and judging
// ---------------------------------------------------------------------------

type c06Got struct {
	Err       string
	Panic     string
	Set       c06Set
	N         int
	Outside   []string // produced cases that are not in the universe at all
	Duplicate int
}

func c06Run(cfg *c06Config) (got c06Got) {
	data := c06Serialize(cfg)
	defer func() {
		if p := recover(); p != nil {
			got.Panic = fmt.Sprint(p)
		}
	}()
	cases, err := parseConfig("c06-config.yaml", data)
	if err != nil {
		got.Err = err.Error()
		if got.Err == "" {
			got.Err = "(empty error text)"
		}
		return got
	}
	got.N = len(cases)
	for _, cc := range cases {
		c := c06Case{int(cc.Version), int(cc.Protocol), int(cc.Codec), int(cc.Compression), int(cc.StreamType),
			cc.UseTLS, cc.UseTLSClientCerts, cc.UseConnectGET, cc.UseMessageReceiveLimit}
		if c.V < 1 || c.V > 3 || c.P < 1 || c.P > 3 || c.Cd < 1 || c.Cd > 2 || c.Cm < 1 || c.Cm > 6 || c.S < 1 || c.S > 5 ||
			cc.ConnectVersionMode != 0 {
			if len(got.Outside) < 3 {
				got.Outside = append(got.Outside, fmt.Sprintf("%+v", cc))
			}
			continue
		}
		i := c06Index(c)
		if got.Set.has(i) {
			got.Duplicate++
		}
		got.Set.add(i)
	}
	return got
}

type c06Finding struct {
	Kind   string
	Detail string
}

func c06CaseString(c c06Case) string {
	return fmt.Sprintf("{%s %s %s %s %s tls=%v certs=%v get=%v limit=%v}",
		strings.TrimPrefix(conformancev1.HTTPVersion(c.V).String(), "HTTP_VERSION_"),
		strings.TrimPrefix(conformancev1.Protocol(c.P).String(), "PROTOCOL_"),
		strings.TrimPrefix(conformancev1.Codec(c.Cd).String(), "CODEC_"),
		strings.TrimPrefix(conformancev1.Compression(c.Cm).String(), "COMPRESSION_"),
		strings.TrimPrefix(conformancev1.StreamType(c.S).String(), "STREAM_TYPE_"),
		c.TLS, c.Certs, c.Get, c.Limit)
}

func c06Cases(s *c06Set) string {
	var parts []string
	for _, c := range s.members(3) {
		parts = append(parts, c06CaseString(c))
	}
	n := s.count()
	if n > 3 {
		parts = append(parts, fmt.Sprintf("... (%d in total)", n))
	}
	return strings.Join(parts, " ")
}

// c06Judge compares one observation with the reference model. It returns the
// findings (empty = conforming) and a short class of the observation.
func c06Judge(cfg *c06Config, got *c06Got) (fs []c06Finding, class string) {
	if got.Panic != "" {
		return []c06Finding{{"panic", "parseConfig panicked: " + got.Panic}}, "panic"
	}
	fl := c06EffFlags(cfg)
	if got.Err == "" {
		// (iii) every produced case must be internally possible — independent of Spec.
		seen := map[string]bool{}
		for i := 0; i < c06N; i++ {
			if !got.Set.has(i) {
				continue
			}
			if why := c06Impossible(c06Universe[i], fl.h2c, fl.half); why != "" && !seen[why] {
				seen[why] = true
				fs = append(fs, c06Finding{"impossible-case:" + why,
					"produced case " + c06CaseString(c06Universe[i]) + " is not internally possible: " + why})
			}
		}
		if len(got.Outside) > 0 {
			fs = append(fs, c06Finding{"case-outside-universe", "produced " + strings.Join(got.Outside, " ")})
		}
		if got.Duplicate > 0 {
			fs = append(fs, c06Finding{"duplicate-case", fmt.Sprintf("%d produced cases are repeated", got.Duplicate)})
		}
	}
	// (vi) a repeated field denotes a set: writing it in another order or with a
	// repeated element is the same configuration and must have the same outcome
	// (also where the documents leave the outcome itself open).
	if cfg.Form == 3 || cfg.Form == 4 {
		plain := c06Clone(cfg)
		plain.Form = 0
		ref := c06Run(&plain)
		switch {
		case ref.Panic != "":
		case (ref.Err == "") != (got.Err == ""):
			show := func(g *c06Got) string {
				if g.Err != "" {
					return fmt.Sprintf("error %q", g.Err)
				}
				return fmt.Sprintf("%d cases", g.N)
			}
			fs = append(fs, c06Finding{"outcome-depends-on-how-lists-are-written", fmt.Sprintf(
				"lists in ascending order without repetition: %s; the same sets written with a repeated element / in another order: %s",
				show(&ref), show(got))})
		case ref.Err == "" && ref.Set != got.Set:
			fs = append(fs, c06Finding{"outcome-depends-on-how-lists-are-written", fmt.Sprintf(
				"lists in ascending order without repetition: %d cases; the same sets written with a repeated element / in another order: %d cases",
				ref.N, got.N)})
		}
	}
	rds := c06Readings(cfg)
	var primary c06Outcome
	for i, rd := range rds {
		sp := c06Spec(cfg, rd)
		if i == 0 {
			primary = sp
		}
		if got.Err != "" {
			if sp.Must != "" {
				return fs, "error-required:" + sp.Must
			}
			if sp.May != "" {
				return fs, "error-acceptable:" + sp.May
			}
			continue
		}
		if sp.Must == "" && sp.Set == got.Set && len(got.Outside) == 0 {
			if i > 0 {
				return fs, "set-equal-under-alternative-reading"
			}
			if sp.May != "" {
				return fs, "set-equal-error-was-acceptable:" + sp.May
			}
			return fs, "set-equal"
		}
	}
	// no reading accepts: report against the primary reading
	if got.Err != "" {
		// (v)
		fs = append(fs, c06Finding{"unexpected-error", fmt.Sprintf(
			"error %q although the configuration is not contradictory and Spec has %d cases, e.g. %s",
			got.Err, primary.Set.count(), c06Cases(&primary.Set))})
		return fs, "unexpected-error"
	}
	if primary.Must != "" {
		// (iv)
		fs = append(fs, c06Finding{"missing-error:" + primary.Must, fmt.Sprintf(
			"no error although %s; %d cases were produced, e.g. %s", primary.Must, got.N, c06Cases(&got.Set))})
		return fs, "missing-error"
	}
	extra := got.Set.minus(&primary.Set)
	missing := primary.Set.minus(&got.Set)
	if !extra.empty() {
		// (i)
		fs = append(fs, c06Finding{"extra-case", fmt.Sprintf("produced but not in Spec: %s (produced %d, Spec %d)",
			c06Cases(&extra), got.N, primary.Set.count())})
	}
	if !missing.empty() {
		// (ii)
		fs = append(fs, c06Finding{"missing-case", fmt.Sprintf("in Spec but not produced: %s (produced %d, Spec %d)",
			c06Cases(&missing), got.N, primary.Set.count())})
	}
	return fs, "set-differs"
}

func c06HasKind(cfg *c06Config, kind string) bool {
	got := c06Run(cfg)
	fs, _ := c06Judge(cfg, &got)
	for _, f := range fs {
		if f.Kind == kind {
			return true
		}
	}
	return false
}

// ---------------------------------------------------------------------------
// Violation keys: kind + the smallest configuration showing that kind
// ---------------------------------------------------------------------------

func c06Clone(cfg *c06Config) c06Config {
	c := *cfg
	c.Include = append([]c06Entry(nil), cfg.Include...)
	c.Exclude = append([]c06Entry(nil), cfg.Exclude...)
	c.CodecList = append([]int(nil), cfg.CodecList...)
	return c
}

func c06EntryFields(e *c06Entry) []*int {
	return []*int{&e.Version, &e.Protocol, &e.Codec, &e.Compression, &e.StreamType, &e.TLS, &e.Certs, &e.Limit}
}

// c06Simpler lists the one-step simplifications of cfg: drop an entry, unset a
// flag, empty an axis, drop one element of an axis, unset a field of an entry.
func c06Simpler(cfg *c06Config) []c06Config {
	var out []c06Config
	for i := len(cfg.Exclude) - 1; i >= 0; i-- {
		c := c06Clone(cfg)
		c.Exclude = append(c.Exclude[:i], c.Exclude[i+1:]...)
		out = append(out, c)
	}
	for i := len(cfg.Include) - 1; i >= 0; i-- {
		c := c06Clone(cfg)
		c.Include = append(c.Include[:i], c.Include[i+1:]...)
		out = append(out, c)
	}
	for i := range cfg.Flags {
		if cfg.Flags[i] != c06Unset {
			c := c06Clone(cfg)
			c.Flags[i] = c06Unset
			out = append(out, c)
		}
	}
	axes := func(c *c06Config) []*int {
		return []*int{&c.Versions, &c.Protocols, &c.Codecs, &c.Compressions, &c.StreamTypes}
	}
	for a := range axes(cfg) {
		mask := *axes(cfg)[a]
		if mask == 0 {
			continue
		}
		c := c06Clone(cfg)
		*axes(&c)[a] = 0
		c06FixCodecList(&c)
		out = append(out, c)
		if bits.OnesCount(uint(mask)) > 1 {
			for b := 0; b < 6; b++ {
				if mask&(1<<b) != 0 {
					c := c06Clone(cfg)
					*axes(&c)[a] = mask &^ (1 << b)
					c06FixCodecList(&c)
					out = append(out, c)
				}
			}
		}
	}
	// the codecs field as written: drop a repeated element, then the order itself
	if len(cfg.CodecList) > 0 {
		seen := map[int]bool{}
		for i, v := range cfg.CodecList {
			if seen[v] {
				c := c06Clone(cfg)
				c.CodecList = append(c.CodecList[:i], c.CodecList[i+1:]...)
				out = append(out, c)
			}
			seen[v] = true
		}
		c := c06Clone(cfg)
		c.CodecList = nil
		out = append(out, c)
	}
	for li := 0; li < 2; li++ {
		list := cfg.Include
		if li == 1 {
			list = cfg.Exclude
		}
		for i := range list {
			e := list[i]
			for fi, f := range c06EntryFields(&e) {
				if *f == 0 {
					continue
				}
				c := c06Clone(cfg)
				if li == 0 {
					*c06EntryFields(&c.Include[i])[fi] = 0
				} else {
					*c06EntryFields(&c.Exclude[i])[fi] = 0
				}
				out = append(out, c)
			}
		}
	}
	// an include entry counts as simpler than the same entry under exclude_cases
	for i := range cfg.Exclude {
		c := c06Clone(cfg)
		c.Include = append(c.Include, c.Exclude[i])
		c.Exclude = append(c.Exclude[:i], c.Exclude[i+1:]...)
		out = append(out, c)
	}
	if cfg.Form != 0 {
		c := c06Clone(cfg)
		c.Form = 0
		out = append(out, c)
	}
	return out
}

// c06FixCodecList keeps CodecList a way of writing the set Codecs after an
// element was dropped from the set.
func c06FixCodecList(c *c06Config) {
	if len(c.CodecList) == 0 {
		return
	}
	var kept []int
	for _, v := range c.CodecList {
		if c06Has(c.Codecs, v) {
			kept = append(kept, v)
		}
	}
	c.CodecList = kept
}

func c06Minimize(cfg *c06Config, kind string) c06Config {
	cur := c06Clone(cfg)
	for steps := 0; steps < 200; steps++ {
		progressed := false
		for _, cand := range c06Simpler(&cur) {
			cand := cand
			if c06HasKind(&cand, kind) {
				cur = cand
				progressed = true
				break
			}
		}
		if !progressed {
			break
		}
	}
	return cur
}

func c06TriName(t int) string {
	if t == c06True {
		return "true"
	}
	return "false"
}

func c06EntryKey(e c06Entry) string {
	var p []string
	if e.Version != 0 {
		p = append(p, fmt.Sprintf("version=%d", e.Version))
	}
	if e.Protocol != 0 {
		p = append(p, "protocol="+strings.TrimPrefix(conformancev1.Protocol(e.Protocol).String(), "PROTOCOL_"))
	}
	if e.Codec != 0 {
		p = append(p, "codec="+strings.TrimPrefix(conformancev1.Codec(e.Codec).String(), "CODEC_"))
	}
	if e.Compression != 0 {
		p = append(p, "compression="+strings.TrimPrefix(conformancev1.Compression(e.Compression).String(), "COMPRESSION_"))
	}
	if e.StreamType != 0 {
		p = append(p, "stream_type="+strings.TrimPrefix(conformancev1.StreamType(e.StreamType).String(), "STREAM_TYPE_"))
	}
	if e.TLS != 0 {
		p = append(p, "use_tls="+c06TriName(e.TLS))
	}
	if e.Certs != 0 {
		p = append(p, "use_tls_client_certs="+c06TriName(e.Certs))
	}
	if e.Limit != 0 {
		p = append(p, "use_message_receive_limit="+c06TriName(e.Limit))
	}
	return strings.Join(p, ",")
}

func c06MaskKey(mask, n int) string {
	var p []string
	for _, v := range c06Bits(mask, n) {
		p = append(p, fmt.Sprint(v))
	}
	return strings.Join(p, "|")
}

// c06ConfigKey is a compact, space-free rendering of a (minimised) configuration.
func c06ConfigKey(cfg *c06Config) string {
	var f []string
	if cfg.Versions != 0 {
		f = append(f, "versions="+c06MaskKey(cfg.Versions, 3))
	}
	if cfg.Protocols != 0 {
		f = append(f, "protocols="+c06MaskKey(cfg.Protocols, 3))
	}
	if len(cfg.CodecList) > 0 {
		var p []string
		for _, v := range cfg.CodecList {
			p = append(p, fmt.Sprint(v))
		}
		f = append(f, "codecs-in-this-order="+strings.Join(p, ">"))
	} else if cfg.Codecs != 0 {
		f = append(f, "codecs="+c06MaskKey(cfg.Codecs, 3))
	}
	if cfg.Compressions != 0 {
		f = append(f, "compressions="+c06MaskKey(cfg.Compressions, 6))
	}
	if cfg.StreamTypes != 0 {
		f = append(f, "stream_types="+c06MaskKey(cfg.StreamTypes, 5))
	}
	for i, n := range c06FlagNames {
		if cfg.Flags[i] != c06Unset {
			f = append(f, n+"="+c06TriName(cfg.Flags[i]))
		}
	}
	var parts []string
	if len(f) > 0 {
		parts = append(parts, "features("+strings.Join(f, ",")+")")
	}
	for _, e := range cfg.Include {
		parts = append(parts, "include("+c06EntryKey(e)+")")
	}
	for _, e := range cfg.Exclude {
		parts = append(parts, "exclude("+c06EntryKey(e)+")")
	}
	if len(parts) == 0 {
		parts = append(parts, "default-config")
	}
	switch cfg.Form {
	case 1:
		parts = append(parts, "as-yaml")
	case 2:
		parts = append(parts, "as-empty-input")
	case 3:
		parts = append(parts, "lists-reordered-with-duplicate")
	case 4:
		parts = append(parts, "lists-with-every-element-twice")
	}
	return strings.Join(parts, "+")
}

// c06Reaches: can small be obtained from big by the simplification steps?
func c06Reaches(big, small *c06Config) bool {
	if big.Form != small.Form && small.Form != 0 {
		return false
	}
	for i := range small.Flags {
		if small.Flags[i] != c06Unset && small.Flags[i] != big.Flags[i] {
			return false
		}
	}
	sub := func(s, b int) bool { return s == 0 || (s&^b == 0) }
	if !sub(small.Versions, big.Versions) || !sub(small.Protocols, big.Protocols) || !sub(small.Codecs, big.Codecs) ||
		!sub(small.Compressions, big.Compressions) || !sub(small.StreamTypes, big.StreamTypes) {
		return false
	}
	if len(small.CodecList) > 0 {
		// the written list of small must be obtainable by deleting elements of big's
		seq, j := c06CodecSeq(big), 0
		for _, v := range seq {
			if j < len(small.CodecList) && small.CodecList[j] == v {
				j++
			}
		}
		if j != len(small.CodecList) {
			return false
		}
	}
	// every entry of small comes from a distinct entry of big with a superset of
	// its set fields; an include entry of small may come from an exclude entry of big
	type tagged struct {
		e       c06Entry
		exclude bool
	}
	var bigs, smalls []tagged
	for _, e := range big.Include {
		bigs = append(bigs, tagged{e, false})
	}
	for _, e := range big.Exclude {
		bigs = append(bigs, tagged{e, true})
	}
	for _, e := range small.Include {
		smalls = append(smalls, tagged{e, false})
	}
	for _, e := range small.Exclude {
		smalls = append(smalls, tagged{e, true})
	}
	fits := func(b, s tagged) bool {
		if s.exclude && !b.exclude {
			return false
		}
		bf, sf := c06EntryFields(&b.e), c06EntryFields(&s.e)
		for i := range sf {
			if *sf[i] != 0 && *sf[i] != *bf[i] {
				return false
			}
		}
		return true
	}
	used := make([]bool, len(bigs))
	var assign func(i int) bool
	assign = func(i int) bool {
		if i == len(smalls) {
			return true
		}
		for j := range bigs {
			if !used[j] && fits(bigs[j], smalls[i]) {
				used[j] = true
				if assign(i + 1) {
					return true
				}
				used[j] = false
			}
		}
		return false
	}
	return assign(0)
}

type c06Keyer struct {
	known         map[string][]c06Config // kind -> minimal configurations found so far
	minimizations int
}

const c06MaxMinimizations = 400

// key attributes a finding to an already known minimal configuration of the same
// kind that is contained in cfg, or minimises cfg and remembers the result.
func (k *c06Keyer) key(r *rep.Report, cfg *c06Config, kind string) (string, *c06Config) {
	for i := range k.known[kind] {
		m := &k.known[kind][i]
		if c06Reaches(cfg, m) {
			return kind + ":" + c06ConfigKey(m), m
		}
	}
	if k.minimizations >= c06MaxMinimizations {
		r.Count("violations-not-minimised", 1)
		return kind + ":not-minimised", cfg
	}
	k.minimizations++
	m := c06Minimize(cfg, kind)
	k.known[kind] = append(k.known[kind], m)
	return kind + ":" + c06ConfigKey(&m), &k.known[kind][len(k.known[kind])-1]
}

// ---------------------------------------------------------------------------
// Enumeration
// ---------------------------------------------------------------------------

func c06FlagsFromIndex(i int) (f [7]int) {
	for j := 0; j < 7; j++ {
		f[j] = i % 3
		i /= 3
	}
	return f
}

// entries: version 4 x protocol 4 x codec 3 x compression 2 (unset, gzip) x
// stream type 6 x three tri-state booleans = 7,776
func c06AllEntries() []c06Entry { return c06EntriesWithCodecs([]int{0, 1, 2}) }

// c06TextEntries: the same product with codec: CODEC_TEXT (5,184 entries, from
// the entry that gives nothing else up to the ones that give all eight fields).
func c06TextEntries() []c06Entry { return c06EntriesWithCodecs([]int{c06Text}) }

func c06EntriesWithCodecs(cds []int) []c06Entry {
	var out []c06Entry
	for v := 0; v <= 3; v++ {
		for p := 0; p <= 3; p++ {
			for _, cd := range cds {
				for _, cm := range []int{0, 2} {
					for s := 0; s <= 5; s++ {
						for tls := 0; tls < 3; tls++ {
							for certs := 0; certs < 3; certs++ {
								for lim := 0; lim < 3; lim++ {
									out = append(out, c06Entry{v, p, cd, cm, s, tls, certs, lim})
								}
							}
						}
					}
				}
			}
		}
	}
	// simplest first: by number of set fields, stable
	sort.SliceStable(out, func(i, j int) bool { return c06SetFields(out[i]) < c06SetFields(out[j]) })
	return out
}

func c06SetFields(e c06Entry) int {
	n := 0
	for _, f := range c06EntryFields(&e) {
		if *f != 0 {
			n++
		}
	}
	return n
}

// 40 entries for lists of two
func c06PairEntries() []c06Entry {
	const T, F = c06True, c06False
	return []c06Entry{
		{}, // all wildcards
		{Version: 1}, {Version: 2}, {Version: 3},
		{Protocol: c06Connect}, {Protocol: c06GRPC}, {Protocol: c06GRPCWeb},
		{Codec: 1}, {Codec: 2}, {Compression: 2}, {Compression: 4},
		{StreamType: 1}, {StreamType: c06Half}, {StreamType: c06Full},
		{TLS: T}, {TLS: F}, {Certs: T}, {Certs: F}, {Limit: T}, {Limit: F},
		{Version: 2, TLS: F}, {Version: 2, TLS: T}, {Version: 3, TLS: T}, {Version: 1, TLS: F},
		{Version: 1, StreamType: c06Half}, {Version: 2, StreamType: c06Full},
		{Version: 2, Protocol: c06GRPC}, {Version: 1, Protocol: c06GRPCWeb}, {Protocol: c06GRPC, TLS: F},
		{TLS: T, Certs: T}, {TLS: T, Certs: F}, {TLS: F, Certs: F},
		{Protocol: c06Connect, StreamType: 1, Limit: T},
		{Version: 2, Protocol: c06Connect, Codec: 1, Compression: 1, StreamType: 1, TLS: F, Certs: F, Limit: F},
		{Version: 2, Protocol: c06GRPC, Codec: 2, Compression: 2, StreamType: c06Full, TLS: T, Certs: T, Limit: T},
		{Version: 1, Protocol: c06Connect, Codec: 1, Compression: 1, StreamType: 3, TLS: F, Limit: F},
		{Version: 3, Protocol: c06GRPCWeb, Codec: 2, StreamType: c06Half, TLS: T},
		{Codec: 2, Compression: 2, Limit: F},
		{Version: 2, Certs: T},
		{StreamType: c06Half, TLS: F, Limit: T},
		// the deprecated codec inside an entry: alone, and in an entry that gives all eight fields
		{Codec: c06Text},
		{Version: 2, Protocol: c06Connect, Codec: c06Text, Compression: 2, StreamType: 1, TLS: T, Certs: F, Limit: F},
	}
}

// c06OutsideFamily: an include entry that names ONE value (every value of every
// enum field, CODEC_TEXT included) next to an exclude entry that gives only
// use_* flags (all 27 tri-state combinations, {} included), on features that
// restrict one axis (or all five, or none) to its first value, so that the
// included value lies outside the listed ones for most combinations. The omitted
// fields of the exclude entry range over what the FEATURES support: cases an
// include entry added outside of that are not matched by it and stay.
func c06OutsideFamily(thorough bool, visit func(cfg *c06Config) bool) bool {
	var includes []c06Entry
	for v := 1; v <= 3; v++ {
		includes = append(includes, c06Entry{Version: v}, c06Entry{Protocol: v}, c06Entry{Codec: v})
	}
	for cm := 1; cm <= 6; cm++ {
		includes = append(includes, c06Entry{Compression: cm})
	}
	for st := 1; st <= 5; st++ {
		includes = append(includes, c06Entry{StreamType: st})
	}
	if thorough {
		// two values outside at once, and the flags given by the include entry as well
		includes = append(includes,
			c06Entry{Version: 3, Compression: 3}, c06Entry{Version: 2, Protocol: c06GRPC, StreamType: c06Full},
			c06Entry{Version: 3, TLS: c06True, Certs: c06False, Limit: c06True}, c06Entry{Compression: 4, Codec: 2, Limit: c06False})
	}
	var excludes []c06Entry
	for i := 0; i < 27; i++ {
		excludes = append(excludes, c06Entry{TLS: i % 3, Certs: i / 3 % 3, Limit: i / 9})
	}
	sort.SliceStable(excludes, func(i, j int) bool { return c06SetFields(excludes[i]) < c06SetFields(excludes[j]) })
	// restrict[i]: which axes list only their first value
	restricts := []int{0, 1 << 0, 1 << 1, 1 << 2, 1 << 3, 1 << 4, 1<<5 - 1}
	certsChoices := []int{c06Unset, c06True}
	if thorough {
		certsChoices = []int{c06Unset, c06True, c06False}
	}
	for _, inc := range includes {
		for _, exc := range excludes {
			for _, rs := range restricts {
				for tls := 0; tls < 3; tls++ {
					for _, certs := range certsChoices {
						for _, lim := range []int{c06Unset, c06False} {
							cfg := c06Config{Include: []c06Entry{inc}, Exclude: []c06Entry{exc}}
							for a, f := range []*int{&cfg.Versions, &cfg.Protocols, &cfg.Codecs, &cfg.Compressions, &cfg.StreamTypes} {
								if rs&(1<<a) != 0 {
									*f = 1 << 0
								}
							}
							cfg.Flags[c06FTLS], cfg.Flags[c06FCerts], cfg.Flags[c06FLimit] = tls, certs, lim
							if !visit(&cfg) {
								return false
							}
						}
					}
				}
			}
		}
	}
	return true
}

// 48 feature bases = 8 transport profiles x 6 protocol/stream profiles
func c06Bases() []c06Config {
	const U, T, F = c06Unset, c06True, c06False
	type transport struct{ versions, h2c, tls, certs int }
	transports := []transport{
		{0, U, U, U},                  // defaults
		{0, F, U, U},                  // no H2C
		{0, U, F, U},                  // no TLS
		{0, F, F, U},                  // neither: only HTTP/1.1 is left
		{0, U, U, T},                  // client certs
		{1 << 0, U, U, U},             // HTTP/1.1 only
		{1<<0 | 1<<1 | 1<<2, F, U, T}, // all three versions, no H2C, client certs
		{1<<1 | 1<<2, U, T, U},        // HTTP/2 and HTTP/3
	}
	type rest struct {
		protocols, streams, codecs, compressions int
		trailers, half, get, limit               int
	}
	rests := []rest{
		{0, 0, 0, 0, U, U, U, U},
		{0, 0, 0, 0, F, U, U, U},
		{1 << (c06Connect - 1), 0, 1 << 0, 1 << 0, U, U, F, F},
		{1<<(c06GRPC-1) | 1<<(c06GRPCWeb-1), 0, 0, 0, U, U, U, U},
		{0, 0, 0, 0, U, T, U, U},
		{0, 1<<0 | 1<<(c06Half-1), 1 << 1, 1<<1 | 1<<3, U, F, U, T},
	}
	var out []c06Config
	for _, re := range rests {
		for _, tr := range transports {
			c := c06Config{Versions: tr.versions, Protocols: re.protocols, Codecs: re.codecs,
				Compressions: re.compressions, StreamTypes: re.streams}
			c.Flags[c06FH2C], c.Flags[c06FTLS], c.Flags[c06FCerts] = tr.h2c, tr.tls, tr.certs
			c.Flags[c06FTrailers], c.Flags[c06FHalf], c.Flags[c06FGet], c.Flags[c06FLimit] = re.trailers, re.half, re.get, re.limit
			out = append(out, c)
		}
	}
	return out
}

// c06Enumerate calls visit for every configuration of the tier, in a fixed order,
// simplest first within each family. visit returns false to stop.
func c06Enumerate(thorough bool, visit func(family string, cfg *c06Config) bool) {
	// Family 0: the all-default configuration in its three forms.
	for _, form := range []int{2, 0, 1} {
		if !visit("default", &c06Config{Form: form}) {
			return
		}
	}

	// Order: the small families and the list families (D, B, C) come first so that a
	// budget cut under load only shortens the tail of the big feature product (A).

	// Family A (enumerated below, after C): features only. All subsets of versions
	// and protocols, stream-type subsets (thorough: all 32; quick: the 8 subsets of
	// {unary, half, full}), all 3^7 flag assignments; codecs/compressions fixed to a
	// single explicit choice (they multiply the result and interact with nothing
	// else; varied in family C and, thorough, left unset in a second pass).
	streamSubsets := []int{}
	for ss := 0; ss < 32; ss++ {
		if thorough || ss&^(1<<0|1<<(c06Half-1)|1<<(c06Full-1)) == 0 {
			streamSubsets = append(streamSubsets, ss)
		}
	}

	// Family D: repeated fields in descending order with a repeated element
	// (sets, not lists), and the YAML form of feature-only configurations.
	for vs := 0; vs < 8; vs++ {
		for ps := 0; ps < 8; ps++ {
			for _, ss := range []int{0, 1<<5 - 1} {
				for fi := 0; fi < 9; fi++ {
					for _, form := range []int{3, 4, 1} {
						cfg := c06Config{Versions: vs, Protocols: ps, StreamTypes: ss, Codecs: 1<<0 | 1<<1, Compressions: 1<<0 | 1<<1,
							Flags: c06FlagsFromIndex(fi), Form: form}
						if !visit("D-forms", &cfg) {
							return
						}
					}
				}
			}
		}
	}

	// Family B: include/exclude lists on representative feature bases.
	bases := c06Bases()
	entries := c06AllEntries()
	pairs := c06PairEntries()
	if !thorough {
		// bases[5]: versions [HTTP/1.1] with every flag absent, so that entries naming HTTP/2 or
		// HTTP/3 lie outside the listed versions while the flags they depend on are defaulted
		bases = []c06Config{bases[0], bases[3], bases[5], bases[6], bases[9], bases[18], bases[29], bases[36], bases[47]}
		pairs = pairs[:0]
		for i, e := range c06PairEntries() {
			if i%3 == 0 || e == (c06Entry{TLS: c06False, Certs: c06False}) || e.Codec == c06Text {
				pairs = append(pairs, e)
			}
		}
	}
	// Two (thorough: four) further bases whose codecs field is an ordered list with
	// the deprecated CODEC_TEXT in front of / between the codecs in use: an entry
	// that omits codec ranges over "the codecs the features support", which must
	// not depend on where the ignored value stands.
	all := c06Bases()
	bases = append(bases[:len(bases):len(bases)],
		c06WithCodecList(all[0], []int{c06Text, 1, 2}),
		c06WithCodecList(all[6], []int{1, c06Text, 2}))
	if thorough {
		bases = append(bases,
			c06WithCodecList(all[3], []int{c06Text, 2}),
			c06WithCodecList(all[9], []int{2, c06Text, 1}))
	}
	// the bases whose lists are also written in the other two ways: HTTP/1.1 only;
	// Connect only with one codec and one compression; HTTP/2+3 with stream types,
	// a codec and two compressions (thorough: every base that writes a list)
	listForms := make([]bool, len(bases))
	for bi := range bases {
		b := &bases[bi]
		plain := len(b.CodecList) == 0
		switch {
		case thorough:
			listForms[bi] = c06HasLists(b)
		case plain && b.Versions == 1<<0 && b.Protocols == 0,
			plain && b.Protocols == 1<<(c06Connect-1) && b.Flags[c06FTLS] == c06False,
			plain && b.Versions == 1<<1|1<<2 && b.StreamTypes != 0:
			listForms[bi] = true
		}
	}
	// (lists of two, G and H are small and come before the big one-entry product, so that
	// a budget cut under load does not reach them)
	// lists with two entries in total: include+include, include+exclude, exclude+exclude
	for _, e1 := range pairs {
		for _, e2 := range pairs {
			for bi := range bases {
				for shape := 0; shape < 3; shape++ {
					cfg := c06Clone(&bases[bi])
					switch shape {
					case 0:
						cfg.Include = []c06Entry{e1}
						cfg.Exclude = []c06Entry{e2}
					case 1:
						cfg.Include = []c06Entry{e1, e2}
					case 2:
						cfg.Exclude = []c06Entry{e1, e2}
					}
					if !visit("B-two-entries", &cfg) {
						return
					}
				}
			}
		}
	}
	// Family G: entries that name the deprecated CODEC_TEXT, every other field
	// independently omitted or given (up to entries that give all eight fields), as
	// the only include / exclude entry. Such an entry matches no case.
	{
		textBases := []c06Config{all[0], all[6], all[4]}
		if thorough {
			textBases = all
		}
		for ei, e := range c06TextEntries() {
			for bi := range textBases {
				for side := 0; side < 2; side++ {
					cfg := c06Clone(&textBases[bi])
					if side == 0 {
						cfg.Include = []c06Entry{e}
					} else {
						cfg.Exclude = []c06Entry{e}
					}
					forms := []int{0}
					if ei%7 == 0 {
						forms = []int{0, 1}
					}
					for _, form := range forms {
						cfg.Form = form
						if !visit("G-entries-with-deprecated-codec", &cfg) {
							return
						}
					}
				}
			}
		}
	}

	// Family H: one include entry naming a single value x one exclude entry that
	// gives only use_* flags x features that restrict an axis.
	if !c06OutsideFamily(thorough, func(cfg *c06Config) bool { return visit("H-include-outside-features-exclude-flags-only", cfg) }) {
		return
	}

	// lists of length 1, every entry
	for ei, e := range entries {
		for bi := range bases {
			for side := 0; side < 2; side++ {
				cfg := c06Clone(&bases[bi])
				if side == 0 {
					cfg.Include = []c06Entry{e}
				} else {
					cfg.Exclude = []c06Entry{e}
				}
				// the YAML form for a sub-family: every entry on the first base
				// and every 7th entry on the others
				forms := []int{0}
				if bi == 0 || ei%7 == 0 {
					forms = []int{0, 1}
				}
				// bases that write a repeated field: also with the lists re-ordered and
				// with repeated elements (an omitted field of an entry ranges over the
				// SET the list denotes)
				if listForms[bi] {
					forms = append(forms, 3, 4)
				}
				for _, form := range forms {
					cfg.Form = form
					if !visit("B-one-entry", &cfg) {
						return
					}
				}
			}
		}
	}
	// two includes and two excludes on the default and the no-H2C base (thorough)
	if thorough {
		small := pairs[:0:0]
		for i, e := range pairs {
			if i%3 == 0 {
				small = append(small, e)
			}
		}
		for _, bi := range []int{0, 1, 3, 6} {
			for _, i1 := range small {
				for _, i2 := range small {
					for _, x1 := range small {
						for _, x2 := range small {
							cfg := c06Clone(&bases[bi])
							cfg.Include = []c06Entry{i1, i2}
							cfg.Exclude = []c06Entry{x1, x2}
							if !visit("B-four-entries", &cfg) {
								return
							}
						}
					}
				}
			}
		}
	}

	// Family F: entries that name values OUTSIDE what the features list (version 2
	// with versions [1], gRPC with protocols [connect], a bidi stream type with
	// stream types [unary], ...) and entries that omit them, on every subset of
	// versions with the flags such an entry depends on absent / true / false: the
	// omitted fields of an entry range over the features, the named ones do not,
	// and the support flags keep their documented defaults whatever the lists say.
	{
		var fEntries []c06Entry
		for v := 0; v <= 3; v++ {
			for p := 0; p <= 3; p++ {
				for _, st := range []int{0, 1, c06Half, c06Full} {
					for tls := 0; tls < 3; tls++ {
						fEntries = append(fEntries, c06Entry{Version: v, Protocol: p, StreamType: st, TLS: tls})
					}
				}
			}
		}
		sort.SliceStable(fEntries, func(i, j int) bool { return c06SetFields(fEntries[i]) < c06SetFields(fEntries[j]) })
		protoChoices := []int{0, 1 << (c06Connect - 1)}
		streamChoices := []int{0, 1 << 0}
		// (half-duplex-over-HTTP/1.1, trailers): the two flags act on different entries
		// (stream type resp. protocol), so the quick tier varies them together
		halfTrailers := [][2]int{{c06Unset, c06Unset}, {c06True, c06False}}
		if thorough {
			protoChoices = []int{0, 1 << (c06Connect - 1), 1 << (c06GRPC - 1), 1<<(c06Connect-1) | 1<<(c06GRPCWeb-1)}
			streamChoices = []int{0, 1 << 0, 1<<0 | 1<<(c06Half-1) | 1<<(c06Full-1)}
			halfTrailers = nil
			for _, half := range []int{c06Unset, c06True, c06False} {
				for _, tr := range []int{c06Unset, c06True, c06False} {
					halfTrailers = append(halfTrailers, [2]int{half, tr})
				}
			}
		}
		for _, e := range fEntries {
			for vs := 0; vs < 8; vs++ {
				for _, ps := range protoChoices {
					for _, ss := range streamChoices {
						for h2c := 0; h2c < 3; h2c++ {
							for tls := 0; tls < 3; tls++ {
								for _, ht := range halfTrailers {
									for side := 0; side < 2; side++ {
										cfg := c06Config{Versions: vs, Protocols: ps, StreamTypes: ss, Codecs: 1 << 0, Compressions: 1 << 0}
										cfg.Flags[c06FH2C], cfg.Flags[c06FTLS], cfg.Flags[c06FHalf], cfg.Flags[c06FTrailers] = h2c, tls, ht[0], ht[1]
										if side == 0 {
											cfg.Include = []c06Entry{e}
										} else {
											cfg.Exclude = []c06Entry{e}
										}
										if !visit("F-entries-outside-features", &cfg) {
											return
										}
									}
								}
							}
						}
					}
				}
			}
		}
	}

	// Family C: codec and compression choices of the design (6 x 4) on all
	// version/protocol subsets with the transport flags.
	codecChoices := []int{0, 1 << 0, 1 << 1, 1<<0 | 1<<1, 1 << 2, 1<<0 | 1<<2}
	comprChoices := []int{0, 1 << 0, 1<<1 | 1<<3, 1<<6 - 1}
	if !thorough {
		codecChoices = []int{0, 1 << 2, 1<<0 | 1<<2}
		comprChoices = []int{0, 1<<1 | 1<<3}
	}
	for _, cd := range codecChoices {
		for _, cm := range comprChoices {
			for vs := 0; vs < 8; vs++ {
				for ps := 0; ps < 8; ps++ {
					for _, ss := range []int{0, 1<<0 | 1<<(c06Half-1) | 1<<(c06Full-1)} {
						for fi := 0; fi < 81; fi++ { // h2c, tls, certs, trailers
							for _, lim := range []int{c06Unset, c06False} {
								if !thorough && (fi%3 == 2 || lim == c06False) && vs != 0 {
									continue
								}
								cfg := c06Config{Versions: vs, Protocols: ps, StreamTypes: ss, Codecs: cd, Compressions: cm,
									Flags: c06FlagsFromIndex(fi)}
								cfg.Flags[c06FLimit] = lim
								if !visit("C-codecs-compressions", &cfg) {
									return
								}
							}
						}
					}
				}
			}
		}
	}

	// Family E: the codecs field as an ordered list. Every arrangement of every
	// subset of {proto, json, text} with at least two elements (12), two lists
	// with a repeated element, on all version/protocol subsets with the transport
	// flags; thorough: also with explicit compressions and as YAML.
	var codecLists [][]int
	for _, l := range [][]int{{1, 2}, {1, c06Text}, {2, c06Text}} {
		codecLists = append(codecLists, l, []int{l[1], l[0]})
	}
	for _, l := range [][]int{{1, 2, 3}, {1, 3, 2}, {2, 1, 3}, {2, 3, 1}, {3, 1, 2}, {3, 2, 1}} {
		codecLists = append(codecLists, l)
	}
	codecLists = append(codecLists, []int{c06Text, 1, c06Text, 2}, []int{1, c06Text, 1})
	comprChoicesE := []int{0}
	formsE := []int{0}
	if thorough {
		comprChoicesE = []int{0, 1<<1 | 1<<3}
		formsE = []int{0, 1}
	}
	for _, cl := range codecLists {
		for _, cm := range comprChoicesE {
			for vs := 0; vs < 8; vs++ {
				for ps := 0; ps < 8; ps++ {
					for _, ss := range []int{0, 1<<0 | 1<<(c06Half-1) | 1<<(c06Full-1)} {
						for fi := 0; fi < 81; fi++ { // h2c, tls, certs, trailers
							if !thorough && fi%3 == 2 && vs != 0 {
								continue
							}
							for _, form := range formsE {
								cfg := c06WithCodecList(c06Config{Versions: vs, Protocols: ps, StreamTypes: ss, Compressions: cm,
									Flags: c06FlagsFromIndex(fi), Form: form}, cl)
								if !visit("E-codec-order", &cfg) {
									return
								}
							}
						}
					}
				}
			}
		}
	}

	// Family A, the product itself.
	for fi := 0; fi < 2187; fi++ {
		flags := c06FlagsFromIndex(fi)
		for vs := 0; vs < 8; vs++ {
			for ps := 0; ps < 8; ps++ {
				for _, ss := range streamSubsets {
					cfg := c06Config{Versions: vs, Protocols: ps, StreamTypes: ss, Codecs: 1 << 0, Compressions: 1 << 0, Flags: flags}
					if !visit("A-features", &cfg) {
						return
					}
				}
			}
		}
	}
	// Family A again (thorough, last): the same product with codecs and compressions left
	// to their defaults (results four times as large), over the 8 stream-type subsets of
	// {unary, half, full}.
	if thorough {
		for fi := 0; fi < 2187; fi++ {
			flags := c06FlagsFromIndex(fi)
			for vs := 0; vs < 8; vs++ {
				for ps := 0; ps < 8; ps++ {
					for _, ss := range streamSubsets {
						if ss&^(1<<0|1<<(c06Half-1)|1<<(c06Full-1)) != 0 {
							continue
						}
						cfg := c06Config{Versions: vs, Protocols: ps, StreamTypes: ss, Flags: flags}
						if !visit("A-features-default-codecs", &cfg) {
							return
						}
					}
				}
			}
		}
	}
}

// ---------------------------------------------------------------------------
// Test
// ---------------------------------------------------------------------------

func c06Describe(cfg *c06Config, got *c06Got) string {
	data := c06Serialize(cfg)
	text := string(data)
	if cfg.Form == 2 {
		text = "(empty input)"
	}
	obs := ""
	switch {
	case got.Panic != "":
		obs = "panic: " + got.Panic
	case got.Err != "":
		obs = "error: " + got.Err
	default:
		obs = fmt.Sprintf("%d cases", got.N)
	}
	return fmt.Sprintf("parseConfig input:\n%s\nobserved: %s", strings.TrimSpace(text), obs)
}

func c06Report(r *rep.Report, kr *c06Keyer, cfg *c06Config, got *c06Got, fs []c06Finding) {
	flat := func(s string) string { return strings.ReplaceAll(s, "\n", " ; ") }
	for _, f := range fs {
		key, m := kr.key(r, cfg, f.Kind)
		if m == cfg {
			r.Violate(key, f.Detail+" | "+flat(c06Describe(cfg, got)), *cfg)
			continue
		}
		// describe the smallest configuration showing this kind; it is also the replay value
		mg := c06Run(m)
		mfs, _ := c06Judge(m, &mg)
		md := "(not shown by the minimised configuration on re-run)"
		for _, mf := range mfs {
			if mf.Kind == f.Kind {
				md = mf.Detail
			}
		}
		r.Violate(key, md+" | "+flat(c06Describe(m, &mg))+" | first met at: "+flat(c06Describe(cfg, got))+" -> "+f.Detail, *m)
	}
}

func TestVerifC06(t *testing.T) {
	r := rep.New("c06-enum")
	defer r.Write()
	r.Rule = "odometer over Config messages (families: default; A all subsets of versions x protocols x stream types x 3^7 flags; " +
		"C codec/compression choices; E every ordered codecs list over {proto, json, text}; D reordered/duplicated lists and YAML form; B include/exclude lists of 1, 2 and 4 entries " +
		"over 7,776 entries on representative feature bases, the bases that write a repeated field also with every list in descending order + first element repeated and with every element written twice; " +
		"F one include/exclude entry over version x protocol x {any, unary, half, full} x use_tls on every subset of versions x protocol/stream-type lists x tri-states of the flags the entry depends on, " +
		"so that entries name values outside the listed ones; G every entry with codec: CODEC_TEXT, each other field independently omitted or given up to all eight, as the only include/exclude entry - it matches no case; " +
		"H one include entry naming a single value of any enum field x one exclude entry giving only use_* flags (all 27) x features restricting one axis / all / none, " +
		"so that cases included outside the features meet an exclude entry whose omitted fields range over the features only); a configuration whose lists are written differently must have the outcome of the plainly written one; every configuration is distinct by construction; counted as " +
		"non-trivial when the reference model yields a case set (not a feature-level contradiction), re-runs of the same " +
		"configuration in another serialised form are evaluations but not counted as distinct"

	// parseConfig warns about CODEC_TEXT on stderr for every such configuration
	if devnull, err := os.OpenFile(os.DevNull, os.O_WRONLY, 0); err == nil {
		saved := os.Stderr
		os.Stderr = devnull
		defer func() { os.Stderr = saved; devnull.Close() }()
	}

	kr := &c06Keyer{known: map[string][]c06Config{}}

	if in := rep.ReplayInput(); in != nil {
		var rec struct {
			Key    string    `json:"key"`
			Replay c06Config `json:"replay"`
		}
		if err := json.Unmarshal(in, &rec); err != nil {
			t.Fatalf("replay file: %v", err)
		}
		cfg := rec.Replay
		if len(cfg.CodecList) > 0 {
			cfg.Codecs = c06MaskOf(cfg.CodecList)
		}
		got := c06Run(&cfg)
		fs, class := c06Judge(&cfg, &got)
		fmt.Printf("C06 replay of %s\n%s\nclass: %s\n", rec.Key, c06Describe(&cfg, &got), class)
		sp := c06Spec(&cfg, c06Reading{})
		fmt.Printf("Spec (primary reading): must-error=%q may-error=%q cases=%d\n", sp.Must, sp.May, sp.Set.count())
		for _, f := range fs {
			fmt.Printf("finding %s: %s\n", f.Kind, f.Detail)
		}
		r.Eval(1)
		r.NonTrivial("")
		r.NonTrivial("")
		r.Outcome(class)
		r.Sample(cfg)
		c06Report(r, kr, &cfg, &got, fs)
		return
	}

	deadline := rep.Deadline()
	var k, mine int64
	sampled := map[string]int{}
	c06Enumerate(rep.Thorough(), func(family string, cfg *c06Config) bool {
		k++
		if !r.Mine(k) {
			return true
		}
		mine++
		if mine&0xff == 0 && !deadline.IsZero() && time.Now().After(deadline) {
			r.NotExhaustive(fmt.Sprintf("budget reached in family %s after %d configurations of the enumeration order", family, k))
			return false
		}
		got := c06Run(cfg)
		fs, class := c06Judge(cfg, &got)
		r.Eval(1)
		r.Count("family:"+family, 1)
		if cfg.Form == 0 || cfg.Form == 3 {
			if !strings.HasPrefix(class, "error-required:features:") {
				r.NonTrivial("")
			}
		}
		r.Outcome(class)
		if got.Err == "" && got.Panic == "" {
			r.Count("cases-compared", int64(got.N))
		}
		if sampled[family] < 1 && (got.Err == "" || len(cfg.Include)+len(cfg.Exclude) > 0) && k > 500 {
			sampled[family]++
			r.Sample(map[string]any{"family": family, "input": string(c06Serialize(cfg)), "class": class, "cases": got.N, "error": got.Err})
		}
		if len(fs) > 0 {
			c06Report(r, kr, cfg, &got, fs)
		}
		return true
	})
	if r.Shard == 0 {
		r.Count("configurations-in-enumeration-order", k)
	}
}
