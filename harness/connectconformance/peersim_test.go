package connectconformance

// PEERSIM — run() against scripted in-process peers (DESIGN §2.3). The hook
// verifStarterFor (build tag verif) substitutes every process run() would
// start. A psWorld keeps a log with a logical clock of everything the peers
// see, which the C04/C05 oracles judge.

import (
	"context"
	"fmt"
	"sort"
	"strings"
	"sync"

	conformancev1 "connectrpc.com/conformance/internal/gen/proto/go/connectrpc/conformance/v1"
	"connectrpc.com/conformance/internal/verif/gate"
)

type psServerRec struct {
	idx      int
	kind     string // "cmd", "reference-server", "grpc-reference-server"
	srv      *c11Server
	startSeq int
	failed   bool // scripted start error
}

type psRecv struct {
	seq        int
	clientKind string
	req        *conformancev1.ClientCompatRequest
	live       []int // indices of server records alive at that instant
}

type psWorld struct {
	x  *gate.Exec
	mu sync.Mutex

	seq     int
	servers []*psServerRec
	clients []*fakeProc
	ckinds  []string
	recvs   []psRecv
	maxLive int

	// scripts
	serverScript func(k int, kind string) c11Scenario // k-th started server (0-based, over all kinds)
	clientScript func(k int, kind string) fakeScript  // k-th started client
	// answer decides the response of a client for the j-th request it receives (j over this client)
	answer func(clientKind string, j int, req *conformancev1.ClientCompatRequest) *conformancev1.ClientCompatResponse
}

func (w *psWorld) liveLocked() []int {
	var out []int
	for _, s := range w.servers {
		if s.failed {
			continue
		}
		if !s.srv.hasExited() {
			out = append(out, s.idx)
		}
	}
	return out
}

func (w *psWorld) noteLive() {
	w.mu.Lock()
	n := len(w.liveLocked())
	if n > w.maxLive {
		w.maxLive = n
	}
	w.mu.Unlock()
}

// install sets the hook; the returned function removes it.
func (w *psWorld) install() func() {
	verifStarterFor = func(argv []string) processStarter {
		kind := argv[0]
		switch kind {
		case "fake-client", "reference-client", "grpc-reference-client":
			return func(ctx context.Context, pipeStderr bool) (*process, error) {
				w.mu.Lock()
				k := len(w.clients)
				script := fakeScript{Fault: "none"}
				if w.clientScript != nil {
					script = w.clientScript(k, kind)
				}
				var fp *fakeProc
				j := 0
				index := map[*conformancev1.ClientCompatRequest]int{}
				script.OnReceive = func(req *conformancev1.ClientCompatRequest) {
					w.mu.Lock()
					w.seq++
					w.recvs = append(w.recvs, psRecv{seq: w.seq, clientKind: kind, req: req, live: w.liveLocked()})
					index[req] = j
					j++
					w.mu.Unlock()
				}
				script.Answer = func(req *conformancev1.ClientCompatRequest) *conformancev1.ClientCompatResponse {
					w.mu.Lock()
					jj := index[req]
					w.mu.Unlock()
					if w.answer != nil {
						return w.answer(kind, jj, req)
					}
					return &conformancev1.ClientCompatResponse{TestName: req.TestName, Result: &conformancev1.ClientCompatResponse_Response{Response: &conformancev1.ClientResponseResult{}}}
				}
				fp = newFakeProc(w.x, script)
				fp.anonymous = true
				w.clients = append(w.clients, fp)
				w.ckinds = append(w.ckinds, kind)
				w.mu.Unlock()
				return fp.starter()(ctx, pipeStderr)
			}
		case "fake-server", "reference-server", "grpc-reference-server":
			return func(ctx context.Context, pipeStderr bool) (*process, error) {
				w.mu.Lock()
				k := len(w.servers)
				sc := c11Scenario{StdinErr: "none", Resp: "ok", ExitAfter: -1, SendErrAt: -1}
				if w.serverScript != nil {
					sc = w.serverScript(k, kind)
				}
				srv := &c11Server{x: w.x, sc: sc, outNotify: make(chan struct{}), errNotify: make(chan struct{}), done: make(chan struct{}), port: uint32(20000 + k)}
				srv.clientSeen = func() int { return 0 }
				w.seq++
				rec := &psServerRec{idx: k, kind: kind, srv: srv, startSeq: w.seq, failed: sc.StartErr}
				w.servers = append(w.servers, rec)
				w.mu.Unlock()
				p, err := srv.starter()(ctx, pipeStderr)
				w.noteLive()
				return p, err
			}
		}
		return nil
	}
	return func() { verifStarterFor = nil }
}

func (w *psWorld) stateKey() string {
	w.mu.Lock()
	defer w.mu.Unlock()
	var sb strings.Builder
	fmt.Fprintf(&sb, "world seq=%d maxlive=%d|", w.seq, w.maxLive)
	for _, s := range w.servers {
		sb.WriteString(s.kind)
		sb.WriteString("{")
		sb.WriteString(s.srv.stateKey())
		sb.WriteString("}")
	}
	for i, c := range w.clients {
		sb.WriteString(w.ckinds[i])
		sb.WriteString("{")
		sb.WriteString(c.stateKey())
		sb.WriteString("}")
	}
	for _, r := range w.recvs {
		fmt.Fprintf(&sb, "r(%s,%v)", r.req.TestName, r.live)
	}
	return sb.String()
}

func (w *psWorld) killAll() {
	w.mu.Lock()
	srvs := append([]*psServerRec(nil), w.servers...)
	cls := append([]*fakeProc(nil), w.clients...)
	w.mu.Unlock()
	for _, s := range srvs {
		s.srv.exit()
	}
	for _, c := range cls {
		c.kill()
	}
}

// resultsKey renders a testResults for the state cache.
func psResultsKey(results *testResults) string {
	if results == nil {
		return "results=nil"
	}
	names := make([]string, 0, len(results.outcomes))
	for k, o := range results.outcomes {
		names = append(names, fmt.Sprintf("%s=%v/%v", k, o.setupError, o.actualFailure))
	}
	sort.Strings(names)
	sbn := make([]string, 0, len(results.serverSideband))
	for k, v := range results.serverSideband {
		sbn = append(sbn, k+"="+v)
	}
	sort.Strings(sbn)
	return fmt.Sprintf("res=%v sb=%v mu=%v", names, sbn, mutexHeld(&results.mu))
}

// psUnarySuite builds a suite of unary cases with an explicit expected response.
func psUnarySuite(name string, mode conformancev1.TestSuite_TestMode, protocols []conformancev1.Protocol, caseNames ...string) *conformancev1.TestSuite {
	s := &conformancev1.TestSuite{Name: name, Mode: mode, RelevantProtocols: protocols}
	for _, cn := range caseNames {
		s.TestCases = append(s.TestCases, &conformancev1.TestCase{
			Request: &conformancev1.ClientCompatRequest{
				TestName:   cn,
				StreamType: conformancev1.StreamType_STREAM_TYPE_UNARY,
			},
			ExpectedResponse: &conformancev1.ClientResponseResult{Payloads: []*conformancev1.ConformancePayload{{Data: []byte("ok")}}},
		})
	}
	return s
}

func psPassResponse(req *conformancev1.ClientCompatRequest, feedback ...string) *conformancev1.ClientCompatResponse {
	return &conformancev1.ClientCompatResponse{TestName: req.TestName, Result: &conformancev1.ClientCompatResponse_Response{Response: &conformancev1.ClientResponseResult{
		Payloads: []*conformancev1.ConformancePayload{{Data: []byte("ok")}}, Feedback: feedback}}}
}

func psAnswer(kind string, req *conformancev1.ClientCompatRequest) *conformancev1.ClientCompatResponse {
	fb := strings.HasSuffix(kind, "+fb")
	kind = strings.TrimSuffix(kind, "+fb")
	var feedback []string
	if fb {
		feedback = []string{"client feedback for " + req.TestName}
	}
	switch kind {
	case "pass":
		return psPassResponse(req, feedback...)
	case "mismatch":
		return &conformancev1.ClientCompatResponse{TestName: req.TestName, Result: &conformancev1.ClientCompatResponse_Response{Response: &conformancev1.ClientResponseResult{
			Payloads: []*conformancev1.ConformancePayload{{Data: []byte("wrong")}}, Feedback: feedback}}}
	case "clienterr":
		return &conformancev1.ClientCompatResponse{TestName: req.TestName, Result: &conformancev1.ClientCompatResponse_Error{Error: &conformancev1.ClientErrorResult{Message: psClientErrText()}}}
	case "empty":
		return &conformancev1.ClientCompatResponse{TestName: req.TestName}
	case "never":
		return nil
	}
	panic("bad answer kind " + kind)
}

// psClientErrMsg selects the text a scripted client puts into a client-reported error
// ("" = an ordinary sentence): the error member of the result oneof is what makes it an
// error, whatever the text.
var psClientErrMsg string

func psClientErrText() string {
	switch psClientErrMsg {
	case "":
		return "client could not issue RPC"
	case "empty":
		return ""
	case "blank":
		return " \n\t\n"
	case "multiline":
		return "first line\n\n  second line\n"
	}
	panic("bad client error text " + psClientErrMsg)
}
