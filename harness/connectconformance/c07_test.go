package connectconformance

// C07 — suite expansion selects, names and populates permutations per suite
// directives. Bounded-exhaustive ENUM harness around the real
// newTestCaseLibrary / casesByServer / allPermutations / filterGRPCImplTestCases;
// phase I reaches newTestCaseLibrary the way Run does, through suite files,
// testsuites.LoadTestSuitesFromFiles and parseTestSuites (c07Input.Route).
//
// The reference model below (c07Exists, c07Name, c07Default*, c07GRPC*) is
// written from the property statement, proto/connectrpc/conformance/v1/suite.proto,
// client_compat.proto, docs/authoring_test_cases.md and
// docs/configuring_and_running_tests.md ("Test Case Permutations", "gRPC
// Implementations", testing/grpc-*-config.yaml for what the gRPC peers support).
// It works on its own plain types (c07Suite, c07CC) with its own enum-name
// tables; nothing in it calls into test_case_library.go.

import (
	"encoding/json"
	"fmt"
	"os"
	"path"
	"path/filepath"
	"sort"
	"strconv"
	"strings"
	"testing"
	"time"

	"connectrpc.com/conformance/internal/app/connectconformance/testsuites"
	conformancev1 "connectrpc.com/conformance/internal/gen/proto/go/connectrpc/conformance/v1"
	"connectrpc.com/conformance/internal/verif/rep"
	"google.golang.org/protobuf/encoding/protojson"
)

// ---------------------------------------------------------------------------
// plain input types (JSON-able: they are the replay value)

type c07TC struct {
	Name    string `json:"name"`
	Stream  int32  `json:"stream"`
	Service string `json:"service,omitempty"`
	Method  string `json:"method,omitempty"`
	// Prefill: index into c07Prefills (0 = none): runner-owned request fields
	// that the suite author filled in although the runner populates them.
	Prefill int `json:"prefill,omitempty"`
	// Request-level fields of the test-case template (phase G). Get:
	// use_get_http_method. EmptyService / EmptyMethod: the optional field is
	// PRESENT with the empty string (Service / Method == ""), the third state of
	// an optional scalar besides absent and set.
	Get          bool `json:"use_get_http_method,omitempty"`
	EmptyService bool `json:"service_present_but_empty,omitempty"`
	EmptyMethod  bool `json:"method_present_but_empty,omitempty"`
}

type c07Suite struct {
	File         string  `json:"file"`
	Name         string  `json:"name"`
	Mode         int32   `json:"mode"`
	Protocols    []int32 `json:"protocols,omitempty"`
	Versions     []int32 `json:"versions,omitempty"`
	Codecs       []int32 `json:"codecs,omitempty"`
	Compressions []int32 `json:"compressions,omitempty"`
	TLS          bool    `json:"relies_on_tls,omitempty"`
	Certs        bool    `json:"relies_on_tls_client_certs,omitempty"`
	Get          bool    `json:"relies_on_connect_get,omitempty"`
	Limit        bool    `json:"relies_on_message_receive_limit,omitempty"`
	Cases        []c07TC `json:"cases"`
}

// c07CC mirrors one resolved config case (without connect_version_mode, which
// is outside the alphabet: see DESIGN §4 C07 N).
type c07CC struct {
	V     int32 `json:"v"`
	P     int32 `json:"p"`
	C     int32 `json:"c"`
	Z     int32 `json:"z"`
	S     int32 `json:"s"`
	TLS   bool  `json:"tls,omitempty"`
	Certs bool  `json:"certs,omitempty"`
	Get   bool  `json:"get,omitempty"`
	Limit bool  `json:"limit,omitempty"`
}

type c07Input struct {
	Suites  []c07Suite `json:"suites"`
	CfgSet  string     `json:"cfg_set"`         // label of a named set, or "single"
	Cases   []c07CC    `json:"cases,omitempty"` // explicit members when the set is not a named one
	RunMode int32      `json:"run_mode"`
	// Shapes: an element of phase F (pairs of suites with path-shaped names),
	// judged by c07EvaluateShapes.
	Shapes bool `json:"shapes,omitempty"`
	// Route (phase I): how the suites reach newTestCaseLibrary. "" = the suite
	// messages are handed over directly, keyed by Suites[i].File; "parse" = each
	// suite is rendered as a suite file and the map (File -> content) goes through
	// the real parseTestSuites; "files" = the suite files are written to disk under
	// a scratch directory at the relative paths Suites[i].File and go through the
	// real testsuites.LoadTestSuitesFromFiles and parseTestSuites, as Run does for
	// --test-file.
	Route string `json:"route,omitempty"`
	dir   string // scratch directory holding the written suite files (route "files")
}

// cleanup removes the suite files written for the route "files".
func (in *c07Input) cleanup() {
	if in.dir != "" {
		_ = os.RemoveAll(in.dir)
		in.dir = ""
	}
}

type c07CfgSet struct {
	Label  string
	Mirror []c07CC
	Real   []configCase
}

// ---------------------------------------------------------------------------
// reference model

const (
	c07ModeAny    = 0
	c07ModeClient = 1
	c07ModeServer = 2

	c07Connect = 1
	c07GRPC    = 2
	c07GRPCWeb = 3

	c07DefaultService = "connectrpc.conformance.v1.ConformanceService"
)

//nolint:gochecknoglobals
var (
	c07ProtocolNames    = map[int32]string{1: "PROTOCOL_CONNECT", 2: "PROTOCOL_GRPC", 3: "PROTOCOL_GRPC_WEB"}
	c07CodecNames       = map[int32]string{1: "CODEC_PROTO", 2: "CODEC_JSON", 3: "CODEC_TEXT"}
	c07CompressionNames = map[int32]string{
		1: "COMPRESSION_IDENTITY", 2: "COMPRESSION_GZIP", 3: "COMPRESSION_BR",
		4: "COMPRESSION_ZSTD", 5: "COMPRESSION_DEFLATE", 6: "COMPRESSION_SNAPPY",
	}
	// docs/authoring_test_cases.md, table "Stream Type | Method"
	c07DefaultMethods = map[int32]string{1: "Unary", 2: "ClientStream", 3: "ServerStream", 4: "BidiStream", 5: "BidiStream"}
)

// suite.proto: "If non-empty, the X to which this suite applies. If empty,
// this suite applies to all X."
func c07Admits(relevant []int32, v int32) bool {
	if len(relevant) == 0 {
		return true
	}
	for _, x := range relevant {
		if x == v {
			return true
		}
	}
	return false
}

// c07Exists is the statement's iff.
func c07Exists(s *c07Suite, tc *c07TC, cc c07CC, runMode int32) bool {
	modeOK := s.Mode == c07ModeAny || s.Mode == runMode
	relevantOK := c07Admits(s.Protocols, cc.P) && c07Admits(s.Versions, cc.V) &&
		c07Admits(s.Codecs, cc.C) && c07Admits(s.Compressions, cc.Z)
	tlsOK := !s.TLS || cc.TLS // a suite relying on TLS meets only TLS cases
	exactOK := cc.Certs == s.Certs && cc.Get == s.Get && cc.Limit == s.Limit
	return modeOK && relevantOK && tlsOK && exactOK && tc.Stream == cc.S
}

// An axis is left open unless the suite pins it to one value.
func c07Open(relevant []int32) bool {
	seen := map[int32]bool{}
	for _, v := range relevant {
		seen[v] = true
	}
	return len(seen) != 1
}

// c07Name: docs/configuring_and_running_tests.md "Test Case Permutations":
// suite name, then one "Axis:value" component per open axis (HTTPVersion,
// Protocol, Codec, Compression, TLS, in that order), then the test case name.
func c07Name(s *c07Suite, tc *c07TC, cc c07CC) string {
	parts := []string{s.Name}
	if c07Open(s.Versions) {
		parts = append(parts, fmt.Sprintf("HTTPVersion:%d", cc.V))
	}
	if c07Open(s.Protocols) {
		parts = append(parts, "Protocol:"+c07ProtocolNames[cc.P])
	}
	if c07Open(s.Codecs) {
		parts = append(parts, "Codec:"+c07CodecNames[cc.C])
	}
	if c07Open(s.Compressions) {
		parts = append(parts, "Compression:"+c07CompressionNames[cc.Z])
	}
	if !s.TLS { // TLS is pinned only by relies_on_tls
		if cc.TLS {
			parts = append(parts, "TLS:true")
		} else {
			parts = append(parts, "TLS:false")
		}
	}
	parts = append(parts, tc.Name)
	return strings.Join(parts, "/")
}

// c07ServiceMethod: what the permutation's request must carry. The statement:
// "a default service and method for its stream type"; docs/authoring_test_cases.md:
// "optional as a pair ... can both be omitted or must be specified together. If
// they are omitted, the runner will auto-populate them"; client_compat.proto:
// "If specified, method must also be specified. If not specified, defaults to".
//
//   - both non-empty: the given pair;
//   - neither names anything (absent or present-but-empty, in any of the four
//     combinations): the defaults. Whether a present-but-empty field counts as
//     "specified" the documents do not say, so refusing such a suite is accepted
//     as well (mayReject) - but a permutation, if there is one, carries the defaults;
//   - exactly one non-empty: "must be specified together", a refusal is expected;
//     the documents do not say what else could happen, so if the suite loads the
//     only demand is that service and method are not empty (loose).
func c07ServiceMethod(tc *c07TC) (service, method string, loose, mayReject bool) {
	switch {
	case tc.Service != "" && tc.Method != "":
		return tc.Service, tc.Method, false, false
	case tc.Service == "" && tc.Method == "":
		return c07DefaultService, c07DefaultMethods[tc.Stream], false, tc.EmptyService || tc.EmptyMethod
	}
	return "", "", true, true
}

// What the grpc-go based peers can do: testing/grpc-impls-config.yaml (HTTP/2,
// gRPC, proto, default compressions = identity+gzip, no TLS) for client and
// server; testing/grpc-web-server-impl-config.yaml (HTTP/1.1 and HTTP/2,
// gRPC-Web, proto, no TLS) in addition for the server.
func c07GRPCApplies(cc c07CC, clientIsGRPC, serverIsGRPC bool) bool {
	if cc.TLS || cc.C != 1 || (cc.Z != 1 && cc.Z != 2) {
		return false
	}
	grpcOverH2 := cc.P == c07GRPC && cc.V == 2
	grpcWeb := cc.P == c07GRPCWeb && (cc.V == 1 || cc.V == 2)
	if clientIsGRPC {
		return grpcOverH2
	}
	if serverIsGRPC {
		return grpcOverH2 || grpcWeb
	}
	return false
}

// suite.proto: relies_on_tls_client_certs "Should only be true if relies_on_tls
// is also true"; a suite relying on Connect GET that is not restricted to the
// Connect protocol is the second form the runner refuses. For both the
// statement is silent on whether the load fails or the iff applies: either
// answer is accepted.
func c07Misconfigured(s *c07Suite) bool {
	if s.Certs && !s.TLS {
		return true
	}
	if s.Get && !(len(s.Protocols) > 0 && !c07Open(s.Protocols) && s.Protocols[0] == c07Connect) {
		return true
	}
	return false
}

type c07Perm struct {
	CC      c07CC
	Service string
	Method  string
	Loose   bool // service / method: any non-empty pair (see c07ServiceMethod)
	Stream  int32
	Simple  string
}

type c07ModelResult struct {
	Perms       map[string]c07Perm
	Ambiguous   bool // the documented naming scheme itself yields a collision (same suite name twice, ...)
	MayReject   bool // a misconfigured suite or duplicate suite names: an error is acceptable
	NSelective  int  // number of (test, config case) pairs rejected by the iff
	NCandidates int
}

func c07Model(in *c07Input, cases []c07CC) c07ModelResult {
	res := c07ModelResult{Perms: map[string]c07Perm{}}
	names := map[string]bool{}
	for i := range in.Suites {
		s := &in.Suites[i]
		if names[s.Name] {
			res.MayReject = true // docs: the suite name "should be unique across all suites"
		}
		names[s.Name] = true
		if c07Misconfigured(s) {
			res.MayReject = true
		}
		for j := range s.Cases {
			tc := &s.Cases[j]
			svc, method, loose, mayReject := c07ServiceMethod(tc)
			if mayReject {
				res.MayReject = true
			}
			for _, cc := range cases {
				res.NCandidates++
				if !c07Exists(s, tc, cc, in.RunMode) {
					res.NSelective++
					continue
				}
				name := c07Name(s, tc, cc)
				if _, dup := res.Perms[name]; dup {
					res.Ambiguous = true
				}
				res.Perms[name] = c07Perm{CC: cc, Service: svc, Method: method, Loose: loose, Stream: tc.Stream, Simple: tc.Name}
			}
		}
	}
	return res
}

// ---------------------------------------------------------------------------
// pre-filled runner-owned request fields
//
// client_compat.proto ("fields 2 - 10 ... are automatically populated by the
// test runner") and docs/authoring_test_cases.md ("should not be specified in
// test cases because they are automatically populated by the test runner":
// http_version, protocol, codec, compression, server_tls_cert,
// client_tls_creds) make these fields the runner's. A suite that fills them in
// anyway is unusual but loads; the statement says the permutation's request
// carries *the config case's* markers, so whatever the author put there must
// not survive. The templates use values on both ends of every enum so that for
// every config case at least one template differs from it in every field.

type c07Prefill struct {
	Label      string
	Creds      bool // client_tls_creds {cert, key}
	EmptyCreds bool // client_tls_creds present but empty (still "present")
	ServerCert bool // server_tls_cert
	V, P, C, Z int32
	Limit      uint32
}

//nolint:gochecknoglobals
var c07Prefills = []c07Prefill{
	0: {Label: "none"},
	1: {Label: "client-creds", Creds: true},
	2: {Label: "server-cert", ServerCert: true},
	3: {Label: "server-cert+client-creds", ServerCert: true, Creds: true},
	4: {Label: "low-markers", V: 1, P: 1, C: 1, Z: 1, Limit: 1},
	5: {Label: "high-markers", V: 3, P: 3, C: 3, Z: 6, Limit: 4000000000},
	6: {Label: "everything-low", ServerCert: true, Creds: true, V: 1, P: 1, C: 1, Z: 1, Limit: 1},
	7: {Label: "everything-high", ServerCert: true, Creds: true, V: 3, P: 3, C: 3, Z: 6, Limit: 4000000000},
	8: {Label: "empty-client-creds", EmptyCreds: true},
	9: {Label: "mid-markers+client-creds", Creds: true, V: 2, P: 2, C: 2, Z: 2, Limit: 204800},
}

func (pf c07Prefill) apply(req *conformancev1.ClientCompatRequest) {
	if pf.Creds {
		req.ClientTlsCreds = &conformancev1.TLSCreds{Cert: []byte("author-cert"), Key: []byte("author-key")}
	}
	if pf.EmptyCreds {
		req.ClientTlsCreds = &conformancev1.TLSCreds{}
	}
	if pf.ServerCert {
		req.ServerTlsCert = []byte("author-server-cert")
	}
	req.HttpVersion = conformancev1.HTTPVersion(pf.V)
	req.Protocol = conformancev1.Protocol(pf.P)
	req.Codec = conformancev1.Codec(pf.C)
	req.Compression = conformancev1.Compression(pf.Z)
	req.MessageReceiveLimit = pf.Limit
}

func (in *c07Input) hasPrefill() bool {
	for i := range in.Suites {
		for j := range in.Suites[i].Cases {
			if in.Suites[i].Cases[j].Prefill != 0 {
				return true
			}
		}
	}
	return false
}

// stripped returns the same input with every pre-filled field left out.
func (in *c07Input) stripped() *c07Input {
	out := *in
	out.dir = "" // other file contents
	out.Suites = make([]c07Suite, len(in.Suites))
	for i := range in.Suites {
		out.Suites[i] = in.Suites[i]
		out.Suites[i].Cases = make([]c07TC, len(in.Suites[i].Cases))
		for j, tc := range in.Suites[i].Cases {
			tc.Prefill = 0
			out.Suites[i].Cases[j] = tc
		}
	}
	return &out
}

// ---------------------------------------------------------------------------
// driving the real code

func c07Enums[T ~int32](vals []int32) []T {
	if len(vals) == 0 {
		return nil
	}
	out := make([]T, len(vals))
	for i, v := range vals {
		out[i] = T(v)
	}
	return out
}

func (s *c07Suite) toProto() *conformancev1.TestSuite {
	suite := &conformancev1.TestSuite{
		Name:                        s.Name,
		Mode:                        conformancev1.TestSuite_TestMode(s.Mode),
		RelevantProtocols:           c07Enums[conformancev1.Protocol](s.Protocols),
		RelevantHttpVersions:        c07Enums[conformancev1.HTTPVersion](s.Versions),
		RelevantCodecs:              c07Enums[conformancev1.Codec](s.Codecs),
		RelevantCompressions:        c07Enums[conformancev1.Compression](s.Compressions),
		ReliesOnTls:                 s.TLS,
		ReliesOnTlsClientCerts:      s.Certs,
		ReliesOnConnectGet:          s.Get,
		ReliesOnMessageReceiveLimit: s.Limit,
	}
	for i := range s.Cases {
		tc := &s.Cases[i]
		req := &conformancev1.ClientCompatRequest{
			TestName:   tc.Name,
			StreamType: conformancev1.StreamType(tc.Stream),
		}
		if tc.Service != "" || tc.EmptyService {
			svc := tc.Service
			req.Service = &svc
		}
		if tc.Method != "" || tc.EmptyMethod {
			m := tc.Method
			req.Method = &m
		}
		req.UseGetHttpMethod = tc.Get
		if tc.Prefill > 0 && tc.Prefill < len(c07Prefills) {
			c07Prefills[tc.Prefill].apply(req)
		}
		suite.TestCases = append(suite.TestCases, &conformancev1.TestCase{Request: req})
	}
	return suite
}

func (cc c07CC) real() configCase {
	return configCase{
		Version:                conformancev1.HTTPVersion(cc.V),
		Protocol:               conformancev1.Protocol(cc.P),
		Codec:                  conformancev1.Codec(cc.C),
		Compression:            conformancev1.Compression(cc.Z),
		StreamType:             conformancev1.StreamType(cc.S),
		UseTLS:                 cc.TLS,
		UseTLSClientCerts:      cc.Certs,
		UseConnectGET:          cc.Get,
		UseMessageReceiveLimit: cc.Limit,
	}
}

func c07Mirror(c configCase) c07CC {
	return c07CC{
		V: int32(c.Version), P: int32(c.Protocol), C: int32(c.Codec), Z: int32(c.Compression), S: int32(c.StreamType),
		TLS: c.UseTLS, Certs: c.UseTLSClientCerts, Get: c.UseConnectGET, Limit: c.UseMessageReceiveLimit,
	}
}

func c07NewSet(label string, mirror []c07CC) *c07CfgSet {
	set := &c07CfgSet{Label: label, Mirror: mirror, Real: make([]configCase, len(mirror))}
	for i, cc := range mirror {
		set.Real[i] = cc.real()
	}
	return set
}

// c07SuiteFile renders a suite as the content of a suite file. The files are
// YAML; JSON is a subset of YAML, and the canonical JSON form of the suite
// message (field and enum names from the generated code) is used so that every
// field of the alphabet - present-but-empty optional strings, pre-filled bytes
// fields - is carried without a hand-written encoder.
func c07SuiteFile(s *c07Suite) ([]byte, error) {
	return protojson.MarshalOptions{Multiline: true, Indent: "  "}.Marshal(s.toProto())
}

// c07LoadSuites brings the suites of the input into the form newTestCaseLibrary
// takes, along the input's route. variant permutes the order in which the paths
// are given.
func c07LoadSuites(in *c07Input, variant int) (map[string]*conformancev1.TestSuite, error) {
	if in.Route == "" {
		suites := make(map[string]*conformancev1.TestSuite, len(in.Suites))
		for i := range in.Suites {
			suites[in.Suites[i].File] = in.Suites[i].toProto()
		}
		return suites, nil
	}
	contents := make([][]byte, len(in.Suites))
	for i := range in.Suites {
		data, err := c07SuiteFile(&in.Suites[i])
		if err != nil {
			panic(fmt.Sprintf("c07 harness: cannot render suite %d: %v", i, err))
		}
		contents[i] = data
	}
	var fileData map[string][]byte
	switch in.Route {
	case "parse":
		fileData = make(map[string][]byte, len(in.Suites))
		for i := range in.Suites {
			fileData[in.Suites[i].File] = contents[i]
		}
	case "files":
		if in.dir == "" {
			dir, err := os.MkdirTemp(os.Getenv("VERIF_WORKDIR"), "c07-files-")
			if err != nil {
				panic(fmt.Sprintf("c07 harness: %v", err))
			}
			in.dir = dir
			for i := range in.Suites {
				full := filepath.Join(dir, filepath.FromSlash(in.Suites[i].File))
				if err := os.MkdirAll(filepath.Dir(full), 0o755); err != nil {
					panic(fmt.Sprintf("c07 harness: %v", err))
				}
				if err := os.WriteFile(full, contents[i], 0o644); err != nil {
					panic(fmt.Sprintf("c07 harness: %v", err))
				}
			}
		}
		paths := make([]string, 0, len(in.Suites))
		for i := range in.Suites {
			j := (i + variant) % len(in.Suites)
			if variant == 1 {
				j = len(in.Suites) - 1 - i
			}
			paths = append(paths, filepath.Join(in.dir, filepath.FromSlash(in.Suites[j].File)))
		}
		var err error
		fileData, err = testsuites.LoadTestSuitesFromFiles(paths)
		if err != nil {
			return nil, fmt.Errorf("LoadTestSuitesFromFiles: %w", err)
		}
	default:
		panic("c07 harness: unknown route " + in.Route)
	}
	suites, err := parseTestSuites(fileData)
	if err != nil {
		return nil, fmt.Errorf("parseTestSuites: %w", err)
	}
	return suites, nil
}

// c07Expand runs the real expansion once on fresh suite messages; the config
// cases (a set) are handed over in a rotated / reversed order.
func c07Expand(in *c07Input, cfg []configCase, variant int) (lib *testCaseLibrary, err error, panicked any) {
	defer func() {
		if p := recover(); p != nil {
			if msg, ok := p.(string); ok && strings.HasPrefix(msg, "c07 harness:") {
				panic(p)
			}
			panicked = p
		}
	}()
	suites, err := c07LoadSuites(in, variant)
	if err != nil {
		return nil, err, nil
	}
	ordered := cfg
	if variant > 0 && len(cfg) > 1 {
		ordered = make([]configCase, 0, len(cfg))
		if variant == 1 {
			for i := len(cfg) - 1; i >= 0; i-- {
				ordered = append(ordered, cfg[i])
			}
		} else {
			off := (variant * len(cfg)) / 5 % len(cfg)
			ordered = append(ordered, cfg[off:]...)
			ordered = append(ordered, cfg[:off]...)
		}
	}
	lib, err = newTestCaseLibrary(suites, ordered, conformancev1.TestSuite_TestMode(in.RunMode))
	return lib, err, nil
}

type c07Seen struct {
	V, P, C, Z, S int32
	TLS, Certs    bool
	Service       string
	Method        string
	HasService    bool
	HasMethod     bool
	Limit         uint32
	Get           bool // use_get_http_method (the author's; part of the snapshot only)
	ReqName       string
	CertBytes     string // content of server_tls_cert
	CredsBytes    string // content of client_tls_creds (cert NUL key)
}

func c07See(tc *conformancev1.TestCase) c07Seen {
	req := tc.GetRequest()
	creds := ""
	if c := req.GetClientTlsCreds(); c != nil {
		creds = string(c.GetCert()) + "\x00" + string(c.GetKey())
	}
	return c07Seen{
		CertBytes: string(req.GetServerTlsCert()), CredsBytes: creds,
		V: int32(req.GetHttpVersion()), P: int32(req.GetProtocol()), C: int32(req.GetCodec()),
		Z: int32(req.GetCompression()), S: int32(req.GetStreamType()),
		TLS: len(req.GetServerTlsCert()) > 0, Certs: req.GetClientTlsCreds() != nil,
		Service: req.GetService(), Method: req.GetMethod(),
		HasService: req.Service != nil, HasMethod: req.Method != nil, //nolint:protogetter
		Limit: req.GetMessageReceiveLimit(), ReqName: req.GetTestName(), Get: req.GetUseGetHttpMethod(),
	}
}

func (s c07Seen) key() string {
	b := make([]byte, 0, 96)
	for _, v := range []int32{s.V, s.P, s.C, s.Z, s.S} {
		b = strconv.AppendInt(b, int64(v), 10)
		b = append(b, ',')
	}
	b = strconv.AppendBool(b, s.TLS)
	b = append(b, ',')
	b = strconv.AppendBool(b, s.Certs)
	b = append(b, ',')
	b = strconv.AppendBool(b, s.HasService)
	b = append(b, ',')
	b = strconv.AppendBool(b, s.HasMethod)
	b = append(b, ',')
	b = strconv.AppendBool(b, s.Get)
	b = append(b, ',')
	b = strconv.AppendUint(b, uint64(s.Limit), 10)
	b = append(b, ',')
	b = append(b, s.Service...)
	b = append(b, ',')
	b = append(b, s.Method...)
	b = append(b, ',')
	b = append(b, s.ReqName...)
	b = append(b, ',')
	b = append(b, s.CertBytes...)
	b = append(b, ',')
	b = append(b, s.CredsBytes...)
	return string(b)
}

// c07Snapshot is the canonical, order-free rendering of one expansion: every
// permutation with its request fields and the server group holding it.
func c07Snapshot(lib *testCaseLibrary) string {
	groupOf := make(map[string]string, len(lib.testCases))
	for key, list := range lib.casesByServer {
		k := fmt.Sprintf("[%d,%d,%v,%v]", key.protocol, key.httpVersion, key.useTLS, key.useTLSClientCerts)
		for _, tc := range list {
			n := tc.GetRequest().GetTestName()
			groupOf[n] += k
		}
	}
	lines := make([]string, 0, len(lib.testCases))
	for name, tc := range lib.testCases {
		lines = append(lines, name+"\x00"+c07See(tc).key()+"\x00"+groupOf[name])
	}
	sort.Strings(lines)
	return strings.Join(lines, "\n")
}

type c07Verdict struct {
	key    string
	detail string
}

type c07Result struct {
	outcome  string
	verdicts []c07Verdict
	nperms   int
	selects  bool
}

func c07Bucket(n int) string {
	switch {
	case n == 0:
		return "0"
	case n == 1:
		return "1"
	case n < 10:
		return "2-9"
	case n < 100:
		return "10-99"
	case n < 1000:
		return "100-999"
	}
	return "1000+"
}

// c07Evaluate runs one (suites, config-case set, run mode) element against all
// oracles. reps = number of repeated expansions compared with the first.
func c07Evaluate(in *c07Input, set *c07CfgSet, reps int, verbose bool) c07Result {
	var res c07Result
	bad := func(key, format string, a ...any) {
		if len(res.verdicts) < 40 {
			res.verdicts = append(res.verdicts, c07Verdict{key, fmt.Sprintf(format, a...)})
		}
	}
	model := c07Model(in, set.Mirror)
	res.nperms = len(model.Perms)
	res.selects = model.NSelective > 0

	lib, err, panicked := c07Expand(in, set.Real, 0)
	if verbose {
		fmt.Printf("model: %d permutations (ambiguous=%v mayReject=%v); real: err=%v panicked=%v\n",
			len(model.Perms), model.Ambiguous, model.MayReject, err, panicked)
	}
	if panicked != nil {
		bad("panic", "newTestCaseLibrary panicked: %v", panicked)
		res.outcome = "panic"
		return res
	}
	if err != nil {
		switch {
		case model.MayReject || model.Ambiguous:
			res.outcome = "err:suite-rejected"
		case len(model.Perms) == 0:
			res.outcome = "err:no-permutation"
		default:
			res.outcome = "err:unexpected"
			bad("error-but-permutations-expected", "expansion failed with %q although %d permutations exist per the statement", err, len(model.Perms))
		}
		return res
	}
	if lib == nil {
		bad("nil-library-without-error", "newTestCaseLibrary returned nil, nil")
		return res
	}
	res.outcome = "ok:perms=" + c07Bucket(len(lib.testCases))
	if model.Ambiguous {
		// cannot happen with a library that keys by name; the naming scheme itself collides
		bad("name-not-unique", "two distinct permutations share one documented full name, yet expansion succeeded with %d entries", len(lib.testCases))
		return res
	}

	// ---- existence and names
	var missing, extra []string
	for name := range model.Perms {
		if _, ok := lib.testCases[name]; !ok {
			missing = append(missing, name)
		}
	}
	for name := range lib.testCases {
		if _, ok := model.Perms[name]; !ok {
			extra = append(extra, name)
		}
	}
	sort.Strings(missing)
	sort.Strings(extra)
	if len(missing) > 0 || len(extra) > 0 {
		// A missing and an extra entry carrying the same case are one permutation under a wrong name.
		extraBySig := map[string][]string{}
		for _, name := range extra {
			seen := c07See(lib.testCases[name])
			sig := fmt.Sprintf("%d,%d,%d,%d,%d,%v,%v", seen.V, seen.P, seen.C, seen.Z, seen.S, seen.TLS, seen.Certs)
			extraBySig[sig] = append(extraBySig[sig], name)
		}
		for _, name := range missing {
			perm := model.Perms[name]
			sig := fmt.Sprintf("%d,%d,%d,%d,%d,%v,%v", perm.CC.V, perm.CC.P, perm.CC.C, perm.CC.Z, perm.Stream, perm.CC.TLS, perm.CC.Certs)
			cands := extraBySig[sig]
			renamed := ""
			for i, cand := range cands {
				if strings.HasSuffix(cand, "/"+perm.Simple) {
					renamed = cand
					extraBySig[sig] = append(cands[:i:i], cands[i+1:]...)
					break
				}
			}
			if renamed != "" {
				bad("name-mismatch", "permutation of case %+v is named %q, documented scheme gives %q", perm.CC, renamed, name)
			} else {
				bad("missing-permutation", "no permutation %q although the statement's iff holds for case %+v", name, perm.CC)
			}
		}
		for _, rest := range extraBySig {
			for _, name := range rest {
				bad("unexpected-permutation", "permutation %q (request %+v) exists although the statement's iff holds for no (test, config case) of the input", name, c07See(lib.testCases[name]))
			}
		}
	}

	// ---- request fields
	var limit uint32
	limitSet := false
	for name, tc := range lib.testCases {
		seen := c07See(tc)
		if seen.ReqName != name {
			bad("request-field:test_name", "library entry %q carries request.test_name %q", name, seen.ReqName)
		}
		if seen.Limit == 0 {
			bad("request-field:message_receive_limit", "%q: message_receive_limit is zero", name)
		}
		if limitSet && seen.Limit != limit {
			bad("request-field:message_receive_limit", "%q: message_receive_limit %d differs from %d used elsewhere", name, seen.Limit, limit)
		}
		limit, limitSet = seen.Limit, true
		if seen.Certs && !seen.TLS {
			bad("request-field:client_tls_creds", "%q: client_tls_creds present without server_tls_cert", name)
		}
		perm, ok := model.Perms[name]
		if !ok {
			continue
		}
		if seen.V != perm.CC.V {
			bad("request-field:http_version", "%q: http_version %d, case has %d", name, seen.V, perm.CC.V)
		}
		if seen.P != perm.CC.P {
			bad("request-field:protocol", "%q: protocol %d, case has %d", name, seen.P, perm.CC.P)
		}
		if seen.C != perm.CC.C {
			bad("request-field:codec", "%q: codec %d, case has %d", name, seen.C, perm.CC.C)
		}
		if seen.Z != perm.CC.Z {
			bad("request-field:compression", "%q: compression %d, case has %d", name, seen.Z, perm.CC.Z)
		}
		if seen.S != perm.Stream {
			bad("request-field:stream_type", "%q: stream_type %d, test has %d", name, seen.S, perm.Stream)
		}
		if seen.TLS != perm.CC.TLS {
			bad("request-field:server_tls_cert", "%q: server_tls_cert marker present=%v, case use_tls=%v", name, seen.TLS, perm.CC.TLS)
		}
		if seen.Certs != perm.CC.Certs {
			bad("request-field:client_tls_creds", "%q: client_tls_creds marker present=%v, case use_tls_client_certs=%v", name, seen.Certs, perm.CC.Certs)
		}
		if perm.Loose {
			// one of service / method given without the other and the suite loaded all the same
			if seen.Service == "" {
				bad("request-field:service", "%q: service is empty (the test case names only one of service and method)", name)
			}
			if seen.Method == "" {
				bad("request-field:method", "%q: method is empty (the test case names only one of service and method)", name)
			}
			continue
		}
		if !seen.HasService || seen.Service != perm.Service {
			bad("request-field:service", "%q: service %q (set=%v), want %q", name, seen.Service, seen.HasService, perm.Service)
		}
		if !seen.HasMethod || seen.Method != perm.Method {
			bad("request-field:method", "%q: method %q (set=%v), want %q", name, seen.Method, seen.HasMethod, perm.Method)
		}
	}

	// ---- grouping: casesByServer partitions the permutations by (protocol, version, TLS, client certs)
	inGroups := map[string]int{}
	for key, list := range lib.casesByServer {
		if len(list) == 0 {
			bad("group-empty", "server instance %+v has no test cases", key)
		}
		for _, tc := range list {
			name := tc.GetRequest().GetTestName()
			inGroups[name]++
			if _, ok := lib.testCases[name]; !ok {
				bad("group-foreign", "server instance %+v holds %q which is not a permutation of the library", key, name)
				continue
			}
			perm, ok := model.Perms[name]
			if !ok {
				continue
			}
			if int32(key.protocol) != perm.CC.P || int32(key.httpVersion) != perm.CC.V ||
				key.useTLS != perm.CC.TLS || key.useTLSClientCerts != perm.CC.Certs {
				bad("group-wrong-key", "%q (case %+v) is grouped under server instance %+v", name, perm.CC, key)
			}
		}
	}
	for name := range lib.testCases {
		switch n := inGroups[name]; {
		case n == 0:
			bad("group-missing", "%q is in no server group", name)
		case n > 1:
			bad("group-duplicate", "%q is in %d server groups / entries", name, n)
		}
	}
	type groupKey struct {
		p, v       int32
		tls, certs bool
	}
	wantGroups := map[groupKey]bool{}
	for _, perm := range model.Perms {
		wantGroups[groupKey{perm.CC.P, perm.CC.V, perm.CC.TLS, perm.CC.Certs}] = true
	}
	if len(missing) == 0 && len(extra) == 0 && len(wantGroups) != len(lib.casesByServer) {
		bad("group-count", "%d server groups, the permutations have %d distinct (protocol, version, TLS, certs) keys", len(lib.casesByServer), len(wantGroups))
	}

	// ---- gRPC peers: applicability predicate + marker in the name
	c07CheckGRPC(lib, &model, bad)

	// ---- runner-owned fields the author pre-filled leave no trace: the
	// expansion (names, every request field incl. the content of the TLS
	// markers and the receive limit, server groups) is the one of the same
	// suite without them, i.e. determined by the config case alone.
	if in.hasPrefill() {
		plainIn := in.stripped()
		plain, errPlain, panickedPlain := c07Expand(plainIn, set.Real, 0)
		plainIn.cleanup()
		switch {
		case panickedPlain != nil:
			bad("panic", "expansion of the suite without pre-filled fields panicked: %v", panickedPlain)
		case errPlain != nil || plain == nil:
			bad("prefilled-field-survives", "the suite loads with pre-filled runner-owned fields but fails without them: %v", errPlain)
		default:
			if with, without := c07Snapshot(lib), c07Snapshot(plain); with != without {
				bad("prefilled-field-survives", "expansion depends on runner-owned request fields pre-filled in the suite (with vs without them): %s", c07FirstDiff(with, without))
			}
		}
	}

	// ---- two routes, one result: the library built from suite files (what Run
	// does) is the one newTestCaseLibrary builds from the same suites handed over
	// directly - the statement speaks about suites, not about where they are stored.
	if in.Route != "" {
		direct := *in
		direct.Route, direct.dir = "", ""
		viaDirect, errDirect, panickedDirect := c07Expand(&direct, set.Real, 0)
		switch {
		case panickedDirect != nil:
			bad("panic", "newTestCaseLibrary called directly with the suites panicked: %v", panickedDirect)
		case errDirect != nil || viaDirect == nil:
			bad("route-differs", "route %q yields a library, newTestCaseLibrary called directly with the same suites fails: %v", in.Route, errDirect)
		default:
			if a, b := c07Snapshot(lib), c07Snapshot(viaDirect); a != b {
				bad("route-differs", "the library built along route %q (%d permutations) differs from newTestCaseLibrary called directly with the same suites (%d permutations): %s",
					in.Route, len(lib.testCases), len(viaDirect.testCases), c07FirstDiff(a, b))
			}
		}
	}

	// ---- repeated expansion gives the same set (map order, order of the config cases)
	if reps > 1 {
		first := c07Snapshot(lib)
		for i := 1; i < reps; i++ {
			lib2, err2, panicked2 := c07Expand(in, set.Real, i)
			if panicked2 != nil {
				bad("panic", "repeated expansion #%d panicked: %v", i+1, panicked2)
				break
			}
			if err2 != nil || lib2 == nil {
				bad("unstable-across-runs", "expansion #%d failed (%v) after the first one succeeded", i+1, err2)
				break
			}
			if again := c07Snapshot(lib2); again != first {
				bad("unstable-across-runs", "expansion #%d differs from the first one: %s", i+1, c07FirstDiff(first, again))
				break
			}
		}
	}
	return res
}

// ---------------------------------------------------------------------------
// phase F: path-shaped names
//
// Suite names and test names are free text and may contain slashes
// (docs/authoring_test_cases.md names tests "unary/success"), and a full name
// is the slash-separated sequence suite name, open axes, test name. Two
// DIFFERENT suites can therefore spell the same full name when no axis
// component stands between the suite name and the test name (suite "Echo" +
// test "v2/ping", suite "Echo/v2" + test "ping"), or when a test name climbs
// out of its suite ("../Echo/ping"). The statement demands a unique full name
// per permutation: such a load is either refused, or every admitted (test,
// config case) pair has its own permutation - never fewer permutations than
// admitted pairs, and the same answer on every expansion.

func c07CleanName(s string) bool {
	if path.Clean(s) != s {
		return false
	}
	for _, part := range strings.Split(s, "/") {
		if part == ".." || part == "." {
			return false
		}
	}
	return true
}

// c07EvaluateShapes: count / uniqueness / stability oracle that does not rely on
// how a name with "." or ".." components is spelled in the library (the
// documents do not say): the raw slash-joined name and its cleaned form are both
// taken as readings of the documented scheme.
func c07EvaluateShapes(in *c07Input, set *c07CfgSet, reps int, verbose bool) c07Result {
	var res c07Result
	bad := func(key, format string, a ...any) {
		if len(res.verdicts) < 40 {
			res.verdicts = append(res.verdicts, c07Verdict{key, fmt.Sprintf(format, a...)})
		}
	}
	admitted := 0
	perSuite := make([]int, len(in.Suites))
	acceptable := map[string]bool{} // raw and cleaned spellings of every admitted pair
	cleaned := map[string]int{}
	collide, mayReject, allClean := false, false, true
	suiteNames := map[string]bool{}
	for i := range in.Suites {
		s := &in.Suites[i]
		if suiteNames[s.Name] || c07Misconfigured(s) {
			mayReject = true
		}
		suiteNames[s.Name] = true
		allClean = allClean && c07CleanName(s.Name)
		for j := range s.Cases {
			tc := &s.Cases[j]
			allClean = allClean && c07CleanName(tc.Name)
			for _, cc := range set.Mirror {
				if !c07Exists(s, tc, cc, in.RunMode) {
					res.selects = true
					continue
				}
				admitted++
				perSuite[i]++
				raw := c07Name(s, tc, cc)
				cl := path.Clean(raw)
				acceptable[raw], acceptable[cl] = true, true
				cleaned[cl]++
				if cleaned[cl] > 1 {
					collide = true
				}
			}
		}
	}
	res.nperms = admitted
	type obs struct {
		failed bool
		err    error
		snap   string
		n      int
	}
	var first obs
	for i := 0; i < reps; i++ {
		lib, err, panicked := c07Expand(in, set.Real, i)
		if panicked != nil {
			bad("panic", "newTestCaseLibrary panicked (expansion #%d): %v", i+1, panicked)
			res.outcome = "panic"
			return res
		}
		cur := obs{failed: err != nil, err: err}
		if err == nil && lib == nil {
			bad("nil-library-without-error", "newTestCaseLibrary returned nil, nil")
			return res
		}
		if err == nil {
			cur.snap, cur.n = c07Snapshot(lib), len(lib.testCases)
		}
		if verbose {
			fmt.Printf("expansion #%d: err=%v permutations=%d (admitted pairs: %d, per suite %v; names collide: %v)\n", i+1, err, cur.n, admitted, perSuite, collide)
		}
		if i > 0 {
			switch {
			case cur.failed != first.failed:
				bad("unstable-across-runs", "expansion #%d: error=%v, expansion #1: error=%v", i+1, err, first.err)
			case !cur.failed && cur.snap != first.snap:
				bad("unstable-across-runs", "expansion #%d differs from the first one: %s", i+1, c07FirstDiff(first.snap, cur.snap))
			default:
				continue
			}
			return res
		}
		first = cur
		if err != nil {
			switch {
			case collide || mayReject:
				res.outcome = "err:colliding-names-refused"
			case admitted == 0:
				res.outcome = "err:no-permutation"
			default:
				res.outcome = "err:unexpected"
				bad("error-but-permutations-expected", "expansion failed with %q although %d permutations with pairwise different full names exist per the statement", err, admitted)
				return res
			}
			continue
		}
		res.outcome = "ok:perms=" + c07Bucket(cur.n)
		if collide {
			res.outcome += ":collision-possible"
		}
		if cur.n != admitted {
			var names []string
			for name := range lib.testCases {
				names = append(names, name)
			}
			sort.Strings(names)
			if len(names) > 6 {
				names = names[:6]
			}
			bad("name-not-unique", "%d (test case, config case) pairs are admitted (per suite: %v) but the library holds %d permutations: definitions of different suites share a full name and all but one were dropped; library names: %q",
				admitted, perSuite, cur.n, names)
			return res
		}
		grouped := 0
		for _, list := range lib.casesByServer {
			grouped += len(list)
		}
		if grouped != admitted {
			bad("group-count", "%d permutations, but the server groups hold %d entries", admitted, grouped)
		}
		for name, tc := range lib.testCases {
			if !acceptable[name] {
				bad("name-mismatch", "permutation %q is neither the slash-joined (suite, open axes, test name) of an admitted pair nor its cleaned form", name)
			}
			if got := tc.GetRequest().GetTestName(); got != name {
				bad("request-field:test_name", "library entry %q carries request.test_name %q", name, got)
			}
		}
	}
	// names without "." / ".." / doubled slashes: the documented scheme is unambiguous, all oracles apply
	if allClean && len(res.verdicts) == 0 {
		full := c07Evaluate(in, set, 1, verbose)
		res.verdicts = append(res.verdicts, full.verdicts...)
	}
	return res
}

// c07ShapeInputs: every unordered pair of distinct suite names x every ordered
// pair of test names of the path-shaped alphabet x directive shapes (both
// suites pin every axis and rely on TLS: no component between suite and test
// name; one or both leave TLS open; both fully open) x stream types (same,
// different).
func c07ShapeInputs() [][]c07Suite {
	suiteNames := []string{"Echo", "Echo/v2", "Echo/v2/x", "Alpha"}
	testNames := []string{"ping", "v2/ping", "x/ping", "v2/x/ping", "../Echo/ping", "../Echo/v2/ping"}
	pinned := func(tls bool) c07Suite {
		return c07Suite{Protocols: []int32{1}, Versions: []int32{2}, Codecs: []int32{1}, Compressions: []int32{1}, TLS: tls}
	}
	shapes := [][2]c07Suite{
		{pinned(true), pinned(true)},
		{pinned(true), pinned(false)},
		{pinned(false), pinned(false)},
		{{}, {}},
	}
	var out [][]c07Suite
	for _, shape := range shapes {
		for i := range suiteNames {
			for j := i + 1; j < len(suiteNames); j++ {
				for _, t1 := range testNames {
					for _, t2 := range testNames {
						for _, stream2 := range []int32{1, 3} {
							a, b := shape[0], shape[1]
							a.File, a.Name = "a.yaml", suiteNames[i]
							b.File, b.Name = "b.yaml", suiteNames[j]
							a.Cases = []c07TC{{Name: t1, Stream: 1}}
							b.Cases = []c07TC{{Name: t2, Stream: stream2, Service: "custom.pkg.v1.OtherService", Method: "Other"}}
							out = append(out, []c07Suite{a, b})
						}
					}
				}
			}
		}
	}
	return out
}

// c07StreamCaseSets (phase H): a test case of every stream type in one suite
// (default service / method), and the two bidi kinds next to a unary test with an
// explicit service / method pair.
func c07StreamCaseSets() [][]c07TC {
	streamNames := map[int32]string{1: "unary", 2: "client-stream", 3: "server-stream", 4: "bidi-stream/half-duplex", 5: "bidi-stream/full-duplex"}
	var every []c07TC
	for s := int32(1); s <= 5; s++ {
		every = append(every, c07TC{Name: streamNames[s] + "/success", Stream: s})
	}
	return [][]c07TC{
		every,
		{
			{Name: streamNames[4] + "/explicit", Stream: 4, Service: "custom.pkg.v1.OtherService", Method: "Other4"},
			{Name: streamNames[5] + "/explicit", Stream: 5, Service: "custom.pkg.v1.OtherService", Method: "Other5"},
			{Name: streamNames[1] + "/success", Stream: 1},
			{Name: streamNames[4] + "/second", Stream: 4},
		},
	}
}

// c07FileLoads (phase I): two or three suites, each in a file of its own, in
// several directory layouts - one directory with distinct file names; the same
// file name in different directories (client/basic.yaml, server/basic.yaml,
// common/basic.yaml); nested directories; paths that are suffixes of one another;
// a mix; names differing in case only. The suites have distinct names ("Common
// Basic", "Client Basic", "Server Basic"), every assignment of modes, a few
// directive shapes and test-case sets that share a test name across suites. The
// statement is quantified over the suites given: where a suite is stored and what
// its file is called decides nothing.
func c07FileLoads() [][]c07Suite {
	layouts := [][]string{
		{"a.yaml", "b.yaml", "c.yaml"},
		{"client/basic.yaml", "server/basic.yaml", "common/basic.yaml"},
		{"suite.yaml", "v2/suite.yaml", "v2/x/suite.yaml"},
		{"data/basic.yaml", "basic.yaml", "more/data/basic.yaml"},
		{"x/a.yaml", "y/a.yaml", "y/b.yaml"},
		{"Basic.yaml", "basic.yaml", "BASIC.yaml"},
	}
	names := []string{"Common Basic", "Client Basic", "Server Basic"}
	cases := c07CaseSets(false) // [0] unary/success; [1] full-duplex + unary/success; [2] client-, server-stream, half-duplex
	open := c07Suite{}
	connect := c07Suite{Protocols: []int32{1}, Versions: []int32{1, 2}}
	pinned := c07Suite{Versions: []int32{1}, Codecs: []int32{1}}
	tlsLimit := c07Suite{TLS: true, Limit: true}
	shapes2 := [][]c07Suite{{open, open}, {open, connect}, {pinned, tlsLimit}, {connect, pinned}}
	shapes3 := [][]c07Suite{{open, open, open}, {connect, open, pinned}, {pinned, tlsLimit, connect}}
	var out [][]c07Suite
	build := func(layout []string, shape []c07Suite, modes []int32) {
		load := make([]c07Suite, len(shape))
		for i := range shape {
			load[i] = shape[i]
			load[i].File, load[i].Name, load[i].Mode, load[i].Cases = layout[i], names[i], modes[i], cases[i]
		}
		out = append(out, load)
	}
	for _, layout := range layouts {
		for _, shape := range shapes2 {
			for m0 := int32(0); m0 < 3; m0++ {
				for m1 := int32(0); m1 < 3; m1++ {
					build(layout, shape, []int32{m0, m1})
				}
			}
		}
		for _, shape := range shapes3 {
			for m0 := int32(0); m0 < 3; m0++ {
				for m1 := int32(0); m1 < 3; m1++ {
					for m2 := int32(0); m2 < 3; m2++ {
						build(layout, shape, []int32{m0, m1, m2})
					}
				}
			}
		}
	}
	return out
}

func c07FirstDiff(a, b string) string {
	la, lb := strings.Split(a, "\n"), strings.Split(b, "\n")
	for i := 0; i < len(la) || i < len(lb); i++ {
		var x, y string
		if i < len(la) {
			x = la[i]
		}
		if i < len(lb) {
			y = lb[i]
		}
		if x != y {
			return fmt.Sprintf("entry %d: %q vs %q", i, x, y)
		}
	}
	return "(no difference?)"
}

// c07StripComponent finds the single name component whose removal turns
// marked into a name of the library; the component must sit after the suite
// name and before the test case name (docs: "the first component is the name
// of the test suite", "the final element(s) are the actual test case name").
func c07StripComponent(marked string, lib *testCaseLibrary, perms map[string]c07Perm) (base, marker string, ok bool) {
	parts := strings.Split(marked, "/")
	for i := 1; i < len(parts); i++ {
		cand := strings.Join(append(append([]string{}, parts[:i]...), parts[i+1:]...), "/")
		if _, found := lib.testCases[cand]; !found {
			continue
		}
		if perm, known := perms[cand]; known {
			nameParts := len(strings.Split(perm.Simple, "/"))
			if i > len(parts)-1-nameParts {
				continue // inside or after the test case name
			}
		}
		return cand, parts[i], true
	}
	return "", "", false
}

func c07CheckGRPC(lib *testCaseLibrary, model *c07ModelResult, bad func(key, format string, a ...any)) {
	baseSlice := make([]*conformancev1.TestCase, 0, len(lib.testCases))
	names := make([]string, 0, len(lib.testCases))
	for name := range lib.testCases {
		names = append(names, name)
	}
	sort.Strings(names)
	for _, name := range names {
		baseSlice = append(baseSlice, lib.testCases[name])
	}
	func() {
		defer func() {
			if p := recover(); p != nil {
				bad("panic", "filterGRPCImplTestCases/allPermutations panicked: %v", p)
			}
		}()
		same := lib.filterGRPCImplTestCases(baseSlice, false, false)
		if len(same) != len(baseSlice) {
			bad("grpc-filter-identity", "without a gRPC peer the filter returned %d of %d cases", len(same), len(baseSlice))
		} else {
			for i := range same {
				if same[i].GetRequest().GetTestName() != names[i] {
					bad("grpc-filter-identity", "without a gRPC peer the filter changed entry %d: %q -> %q", i, names[i], same[i].GetRequest().GetTestName())
					break
				}
			}
		}
		type combo struct {
			client, server bool
			label          string
		}
		for _, cb := range []combo{{false, false, "none"}, {true, false, "client"}, {false, true, "server"}, {true, true, "both"}} {
			all := lib.allPermutations(cb.client, cb.server)
			baseCount := map[string]int{}
			byMarker := map[string]map[string]int{}
			dup := map[string]int{}
			for _, tc := range all {
				name := tc.GetRequest().GetTestName()
				dup[name]++
				if dup[name] == 2 {
					bad("name-not-unique", "allPermutations(%s) lists %q more than once", cb.label, name)
				}
				if _, ok := lib.testCases[name]; ok {
					baseCount[name]++
					continue
				}
				base, marker, ok := c07StripComponent(name, lib, model.Perms)
				if !ok {
					bad("grpc-marker-name", "allPermutations(%s): %q is not a library name plus one marker component between suite name and test name", cb.label, name)
					continue
				}
				if byMarker[marker] == nil {
					byMarker[marker] = map[string]int{}
				}
				byMarker[marker][base]++
				// the copy must be the same RPC, only renamed
				got, want := c07See(tc), c07See(lib.testCases[base])
				got.ReqName, want.ReqName = "", ""
				if got != want {
					bad("grpc-filter-request-changed", "allPermutations(%s): %q differs from its base permutation: %+v vs %+v", cb.label, name, got, want)
				}
			}
			for _, name := range names {
				if baseCount[name] != 1 {
					bad("allPermutations-base", "allPermutations(%s) lists base permutation %q %d times", cb.label, name, baseCount[name])
				}
			}
			// which marker sets are expected
			type want struct {
				marker         string // "" = any one further marker
				client, server bool
			}
			var wants []want
			if cb.client {
				wants = append(wants, want{"(grpc client impl)", true, false})
			}
			if cb.server {
				wants = append(wants, want{"(grpc server impl)", false, true})
			}
			if cb.client && cb.server {
				wants = append(wants, want{"", true, true})
			}
			used := map[string]bool{}
			for _, w := range wants {
				expect := map[string]bool{}
				for name, perm := range model.Perms {
					if _, ok := lib.testCases[name]; ok && c07GRPCApplies(perm.CC, w.client, w.server) {
						expect[name] = true
					}
				}
				marker := w.marker
				if marker == "" {
					for m := range byMarker {
						if m != "(grpc client impl)" && m != "(grpc server impl)" {
							marker = m
						}
					}
				}
				used[marker] = true
				got := byMarker[marker]
				for name := range expect {
					if got[name] != 1 {
						if w.marker == "" && marker == "" {
							bad("grpc-marker-name", "allPermutations(both): no marker other than the client/server ones for the client+server gRPC copies (e.g. of %q)", name)
						} else {
							bad("grpc-filter-applicability:"+cb.label, "allPermutations(%s): %q (case %+v) is supported by the gRPC peer(s) but has %d copies marked %q", cb.label, name, model.Perms[name].CC, got[name], marker)
						}
					}
				}
				for name := range got {
					if _, known := model.Perms[name]; !known {
						continue // already reported as unexpected or misnamed
					}
					if !expect[name] {
						bad("grpc-filter-applicability:"+cb.label, "allPermutations(%s): %q (case %+v) is marked %q although the gRPC peer(s) do not support it", cb.label, name, model.Perms[name].CC, marker)
					}
				}
			}
			for marker, got := range byMarker {
				if !used[marker] {
					for name := range got {
						bad("grpc-marker-name", "allPermutations(%s): unexpected marker component %q on a copy of %q", cb.label, marker, name)
						break
					}
				}
			}
		}
		// producing the gRPC copies must not rename the library's own permutations
		for name, tc := range lib.testCases {
			if tc.GetRequest().GetTestName() != name {
				bad("grpc-filter-mutates-library", "after allPermutations the library entry %q is named %q", name, tc.GetRequest().GetTestName())
			}
		}
	}()
}

// ---------------------------------------------------------------------------
// alphabets

func c07Subsets3() [][]int32 {
	return [][]int32{nil, {1}, {2}, {3}, {1, 2}, {1, 3}, {2, 3}, {1, 2, 3}}
}

type c07Flags struct{ TLS, Certs, Get, Limit bool }

func c07AllFlags() []c07Flags {
	var out []c07Flags
	for pop := 0; pop <= 4; pop++ {
		for bits := 0; bits < 16; bits++ {
			n := 0
			for b := 0; b < 4; b++ {
				if bits&(1<<b) != 0 {
					n++
				}
			}
			if n == pop {
				out = append(out, c07Flags{bits&1 != 0, bits&2 != 0, bits&4 != 0, bits&8 != 0})
			}
		}
	}
	return out
}

// c07Directives: the directive part of the suite space, simplest first. The
// relies-on flags run over the consistent combinations (client certs only with
// TLS; Connect GET only in a suite restricted to the Connect protocol) and, at
// the end, the two forms the documents call misconfigured: client certs
// without TLS, and Connect GET with any other protocol selection.
func c07Directives(thorough bool) []c07Suite {
	modes := []int32{0, 1, 2}
	protocols := c07Subsets3()
	versions := c07Subsets3()
	codecs := [][]int32{nil, {1}, {2}, {1, 2}}
	compressions := [][]int32{nil, {1}, {1, 2}}
	if !thorough {
		versions = [][]int32{nil, {1}, {2}, {2, 3}}
		codecs = [][]int32{nil, {1}, {1, 2}}
		compressions = [][]int32{nil, {1}}
	}
	onlyConnect := func(p []int32) bool { return len(p) == 1 && p[0] == c07Connect }
	var out []c07Suite
	emit := func(fl c07Flags, p []int32) {
		for _, z := range compressions {
			for _, c := range codecs {
				for _, v := range versions {
					for _, m := range modes {
						out = append(out, c07Suite{
							File: "suite.yaml", Name: "Suite Under Test", Mode: m,
							Protocols: p, Versions: v, Codecs: c, Compressions: z,
							TLS: fl.TLS, Certs: fl.Certs, Get: fl.Get, Limit: fl.Limit,
						})
					}
				}
			}
		}
	}
	for _, fl := range c07AllFlags() {
		if fl.Certs && !fl.TLS {
			continue
		}
		for _, p := range protocols {
			if fl.Get && !onlyConnect(p) {
				continue
			}
			emit(fl, p)
		}
	}
	// the two rejected forms
	for _, p := range protocols {
		emit(c07Flags{Certs: true}, p)
	}
	for _, p := range [][]int32{nil, {2}, {1, 2}, {1, 2, 3}} {
		emit(c07Flags{Get: true}, p)
	}
	return out
}

// c07MultiValueDirectives: suites that list two or three values on an axis
// (so the axis stays open although the suite says something about it), in
// every combination with the other axes being unrestricted, pinned or
// multi-valued as well. Compression lists: both values in every universe
// ({identity, gzip}, either order), one listed value absent from the quick
// universe ({gzip, br}), {identity, zstd} (both in the thorough universe and in
// the unary-only-zstd config, one of them elsewhere) and three values. These are
// in both tiers: the full directive product of the quick tier lists at most one
// compression.
func c07MultiValueDirectives() []c07Suite {
	protocols := [][]int32{nil, {1}, {1, 2}, {1, 2, 3}}
	versions := [][]int32{nil, {2}, {1, 2}, {1, 2, 3}}
	codecs := [][]int32{nil, {2}, {1, 2}}
	compressions := [][]int32{{1, 2}, {2, 3}, {1, 4}, {2, 1}, {1, 2, 4}}
	flags := []c07Flags{{}, {TLS: true}, {Limit: true}, {TLS: true, Certs: true}}
	var out []c07Suite
	for _, fl := range flags {
		for _, z := range compressions {
			for _, c := range codecs {
				for _, v := range versions {
					for _, p := range protocols {
						for _, m := range []int32{0, 1, 2} {
							out = append(out, c07Suite{
								File: "suite.yaml", Name: "Suite Under Test", Mode: m,
								Protocols: p, Versions: v, Codecs: c, Compressions: z,
								TLS: fl.TLS, Certs: fl.Certs, Get: fl.Get, Limit: fl.Limit,
							})
						}
					}
				}
			}
		}
	}
	return out
}

// c07CaseSets: 1-3 test cases over the five stream types, with and without an
// explicit service/method pair; names follow docs/authoring_test_cases.md.
func c07CaseSets(thorough bool) [][]c07TC {
	streamNames := map[int32]string{1: "unary", 2: "client-stream", 3: "server-stream", 4: "bidi-stream/half-duplex", 5: "bidi-stream/full-duplex"}
	def := func(stream int32, leaf string) c07TC {
		return c07TC{Name: streamNames[stream] + "/" + leaf, Stream: stream}
	}
	expl := func(stream int32, leaf string) c07TC {
		return c07TC{Name: streamNames[stream] + "/" + leaf, Stream: stream, Service: "custom.pkg.v1.OtherService", Method: "Other" + fmt.Sprint(stream)}
	}
	quick := [][]c07TC{
		{def(1, "success")},
		{expl(5, "ping-pong"), def(1, "success")},
		{def(2, "sum"), expl(3, "error-with-responses"), def(4, "success")},
	}
	if !thorough {
		return quick
	}
	out := [][]c07TC{}
	for s := int32(1); s <= 5; s++ {
		out = append(out, []c07TC{def(s, "success")})
	}
	for s := int32(1); s <= 5; s++ {
		out = append(out, []c07TC{expl(s, "success")})
	}
	out = append(out, quick[1], quick[2],
		[]c07TC{def(1, "success"), expl(1, "error")},                               // two tests of one stream type
		[]c07TC{def(3, "success"), def(5, "success")},                              // same leaf name, different stream prefix
		[]c07TC{expl(4, "a"), def(5, "b"), def(4, "c")},                            // both bidi kinds share the default method
		[]c07TC{{Name: "no-prefix", Stream: 1}, def(1, "no-prefix"), expl(2, "x")}, // name that is a suffix of another
	)
	return out
}

// c07PrefilledCaseSets: test-case sets whose requests pre-fill runner-owned
// fields (c07Prefills). Quick: two mixed sets in which every stream type of
// the quick universe (1, 3, 5) meets a low and a high template (so every config
// case differs from at least one of them in every marker) and each TLS-marker
// template occurs; a plain test rides along. Thorough: in addition one set per
// template carrying it on all five stream types.
func c07PrefilledCaseSets(thorough bool) [][]c07TC {
	streamNames := map[int32]string{1: "unary", 2: "client-stream", 3: "server-stream", 4: "bidi-stream/half-duplex", 5: "bidi-stream/full-duplex"}
	pre := func(stream int32, prefill int) c07TC {
		return c07TC{Name: streamNames[stream] + "/prefilled-" + c07Prefills[prefill].Label, Stream: stream, Prefill: prefill}
	}
	out := [][]c07TC{
		{pre(1, 1), pre(1, 4), pre(1, 5), pre(3, 6), pre(5, 7), {Name: "unary/plain", Stream: 1}, pre(3, 5), pre(5, 4)},
		{pre(1, 2), pre(1, 3), pre(1, 8), pre(3, 1), pre(5, 9), pre(3, 4), pre(5, 5), pre(1, 9),
			{Name: "server-stream/prefilled-explicit", Stream: 3, Service: "custom.pkg.v1.OtherService", Method: "Other3", Prefill: 7}},
	}
	if !thorough {
		return out
	}
	for prefill := 1; prefill < len(c07Prefills); prefill++ {
		var set []c07TC
		for stream := int32(1); stream <= 5; stream++ {
			set = append(set, pre(stream, prefill))
		}
		out = append(out, set)
	}
	return out
}

// c07RequestCaseSets (phase G): the request-level fields of the test-case
// template as an axis. use_get_http_method (false / true) x service x method,
// each optional scalar in its three states (absent, present but empty, set) =
// all nine combinations, over the stream types of the universe. Which
// permutations exist is decided by the suite directives and the stream type
// alone (c07Exists never looks at these fields): use_get_http_method is "an
// instruction to the client" (client_compat.proto), relies_on_connect_get is the
// suite-level directive. Sets whose outcome may be a refusal of the whole load
// (a present-but-empty field; one of service / method without the other) are kept
// apart from the loadable ones so that a refusal cannot hide anything else.
func c07RequestCaseSets(thorough bool) [][]c07TC {
	streamNames := map[int32]string{1: "unary", 2: "client-stream", 3: "server-stream", 4: "bidi-stream/half-duplex", 5: "bidi-stream/full-duplex"}
	streams := []int32{1, 3, 5}
	if thorough {
		streams = []int32{1, 2, 3, 4, 5}
	}
	const svc = "custom.pkg.v1.OtherService"
	// state: 0 absent, 1 present but empty, 2 set
	mk := func(stream int32, get bool, svcState, methState int) c07TC {
		tc := c07TC{Stream: stream, Get: get}
		label := []string{"absent", "empty", "set"}
		tc.Name = fmt.Sprintf("%s/get=%v,service-%s,method-%s", streamNames[stream], get, label[svcState], label[methState])
		switch svcState {
		case 1:
			tc.EmptyService = true
		case 2:
			tc.Service = svc
		}
		switch methState {
		case 1:
			tc.EmptyMethod = true
		case 2:
			tc.Method = "Other" + fmt.Sprint(stream)
		}
		return tc
	}
	var out [][]c07TC
	// 1. loadable: get x {both absent, both set} on every stream type
	var loadable []c07TC
	for _, st := range streams {
		for _, get := range []bool{true, false} {
			loadable = append(loadable, mk(st, get, 0, 0), mk(st, get, 2, 2))
		}
	}
	out = append(out, loadable)
	// 2. get together with pre-filled runner-owned fields (protocol pre-filled as Connect / as gRPC-Web)
	out = append(out, []c07TC{
		{Name: "unary/get+prefilled-low", Stream: 1, Get: true, Prefill: 4},
		{Name: "unary/get+prefilled-high", Stream: 1, Get: true, Prefill: 5},
		{Name: streamNames[streams[len(streams)-1]] + "/get+prefilled-mid", Stream: streams[len(streams)-1], Get: true, Prefill: 9},
		{Name: "unary/plain", Stream: 1},
	})
	// 3.-5. neither names anything, at least one field present but empty: (empty, empty), (absent, empty), (empty, absent)
	for _, st := range [][2]int{{1, 1}, {0, 1}, {1, 0}} {
		var set []c07TC
		for i, stream := range streams {
			set = append(set, mk(stream, i%2 == 1, st[0], st[1]))
		}
		set = append(set, mk(1, true, st[0], st[1]), c07TC{Name: "unary/sibling-without-service-and-method", Stream: 1})
		out = append(out, set)
	}
	// 6.-9. one of the two named without the other: (set, absent), (set, empty), (absent, set), (empty, set)
	for _, st := range [][2]int{{2, 0}, {2, 1}, {0, 2}, {1, 2}} {
		var set []c07TC
		for i, stream := range streams {
			set = append(set, mk(stream, i%2 == 0, st[0], st[1]))
		}
		out = append(out, set)
	}
	return out
}

// c07Universe: the reduced universe of config-case values. Cases using client
// certificates without TLS are left out: client_compat.proto rules them out
// ("will only be present when server_tls_cert is non-empty") and the documents
// do not say what such a case should expand to. Otherwise the product is
// unconstrained (gRPC over HTTP/1.1, GET with gRPC, HTTP/3 without TLS are
// legitimate *inputs* of the expansion even if no config produces them).
func c07Universe(versions, protocols, codecs, compressions, streams []int32) []c07CC {
	var out []c07CC
	for _, fl := range c07AllFlags() {
		if fl.Certs && !fl.TLS {
			continue
		}
		for _, s := range streams {
			for _, z := range compressions {
				for _, c := range codecs {
					for _, v := range versions {
						for _, p := range protocols {
							out = append(out, c07CC{V: v, P: p, C: c, Z: z, S: s, TLS: fl.TLS, Certs: fl.Certs, Get: fl.Get, Limit: fl.Limit})
						}
					}
				}
			}
		}
	}
	return out
}

func c07SortCases(cs []c07CC) {
	b := func(x bool) int {
		if x {
			return 1
		}
		return 0
	}
	key := func(c c07CC) [9]int {
		return [9]int{int(c.V), int(c.P), int(c.C), int(c.Z), int(c.S), b(c.TLS), b(c.Certs), b(c.Get), b(c.Limit)}
	}
	sort.Slice(cs, func(i, j int) bool {
		a, bb := key(cs[i]), key(cs[j])
		for k := range a {
			if a[k] != bb[k] {
				return a[k] < bb[k]
			}
		}
		return false
	})
}

// c07NamedSets: config-case sets produced by the real parseConfig from the four
// shipped configs under testing/ and from typical configs. They are *inputs*
// of the expansion only; any set is a legal input.
func c07NamedSets(t *testing.T) []*c07CfgSet {
	t.Helper()
	type src struct{ label, file, yaml string }
	sources := []src{
		{label: "grpc-impls", file: "grpc-impls-config.yaml"},
		{label: "grpc-web-client-impl", file: "grpc-web-client-impl-config.yaml"},
		{label: "grpc-web-server-impl", file: "grpc-web-server-impl-config.yaml"},
		{label: "default", yaml: ""},
		{label: "connect-h1-plain", yaml: "features:\n  versions: [HTTP_VERSION_1]\n  protocols: [PROTOCOL_CONNECT]\n  supportsTls: false\n  supportsConnectGet: false\n  supportsMessageReceiveLimit: false\n"},
		{label: "h2-tls-only-certs", yaml: "features:\n  versions: [HTTP_VERSION_2]\n  supportsH2c: false\n  supportsTlsClientCerts: true\n  compressions: [COMPRESSION_IDENTITY]\n"},
		{label: "h3-connect-json", yaml: "features:\n  versions: [HTTP_VERSION_3]\n  protocols: [PROTOCOL_CONNECT]\n  codecs: [CODEC_JSON]\n  compressions: [COMPRESSION_GZIP]\n"},
		{label: "unary-only-zstd", yaml: "features:\n  streamTypes: [STREAM_TYPE_UNARY]\n  compressions: [COMPRESSION_IDENTITY, COMPRESSION_ZSTD]\n  supportsTls: false\n"},
		{label: "include-exclude", yaml: "features:\n  versions: [HTTP_VERSION_1]\n  protocols: [PROTOCOL_CONNECT, PROTOCOL_GRPC_WEB]\n  compressions: [COMPRESSION_IDENTITY]\nincludeCases:\n  - version: HTTP_VERSION_2\n    protocol: PROTOCOL_GRPC\n    codec: CODEC_PROTO\n    useTls: true\nexcludeCases:\n  - protocol: PROTOCOL_GRPC_WEB\n    codec: CODEC_JSON\n  - streamType: STREAM_TYPE_CLIENT_STREAM\n    useTls: false\n"},
		{label: "reference-impls", file: "reference-impls-config.yaml"},
	}
	var out []*c07CfgSet
	for _, s := range sources {
		out = append(out, c07ParseSet(t, s.label, s.file, s.yaml))
	}
	return out
}

// c07ParseSet: the config cases the real parseConfig yields for a shipped config
// file (file, under testing/) or for the given YAML text.
func c07ParseSet(t *testing.T, label, file, yaml string) *c07CfgSet {
	t.Helper()
	data := []byte(yaml)
	if file != "" {
		var err error
		data, err = os.ReadFile(filepath.Join("..", "..", "..", "testing", file))
		if err != nil {
			data, err = os.ReadFile(filepath.Join(os.Getenv("VERIF_REPO"), "testing", file))
		}
		if err != nil {
			t.Fatalf("cannot read shipped config %s: %v", file, err)
		}
	}
	cases, err := parseConfig(label, data)
	if err != nil {
		t.Fatalf("config %s: %v", label, err)
	}
	mirror := make([]c07CC, 0, len(cases))
	for _, c := range cases {
		if c.ConnectVersionMode != 0 {
			t.Fatalf("config %s produced a case with a connect version mode", label)
		}
		mirror = append(mirror, c07Mirror(c))
	}
	c07SortCases(mirror)
	return c07NewSet("cfg:"+label, mirror)
}

// Configs for phase H. all-features: everything a config file can switch on is
// on, in particular supports_half_duplex_bidi_over_http1 (off by default: the
// only feature that adds a (protocol, version, stream type) triple), so that the
// set holds every triple a config can produce. h1-half-duplex: a small set with
// half-duplex streams over HTTP/1.1 for Connect and gRPC-Web, part of the named
// sets of both tiers.
const (
	c07AllFeaturesYAML = "features:\n" +
		"  versions: [HTTP_VERSION_1, HTTP_VERSION_2, HTTP_VERSION_3]\n" +
		"  protocols: [PROTOCOL_CONNECT, PROTOCOL_GRPC, PROTOCOL_GRPC_WEB]\n" +
		"  codecs: [CODEC_PROTO, CODEC_JSON]\n" +
		"  compressions: [COMPRESSION_IDENTITY, COMPRESSION_GZIP]\n" +
		"  streamTypes: [STREAM_TYPE_UNARY, STREAM_TYPE_CLIENT_STREAM, STREAM_TYPE_SERVER_STREAM, STREAM_TYPE_HALF_DUPLEX_BIDI_STREAM, STREAM_TYPE_FULL_DUPLEX_BIDI_STREAM]\n" +
		"  supportsH2c: true\n  supportsTls: true\n  supportsTlsClientCerts: true\n  supportsTrailers: true\n" +
		"  supportsHalfDuplexBidiOverHttp1: true\n  supportsConnectGet: true\n  supportsMessageReceiveLimit: true\n"
	c07H1HalfDuplexYAML = "features:\n  versions: [HTTP_VERSION_1]\n  protocols: [PROTOCOL_CONNECT, PROTOCOL_GRPC_WEB]\n" +
		"  compressions: [COMPRESSION_IDENTITY]\n  supportsTls: false\n  supportsHalfDuplexBidiOverHttp1: true\n" +
		"  supportsConnectGet: false\n  supportsMessageReceiveLimit: false\n"
)

// c07Triples: the distinct (protocol, version, stream type) triples of a set.
func c07Triples(cases []c07CC) map[[3]int32]bool {
	out := map[[3]int32]bool{}
	for _, cc := range cases {
		out[[3]int32{cc.P, cc.V, cc.S}] = true
	}
	return out
}

// ---------------------------------------------------------------------------
// the test

type c07Plan struct {
	directives   []c07Suite
	caseSetsA    [][]c07TC // against named sets and the whole universe
	caseSetsB    [][]c07TC // against singletons
	named        []*c07CfgSet
	singles      []*c07CfgSet
	twinBase     []c07Suite
	twinSets     []*c07CfgSet
	twinCaseSets [][]c07TC
	prefill      []c07PrefillBlock // phase D
	multi        []c07Suite        // phase E: multi-valued relevant_* lists
	multiCases   [][]c07TC
	shapes       [][]c07Suite // phase F: two suites with path-shaped names
	shapeSets    []*c07CfgSet
	reqCases     [][]c07TC // phase G: request-level fields of the test-case template
	reqDirs      []c07Suite
	reqSets      []*c07CfgSet
	streamSets   []*c07CfgSet // phase H: every (protocol, version, stream type) triple
	streamDirs   []c07Suite
	streamCases  [][]c07TC
	fileLoads    [][]c07Suite // phase I: several suite files in one load
	fileSets     []*c07CfgSet
	extraSets    []*c07CfgSet // sets outside plan.named (looked up by label on replay)
}

// c07PrefillBlock: test-case sets with pre-filled runner-owned fields, the
// directive combinations they are put into and the config-case sets they meet.
type c07PrefillBlock struct {
	cases      [][]c07TC
	directives []c07Suite
	sets       []*c07CfgSet
}

func c07MakePlan(t *testing.T, thorough bool) *c07Plan {
	t.Helper()
	plan := &c07Plan{directives: c07Directives(thorough)}
	all := c07CaseSets(thorough)
	small := c07CaseSets(false)
	named := c07NamedSets(t)
	var universe, singles []c07CC
	if thorough {
		universe = c07Universe([]int32{1, 2, 3}, []int32{1, 2, 3}, []int32{1, 2}, []int32{1, 2, 4}, []int32{1, 2, 3, 4, 5})
		singles = c07Universe([]int32{1, 2, 3}, []int32{1, 2, 3}, []int32{1, 2}, []int32{1, 2, 4}, []int32{1, 5})
		plan.caseSetsA = all
		plan.caseSetsB = [][]c07TC{small[0], small[1]} // stream types 1 and 5, as in the singleton universe
		plan.named = named
	} else {
		universe = c07Universe([]int32{1, 2, 3}, []int32{1, 2, 3}, []int32{1, 2}, []int32{1, 2}, []int32{1, 3, 5})
		singles = c07Universe([]int32{1, 2}, []int32{1, 2, 3}, []int32{1, 2}, []int32{1}, []int32{1})
		plan.caseSetsA = all
		plan.caseSetsB = [][]c07TC{small[1]}
		plan.named = named[:len(named)-1] // the (large) reference-impls set only in the thorough tier
	}
	plan.named = append(plan.named[:len(plan.named):len(plan.named)], c07ParseSet(t, "h1-half-duplex", "", c07H1HalfDuplexYAML))
	tier := "quick"
	if thorough {
		tier = "thorough"
	}
	plan.named = append([]*c07CfgSet{c07NewSet("universe/"+tier, universe)}, plan.named...)
	for _, cc := range singles {
		plan.singles = append(plan.singles, c07NewSet("single", []c07CC{cc}))
	}
	// two suites in one load: the twin differs in name and/or mode only
	for _, d := range c07Directives(false) {
		if len(d.Codecs) > 1 || len(d.Compressions) > 0 || len(d.Versions) > 1 {
			continue
		}
		plan.twinBase = append(plan.twinBase, d)
	}
	plan.twinSets = []*c07CfgSet{plan.named[0], named[3]}
	// phase G: the same reduced directive list (every relies-on combination, mode, protocol subset;
	// versions and codecs any / pinned), whole universe and default config
	plan.reqDirs = plan.twinBase
	plan.reqCases = c07RequestCaseSets(thorough)
	plan.reqSets = []*c07CfgSet{plan.named[0], named[3]}
	plan.multi = c07MultiValueDirectives()
	plan.multiCases = [][]c07TC{small[0], small[1]}
	plan.twinCaseSets = [][]c07TC{small[0], small[1]}
	plan.shapes = c07ShapeInputs()
	// phase H: config-case sets complete in (protocol, version, stream type): the full cross product
	// (one codec, one compression, every flag combination) and what parseConfig yields with every feature on
	plan.streamSets = []*c07CfgSet{
		c07NewSet("universe/streams", c07Universe([]int32{1, 2, 3}, []int32{1, 2, 3}, []int32{1}, []int32{1}, []int32{1, 2, 3, 4, 5})),
		c07ParseSet(t, "all-features", "", c07AllFeaturesYAML),
	}
	plan.streamDirs = plan.twinBase
	plan.streamCases = c07StreamCaseSets()
	// phase I: several suite files in one load, through the file-level route
	plan.fileLoads = c07FileLoads()
	plan.fileSets = []*c07CfgSet{named[4], named[8]} // connect-h1-plain (12 cases), include-exclude (56 cases, TLS and plain, three protocols)
	plan.extraSets = plan.streamSets
	plan.shapeSets = []*c07CfgSet{plan.named[0], named[3]}
	// the two mixed sets: every directive combination, whole reduced universe and default config;
	// thorough, one set per template on all stream types: the quick directive list, whole universe
	prefilled := c07PrefilledCaseSets(thorough)
	plan.prefill = []c07PrefillBlock{{cases: prefilled[:2], directives: plan.directives, sets: []*c07CfgSet{plan.named[0], named[3]}}}
	if len(prefilled) > 2 {
		plan.prefill = append(plan.prefill, c07PrefillBlock{cases: prefilled[2:], directives: c07Directives(false), sets: []*c07CfgSet{plan.named[0]}})
	}
	return plan
}

func c07Report(r *rep.Report, in *c07Input, res c07Result) {
	r.Eval(1)
	r.Outcome(res.outcome)
	if res.nperms > 0 {
		r.NonTrivial("")
		if res.selects {
			r.Count("selective (some config case admitted, some refused)", 1)
		}
	} else {
		r.Count("trivial (no permutation per the statement)", 1)
	}
	r.Count("permutations checked", int64(res.nperms))
	for _, v := range res.verdicts {
		replay := *in
		if strings.HasPrefix(replay.CfgSet, "cfg:") || strings.HasPrefix(replay.CfgSet, "universe/") {
			replay.Cases = nil // regenerated from the label
		}
		r.Violate(v.key, v.detail, replay)
	}
}

func TestVerifC07(t *testing.T) {
	r := rep.New("c07-enum")
	defer r.Write()
	r.Rule = "odometer over suite directives (mode x relevant protocols/versions/codecs/compressions subsets x the 16 relies-on combinations) x test-case sets (1-3 tests, 5 stream types, default/explicit service+method) x config-case sets (whole reduced universe, sets parsed from shipped/typical configs, every singleton of a reduced universe) x 3 run modes, plus two-suite loads whose twin differs in name and/or mode, plus every directive combination with test-case sets that pre-fill the runner-owned request fields (9 templates: client_tls_creds, server_tls_cert, http_version/protocol/codec/compression/message_receive_limit at low, middle and high values) against the universe and the default config, plus suites listing two or three values on an axis (compressions {identity,gzip}, {gzip,identity}, {gzip,br}, {identity,zstd}, {identity,gzip,zstd} x 4 protocol x 4 version x 3 codec selections x 4 relies-on combinations) against the universe and the named sets, plus pairs of suites with path-shaped names (suite names Echo, Echo/v2, Echo/v2/x, Alpha x test names ping, v2/ping, x/ping, v2/x/ping, ../Echo/ping, ../Echo/v2/ping; every axis pinned and relies_on_tls so that no component separates suite and test name, TLS left open in one or both, fully open; same / different stream type) against the universe and the default config, where a load is either refused or holds exactly one permutation per admitted (test, config case) pair, identically on five expansions, plus the request-level fields of the test-case template (use_get_http_method false / true x service x method each absent / present but empty / set, on every stream type, also with pre-filled protocol markers) x every relies-on combination, mode and protocol subset against the universe and the default config, plus suites with a test case of every stream type x the reduced directive list against config-case sets holding every (protocol, version, stream type) triple (full cross product of 3 protocols x 3 versions x 5 stream types x every flag combination; the set parseConfig yields with every feature on incl. supports_half_duplex_bidi_over_http1), plus loads of two or three suite files along the file-level routes (testsuites.LoadTestSuitesFromFiles + parseTestSuites on files written to disk; parseTestSuites on the file contents) in six directory layouts (distinct names in one directory, one file name in several directories, nested, suffix-related paths, mixed, case-differing) x every mode assignment x directive shapes, where the result must equal the model, be identical on five loads with the paths re-ordered and equal newTestCaseLibrary called directly with the same suites; every element is distinct by construction; it is non-trivial when the reference iff admits at least one permutation (the others check that nothing is produced)"
	thorough := rep.Thorough()
	plan := c07MakePlan(t, thorough)

	if data := rep.ReplayInput(); data != nil {
		var rj struct {
			Replay c07Input `json:"replay"`
		}
		if err := json.Unmarshal(data, &rj); err != nil {
			t.Fatal(err)
		}
		in := rj.Replay
		var set *c07CfgSet
		if len(in.Cases) > 0 {
			set = c07NewSet(in.CfgSet, in.Cases)
		} else {
			other := c07MakePlan(t, !thorough)
			for _, cand := range append(append(append([]*c07CfgSet{}, plan.named...), other.named...), plan.extraSets...) {
				if cand.Label == in.CfgSet && set == nil {
					set = cand
				}
			}
		}
		if set == nil {
			t.Fatalf("replay: unknown config-case set %q", in.CfgSet)
		}
		js, _ := json.Marshal(in)
		fmt.Printf("replay: %s\nconfig-case set %q with %d cases\n", js, set.Label, len(set.Mirror))
		var res c07Result
		if in.Shapes {
			res = c07EvaluateShapes(&in, set, 5, true)
		} else {
			res = c07Evaluate(&in, set, 5, true)
		}
		fmt.Printf("outcome: %s\n", res.outcome)
		for _, v := range res.verdicts {
			fmt.Printf("VERDICT %s: %s\n", v.key, v.detail)
		}
		in.cleanup()
		in.Cases = set.Mirror
		c07Report(r, &in, res)
		return
	}

	deadline := rep.Deadline()
	expired := func() bool {
		if !deadline.IsZero() && time.Now().After(deadline) {
			r.NotExhaustive("soft budget reached")
			return true
		}
		return false
	}
	runModes := []int32{c07ModeClient, c07ModeServer, c07ModeAny}
	r.Extra["directive_combinations"] = len(plan.directives)
	r.Extra["test_case_sets_vs_named"] = len(plan.caseSetsA)
	r.Extra["test_case_sets_vs_singletons"] = len(plan.caseSetsB)
	r.Extra["singletons"] = len(plan.singles)
	r.Extra["suites_phaseA"] = len(plan.directives) * len(plan.caseSetsA)
	r.Extra["suites_phaseB"] = len(plan.directives) * len(plan.caseSetsB)
	r.Extra["suites_phaseC"] = len(plan.twinBase) * len(plan.twinCaseSets)
	suitesD := 0
	for _, block := range plan.prefill {
		suitesD += len(block.directives) * len(block.cases)
	}
	r.Extra["suites_phaseD"] = suitesD
	r.Extra["suites_phaseE"] = len(plan.multi) * len(plan.multiCases)
	r.Extra["prefill_templates"] = len(c07Prefills) - 1
	sizes := map[string]int{}
	for _, s := range plan.named {
		sizes[s.Label] = len(s.Mirror)
	}
	r.Extra["named_set_sizes"] = sizes

	var k, mine int64
	// Development aid (mutation self-tests on a loaded machine): VERIF_C07_PHASES=AE
	// runs only the named phases; such a run is never reported as exhaustive.
	onlyPhases := os.Getenv("VERIF_C07_PHASES")
	if onlyPhases != "" {
		r.NotExhaustive("phases restricted by VERIF_C07_PHASES=" + onlyPhases)
	}
	skipPhase := func(p string) bool { return onlyPhases != "" && !strings.Contains(onlyPhases, p) }

	// Order: cheapest config-case sets first (singletons, then the two-suite
	// loads, then the large named sets), so that a budget cut under load
	// truncates only the tail of the most expensive phase.
	// Phase F (first: cheap): two suites with path-shaped suite / test names.
	startF := time.Now()
	r.Extra["suite_pairs_phaseF"] = len(plan.shapes)
phaseF:
	for si := range plan.shapes {
		if skipPhase("F") {
			break
		}
		k++
		if !r.Mine(k) {
			continue
		}
		if expired() {
			break phaseF
		}
		r.Count("phaseF suite pairs done", 1)
		for _, set := range plan.shapeSets {
			for _, mode := range runModes {
				in := c07Input{Suites: plan.shapes[si], CfgSet: set.Label, RunMode: mode, Shapes: true}
				res := c07EvaluateShapes(&in, set, 5, false)
				c07Report(r, &in, res)
				r.Count("phaseF evaluations", 1)
			}
		}
		if si == len(plan.shapes)/7 {
			r.Sample(c07Input{Suites: plan.shapes[si], CfgSet: plan.shapeSets[0].Label, RunMode: runModes[2], Shapes: true})
		}
	}
	r.Count("phaseF ms (this shard summed)", time.Since(startF).Milliseconds())

	// Phase H: config-case sets that hold every (protocol, version, stream type)
	// triple - the full cross product and what parseConfig yields with every feature
	// on (half-duplex streams over HTTP/1.1 included) - x suites with a test case of
	// every stream type x the reduced directive list.
	startH := time.Now()
	r.Extra["suites_phaseH"] = len(plan.streamDirs) * len(plan.streamCases)
	triples := map[string]int{}
	for _, set := range plan.streamSets {
		triples[set.Label] = len(c07Triples(set.Mirror))
		sizes[set.Label] = len(set.Mirror)
	}
	r.Extra["phaseH_protocol_version_stream_triples"] = triples
	r.Extra["phaseH_all_features_has_grpcweb_h1_half_duplex"] = c07Triples(plan.streamSets[1].Mirror)[[3]int32{c07GRPCWeb, 1, 4}]
phaseH:
	for ci, cases := range plan.streamCases {
		if skipPhase("H") {
			break
		}
		for di := range plan.streamDirs {
			k++
			if !r.Mine(k) {
				continue
			}
			if expired() {
				break phaseH
			}
			r.Count("phaseH suites done", 1)
			suite := plan.streamDirs[di]
			suite.Cases = cases
			for _, set := range plan.streamSets {
				for _, mode := range runModes {
					in := c07Input{Suites: []c07Suite{suite}, CfgSet: set.Label, RunMode: mode}
					res := c07Evaluate(&in, set, 2, false)
					c07Report(r, &in, res)
					r.Count("phaseH evaluations", 1)
				}
			}
			if di == (len(plan.streamDirs)/5)*(ci+1) {
				r.Sample(c07Input{Suites: []c07Suite{suite}, CfgSet: plan.streamSets[ci%2].Label, RunMode: runModes[ci%3]})
			}
		}
	}
	r.Count("phaseH ms (this shard summed)", time.Since(startH).Milliseconds())

	// Phase I: two or three suite files in one load, along the file-level routes
	// (files on disk through LoadTestSuitesFromFiles + parseTestSuites; file contents
	// through parseTestSuites), in several directory layouts.
	startI := time.Now()
	r.Extra["file_loads_phaseI"] = len(plan.fileLoads)
phaseI:
	for li := range plan.fileLoads {
		if skipPhase("I") {
			break
		}
		for _, route := range []string{"files", "parse"} {
			k++
			if !r.Mine(k) {
				continue
			}
			if expired() {
				break phaseI
			}
			r.Count("phaseI loads done", 1)
			in := c07Input{Suites: plan.fileLoads[li], Route: route}
			for _, set := range plan.fileSets {
				for _, mode := range runModes {
					in.CfgSet, in.RunMode = set.Label, mode
					res := c07Evaluate(&in, set, 5, false)
					c07Report(r, &in, res)
					r.Count("phaseI evaluations", 1)
				}
			}
			in.cleanup()
			if li == len(plan.fileLoads)/3 || li == 2*len(plan.fileLoads)/3 {
				r.Sample(c07Input{Suites: plan.fileLoads[li], CfgSet: plan.fileSets[0].Label, RunMode: runModes[li%3], Route: route})
			}
		}
	}
	r.Count("phaseI ms (this shard summed)", time.Since(startI).Milliseconds())

	// Phase G: request-level fields of the test-case template (use_get_http_method,
	// service and method absent / present but empty / set) x directive combinations.
	startG := time.Now()
	r.Extra["suites_phaseG"] = len(plan.reqDirs) * len(plan.reqCases)
phaseG:
	for ci, cases := range plan.reqCases {
		if skipPhase("G") {
			break
		}
		for di := range plan.reqDirs {
			k++
			if !r.Mine(k) {
				continue
			}
			if expired() {
				break phaseG
			}
			r.Count("phaseG suites done", 1)
			suite := plan.reqDirs[di]
			suite.Cases = cases
			for _, set := range plan.reqSets {
				for _, mode := range runModes {
					in := c07Input{Suites: []c07Suite{suite}, CfgSet: set.Label, RunMode: mode}
					res := c07Evaluate(&in, set, 1, false)
					c07Report(r, &in, res)
					r.Count("phaseG evaluations", 1)
				}
			}
			if di == (len(plan.reqDirs)/11)*(ci+1) {
				r.Sample(c07Input{Suites: []c07Suite{suite}, CfgSet: plan.reqSets[0].Label, RunMode: runModes[ci%3]})
			}
		}
	}
	r.Count("phaseG ms (this shard summed)", time.Since(startG).Milliseconds())

	// Phase B: every suite against every singleton of the reduced universe.
	startB := time.Now()
phaseB:
	for _, cases := range plan.caseSetsB {
		if skipPhase("B") {
			break
		}
		for di := range plan.directives {
			k++
			if !r.Mine(k) {
				continue
			}
			if expired() {
				break phaseB
			}
			r.Count("phaseB suites done", 1)
			suite := plan.directives[di]
			suite.Cases = cases
			if di == len(plan.directives)/3 {
				r.Sample(c07Input{Suites: []c07Suite{suite}, CfgSet: "single", Cases: plan.singles[len(plan.singles)/2].Mirror, RunMode: runModes[0]})
			}
			for _, set := range plan.singles {
				for _, mode := range runModes {
					in := c07Input{Suites: []c07Suite{suite}, CfgSet: "single", Cases: set.Mirror, RunMode: mode}
					res := c07Evaluate(&in, set, 5, false)
					c07Report(r, &in, res)
					r.Count("phaseB evaluations", 1)
				}
			}
		}
	}
	r.Count("phaseB ms (this shard summed)", time.Since(startB).Milliseconds())

	// Phase C: two suites in one load; the twin differs only in name and/or mode.
	startC := time.Now()
phaseC:
	for _, cases := range plan.twinCaseSets {
		if skipPhase("C") {
			break
		}
		for di := range plan.twinBase {
			k++
			if !r.Mine(k) {
				continue
			}
			if expired() {
				break phaseC
			}
			r.Count("phaseC suites done", 1)
			first := plan.twinBase[di]
			first.Cases = cases
			first.File = "a.yaml"
			for _, twinName := range []string{"Suite Under Test (twin)", first.Name} {
				for _, twinMode := range []int32{0, 1, 2} {
					if twinName == first.Name && twinMode == first.Mode {
						continue // identical suites: nothing differs
					}
					twin := first
					twin.File = "b.yaml"
					twin.Name = twinName
					twin.Mode = twinMode
					for _, set := range plan.twinSets {
						for _, mode := range runModes {
							in := c07Input{Suites: []c07Suite{first, twin}, CfgSet: set.Label, RunMode: mode}
							res := c07Evaluate(&in, set, 5, false)
							c07Report(r, &in, res)
							r.Count("phaseC evaluations", 1)
						}
					}
				}
			}
			if di == len(plan.twinBase)/2 {
				twin := first
				twin.File, twin.Name, twin.Mode = "b.yaml", "Suite Under Test (twin)", (first.Mode+1)%3
				r.Sample(c07Input{Suites: []c07Suite{first, twin}, CfgSet: plan.twinSets[0].Label, RunMode: runModes[1]})
			}
		}
	}
	r.Count("phaseC ms (this shard summed)", time.Since(startC).Milliseconds())

	// Phase D: every suite whose test cases pre-fill runner-owned request fields,
	// against the whole universe and the default config.
	startD := time.Now()
phaseD:
	for _, block := range plan.prefill {
		if skipPhase("D") {
			break
		}
		for ci, cases := range block.cases {
			for di := range block.directives {
				k++
				if !r.Mine(k) {
					continue
				}
				if expired() {
					break phaseD
				}
				r.Count("phaseD suites done", 1)
				suite := block.directives[di]
				suite.Cases = cases
				for _, set := range block.sets {
					for _, mode := range runModes {
						in := c07Input{Suites: []c07Suite{suite}, CfgSet: set.Label, RunMode: mode}
						res := c07Evaluate(&in, set, 2, false)
						c07Report(r, &in, res)
						r.Count("phaseD evaluations", 1)
					}
				}
				if di == (len(block.directives)/5)*(ci%4+1) {
					r.Sample(c07Input{Suites: []c07Suite{suite}, CfgSet: block.sets[0].Label, RunMode: runModes[ci%3]})
				}
			}
		}
	}
	r.Count("phaseD ms (this shard summed)", time.Since(startD).Milliseconds())

	// Phase E: suites listing two or three values on an axis (compressions in
	// particular) against the whole universe and the named sets.
	startE := time.Now()
phaseE:
	for ci, cases := range plan.multiCases {
		if skipPhase("E") {
			break
		}
		for di := range plan.multi {
			k++
			if !r.Mine(k) {
				continue
			}
			if expired() {
				break phaseE
			}
			r.Count("phaseE suites done", 1)
			suite := plan.multi[di]
			suite.Cases = cases
			for _, set := range plan.named {
				for _, mode := range runModes {
					in := c07Input{Suites: []c07Suite{suite}, CfgSet: set.Label, Cases: nil, RunMode: mode}
					res := c07Evaluate(&in, set, 3, false)
					c07Report(r, &in, res)
					r.Count("phaseE evaluations", 1)
				}
			}
			if di == (len(plan.multi)/3)*(ci+1) {
				r.Sample(c07Input{Suites: []c07Suite{suite}, CfgSet: plan.named[0].Label, RunMode: runModes[ci%3]})
			}
		}
	}
	r.Count("phaseE ms (this shard summed)", time.Since(startE).Milliseconds())

	// Phase A: every suite against the whole universe and the named sets.
	startA := time.Now()
phaseA:
	for ci, cases := range plan.caseSetsA {
		if skipPhase("A") {
			break
		}
		for di := range plan.directives {
			k++
			if !r.Mine(k) {
				continue
			}
			if expired() {
				break phaseA
			}
			r.Count("phaseA suites done", 1)
			suite := plan.directives[di]
			suite.Cases = cases
			for _, set := range plan.named {
				for _, mode := range runModes {
					in := c07Input{Suites: []c07Suite{suite}, CfgSet: set.Label, Cases: nil, RunMode: mode}
					res := c07Evaluate(&in, set, 5, false)
					c07Report(r, &in, res)
					r.Count("phaseA evaluations", 1)
				}
			}
			mine++
			if mine == 1 || mine%97 == 0 {
				r.Sample(c07Input{Suites: []c07Suite{suite}, CfgSet: plan.named[ci%len(plan.named)].Label, RunMode: runModes[int(mine)%3]})
			}
		}
	}
	r.Count("phaseA ms (this shard summed)", time.Since(startA).Milliseconds())
}
