package connectconformance

// C10 — client multiplexer answers every request exactly once, whatever the
// client does. GATE exploration of the real runClient / clientProcessRunner
// against a scripted fake client process (see fakeproc_test.go).

import (
	"io"
	"context"
	"encoding/json"
	"errors"
	"fmt"
	"sort"
	"strings"
	"sync"
	"testing"
	"testing/synctest"
	"time"

	"connectrpc.com/conformance/internal"
	conformancev1 "connectrpc.com/conformance/internal/gen/proto/go/connectrpc/conformance/v1"
	"connectrpc.com/conformance/internal/verif/gate"
	"connectrpc.com/conformance/internal/verif/rep"
)

type c10Scenario struct {
	Senders      [][]string `json:"senders"`
	Fault        string     `json:"fault"`    // none exit0 exit1 cut dup unknown oversize garbage stall
	FaultAt      int        `json:"fault_at"` // enabled once this many answers were emitted
	CutBytes     int        `json:"cut_bytes"`
	FaultName    string     `json:"fault_name,omitempty"`
	StdinFault   string     `json:"stdin_fault"` // none closedpipe ioerr
	StdinFaultAt int        `json:"stdin_fault_at"`
	// Ghost: another framed stream of the same process (as a server's start-up response is) whose peer sends a
	// prefix announcing GhostSize bytes, GhostHave of them, then stalls into the time-out - and delivers GhostLate
	// more bytes later, at any moment (the abandoned reader is still parked on that stream)
	GhostSize  int   `json:"ghost_size,omitempty"`
	GhostHave  int   `json:"ghost_have,omitempty"`
	GhostLate  int   `json:"ghost_late,omitempty"`
	AnswerCuts []int `json:"answer_cuts,omitempty"` // every answer frame reaches the runner in pieces cut at these offsets
	Sync         bool       `json:"sync_stdin,omitempty"`  // the input pipe has io.Pipe's semantics (see fakeScript.SyncStdin)
	Main         string     `json:"main"`                  // closewait | stop
	Bound        int        `json:"bound"`
}

func (s c10Scenario) String() string {
	b, _ := json.Marshal(s)
	return string(b)
}

type c10Callback struct {
	Name     string
	RespName string
	HasResp  bool
	Err      string
	Seq      int
	Running  bool // isRunning() as it would answer at the moment the callback fires
}

type c10Obs struct {
	mu          sync.Mutex
	seq         int
	SendRet     map[string]string // "sender/idx/name" -> "ok" | error text
	SendPending map[string]bool
	Callbacks   []c10Callback
	WaitRet     string // "" = not returned
	WaitSeq     int
	MainDone    bool
	PostSend    string
	PostDone    bool
	Running     bool
	GhostErr    string
}

// c10GhostReader is the other stream: a prefix, part of the body, silence, and late bytes.
type c10GhostReader struct {
	mu        sync.Mutex
	size      int
	have      int
	late      int
	sentFirst bool
	resumed   bool
	lateSent  bool
	wake      chan struct{}
}

func (g *c10GhostReader) Read(p []byte) (int, error) {
	g.mu.Lock()
	if !g.sentFirst {
		g.sentFirst = true
		b := []byte{byte(g.size >> 24), byte(g.size >> 16), byte(g.size >> 8), byte(g.size)}
		for i := 0; i < g.have; i++ {
			b = append(b, 0x0a)
		}
		g.mu.Unlock()
		return copy(p, b), nil
	}
	g.mu.Unlock()
	<-g.wake
	g.mu.Lock()
	defer g.mu.Unlock()
	if g.lateSent {
		return 0, io.EOF
	}
	g.lateSent = true
	n := g.late
	if n > len(p) {
		n = len(p)
	}
	for i := 0; i < n; i++ {
		p[i] = 0xee
	}
	return n, nil
}

func (g *c10GhostReader) resume() {
	g.mu.Lock()
	if !g.resumed {
		g.resumed = true
		close(g.wake)
	}
	g.mu.Unlock()
}

func (o *c10Obs) next() int { o.seq++; return o.seq }

func c10RunOne(t *testing.T, sc c10Scenario, prefix []int, expect []gate.PointRec) (x *gate.Exec, obs *c10Obs, fp *fakeProc, verdicts []gateVerdict, leak string) {
	defer func() {
		if r := recover(); r != nil {
			leak = fmt.Sprint(r)
		}
	}()
	synctest.Test(t, func(t *testing.T) {
		x = gate.Begin(prefix, expect)
		obs = &c10Obs{SendRet: map[string]string{}, SendPending: map[string]bool{}}
		fp = newFakeProc(x, fakeScript{Fault: sc.Fault, FaultAt: sc.FaultAt, CutBytes: sc.CutBytes, FaultName: sc.FaultName, AnswerCuts: sc.AnswerCuts, StdinFault: sc.StdinFault, StdinFaultAt: sc.StdinFaultAt, SyncStdin: sc.Sync})
		ctx, cancel := context.WithCancel(context.Background())
		runner, err := runClient(ctx, fp.starter())
		if err != nil {
			panic(err)
		}
		callback := func(name string, resp *conformancev1.ClientCompatResponse, err error) {
			obs.mu.Lock()
			defer obs.mu.Unlock()
			cb := c10Callback{Name: name, Seq: obs.next(), Running: !boolPeek(&runner.(*clientProcessRunner).terminated)}
			if resp != nil {
				cb.HasResp = true
				cb.RespName = resp.TestName
			}
			if err != nil {
				cb.Err = err.Error()
			}
			obs.Callbacks = append(obs.Callbacks, cb)
		}
		if !gateNoCache {
			cr := runner.(*clientProcessRunner)
			x.KeyFn = func() string {
				var sb strings.Builder
				sb.WriteString(fp.stateKey())
				// every field of the runner, known to this harness or not (see gate.DeepKey)
				sb.WriteString("|deep:")
				sb.WriteString(gate.DeepKeyFields(cr, "proc"))
				var errStr string
				if e := cr.err.Load(); e != nil && *e != nil {
					errStr = (*e).Error()
				}
				doneClosed := false
				select {
				case <-cr.done:
					doneClosed = true
				default:
				}
				pend := make([]string, 0, len(cr.pendingOps))
				for k := range cr.pendingOps {
					pend = append(pend, k)
				}
				sort.Strings(pend)
				fmt.Fprintf(&sb, "|term=%v err=%q closed=%v done=%v pend=%v smu=%v pmu=%v", cr.terminated.Load(), errStr, cr.closedSend, doneClosed, pend, mutexHeld(&cr.sendMu), mutexHeld(&cr.pendingMu))
				obs.mu.Lock()
				keys := make([]string, 0, len(obs.SendRet))
				for k, v := range obs.SendRet {
					keys = append(keys, k+"="+v)
				}
				sort.Strings(keys)
				pk := make([]string, 0, len(obs.SendPending))
				for k := range obs.SendPending {
					pk = append(pk, k)
				}
				sort.Strings(pk)
				fmt.Fprintf(&sb, "|sent=%v pending=%v wait=%q/%d main=%v post=%q/%v ghost=%q cbs=", keys, pk, obs.WaitRet, obs.WaitSeq, obs.MainDone, obs.PostSend, obs.PostDone, obs.GhostErr)
				for _, cb := range obs.Callbacks {
					fmt.Fprintf(&sb, "%s/%v/%s/%d/%v;", cb.Name, cb.HasResp, cb.Err, cb.Seq, cb.Running)
				}
				obs.mu.Unlock()
				return sb.String()
			}
		}
		var wg sync.WaitGroup
		ghostDone := make(chan struct{})
		if sc.GhostSize > 0 {
			gr := &c10GhostReader{size: sc.GhostSize, have: sc.GhostHave, late: sc.GhostLate, wake: make(chan struct{})}
			wg.Add(1)
			x.Go("ghost", func() {
				defer wg.Done()
				msg := &conformancev1.ServerCompatResponse{}
				err := internal.ReadDelimitedMessage(gr, msg, "server", 10*time.Second, 1<<20)
				obs.mu.Lock()
				if err != nil {
					obs.GhostErr = err.Error()
				} else {
					obs.GhostErr = "ok"
				}
				obs.mu.Unlock()
				close(ghostDone)
				// the stalled peer wakes up again some time after its reader gave up on it
				x.Go("ghost.resume", func() {
					gate.Point("ghost.resume")
					gr.resume()
				})
			})
		}
		for si, names := range sc.Senders {
			wg.Add(1)
			x.Go(fmt.Sprintf("sender%d", si), func() {
				defer wg.Done()
				for i, name := range names {
					if name == "@pause" {
						time.Sleep(25 * time.Second) // longer than the runner waits for a silent client (virtual time)
						continue
					}
					if name == "@ghost" {
						<-ghostDone // the other stream's read has run into its time-out
						continue
					}
					key := fmt.Sprintf("%d/%d/%s", si, i, name)
					obs.mu.Lock()
					obs.SendPending[key] = true
					obs.mu.Unlock()
					err := runner.sendRequest(&conformancev1.ClientCompatRequest{TestName: name}, callback)
					obs.mu.Lock()
					delete(obs.SendPending, key)
					if err != nil {
						obs.SendRet[key] = "err:" + err.Error()
					} else {
						obs.SendRet[key] = "ok"
					}
					obs.mu.Unlock()
				}
			})
		}
		x.Go("main", func() {
			wg.Wait()
			if sc.Main == "stop" {
				runner.stop()
			} else {
				runner.closeSend()
			}
			err := runner.waitForResponses()
			obs.mu.Lock()
			obs.WaitSeq = obs.next()
			if err != nil {
				obs.WaitRet = "err:" + err.Error()
			} else {
				obs.WaitRet = "ok"
			}
			obs.MainDone = true
			obs.mu.Unlock()
		})
		x.Run(time.Hour, nil)
		// post-mortem: the client is gone (or was told to finish); a further send must be refused
		x.Go("post", func() {
			err := runner.sendRequest(&conformancev1.ClientCompatRequest{TestName: "post/x"}, callback)
			obs.mu.Lock()
			if err != nil {
				obs.PostSend = "err:" + err.Error()
			} else {
				obs.PostSend = "ok"
			}
			obs.PostDone = true
			obs.mu.Unlock()
		})
		x.Run(time.Hour, nil)
		obs.Running = runner.isRunning()
		verdicts = c10Judge(sc, obs, fp, x)
		// teardown
		x.End()
		fp.kill()
		cancel()
		synctest.Wait()
	})
	return
}

func c10Judge(sc c10Scenario, obs *c10Obs, fp *fakeProc, x *gate.Exec) []gateVerdict {
	var out []gateVerdict
	add := func(key, format string, a ...any) {
		out = append(out, gateVerdict{key, fmt.Sprintf(format, a...)})
	}
	obs.mu.Lock()
	defer obs.mu.Unlock()
	parked := func() []string {
		if x == nil {
			return nil
		}
		return x.Waiting()
	}
	if x != nil && x.Overrun {
		add("step-overrun", "execution did not finish within %d steps", x.MaxSteps)
		return out
	}
	if len(obs.SendPending) > 0 {
		var ks []string
		for k := range obs.SendPending {
			ks = append(ks, k)
		}
		sort.Strings(ks)
		add("deadlock-sendRequest", "sendRequest never returned for %v; parked: %v", ks, parked())
	}
	if !obs.MainDone {
		add("deadlock-waitForResponses", "closeSend/stop + waitForResponses never returned; parked: %v", parked())
	}
	if !obs.PostDone {
		add("deadlock-post-send", "sendRequest after the client finished never returned")
	}
	// accepted sends per name
	accepted := map[string]int{}
	for key, ret := range obs.SendRet {
		name := strings.SplitN(key, "/", 3)[2]
		if ret == "ok" {
			accepted[name]++
		} else {
			accepted[name] += 0
		}
	}
	if obs.PostDone && obs.PostSend == "ok" {
		accepted["post/x"]++
	}
	cbCount := map[string]int{}
	respCount := map[string]int{}
	for _, cb := range obs.Callbacks {
		cbCount[cb.Name]++
		if cb.HasResp {
			respCount[cb.Name]++
			if cb.RespName != cb.Name {
				add("wrong-response", "callback for %q carried the response of %q", cb.Name, cb.RespName)
			}
			if cb.Err != "" {
				add("response-and-error", "callback for %q carried both a response and error %q", cb.Name, cb.Err)
			}
		} else if cb.Err == "" {
			add("empty-callback", "callback for %q carried neither response nor error", cb.Name)
		}
		if !cb.HasResp && cb.Err != "" && cb.Running && !strings.Contains(cb.Err, errNoOutcome.Error()) && !strings.Contains(cb.Err, errClosed.Error()) {
			// the reader gave up on the client's output (garbage, oversize, unknown or duplicate name,
			// truncation, time-out): by the time a caller hears of it the client counts as not running
			add("running-while-failure-reported", "callback for %q reports %q while isRunning() would still answer true", cb.Name, cb.Err)
		}
		if obs.WaitSeq != 0 && cb.Seq > obs.WaitSeq && cb.Name != "post/x" {
			add("callback-after-wait", "callback for %q fired after waitForResponses returned", cb.Name)
		}
	}
	if len(obs.SendPending) == 0 && obs.MainDone && obs.PostDone {
		names := map[string]bool{}
		for n := range accepted {
			names[n] = true
		}
		for n := range cbCount {
			names[n] = true
		}
		for n := range names {
			if cbCount[n] != accepted[n] {
				add("callback-count", "test %q: %d accepted send(s) but %d callback(s) (sends: %v)", n, accepted[n], cbCount[n], obs.SendRet)
			}
		}
	}
	emitted := fp.emittedAnswers()
	for n, c := range respCount {
		if c > emitted[n] {
			add("phantom-response", "test %q got %d response callback(s) but the client answered it %d time(s)", n, c, emitted[n])
		}
	}
	if sc.Main != "stop" && len(obs.SendPending) == 0 && obs.MainDone {
		for n, c := range fp.cleanAnswers() {
			want := c
			if accepted[n] < want {
				want = accepted[n]
			}
			if respCount[n] < want {
				add("answer-lost", "the client answered %q %d time(s) on a well-formed output stream (accepted sends: %d) but only %d callback(s) carried a response (callbacks: %+v)", n, c, accepted[n], respCount[n], obs.Callbacks)
			}
		}
	}
	if (sc.Fault == "cut" || sc.Fault == "cut0") && fp.faultFired() && sc.CutBytes > 0 && obs.MainDone && sc.Main != "stop" && !strings.HasPrefix(obs.WaitRet, "err:") {
		// the client's output ended inside a length prefix or inside a message: not a clean end, whatever the
		// exit status and whether or not a request was still outstanding
		add("truncation-reported-as-clean-end", "the client's output stream was cut after %d byte(s) of a message but waitForResponses returned %q", sc.CutBytes, obs.WaitRet)
	}
	if obs.PostDone && obs.PostSend == "ok" {
		add("send-after-finish-accepted", "sendRequest was accepted after the client finished (fault=%s, wait=%s)", sc.Fault, obs.WaitRet)
	}
	if obs.MainDone && fp.hasExited() && obs.Running {
		add("isRunning-after-exit:"+sc.Fault, "isRunning() is still true although the client process exited (fault=%s, exit=%v, wait=%s)", sc.Fault, fp.exitError(), obs.WaitRet)
	}
	if obs.MainDone && !fp.hasExited() {
		add("client-not-stopped", "waitForResponses returned but the client process was left running")
	}
	return out
}

func c10Scenarios(thorough bool) []c10Scenario {
	var out []c10Scenario
	senderSets := [][][]string{
		{{"a"}},
		{{"a", "b"}},
		{{"a"}, {"b"}},
		{{"a"}, {"a"}},
		{{"a", "a"}},
	}
	if thorough {
		senderSets = append(senderSets, [][]string{{"a", "b"}, {"c"}}, [][]string{{"a", "b"}, {"a", "c"}}, [][]string{{"a", "b"}, {"c", "d"}})
	}
	faults := []string{"none", "exit0", "exit1", "cut", "cut0", "dup", "unknown", "oversize", "garbage", "stall", "garbage-high", "oversize-max"}
	for _, ss := range senderSets {
		total := 0
		for _, s := range ss {
			total += len(s)
		}
		for _, f := range faults {
			ats := []int{0}
			if f != "none" {
				ats = nil
				for k := 0; k <= total; k++ {
					ats = append(ats, k)
				}
			}
			for _, at := range ats {
				if f == "dup" && at == 0 {
					continue
				}
				cuts := []int{0}
				if f == "cut" || f == "cut0" {
					// message is 4 bytes prefix + 3+ bytes body; cut at every byte
					cuts = []int{1, 3, 4, 5}
					if thorough {
						cuts = []int{1, 2, 3, 4, 5, 6}
					}
				}
				for _, cut := range cuts {
					mains := []string{"closewait"}
					if f == "none" || f == "stall" {
						mains = append(mains, "stop")
					}
					for _, m := range mains {
						out = append(out, c10Scenario{Senders: ss, Fault: f, FaultAt: at, CutBytes: cut, StdinFault: "none", Main: m})
					}
				}
			}
		}
		// the client stops reading its input (the k-th write blocks) and then misbehaves on its output
		for k := 0; k < total; k++ {
			for _, f := range []string{"unknown", "garbage", "oversize", "cut", "exit1"} {
				if !thorough && total > 2 && f != "unknown" && f != "exit1" {
					continue
				}
				out = append(out, c10Scenario{Senders: ss, Fault: f, FaultAt: 0, CutBytes: 3, StdinFault: "block", StdinFaultAt: k, Main: "closewait"})
			}
		}
		for _, f := range []string{"closeout"} {
			for k := 0; k <= total; k++ {
				out = append(out, c10Scenario{Senders: ss, Fault: f, FaultAt: k, StdinFault: "none", Main: "closewait"})
			}
		}
		for _, sf := range []string{"closedpipe", "ioerr"} {
			for k := 0; k < total; k++ {
				out = append(out, c10Scenario{Senders: ss, Fault: "none", StdinFault: sf, StdinFaultAt: k, Main: "closewait"})
				// the client has closed its input (a send was refused and recorded) and then spoils its output without exiting
				for _, f := range []string{"unknown", "garbage", "dup", "oversize"} {
					if !thorough && (total > 2 || (f != "unknown" && f != "garbage")) {
						continue
					}
					for at := 0; at <= k && at < 2; at++ {
						if f == "dup" && at == 0 {
							continue
						}
						out = append(out, c10Scenario{Senders: ss, Fault: f, FaultAt: at, StdinFault: sf, StdinFaultAt: k, Main: "closewait"})
					}
				}
				if thorough {
					out = append(out, c10Scenario{Senders: ss, Fault: "exit1", FaultAt: 0, StdinFault: sf, StdinFaultAt: k, Main: "closewait"})
				}
			}
		}
	}
	// an answer reaches the runner in pieces (every way of cutting the first answer's frame into up to three
	// pieces), then the client goes silent with a request outstanding: the 20 s time-out must still fire
	{
		ss := [][]string{{"abc", "b"}}
		flen := 4 + 2 + 3 // prefix + field header + name
		for i := 0; i < flen; i++ {
			for j := i; j < flen; j++ {
				var cuts []int
				if i > 0 {
					cuts = append(cuts, i)
				}
				if j > i {
					cuts = append(cuts, j)
				}
				if !thorough && len(cuts) == 2 && !(cuts[0] <= 4 || cuts[1]-cuts[0] <= 4) {
					continue
				}
				out = append(out, c10Scenario{Senders: ss, Fault: "stall", FaultAt: 1, AnswerCuts: cuts, StdinFault: "none", Main: "closewait"})
			}
		}
	}
	// another framed stream of the process times out half-way through a message and its peer delivers more
	// bytes later, while the client's answer is arriving in pieces
	for _, have := range []int{0, 2} {
		for _, late := range []int{1, 6} {
			for _, cuts := range [][]int{{5}, {4, 6}, {2, 7}} {
				if !thorough && have == 0 && late == 1 {
					continue
				}
				out = append(out, c10Scenario{Senders: [][]string{{"@ghost", "abc"}}, Fault: "none", GhostSize: 16, GhostHave: have, GhostLate: late, AnswerCuts: cuts, StdinFault: "none", Main: "closewait"})
			}
		}
	}
	// nothing outstanding and a silent client for longer than the response time-out, then another request
	for _, ss := range [][][]string{{{"a", "@pause", "b"}}, {{"@pause", "a"}}, {{"a", "@pause", "b"}, {"c"}}} {
		out = append(out, c10Scenario{Senders: ss, Fault: "none", StdinFault: "none", Main: "closewait"})
	}
	// the input pipe with io.Pipe's semantics: a write (the zero-length body of a request whose
	// encoding is empty included) completes only when the client reads again, and fails when the
	// client goes away first
	syncSets := [][][]string{
		{{""}},
		{{"a"}},
		{{"", "b"}},
		{{"a"}, {""}},
		{{"a"}, {"b"}},
	}
	if thorough {
		syncSets = append(syncSets, [][]string{{"a", ""}}, [][]string{{"", ""}}, [][]string{{"a", "b"}, {""}})
	}
	for _, ss := range syncSets {
		total := 0
		for _, s := range ss {
			total += len(s)
		}
		for _, f := range []string{"none", "exit0", "exit1", "closeout", "garbage", "unknown"} {
			if !thorough && total > 1 && (f == "unknown" || f == "exit1" || (f == "garbage" && len(ss) > 1)) {
				continue
			}
			for at := 0; at <= total; at++ {
				if f == "none" && at > 0 {
					continue
				}
				out = append(out, c10Scenario{Senders: ss, Fault: f, FaultAt: at, StdinFault: "none", Sync: true, Main: "closewait"})
			}
		}
		// the client answers a test while the runner is still writing that request to it, then exits
		for at := 0; at < total; at++ {
			if !thorough && len(ss) > 1 {
				continue // two senders with a pre-answering client: thorough tier (45k+ executions each)
			}
			out = append(out, c10Scenario{Senders: ss, Fault: "preanswer", FaultName: ss[len(ss)-1][0], FaultAt: at, StdinFault: "none", Sync: true, Main: "closewait"})
		}
	}
	// the small families first: a budget cut on a loaded machine then falls on the tail of the big product
	prio := func(sc c10Scenario) int {
		if sc.GhostSize > 0 || len(sc.AnswerCuts) > 0 || sc.Sync {
			return 0
		}
		for _, ss := range sc.Senders {
			for _, n := range ss {
				if strings.HasPrefix(n, "@") {
					return 0
				}
			}
		}
		return 1
	}
	sort.SliceStable(out, func(i, j int) bool { return prio(out[i]) < prio(out[j]) })
	return out
}

func TestVerifC10(t *testing.T) {
	r := rep.New("c10-gate")
	defer r.Write()
	r.Rule = "scenario = sender threads x request names x client fault x fault threshold x cut offset x stdin fault; every scenario explored by DFS over all gate choices up to the preemption bound; an execution is non-trivial if it is a distinct (scenario, choice list); distinct outcomes = observation vectors"
	bound := 1
	if rep.Thorough() {
		bound = 2
	}
	scs := c10Scenarios(rep.Thorough())
	for i := range scs {
		scs[i].Bound = bound
	}
	gateExplore(t, r, scs, bound, func(sc c10Scenario, prefix []int, expect []gate.PointRec) gateRun {
		x, obs, _, verdicts, leak := c10RunOne(t, sc, prefix, expect)
		return gateRun{x: x, outcome: c10Outcome(sc, obs), verdicts: verdicts, leak: leak}
	})
}

func firstLine(s string) string {
	if i := strings.IndexByte(s, '\n'); i >= 0 {
		return s[:i]
	}
	return s
}

func c10Outcome(sc c10Scenario, obs *c10Obs) string {
	obs.mu.Lock()
	defer obs.mu.Unlock()
	var parts []string
	var keys []string
	for k := range obs.SendRet {
		keys = append(keys, k)
	}
	sort.Strings(keys)
	for _, k := range keys {
		v := obs.SendRet[k]
		if len(v) > 24 {
			v = v[:24]
		}
		parts = append(parts, k+"="+v)
	}
	var cbs []string
	for _, cb := range obs.Callbacks {
		if cb.HasResp {
			cbs = append(cbs, cb.Name+":resp")
		} else {
			e := cb.Err
			if len(e) > 50 {
				e = e[len(e)-50:]
			}
			cbs = append(cbs, cb.Name+":err("+e+")")
		}
	}
	sort.Strings(cbs)
	w := obs.WaitRet
	if len(w) > 60 {
		w = w[:60]
	}
	return fmt.Sprintf("fault=%s|%s|cb=%s|wait=%s|post=%.20s|running=%v", sc.Fault, strings.Join(parts, ","), strings.Join(cbs, ","), w, obs.PostSend, obs.Running)
}

var _ = errors.New

// TestVerifC10Race runs the same scenario bodies free (real goroutines, real
// sync, no bubble) under the race detector: the cooperative scheduler's
// hand-offs are happens-before edges that would blind it.
func TestVerifC10Race(t *testing.T) {
	r := rep.New("c10-race")
	defer r.Write()
	r.Rule = "the C10 scenarios (except the ones that need the 20 s timeout) executed free-running under the race detector, several times each, judged by the same oracle; non-trivial = distinct scenario"
	gate.SetFreeRunning(true)
	defer gate.SetFreeRunning(false)
	reps := 3
	if rep.Thorough() {
		reps = 10
	}
	var k int64
	for _, sc := range c10Scenarios(rep.Thorough()) {
		if sc.Fault == "stall" {
			continue
		}
		k++
		if !r.Mine(k) {
			continue
		}
		for i := 0; i < reps; i++ {
			obs, fp, verdicts := c10RunFree(sc)
			r.Eval(1)
			r.Outcome(c10Outcome(sc, obs))
			for _, v := range verdicts {
				r.Violate(v.key, v.detail+" | free-running, scenario="+sc.String(), map[string]any{"scenario": sc, "choices": []int{}})
			}
			_ = fp
		}
		r.NonTrivial("")
		if k%40 == 1 {
			r.Sample(sc)
		}
	}
}

func c10RunFree(sc c10Scenario) (*c10Obs, *fakeProc, []gateVerdict) {
	obs := &c10Obs{SendRet: map[string]string{}, SendPending: map[string]bool{}}
	fp := newFakeProc(nil, fakeScript{Fault: sc.Fault, FaultAt: sc.FaultAt, CutBytes: sc.CutBytes, FaultName: sc.FaultName, AnswerCuts: sc.AnswerCuts, StdinFault: sc.StdinFault, StdinFaultAt: sc.StdinFaultAt, SyncStdin: sc.Sync})
	ctx, cancel := context.WithCancel(context.Background())
	defer cancel()
	runner, err := runClient(ctx, fp.starter())
	if err != nil {
		panic(err)
	}
	callback := func(name string, resp *conformancev1.ClientCompatResponse, err error) {
		obs.mu.Lock()
		defer obs.mu.Unlock()
		cb := c10Callback{Name: name, Seq: obs.next(), Running: !boolPeek(&runner.(*clientProcessRunner).terminated)}
		if resp != nil {
			cb.HasResp = true
			cb.RespName = resp.TestName
		}
		if err != nil {
			cb.Err = err.Error()
		}
		obs.Callbacks = append(obs.Callbacks, cb)
	}
	var wg sync.WaitGroup
	for si, names := range sc.Senders {
		wg.Add(1)
		go func() {
			defer wg.Done()
			for i, name := range names {
				key := fmt.Sprintf("%d/%d/%s", si, i, name)
				obs.mu.Lock()
				obs.SendPending[key] = true
				obs.mu.Unlock()
				err := runner.sendRequest(&conformancev1.ClientCompatRequest{TestName: name}, callback)
				obs.mu.Lock()
				delete(obs.SendPending, key)
				if err != nil {
					obs.SendRet[key] = "err:" + err.Error()
				} else {
					obs.SendRet[key] = "ok"
				}
				obs.mu.Unlock()
			}
		}()
	}
	done := make(chan struct{})
	go func() {
		defer close(done)
		wg.Wait()
		if sc.Main == "stop" {
			runner.stop()
		} else {
			runner.closeSend()
		}
		err := runner.waitForResponses()
		obs.mu.Lock()
		obs.WaitSeq = obs.next()
		if err != nil {
			obs.WaitRet = "err:" + err.Error()
		} else {
			obs.WaitRet = "ok"
		}
		obs.MainDone = true
		obs.mu.Unlock()
	}()
	select {
	case <-done:
	case <-time.After(30 * time.Second):
	}
	pd := make(chan struct{})
	go func() {
		defer close(pd)
		err := runner.sendRequest(&conformancev1.ClientCompatRequest{TestName: "post/x"}, callback)
		obs.mu.Lock()
		if err != nil {
			obs.PostSend = "err:" + err.Error()
		} else {
			obs.PostSend = "ok"
		}
		obs.PostDone = true
		obs.mu.Unlock()
	}()
	select {
	case <-pd:
	case <-time.After(10 * time.Second):
	}
	// the whenDone callback runs on its own goroutine: give it a moment, it is not an oracle
	for i := 0; i < 200 && runner.isRunning() && fp.hasExited(); i++ {
		time.Sleep(100 * time.Microsecond)
	}
	obs.Running = runner.isRunning()
	verdicts := c10Judge(sc, obs, fp, nil)
	fp.kill()
	return obs, fp, verdicts
}

// TestVerifC10CacheCheck validates the state-cache abstraction: for the scenarios small
// enough to finish without it, the search with the cache must reach exactly the outcome
// vectors (and verdicts) that the search without the cache reaches.
func TestVerifC10CacheCheck(t *testing.T) {
	r := rep.New("c10-cachecheck")
	defer r.Write()
	r.Rule = "for every single-sender scenario (and the two-sender scenarios without a fault) the DFS with preemption bound 1 is run twice, with and without the state cache; the sets of distinct outcome vectors must be equal; non-trivial = distinct scenario"
	var k int64
	deadline := rep.Deadline()
	for _, sc := range c10Scenarios(false) {
		total := 0
		for _, s := range sc.Senders {
			total += len(s)
		}
		if !(len(sc.Senders) == 1 && total <= 2) && !(len(sc.Senders) == 2 && total == 2 && sc.Fault == "none" && sc.StdinFault == "none") {
			continue
		}
		k++
		if !r.Mine(k) {
			continue
		}
		if !deadline.IsZero() && time.Now().After(deadline) {
			r.NotExhaustive("budget")
			break
		}
		sets := [2]map[string]bool{{}, {}}
		execs := [2]int64{}
		for mode := 0; mode < 2; mode++ {
			gateNoCache = mode == 1
			ex := &gate.Explorer{Bound: 1, NShards: 1}
			if mode == 1 {
				ex.MaxExecs = 400000
			}
			ex.RunOne = func(prefix []int, expect []gate.PointRec, owned bool) *gate.Exec {
				x, obs, _, verdicts, _ := c10RunOne(t, sc, prefix, expect)
				o := c10Outcome(sc, obs)
				for _, v := range verdicts {
					o += "|VERDICT:" + v.key
				}
				sets[mode][o] = true
				return x
			}
			ex.Explore()
			execs[mode] = ex.Stats.Executions
			if ex.Stats.Capped {
				sets[mode] = nil
			}
		}
		gateNoCache = false
		r.Eval(execs[0] + execs[1])
		r.NonTrivial("")
		if sets[1] == nil {
			r.Count("uncached_search_capped", 1)
			continue
		}
		r.Count("scenarios_compared", 1)
		r.Count("executions_cached", execs[0])
		r.Count("executions_uncached", execs[1])
		var missing, extra []string
		for o := range sets[1] {
			if !sets[0][o] {
				missing = append(missing, o)
			}
		}
		for o := range sets[0] {
			if !sets[1][o] {
				extra = append(extra, o)
			}
		}
		if len(missing)+len(extra) > 0 {
			t.Errorf("state cache changes the reachable outcomes of scenario %v: missing with cache %v, only with cache %v", sc, missing, extra)
		}
		if k%9 == 1 {
			r.Sample(map[string]any{"scenario": sc, "outcomes": len(sets[0]), "executions_cached": execs[0], "executions_uncached": execs[1]})
		}
	}
	if len(r.Samples) == 0 {
		r.Sample("no scenario in this shard")
	}
}

// TestVerifC09ClientRunner: the scenarios in which the client's output stream itself misbehaves (cut at
// every byte with either exit status, oversized and garbled prefixes, going silent) seen from C09's side:
// what ReadDelimitedMessage reports at this call site must reach the caller of waitForResponses.
func TestVerifC09ClientRunner(t *testing.T) {
	r := rep.New("c09-client-runner")
	defer r.Write()
	r.Rule = "the C10 scenarios whose fault is in the framing of the client's output (cut at every byte offset with exit status 0 and non-zero, after k answers incl. all of them; oversized / garbled length prefix; silence) with one and two senders, explored as in c10-gate; oracle as there plus: a cut stream is never reported as a clean end"
	var scs []c10Scenario
	for _, sc := range c10Scenarios(rep.Thorough()) {
		paused := false
		for _, ss := range sc.Senders {
			for _, n := range ss {
				if n == "@pause" {
					paused = true
				}
			}
		}
		switch sc.Fault {
		case "cut", "cut0", "oversize", "oversize-max", "garbage-high", "stall":
		default:
			// also: a client that is silent for longer than the time-out while nothing is outstanding, then used
			// again; and answers that arrive in pieces followed by silence
			if !paused && !(sc.Fault == "stall" && len(sc.AnswerCuts) > 0) {
				continue
			}
		}
		if sc.StdinFault != "none" || sc.Sync || (len(sc.AnswerCuts) > 0 && sc.Fault != "stall") || sc.GhostSize > 0 {
			continue
		}
		total := 0
		for _, s := range sc.Senders {
			total += len(s)
		}
		if !rep.Thorough() && total > 2 && !paused {
			continue
		}
		sc.Bound = 1
		scs = append(scs, sc)
	}
	gateExplore(t, r, scs, 1, func(sc c10Scenario, prefix []int, expect []gate.PointRec) gateRun {
		x, obs, _, verdicts, leak := c10RunOne(t, sc, prefix, expect)
		return gateRun{x: x, outcome: c10Outcome(sc, obs), verdicts: verdicts, leak: leak}
	})
}
