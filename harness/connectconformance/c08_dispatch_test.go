package connectconformance

// C08 — "a case is run iff it matches some --run pattern (or none were given)
// and no --skip pattern", observed where it counts: on the permutations the
// real run() hands to a client.
//
// The names patterns are written against are the names the runner reports,
// i.e. for the permutations executed by the grpc-go reference peers the name
// WITH the "(grpc client impl)" / "(grpc server impl)" component
// (docs/configuring_and_running_tests.md, "gRPC Implementations"). The unit
// drives run() with the scripted in-process peers of the C05 harness
// (peersim_test.go; default schedule only, no exploration) for many run/skip
// pattern sets and compares the set of test names that reached a client with
// the set comprehension of the property over the final names, judged by the
// reference glob c08Glob. Which permutations exist and how the gRPC ones are
// named is taken from the C05 oracle (c05Expected without patterns: the
// library's expansion + an independent applicability predicate + marker);
// which of them are selected is decided here.

import (
	"encoding/json"
	"fmt"
	"sort"
	"strings"
	"testing"
	"time"

	"connectrpc.com/conformance/internal/verif/rep"
)

func c08DispatchAccept(name string, run, skip []string) bool {
	return (len(run) == 0 || c08AnyGlob(run, name)) && !c08AnyGlob(skip, name)
}

// c08FinalNames: every permutation name of the scenario as the runner reports it.
func c08FinalNames(sc c05Scenario) ([]string, string) {
	plain := sc
	plain.Run, plain.Skip = nil, nil
	all, libErr := c05Expected(plain)
	names := make([]string, 0, len(all))
	for n := range all {
		names = append(names, n)
	}
	sort.Strings(names)
	return names, libErr
}

var c08Markers = []string{"(grpc client impl)", "(grpc server impl)", "(grpc impls)"} //nolint:gochecknoglobals

func c08IsMarker(comp string) bool {
	for _, m := range c08Markers {
		if comp == m {
			return true
		}
	}
	return false
}

type c08Filter struct{ run, skip []string }

// c08DispatchFilters derives the pattern sets from the final names of one
// (config, suites, mode): patterns with and without marker components, exact
// names, exact-depth patterns, and the usual `**` ones; each as the only --run
// pattern, as the only --skip pattern, and selected run+skip / two-pattern
// combinations.
func c08DispatchFilters(names []string) []c08Filter {
	seen := map[string]bool{}
	var pats []string
	add := func(ps ...string) {
		for _, p := range ps {
			if !seen[p] {
				seen[p] = true
				pats = append(pats, p)
			}
		}
	}
	add("**", "S/**", "**/u1", "**/Protocol:PROTOCOL_GRPC/**", "**/Protocol:PROTOCOL_GRPC/*/*/*/u1")
	// the empty pattern (one empty component) and patterns with an empty component: no
	// permutation has such a name, so run() must refuse them like any other unmatched pattern
	add("", "S//**", "/S/**", "**/u1/")
	for _, m := range c08Markers {
		add("**/"+m+"/**", "**/"+m+"/*", "S/**/"+m+"/u1")
	}
	// the place where the marker component is inserted: right before the test name
	add("**/TLS:false/u1", "**/TLS:false/*/u1", "**/TLS:false/**/u1", "**/TLS:false/*", "**/TLS:false/*/*")
	var exactPlain, exactMarked, depthPlain, depthMarked []string
	for _, n := range names {
		comps := strings.Split(n, "/")
		marked := false
		stars := make([]string, len(comps))
		keepProto := make([]string, len(comps))
		keepMarker := make([]string, len(comps))
		for i, c := range comps {
			stars[i], keepProto[i], keepMarker[i] = "*", "*", "*"
			if i == 0 || i == len(comps)-1 || strings.HasPrefix(c, "Protocol:") {
				keepProto[i] = c
			}
			if i == 0 || i == len(comps)-1 || c08IsMarker(c) {
				keepMarker[i] = c
			}
			marked = marked || c08IsMarker(c)
		}
		add(n, strings.Join(stars, "/"), strings.Join(keepProto, "/"), strings.Join(keepMarker, "/"))
		if marked {
			exactMarked = append(exactMarked, n)
			depthMarked = append(depthMarked, strings.Join(keepProto, "/"))
		} else {
			exactPlain = append(exactPlain, n)
			depthPlain = append(depthPlain, strings.Join(keepProto, "/"))
		}
	}
	var out []c08Filter
	out = append(out, c08Filter{})
	for _, p := range pats {
		out = append(out, c08Filter{run: []string{p}}, c08Filter{skip: []string{p}})
	}
	first := func(xs []string) []string {
		if len(xs) > 2 {
			return []string{xs[0], xs[len(xs)-1]}
		}
		return xs
	}
	runs := append([]string{"**/Protocol:PROTOCOL_GRPC/**", "S/**", "**/TLS:false/*/u1"}, first(depthPlain)...)
	runs = append(runs, first(exactMarked)...)
	skips := []string{"**/TLS:false/u1", "**/TLS:false/*/u1", "**/TLS:false/*"}
	for _, m := range c08Markers[:2] {
		runs = append(runs, "**/"+m+"/**")
		skips = append(skips, "**/"+m+"/**")
	}
	skips = append(skips, first(exactMarked)...)
	skips = append(skips, first(depthMarked)...)
	skips = append(skips, first(exactPlain)...)
	pairSeen := map[string]bool{}
	for _, rp := range runs {
		for _, sp := range skips {
			if rp == sp || pairSeen[rp+"\x00"+sp] {
				continue
			}
			pairSeen[rp+"\x00"+sp] = true
			out = append(out, c08Filter{run: []string{rp}, skip: []string{sp}})
		}
	}
	// two patterns on one side: a marked and an unmarked exact name; a marker pattern and an exact-depth one
	if len(exactMarked) > 0 && len(exactPlain) > 0 {
		m, p := exactMarked[len(exactMarked)-1], exactPlain[0]
		out = append(out,
			c08Filter{run: []string{m, p}},
			c08Filter{skip: []string{m, p}},
			c08Filter{run: []string{p, "**/(grpc server impl)/**"}},
			c08Filter{run: []string{depthPlain[len(depthPlain)-1], "**/(grpc client impl)/**"}},
			c08Filter{run: []string{"S/**"}, skip: []string{m, p}},
		)
	}
	return out
}

type c08DispatchVerdict struct{ key, detail string }

func c08JudgeDispatch(sc c05Scenario, names []string, libErr string, obs *c05Obs, leak string) (verdicts []c08DispatchVerdict, class string) {
	bad := func(key, format string, a ...any) {
		verdicts = append(verdicts, c08DispatchVerdict{key, fmt.Sprintf(format, a...)})
	}
	if leak != "" || obs == nil {
		bad("filter-dispatch.run-did-not-complete", "execution of run() with run=%q skip=%q did not complete: %s", sc.Run, sc.Skip, leak)
		return verdicts, "incomplete"
	}
	if !obs.Returned {
		bad("filter-dispatch.run-did-not-complete", "run() with run=%q skip=%q did not return within a virtual hour", sc.Run, sc.Skip)
		return verdicts, "incomplete"
	}
	if libErr != "" {
		bad("harness-assumption", "the scenario's library does not load: %s", libErr)
		return verdicts, "library-error"
	}
	var unmatched []string
	for _, p := range append(append([]string{}, sc.Run...), sc.Skip...) {
		any := false
		for _, n := range names {
			any = any || c08GlobStr(p, n)
		}
		if !any {
			unmatched = append(unmatched, p)
		}
	}
	want := map[string]bool{}
	for _, n := range names {
		if c08DispatchAccept(n, sc.Run, sc.Skip) {
			want[n] = true
		}
	}
	w := obs.World
	w.mu.Lock()
	got := map[string]int{}
	for _, rc := range w.recvs {
		got[rc.req.GetTestName()]++
	}
	w.mu.Unlock()
	via := c08ViaStr(append(append([]string{}, sc.Run...), sc.Skip...), names)
	withVia := func(key string) string {
		if via != "" {
			return key + ".via." + via
		}
		return key
	}
	if len(unmatched) > 0 {
		// "a pattern that matches no permutation is reported as an error": nothing runs
		if obs.Results != nil || !strings.Contains(obs.RunErr, "unmatched") {
			bad(withVia("unmatched-not-reported.through-run"), "run=%q skip=%q: %q match none of the %d permutation names, yet run() went on (error %q)", sc.Run, sc.Skip, unmatched, len(names), obs.RunErr)
		}
		if len(got) > 0 {
			bad(withVia("filter-dispatch-mismatch.dispatch-after-refusal"), "run=%q skip=%q: run() refused the patterns but %d requests reached a client", sc.Run, sc.Skip, len(got))
		}
		return verdicts, "refused:unmatched-pattern"
	}
	if obs.Results == nil {
		if strings.Contains(obs.RunErr, "unmatched") {
			// converse direction (every pattern matches a name, yet "unmatched"): counted, not part of the statement
			return verdicts, "refused:spurious-unmatched"
		}
		bad(withVia("filter-dispatch-mismatch.run-refused"), "run=%q skip=%q: every pattern matches a permutation name, yet run() returned no results: %q", sc.Run, sc.Skip, obs.RunErr)
		return verdicts, "refused:other"
	}
	var extra, missing []string
	for n := range got {
		if !want[n] {
			extra = append(extra, n)
		}
	}
	for n := range want {
		if got[n] == 0 {
			missing = append(missing, n)
		}
	}
	sort.Strings(extra)
	sort.Strings(missing)
	if len(extra) > 0 {
		bad(withVia("filter-dispatch-mismatch.unexpected-dispatch"), "mode=%s run=%q skip=%q: %q reached a client although the filter (over the reported names) does not select them; selected: %q", sc.Mode, sc.Run, sc.Skip, extra, c08Keys(want))
	}
	if len(missing) > 0 {
		bad(withVia("filter-dispatch-mismatch.selected-not-dispatched"), "mode=%s run=%q skip=%q: %q are selected by the filter (over the reported names) but never reached a client; dispatched: %q", sc.Mode, sc.Run, sc.Skip, missing, c08KeysInt(got))
	}
	// the result table lists exactly what was selected
	var outExtra, outMissing []string
	for n := range obs.Results.outcomes {
		if !want[n] {
			outExtra = append(outExtra, n)
		}
	}
	for n := range want {
		if _, ok := obs.Results.outcomes[n]; !ok {
			outMissing = append(outMissing, n)
		}
	}
	sort.Strings(outExtra)
	sort.Strings(outMissing)
	if len(outExtra) > 0 || len(outMissing) > 0 {
		bad(withVia("filter-dispatch-mismatch.outcomes"), "mode=%s run=%q skip=%q: outcomes recorded for unselected %q, none for selected %q", sc.Mode, sc.Run, sc.Skip, outExtra, outMissing)
	}
	switch {
	case len(want) == 0:
		return verdicts, "ran:nothing-selected"
	case len(want) == len(names):
		return verdicts, "ran:everything-selected"
	}
	return verdicts, "ran:proper-subset"
}

func c08Keys(m map[string]bool) []string {
	out := make([]string, 0, len(m))
	for k := range m {
		out = append(out, k)
	}
	sort.Strings(out)
	return out
}

func c08KeysInt(m map[string]int) []string {
	out := make([]string, 0, len(m))
	for k := range m {
		out = append(out, k)
	}
	sort.Strings(out)
	return out
}

func c08DispatchScenarios(thorough bool) []c05Scenario {
	type base struct {
		cfg, suites string
		ms          int
	}
	bases := []base{{"A2", "one", 1}, {"A3", "one", 2}, {"A2", "two", 2}}
	if thorough {
		bases = append(bases, base{"A3", "two", 1}, base{"A4", "two", 3}, base{"A4", "mix", 2})
	}
	var out []c05Scenario
	for _, b := range bases {
		for _, mode := range []string{"client", "server", "both"} {
			sc := c05Scenario{Cfg: b.cfg, Suites: b.suites, Mode: mode, MaxServers: b.ms, FailStart: -1}
			names, _ := c08FinalNames(sc)
			for _, f := range c08DispatchFilters(names) {
				s := sc
				s.Run, s.Skip = f.run, f.skip
				out = append(out, s)
			}
		}
	}
	return out
}

func TestVerifC08Dispatch(t *testing.T) {
	r := rep.New("c08-dispatch")
	defer r.Write()
	r.Rule = "real run() with scripted in-process peers (default schedule) on config sets with Connect, gRPC and gRPC-Web cases x suites of 1-2 unary tests (thorough: also a five-suite mix) x client / server / both mode; " +
		"pattern sets derived from the reported permutation names of each base: every exact name (with and without a gRPC-peer marker component), every name with all / all but suite+protocol+test / all but suite+marker+test components replaced by `*` (exact depth), " +
		"the empty pattern, `S//**`, `/S/**`, `**/u1/`, `**/<marker>/**`, `**/<marker>/*`, `S/**/<marker>/u1` for the three markers, `**/TLS:false/u1`, `**/TLS:false/*/u1`, `**/TLS:false/**/u1`, `**/TLS:false/*`, `**/TLS:false/*/*`, `**`, `S/**`, `**/u1`, `**/Protocol:PROTOCOL_GRPC/**`; " +
		"each as the only --run and as the only --skip pattern, selected run x skip pairs and two patterns on one side. Oracle: set of test names that reached a client (and the names of the result table) = " +
		"{ reported name | some run pattern (or none given) and no skip pattern matches under the reference glob }; a pattern matching no reported name must make run() refuse before anything is dispatched. " +
		"Non-trivial: the filter selects a proper, non-empty subset; scenarios are distinct by construction."
	if data := rep.ReplayInput(); data != nil {
		var rj struct {
			Replay c05Scenario `json:"replay"`
		}
		if err := json.Unmarshal(data, &rj); err != nil {
			t.Fatal(err)
		}
		sc := rj.Replay
		names, libErr := c08FinalNames(sc)
		_, obs, leak := c05RunOne(t, sc, nil, nil)
		verdicts, class := c08JudgeDispatch(sc, names, libErr, obs, leak)
		fmt.Printf("replay: scenario %+v\nreported names: %q\nclass: %s\n", sc, names, class)
		if obs != nil && obs.World != nil {
			for _, rc := range obs.World.recvs {
				fmt.Printf("  reached %s: %s\n", rc.clientKind, rc.req.GetTestName())
			}
			fmt.Printf("run error: %q\n", obs.RunErr)
		}
		r.Eval(1)
		for _, v := range verdicts {
			fmt.Printf("VERDICT %s: %s\n", v.key, v.detail)
			r.Violate(v.key, v.detail, sc)
		}
		return
	}
	deadline := rep.Deadline()
	scs := c08DispatchScenarios(rep.Thorough())
	r.Extra["scenarios"] = len(scs)
	var k int64
	for _, sc := range scs {
		k++
		if !r.Mine(k) {
			continue
		}
		if !deadline.IsZero() && time.Now().After(deadline) {
			r.NotExhaustive("budget reached in c08-dispatch")
			break
		}
		names, libErr := c08FinalNames(sc)
		_, obs, leak := c05RunOne(t, sc, nil, nil)
		verdicts, class := c08JudgeDispatch(sc, names, libErr, obs, leak)
		r.Eval(1)
		r.Outcome(sc.Mode + ":" + class)
		if class == "ran:proper-subset" {
			r.NonTrivial("")
		}
		if obs != nil {
			r.Count("requests that reached a client", int64(obs.NumRecv))
			r.Count("verdicts of the C05 invariants on these runs (judged by C05, not reported here)", int64(len(obs.Verdicts)))
		}
		if k%97 == 3 || (class == "ran:proper-subset" && k%41 == 0) {
			r.Sample(map[string]any{"scenario": sc, "class": class, "reported_names": len(names)})
		}
		for _, v := range verdicts {
			r.Violate(v.key, v.detail, sc)
		}
	}
}
