package connectconformance

// C08 — test-name patterns follow glob semantics; every given pattern is honoured.
//
// Units in this file (in-package, bounded-exhaustive ENUM):
//
//   TestVerifC08Match      matcher, run/skip filter, known-failing/known-flaky
//                          flags of an outcome, unmatched-pattern detection
//   TestVerifC08Ambiguity  known-failing ∩ known-flaky rejection through run()
//
// The oracle is c08Glob below, written from the property statement and
// docs/configuring_and_running_tests.md ("An asterisk (*) matches one name
// component. A double-asterisk (**) matches zero or more components."), not
// from test_trie.go.

import (
	"encoding/json"
	"fmt"
	"sort"
	"strings"
	"testing"
	"time"

	"connectrpc.com/conformance/internal"
	conformancev1 "connectrpc.com/conformance/internal/gen/proto/go/connectrpc/conformance/v1"
	"connectrpc.com/conformance/internal/verif/rep"
)

// ---------------------------------------------------------------------------
// reference model

// c08Glob is the glob definition of the property: component by component,
// literals are equal, `*` is exactly one component, `**` is zero or more.
func c08Glob(pat, name []string) bool {
	if len(pat) == 0 {
		return len(name) == 0
	}
	switch pat[0] {
	case "**":
		for i := 0; i <= len(name); i++ {
			if c08Glob(pat[1:], name[i:]) {
				return true
			}
		}
		return false
	case "*":
		return len(name) > 0 && c08Glob(pat[1:], name[1:])
	default:
		return len(name) > 0 && name[0] == pat[0] && c08Glob(pat[1:], name[1:])
	}
}

func c08GlobStr(pat, name string) bool {
	return c08Glob(strings.Split(pat, "/"), strings.Split(name, "/"))
}

// c08TrailingZero tells whether pat ends in two or more `**` components and
// matches name with all of them standing for zero components.
func c08TrailingZero(pat, name string) bool {
	comps := strings.Split(pat, "/")
	stars := 0
	for len(comps) > 0 && comps[len(comps)-1] == "**" {
		comps = comps[:len(comps)-1]
		stars++
	}
	return stars >= 2 && len(comps) > 0 && c08Glob(comps, strings.Split(name, "/"))
}

// c08GlobKey is the stable violation key of a matcher disagreement on (set of
// patterns, name): the direction, and for false negatives whether all
// patterns that ought to match are of the one shape "two or more trailing `**`
// that all stand for nothing".
func c08GlobKey(pats []string, name string, want bool) string {
	if !want {
		return "glob-mismatch.false-positive"
	}
	for _, p := range pats {
		if c08GlobStr(p, name) && !c08TrailingZero(p, name) {
			return "glob-mismatch.false-negative"
		}
	}
	return "glob-mismatch.false-negative.trailing-doublestars-zero"
}

// ---------------------------------------------------------------------------
// enumeration

// c08Seqs returns all non-empty sequences over alpha of length <= maxLen,
// joined by "/", shortest first and in odometer order within a length.
func c08Seqs(alpha []string, maxLen int) []string {
	var out []string
	level := []string{""}
	for l := 1; l <= maxLen; l++ {
		var next []string
		for _, prefix := range level {
			for _, a := range alpha {
				if prefix == "" {
					next = append(next, a)
				} else {
					next = append(next, prefix+"/"+a)
				}
			}
		}
		out = append(out, next...)
		level = next
	}
	return out
}

func c08CountSeqs(alphaLen, maxLen int) int {
	n, p := 0, 1
	for l := 1; l <= maxLen; l++ {
		p *= alphaLen
		n += p
	}
	return n
}

type c08Universe struct {
	names    []string
	cases    []*conformancev1.TestCase // one per name
	pats     []string
	ref      [][]bool // [pattern][name] reference glob
	impl     [][]bool // [pattern][name] real matcher, trie holding only that pattern, fresh per pair
	nShort   int      // number of names with a mask bit (a prefix of names): length <= 3, then the edge names
	refMask  []uint32 // per pattern: bit i set iff ref[p][i], i < nShort
	implMask []uint32
	nPat2    int // number of patterns of length <= 2 (a prefix of pats)
	nPat3    int // number of patterns of length <= 3
	// names[nPlainShort:nShort] are the edge names; pats[nPlainPats:] the edge patterns
	nPlainShort int
	nPlainPats  int
	tag         string // "" = main universe; otherwise the name of the additional alphabet (counter prefix)
}

func c08Case(name string) *conformancev1.TestCase {
	return &conformancev1.TestCase{Request: &conformancev1.ClientCompatRequest{TestName: name}}
}

// Edge alphabet: the empty string and strings with empty components. Splitting
// at slashes gives "" one component (the empty one), "a//b" three, "/a" and
// "a/" two; the glob definition applies to them as to any other component:
// the pattern "" equals the name "" and nothing else, `*` stands for an empty
// component too. A pattern is whatever text was supplied (an unset shell
// variable supplies ""), so these take part like every other pattern.
var (
	c08EdgeNames    = []string{"", "a/", "/a", "a//b"}                    //nolint:gochecknoglobals
	c08EdgePatterns = []string{"", "a//b", "/a", "a/", "*/", "/**", "//"} //nolint:gochecknoglobals
)

// c08AllNames: the names over {a,b} of length <= 3, the edge names, the names of
// length 4. The first nShort = 14 + len(c08EdgeNames) of them have mask bits.
func c08AllNames() (names []string, nShort, nPlainShort int) {
	plain := c08Seqs([]string{"a", "b"}, 4)
	nPlainShort = c08CountSeqs(2, 3)
	names = append(names, plain[:nPlainShort]...)
	names = append(names, c08EdgeNames...)
	names = append(names, plain[nPlainShort:]...)
	return names, nPlainShort + len(c08EdgeNames), nPlainShort
}

func c08NewUniverse() *c08Universe {
	u := &c08Universe{}
	u.names, u.nShort, u.nPlainShort = c08AllNames()
	u.pats = c08Seqs([]string{"a", "b", "*", "**"}, 4)
	u.nPat2 = c08CountSeqs(4, 2)
	u.nPat3 = c08CountSeqs(4, 3)
	u.nPlainPats = len(u.pats)
	u.pats = append(u.pats, c08EdgePatterns...) // at the end: the prefixes nPat2 / nPat3 stay what they were
	u.fill()
	return u
}

// Blank alphabet (round 5): a component is any text between two slashes,
// blanks and tabs included; a pattern is the text that was supplied, so the
// literal "a " equals the name component "a " and not "a", " " is a component
// of one blank (not the empty one). (Only a pattern *file* drops the whitespace
// around a line; that rule belongs to the file reader and is judged in
// c08-collect.) Letters: plain, trailing blank, leading blank, trailing tab, a
// lone blank.
var c08BlankLetters = []string{"a", "a ", " a", "a\t", " "} //nolint:gochecknoglobals

// c08NewBlankUniverse: all names over the blank alphabet of length <= 2 (30, all
// with a mask bit; libraries: every subset of <= 3 of the one-component names
// and every library of <= 2 names with a two-component name) and all patterns
// over the blank alphabet + {*, **} of length <= 2 (56). Every phase of
// TestVerifC08Match runs over it as over the main universe ("length <= 2" and
// "length <= 3" prefixes: the 7 one-component patterns resp. all 56).
func c08NewBlankUniverse() *c08Universe {
	u := &c08Universe{tag: "blank-alphabet"}
	u.names = c08Seqs(c08BlankLetters, 2)
	u.nShort = len(u.names)
	u.nPlainShort = len(c08BlankLetters)
	palpha := append(append([]string{}, c08BlankLetters...), "*", "**")
	u.pats = c08Seqs(palpha, 2)
	u.nPat2 = len(palpha)
	u.nPat3 = len(u.pats)
	u.nPlainPats = len(u.pats)
	u.fill()
	return u
}

func (u *c08Universe) fill() {
	if u.nShort > 32 {
		panic("c08: more than 32 names with a mask bit")
	}
	for _, n := range u.names {
		u.cases = append(u.cases, c08Case(n))
	}
	u.ref = make([][]bool, len(u.pats))
	u.impl = make([][]bool, len(u.pats))
	u.refMask = make([]uint32, len(u.pats))
	u.implMask = make([]uint32, len(u.pats))
	for pi, p := range u.pats {
		u.ref[pi] = make([]bool, len(u.names))
		u.impl[pi] = make([]bool, len(u.names))
		for ni, n := range u.names {
			u.ref[pi][ni] = c08GlobStr(p, n)
			got, panicked := c08Match([]string{p}, n)
			u.impl[pi][ni] = got && panicked == ""
			if ni < u.nShort {
				if u.ref[pi][ni] {
					u.refMask[pi] |= 1 << ni
				}
				if u.impl[pi][ni] {
					u.implMask[pi] |= 1 << ni
				}
			}
		}
	}
}

// via returns the key suffix that tells whether a composite failure (filter,
// unmatched detection, ambiguity) coincides with a plain matcher disagreement
// on one of the involved pattern/name pairs (then the matcher is the root
// cause and the failure goes away with it) or is a failure of its own.
func (u *c08Universe) via(pats []int, names []int) string {
	for _, p := range pats {
		for _, n := range names {
			if u.ref[p][n] != u.impl[p][n] {
				return ".via-glob-mismatch"
			}
		}
	}
	return ""
}

// c08Composite reports a failure of something built on the matcher (filter,
// outcome flags, unmatched detection, ambiguity rule). When the matcher itself
// disagrees with the reference on one of the involved pattern/name pairs, that
// disagreement is the root cause: the consequence is counted, and reported
// under the matcher's own glob-mismatch key where via carries that key (units
// and replays that do not judge the matcher separately); in TestVerifC08Match
// phaseMatch already reports it, so via is just a marker there. Without a
// matcher disagreement the failure is a violation of its own (key = base).
func c08Composite(r *rep.Report, base, via, detail string, rp any) {
	if via == "" {
		r.Violate(base, detail, rp)
		return
	}
	r.Count("consequence-of-glob-mismatch:"+base, 1)
	if strings.HasPrefix(via, "glob-mismatch") {
		r.Violate(via, "("+base+", consequence of the matcher disagreeing with glob semantics) "+detail, rp)
	}
}

func (u *c08Universe) strs(pats []int) []string {
	out := make([]string, len(pats))
	for i, p := range pats {
		out[i] = u.pats[p]
	}
	return out
}

func (u *c08Universe) refAny(pats []int, name int) bool {
	for _, p := range pats {
		if u.ref[p][name] {
			return true
		}
	}
	return false
}

// ---------------------------------------------------------------------------
// calls into the real code (panics recovered)

func c08Recover(panicked *string) {
	if x := recover(); x != nil {
		*panicked = fmt.Sprint(x)
	}
}

// c08Match builds a fresh trie from pats and matches one name.
func c08Match(pats []string, name string) (got bool, panicked string) {
	defer c08Recover(&panicked)
	return parsePatterns(pats).matchPattern(name), ""
}

func c08MatchOn(trie *testTrie, name string) (got bool, panicked string) {
	defer c08Recover(&panicked)
	return trie.matchPattern(name), ""
}

func c08Accept(run, skip []string, tc *conformancev1.TestCase) (got bool, panicked string) {
	defer c08Recover(&panicked)
	return newFilter(parsePatterns(run), parsePatterns(skip)).accept(tc), ""
}

func c08Apply(run, skip []string, tcs []*conformancev1.TestCase) (got []string, panicked string) {
	defer c08Recover(&panicked)
	for _, tc := range newFilter(parsePatterns(run), parsePatterns(skip)).apply(tcs) {
		got = append(got, tc.Request.TestName)
	}
	return got, ""
}

// c08Outcome reports the known-failing / known-flaky flags that the result
// book-keeping attaches to a finished case.
func c08Outcome(failing, flaky []string, name string) (isFailing, isFlaky bool, panicked string) {
	defer c08Recover(&panicked)
	kf, kfl := parsePatterns(failing), parsePatterns(flaky)
	if kf == nil {
		kf = &testTrie{} // as Run does
	}
	if kfl == nil {
		kfl = &testTrie{}
	}
	res := newResults(1, kf, kfl, nil)
	res.setOutcome(name, false, nil)
	o := res.outcomes[name]
	return o.knownFailing, o.knownFlaky, ""
}

// c08UnmatchedKey: no error at all, or an error that lists other strings but
// not the pattern that matches nothing.
func c08UnmatchedKey(isErr bool) string {
	if isErr {
		return "unmatched-not-reported.error-does-not-name-it"
	}
	return "unmatched-not-reported"
}

type c08TryResult struct {
	count    int
	isErr    bool
	errText  string
	named    map[string]bool
	panicked string
}

func c08Try(pats []string, tcs []*conformancev1.TestCase) (res c08TryResult) {
	defer c08Recover(&res.panicked)
	count, err := tryMatchPatterns("c08", parsePatterns(pats), tcs)
	res.count = count
	if err != nil {
		res.isErr = true
		res.errText = err.Error()
		_, rest, _ := strings.Cut(res.errText, "\n")
		res.named = map[string]bool{}
		for _, line := range strings.Split(rest, "\n") {
			res.named[line] = true
		}
	}
	return res
}

// ---------------------------------------------------------------------------
// replay records

type c08Replay struct {
	Kind     string   `json:"kind"` // match | match-shared | accept | apply | outcome | try | ambiguity
	Patterns []string `json:"patterns,omitempty"`
	Run      []string `json:"run,omitempty"`
	Skip     []string `json:"skip,omitempty"`
	Failing  []string `json:"failing,omitempty"`
	Flaky    []string `json:"flaky,omitempty"`
	Name     string   `json:"name,omitempty"`
	Names    []string `json:"names,omitempty"`
}

func c08AnyGlob(pats []string, name string) bool {
	for _, p := range pats {
		if c08GlobStr(p, name) {
			return true
		}
	}
	return false
}

// c08ViaStr is via() for replayed cases and for units without universe
// tables: "" or the glob-mismatch key of the first involved pattern/name pair
// on which a single-pattern trie disagrees with the reference.
func c08ViaStr(pats []string, names []string) string {
	for _, p := range pats {
		for _, n := range names {
			got, panicked := c08Match([]string{p}, n)
			if want := c08GlobStr(p, n); panicked != "" || got != want {
				return c08GlobKey([]string{p}, n, want)
			}
		}
	}
	return ""
}

// ---------------------------------------------------------------------------
// TestVerifC08Match

type c08Run struct {
	r        *rep.Report
	u        *c08Universe
	deadline time.Time
	k        int64
	stop     bool
}

// next advances the global case counter; false = not this shard's or budget over.
func (c *c08Run) next() bool {
	if c.stop {
		return false
	}
	c.k++
	if !c.r.Mine(c.k) {
		return false
	}
	if !c.deadline.IsZero() && c.k%64 == 0 && time.Now().After(c.deadline) {
		c.r.NotExhaustive("budget reached in " + c.r.Unit)
		c.stop = true
		return false
	}
	return true
}

// count: free counter, prefixed with the name of the additional alphabet.
func (c *c08Run) count(name string, n int64) {
	if c.u.tag != "" {
		name = c.u.tag + ":" + name
	}
	c.r.Count(name, n)
}

func c08Bool(b bool) string {
	if b {
		return "true"
	}
	return "false"
}

// matchSet: one trie built from the set (in the given insertion order) and
// shared by all names, as in a real run; every name is judged.
func (c *c08Run) matchSet(set []int) {
	u, r := c.u, c.r
	pats := u.strs(set)
	trie := parsePatterns(pats)
	var sawTrue, sawFalse bool
	for ni, name := range u.names {
		got, panicked := c08MatchOn(trie, name)
		want := u.refAny(set, ni)
		if want {
			sawTrue = true
		} else {
			sawFalse = true
		}
		r.Outcome("match:" + c08Bool(got))
		if panicked != "" {
			r.Violate("panic", fmt.Sprintf("matchPattern(%q) on patterns %q panicked: %s", name, pats, panicked),
				c08Replay{Kind: "match", Patterns: pats, Name: name})
			continue
		}
		if got != want {
			r.Violate(c08GlobKey(pats, name, want),
				fmt.Sprintf("patterns %q, name %q: matchPattern=%v but glob semantics give %v", pats, name, got, want),
				c08Replay{Kind: "match", Patterns: pats, Name: name})
		}
	}
	r.Eval(int64(len(u.names)))
	if sawTrue && sawFalse {
		r.NonTrivial("")
	}
	if c.k%5000 == 1 {
		r.Sample(c08Replay{Kind: "match-shared", Patterns: pats, Names: u.names[:3]})
	}
}

func (c *c08Run) phaseMatch() {
	u, r := c.u, c.r
	// size 1: fresh trie per (pattern, name) was done when building the
	// universe (u.impl); judge it here, then the shared-trie variant.
	for pi := range u.pats {
		if !c.next() {
			continue
		}
		for ni, name := range u.names {
			if u.impl[pi][ni] != u.ref[pi][ni] {
				r.Violate(c08GlobKey(u.pats[pi:pi+1], name, u.ref[pi][ni]),
					fmt.Sprintf("pattern %q, name %q: matchPattern=%v but glob semantics give %v", u.pats[pi], name, u.impl[pi][ni], u.ref[pi][ni]),
					c08Replay{Kind: "match", Patterns: []string{u.pats[pi]}, Name: name})
			}
		}
		r.Eval(int64(len(u.names)))
		c.matchSet([]int{pi})
		c.count("sets-size1", 1)
	}
	// size 2, both insertion orders, all patterns of length <= 4
	for p := range u.pats {
		for q := range u.pats {
			if p == q || !c.next() {
				continue
			}
			c.matchSet([]int{p, q})
			c.count("sets-size2", 1)
		}
	}
	// size 3, every insertion order
	n3 := u.nPat2
	if rep.Thorough() {
		n3 = u.nPat3
	}
	for p := 0; p < n3; p++ {
		for q := 0; q < n3; q++ {
			for s := 0; s < n3; s++ {
				if p == q || p == s || q == s || !c.next() {
					continue
				}
				c.matchSet([]int{p, q, s})
				c.count("sets-size3", 1)
			}
		}
	}
	// size 3 with an edge pattern in each position, the other two of length 1
	for e := u.nPlainPats; e < len(u.pats); e++ {
		for p := 0; p < 4; p++ {
			for q := 0; q < 4; q++ {
				if p == q || !c.next() {
					continue
				}
				c.matchSet([]int{e, p, q})
				c.matchSet([]int{p, e, q})
				c.matchSet([]int{p, q, e})
				c.count("sets-size3-with-edge-pattern", 3)
			}
		}
	}
}

// phaseOutcome: a finished case is flagged known-failing / known-flaky iff it
// matches such a pattern.
func (c *c08Run) phaseOutcome() {
	u, r := c.u, c.r
	for pi, p := range u.pats {
		if !c.next() {
			continue
		}
		for ni, name := range u.names {
			for _, asFailing := range []bool{true, false} {
				var failing, flaky []string
				if asFailing {
					failing = []string{p}
				} else {
					flaky = []string{p}
				}
				isFailing, isFlaky, panicked := c08Outcome(failing, flaky, name)
				wantFailing := asFailing && u.ref[pi][ni]
				wantFlaky := !asFailing && u.ref[pi][ni]
				r.Eval(1)
				r.Outcome(fmt.Sprintf("outcome:failing=%v,flaky=%v", isFailing, isFlaky))
				rp := c08Replay{Kind: "outcome", Failing: failing, Flaky: flaky, Name: name}
				if panicked != "" {
					r.Violate("panic", fmt.Sprintf("setOutcome(%q) with failing=%q flaky=%q panicked: %s", name, failing, flaky, panicked), rp)
					continue
				}
				if isFailing != wantFailing || isFlaky != wantFlaky {
					c08Composite(r, "known-flag-mismatch", u.via([]int{pi}, []int{ni}),
						fmt.Sprintf("known-failing=%q known-flaky=%q, case %q: outcome flagged failing=%v flaky=%v, glob semantics give failing=%v flaky=%v",
							failing, flaky, name, isFailing, isFlaky, wantFailing, wantFlaky), rp)
				}
			}
		}
		r.NonTrivial("")
	}
}

func (c *c08Run) acceptOne(run, skip []int) {
	u, r := c.u, c.r
	runS, skipS := u.strs(run), u.strs(skip)
	var sawTrue, sawFalse bool
	var wantApplied []string
	for ni, name := range u.names {
		got, panicked := c08Accept(runS, skipS, u.cases[ni])
		want := (len(run) == 0 || u.refAny(run, ni)) && !u.refAny(skip, ni)
		if want {
			sawTrue = true
			wantApplied = append(wantApplied, name)
		} else {
			sawFalse = true
		}
		r.Outcome("accept:" + c08Bool(got))
		rp := c08Replay{Kind: "accept", Run: runS, Skip: skipS, Name: name}
		if panicked != "" {
			r.Violate("panic", fmt.Sprintf("filter.accept(%q) with run=%q skip=%q panicked: %s", name, runS, skipS, panicked), rp)
			continue
		}
		if got != want {
			c08Composite(r, "filter-mismatch", u.via(append(append([]int{}, run...), skip...), []int{ni}),
				fmt.Sprintf("run=%q skip=%q, case %q: filter.accept=%v but (run empty or some run pattern matches) and no skip pattern matches = %v",
					runS, skipS, name, got, want), rp)
		}
	}
	r.Eval(int64(len(u.names)))
	// the list form used by run() to select the cases of a server batch
	if len(run)+len(skip) <= 2 {
		got, panicked := c08Apply(runS, skipS, u.cases)
		r.Eval(1)
		rp := c08Replay{Kind: "apply", Run: runS, Skip: skipS, Names: u.names}
		if panicked != "" {
			r.Violate("panic", fmt.Sprintf("filter.apply with run=%q skip=%q panicked: %s", runS, skipS, panicked), rp)
		} else if strings.Join(got, " ") != strings.Join(wantApplied, " ") {
			all := make([]int, len(u.names))
			for i := range all {
				all[i] = i
			}
			c08Composite(r, "filter-mismatch", u.via(append(append([]int{}, run...), skip...), all),
				fmt.Sprintf("run=%q skip=%q: filter.apply keeps %q, glob semantics keep %q", runS, skipS, got, wantApplied), rp)
		}
	}
	if sawTrue && sawFalse {
		r.NonTrivial("")
	}
	if c.k%20000 == 3 {
		r.Sample(c08Replay{Kind: "accept", Run: runS, Skip: skipS, Names: u.names[:3]})
	}
}

func (c *c08Run) phaseAccept() {
	u := c.u
	// run ∈ {none} ∪ singles, skip ∈ {none} ∪ singles, all patterns of length <= 4
	for p := -1; p < len(u.pats); p++ {
		for q := -1; q < len(u.pats); q++ {
			if !c.next() {
				continue
			}
			var run, skip []int
			if p >= 0 {
				run = []int{p}
			}
			if q >= 0 {
				skip = []int{q}
			}
			c.acceptOne(run, skip)
			c.count("filters-0or1-x-0or1", 1)
		}
	}
	// pairs on one side (both insertion orders), none or single on the other
	n := u.nPat2
	if rep.Thorough() {
		n = u.nPat3
	}
	for p := 0; p < n; p++ {
		for q := 0; q < n; q++ {
			if p == q {
				continue
			}
			for s := -1; s < n; s++ {
				if !c.next() {
					continue
				}
				var other []int
				if s >= 0 {
					other = []int{s}
				}
				c.acceptOne([]int{p, q}, other)
				c.acceptOne(other, []int{p, q})
				c.count("filters-2-x-0or1", 2)
			}
		}
	}
}

type c08NameSet struct {
	idx   []int
	mask  uint32
	cases []*conformancev1.TestCase
	names []string
}

// c08NameSets: all subsets of <= 3 names among the names of length <= 3
// (including the empty library), smallest first.
func (u *c08Universe) nameSets() []c08NameSet {
	var out []c08NameSet
	add := func(idx ...int) {
		ns := c08NameSet{idx: append([]int{}, idx...)}
		for _, i := range idx {
			ns.mask |= 1 << i
			ns.cases = append(ns.cases, u.cases[i])
			ns.names = append(ns.names, u.names[i])
		}
		out = append(out, ns)
	}
	add()
	n := u.nPlainShort
	for i := 0; i < n; i++ {
		add(i)
	}
	for i := 0; i < n; i++ {
		for j := i + 1; j < n; j++ {
			add(i, j)
		}
	}
	for i := 0; i < n; i++ {
		for j := i + 1; j < n; j++ {
			for l := j + 1; l < n; l++ {
				add(i, j, l)
			}
		}
	}
	// libraries of one or two names with at least one edge name
	for e := n; e < u.nShort; e++ {
		add(e)
	}
	for e := n; e < u.nShort; e++ {
		for j := 0; j < u.nShort; j++ {
			if j < n || j > e {
				add(e, j)
			}
		}
	}
	return out
}

func c08Popcount(x uint32) int {
	n := 0
	for ; x != 0; x &= x - 1 {
		n++
	}
	return n
}

// tryOne: every pattern without a match in the library must be named in the
// error (stated direction); an error although every pattern has a match is
// the converse failure, reported under its own key.
func (c *c08Run) tryOne(set []int, nameSets []c08NameSet) {
	u, r := c.u, c.r
	pats := u.strs(set)
	var sawErr, sawOK bool
	for si := range nameSets {
		ns := &nameSets[si]
		res := c08Try(pats, ns.cases)
		rp := c08Replay{Kind: "try", Patterns: pats, Names: ns.names}
		if res.panicked != "" {
			r.Violate("panic", fmt.Sprintf("tryMatchPatterns(%q) over names %q panicked: %s", pats, ns.names, res.panicked), rp)
			continue
		}
		var unmatched []string
		var union uint32
		viaGlob := false
		for _, p := range set {
			if u.refMask[p]&ns.mask == 0 {
				unmatched = append(unmatched, u.pats[p])
			}
			union |= u.refMask[p]
			if (u.refMask[p]^u.implMask[p])&ns.mask != 0 {
				viaGlob = true
			}
		}
		via := ""
		if viaGlob {
			via = ".via-glob-mismatch"
		}
		if res.isErr {
			sawErr = true
		} else {
			sawOK = true
		}
		for _, p := range unmatched {
			if !res.isErr || !res.named[p] {
				c08Composite(r, c08UnmatchedKey(res.isErr), via,
					fmt.Sprintf("patterns %q, library %q: %q matches no name but is not reported (error: %q)", pats, ns.names, p, res.errText), rp)
			}
		}
		if res.isErr && len(unmatched) == 0 {
			r.Count("spurious-unmatched-error (converse direction, not part of the statement)", 1)
			_ = fmt.Sprintf("patterns %q, library %q: every pattern matches some name, yet tryMatchPatterns fails: %q", pats, ns.names, res.errText)
		} else if res.isErr && len(res.named) != len(unmatched) {
			r.Count("justified-error-names-extra-patterns", 1)
		}
		// the returned count only feeds a verbose log line; not part of the property
		if want := c08Popcount(union & ns.mask); res.count != want {
			r.Count("match-count-differs-from-reference", 1)
		}
	}
	r.Eval(int64(len(nameSets)))
	if sawErr {
		r.Outcome("try:error")
	}
	if sawOK {
		r.Outcome("try:ok")
	}
	if sawErr && sawOK {
		r.NonTrivial("")
	}
	if c.k%20000 == 7 {
		r.Sample(c08Replay{Kind: "try", Patterns: pats, Names: nameSets[len(nameSets)-1].names})
	}
}

func (c *c08Run) phaseTry() {
	u := c.u
	nameSets := u.nameSets()
	if u.tag == "" {
		c.r.Extra["try_name_sets"] = len(nameSets)
	} else {
		c.r.Extra[u.tag+":try_name_sets"] = len(nameSets)
	}
	for p := range u.pats {
		if !c.next() {
			continue
		}
		c.tryOne([]int{p}, nameSets)
		c.count("try-sets-size1", 1)
	}
	n := u.nPat3
	if rep.Thorough() {
		n = len(u.pats)
	}
	for p := 0; p < n; p++ {
		for q := 0; q < n; q++ {
			if p == q || !c.next() {
				continue
			}
			c.tryOne([]int{p, q}, nameSets)
			c.count("try-sets-size2", 1)
		}
	}
	// an edge pattern next to an ordinary one (length <= 2) or another edge pattern, both orders
	if n < len(u.pats) {
		for e := u.nPlainPats; e < len(u.pats); e++ {
			for q := 0; q < len(u.pats); q++ {
				if q == e || (q >= u.nPat2 && q < u.nPlainPats) || !c.next() {
					continue
				}
				c.tryOne([]int{e, q}, nameSets)
				c.tryOne([]int{q, e}, nameSets)
				c.count("try-sets-size2-with-edge-pattern", 2)
			}
		}
	}
}

func c08ReplayMatchUnit(r *rep.Report, rp c08Replay) {
	switch rp.Kind {
	case "match", "match-shared":
		names := rp.Names
		if rp.Name != "" {
			names = []string{rp.Name}
		}
		for _, name := range names {
			got, panicked := c08Match(rp.Patterns, name)
			want := c08AnyGlob(rp.Patterns, name)
			fmt.Printf("replay: patterns %q name %q: matchPattern=%v panicked=%q reference=%v\n", rp.Patterns, name, got, panicked, want)
			r.Eval(1)
			if panicked != "" {
				r.Violate("panic", "matchPattern panicked: "+panicked, rp)
			} else if got != want {
				r.Violate(c08GlobKey(rp.Patterns, name, want), fmt.Sprintf("patterns %q, name %q: matchPattern=%v but glob semantics give %v", rp.Patterns, name, got, want), rp)
			}
		}
	case "accept":
		got, panicked := c08Accept(rp.Run, rp.Skip, c08Case(rp.Name))
		want := (len(rp.Run) == 0 || c08AnyGlob(rp.Run, rp.Name)) && !c08AnyGlob(rp.Skip, rp.Name)
		fmt.Printf("replay: run %q skip %q name %q: accept=%v panicked=%q reference=%v\n", rp.Run, rp.Skip, rp.Name, got, panicked, want)
		r.Eval(1)
		if panicked != "" {
			r.Violate("panic", "filter.accept panicked: "+panicked, rp)
		} else if got != want {
			c08Composite(r, "filter-mismatch", c08ViaStr(append(append([]string{}, rp.Run...), rp.Skip...), []string{rp.Name}),
				fmt.Sprintf("run=%q skip=%q, case %q: filter.accept=%v, reference %v", rp.Run, rp.Skip, rp.Name, got, want), rp)
		}
	case "apply":
		names := rp.Names
		if len(names) == 0 {
			names, _, _ = c08AllNames()
		}
		var cases []*conformancev1.TestCase
		var want []string
		for _, n := range names {
			cases = append(cases, c08Case(n))
			if (len(rp.Run) == 0 || c08AnyGlob(rp.Run, n)) && !c08AnyGlob(rp.Skip, n) {
				want = append(want, n)
			}
		}
		got, panicked := c08Apply(rp.Run, rp.Skip, cases)
		fmt.Printf("replay: run %q skip %q: apply keeps %q panicked=%q reference %q\n", rp.Run, rp.Skip, got, panicked, want)
		r.Eval(1)
		if panicked != "" {
			r.Violate("panic", "filter.apply panicked: "+panicked, rp)
		} else if strings.Join(got, " ") != strings.Join(want, " ") {
			c08Composite(r, "filter-mismatch", c08ViaStr(append(append([]string{}, rp.Run...), rp.Skip...), names),
				fmt.Sprintf("run=%q skip=%q: filter.apply keeps %q, reference %q", rp.Run, rp.Skip, got, want), rp)
		}
	case "outcome":
		isFailing, isFlaky, panicked := c08Outcome(rp.Failing, rp.Flaky, rp.Name)
		wantFailing, wantFlaky := c08AnyGlob(rp.Failing, rp.Name), c08AnyGlob(rp.Flaky, rp.Name)
		fmt.Printf("replay: failing %q flaky %q name %q: flagged failing=%v flaky=%v panicked=%q reference failing=%v flaky=%v\n",
			rp.Failing, rp.Flaky, rp.Name, isFailing, isFlaky, panicked, wantFailing, wantFlaky)
		r.Eval(1)
		if panicked != "" {
			r.Violate("panic", "setOutcome panicked: "+panicked, rp)
		} else if isFailing != wantFailing || isFlaky != wantFlaky {
			c08Composite(r, "known-flag-mismatch", c08ViaStr(append(append([]string{}, rp.Failing...), rp.Flaky...), []string{rp.Name}),
				fmt.Sprintf("failing=%q flaky=%q case %q: flagged failing=%v flaky=%v, reference failing=%v flaky=%v",
					rp.Failing, rp.Flaky, rp.Name, isFailing, isFlaky, wantFailing, wantFlaky), rp)
		}
	case "try":
		var cases []*conformancev1.TestCase
		for _, n := range rp.Names {
			cases = append(cases, c08Case(n))
		}
		res := c08Try(rp.Patterns, cases)
		fmt.Printf("replay: patterns %q library %q: count=%d error=%q panicked=%q\n", rp.Patterns, rp.Names, res.count, res.errText, res.panicked)
		r.Eval(1)
		if res.panicked != "" {
			r.Violate("panic", "tryMatchPatterns panicked: "+res.panicked, rp)
			return
		}
		via := c08ViaStr(rp.Patterns, rp.Names)
		var unmatched []string
		wantCount := 0
		for _, n := range rp.Names {
			if c08AnyGlob(rp.Patterns, n) {
				wantCount++
			}
		}
		for _, p := range rp.Patterns {
			any := false
			for _, n := range rp.Names {
				if c08GlobStr(p, n) {
					any = true
				}
			}
			if !any {
				unmatched = append(unmatched, p)
				if !res.isErr || !res.named[p] {
					c08Composite(r, c08UnmatchedKey(res.isErr), via, fmt.Sprintf("patterns %q, library %q: %q matches no name but is not reported (error: %q)", rp.Patterns, rp.Names, p, res.errText), rp)
				}
			}
		}
		fmt.Printf("replay: reference: unmatched=%q count=%d\n", unmatched, wantCount)
		if res.isErr && len(unmatched) == 0 {
			r.Count("spurious-unmatched-error (converse direction, not part of the statement)", 1)
			_ = fmt.Sprintf("patterns %q, library %q: every pattern matches some name, yet tryMatchPatterns fails: %q", rp.Patterns, rp.Names, res.errText)
		}
	default:
		panic("c08: unknown replay kind " + rp.Kind)
	}
}

func c08ParseReplay(t *testing.T, data []byte) c08Replay {
	var rec struct {
		Replay c08Replay `json:"replay"`
	}
	if err := json.Unmarshal(data, &rec); err != nil {
		t.Fatalf("bad replay file: %v", err)
	}
	return rec.Replay
}

func TestVerifC08Match(t *testing.T) {
	r := rep.New("c08-match")
	defer r.Write()
	r.Rule = "names: all sequences over {a,b} of length 1..4 (30) + 4 edge names; patterns: all sequences over {a,b,*,**} of length 1..4 (340) + 7 edge patterns; " +
		"pattern sets of size 1, size 2 (every ordered pair = both insertion orders, length<=4) and size 3 (every insertion order; length<=2 quick, <=3 thorough), " +
		"one shared trie per set matched against all 30 names (plus a fresh trie per pattern/name pair for size 1); " +
		"filter: run and skip each none or one pattern (341x341), and an ordered pair on one side with none/one on the other (length<=2 quick, <=3 thorough); " +
		"outcome flags: every pattern as known-failing resp. known-flaky x every name; " +
		"unmatched detection: pattern sets of size 1 (length<=4) and 2 (both orders; length<=3 quick, <=4 thorough) x every library of <=3 names of length<=3 (470, incl. empty), fresh trie per library. " +
		"Edge alphabet: names \"\", a/, /a, a//b (in the name list; libraries of <=2 names with at least one of them) and patterns \"\", a//b, /a, a/, */, /**, // (every size-1 and size-2 use above; size 3 and unmatched-detection pairs next to patterns of length 1 resp. <=2): \"\" is one empty component. " +
		"Blank alphabet (a second universe, every phase again): names = all sequences of length 1..2 over the components {\"a\", \"a \", \" a\", \"a<TAB>\", \" \"} (30), patterns = all sequences of length 1..2 over those components + {*, **} (56); " +
		"sets of size 1, 2 (both orders) and 3 (one-component patterns quick, all thorough), filters 57x57 and pairs on one side, outcome flags, unmatched detection over every library of <=3 one-component names and every library of <=2 names with a two-component name: " +
		"blanks and tabs are component text like any other, nothing is trimmed from a pattern or a name. " +
		"Oracle: recursive reference glob from the property text. A pattern set counts as non-trivial when both verdicts (match/no match, accept/reject, error/no error) occur over its names/libraries; sets are distinct by construction."
	if data := rep.ReplayInput(); data != nil {
		c08ReplayMatchUnit(r, c08ParseReplay(t, data))
		return
	}
	c := &c08Run{r: r, u: c08NewUniverse(), deadline: rep.Deadline()}
	r.Extra["names"] = len(c.u.names)
	r.Extra["patterns"] = len(c.u.pats)
	// the same phases over the blank alphabet; its (small) matcher and outcome phases
	// come before the long filter / unmatched phases of the main universe, so that a
	// budget stop cannot cut them off
	main, blank := c.u, c08NewBlankUniverse()
	r.Extra["blank_alphabet_names"] = len(blank.names)
	r.Extra["blank_alphabet_patterns"] = len(blank.pats)
	c.phaseMatch()
	c.phaseOutcome()
	c.u = blank
	c.phaseMatch()
	c.phaseOutcome()
	c.u = main
	c.phaseAccept()
	c.phaseTry()
	c.u = blank
	c.phaseAccept()
	c.phaseTry()
}

// ---------------------------------------------------------------------------
// TestVerifC08Ambiguity — through run()

const c08Prefix = "s/TLS:false"

// c08LibraryTails are the test-case names of the generated suite; the full
// permutation names are c08Prefix + "/" + tail.
var c08LibraryTails = []string{"a", "a/b", "b"} //nolint:gochecknoglobals

func c08Suites() map[string]*conformancev1.TestSuite {
	suite := &conformancev1.TestSuite{
		Name:                 "s",
		RelevantProtocols:    []conformancev1.Protocol{conformancev1.Protocol_PROTOCOL_CONNECT},
		RelevantHttpVersions: []conformancev1.HTTPVersion{conformancev1.HTTPVersion_HTTP_VERSION_1},
		RelevantCodecs:       []conformancev1.Codec{conformancev1.Codec_CODEC_PROTO},
		RelevantCompressions: []conformancev1.Compression{conformancev1.Compression_COMPRESSION_IDENTITY},
	}
	for _, tail := range c08LibraryTails {
		suite.TestCases = append(suite.TestCases, &conformancev1.TestCase{
			Request: &conformancev1.ClientCompatRequest{
				TestName:   tail,
				StreamType: conformancev1.StreamType_STREAM_TYPE_UNARY,
			},
		})
	}
	return map[string]*conformancev1.TestSuite{"c08.yaml": suite}
}

func c08ConfigCases() []configCase {
	return []configCase{{
		Version:     conformancev1.HTTPVersion_HTTP_VERSION_1,
		Protocol:    conformancev1.Protocol_PROTOCOL_CONNECT,
		Codec:       conformancev1.Codec_CODEC_PROTO,
		Compression: conformancev1.Compression_COMPRESSION_IDENTITY,
		StreamType:  conformancev1.StreamType_STREAM_TYPE_UNARY,
	}}
}

// c08RunValidation calls the real run() with a three-case generated suite and
// commands that cannot be resolved, so that it ends either in one of the
// pattern validations or — when those pass — at "error starting client",
// before any process exists.
func c08RunValidation(failing, flaky, runPats, skipPats []string) (class, errText, panicked string) {
	defer c08Recover(&panicked)
	kf, kfl := parsePatterns(failing), parsePatterns(flaky)
	// as Run does: no --run / --skip patterns = no trie
	var runTrie, skipTrie *testTrie
	if len(runPats) > 0 {
		runTrie = parsePatterns(runPats)
	}
	if len(skipPats) > 0 {
		skipTrie = parsePatterns(skipPats)
	}
	if kf == nil {
		kf = &testTrie{} // as Run does
	}
	if kfl == nil {
		kfl = &testTrie{}
	}
	noSuchCommand := []string{"verif-c08-no-such-command"}
	logP, errP := &internal.SimplePrinter{}, &internal.SimplePrinter{}
	results, err := run(c08ConfigCases(), kf, kfl, runTrie, skipTrie, c08Suites(), logP, errP,
		&Flags{ClientCommand: noSuchCommand, ServerCommand: noSuchCommand, MaxServers: 1, Parallelism: 1})
	switch {
	case err == nil:
		return fmt.Sprintf("no-error(results=%v)", results != nil), "", ""
	case strings.Contains(err.Error(), "ambiguous"):
		return "ambiguous", err.Error(), ""
	case strings.Contains(err.Error(), "unmatched"):
		return "unmatched", err.Error(), ""
	case strings.Contains(err.Error(), "error starting client"):
		return "validated", err.Error(), ""
	default:
		return "other-error", err.Error(), ""
	}
}

// c08AmbiguityPatterns: each of the prefixes {s/TLS:false, **, */*} followed
// by every sequence over {a,b,*,**} of length 1..maxLen.
func c08AmbiguityPatterns(maxLen int, prefixes ...string) []string {
	tails := c08Seqs([]string{"a", "b", "*", "**"}, maxLen)
	var out []string
	for _, prefix := range prefixes {
		for _, tail := range tails {
			out = append(out, prefix+"/"+tail)
		}
	}
	return out
}

// c08JudgeAmbiguity: runPats / skipPats are --run / --skip patterns given in
// addition. The statement makes no exception for names the filter leaves out:
// "a name matched as both known-failing and known-flaky is rejected" ranges
// over the permutation names, like the unmatched-pattern rule.
func c08JudgeAmbiguity(r *rep.Report, failing, flaky, runPats, skipPats []string) {
	names := make([]string, len(c08LibraryTails))
	for i, tail := range c08LibraryTails {
		names[i] = c08Prefix + "/" + tail
	}
	var failingHit, flakyHit bool
	var conflicts []string
	for _, n := range names {
		f, k := c08AnyGlob(failing, n), c08AnyGlob(flaky, n)
		failingHit = failingHit || f
		flakyHit = flakyHit || k
		if f && k {
			conflicts = append(conflicts, n)
		}
	}
	allPats := append(append(append(append([]string{}, failing...), flaky...), runPats...), skipPats...)
	var unmatched []string
	for _, p := range allPats {
		any := false
		for _, n := range names {
			any = any || c08GlobStr(p, n)
		}
		if !any {
			unmatched = append(unmatched, p)
		}
	}
	sort.Strings(conflicts)
	filtered := len(runPats) > 0 || len(skipPats) > 0
	conflictSelected := false // does the run/skip filter select one of the conflicting names?
	for _, n := range conflicts {
		if (len(runPats) == 0 || c08AnyGlob(runPats, n)) && !c08AnyGlob(skipPats, n) {
			conflictSelected = true
		}
	}
	class, errText, panicked := c08RunValidation(failing, flaky, runPats, skipPats)
	rp := c08Replay{Kind: "ambiguity", Failing: failing, Flaky: flaky, Run: runPats, Skip: skipPats, Names: names}
	r.Eval(1)
	if filtered {
		r.Outcome("run(filtered):" + class)
	} else {
		r.Outcome("run:" + class)
	}
	if rep.ReplayInput() != nil {
		fmt.Printf("replay: failing %q flaky %q run %q skip %q library %q: run() -> %s %q panicked=%q; reference: unmatched=%q conflicts=%q (one of them selected by run/skip: %v)\n",
			failing, flaky, runPats, skipPats, names, class, errText, panicked, unmatched, conflicts, conflictSelected)
	}
	if panicked != "" {
		r.Violate("panic", fmt.Sprintf("run() with known-failing %q known-flaky %q panicked: %s", failing, flaky, panicked), rp)
		return
	}
	via := c08ViaStr(allPats, names)
	if filtered && len(unmatched) == 0 && len(conflicts) > 0 {
		if conflictSelected {
			r.Count("filtered: a conflicting name is inside the run/skip selection", 1)
		} else {
			r.Count("filtered: every conflicting name is outside the run/skip selection", 1)
		}
	}
	switch {
	case len(unmatched) > 0:
		// a pattern that matches no permutation is an error (whatever else holds)
		if class != "unmatched" && class != "ambiguous" {
			c08Composite(r, "unmatched-not-reported", via,
				fmt.Sprintf("known-failing %q known-flaky %q over library %q: %q match no permutation, yet run() went on (%s: %q)", failing, flaky, names, unmatched, class, errText), rp)
		}
	case len(conflicts) > 0:
		r.NonTrivial("")
		switch class {
		case "ambiguous":
			for _, n := range conflicts {
				if !strings.Contains(errText, n) {
					r.Count("ambiguity-error-omits-a-conflicting-name", 1)
				}
			}
		case "unmatched":
			r.Count("spurious-unmatched-error (converse direction, not part of the statement)", 1)
			_ = fmt.Sprintf("known-failing %q known-flaky %q over library %q: every pattern matches a permutation, yet: %q", failing, flaky, names, errText)
		default:
			key, with := "ambiguity-not-rejected", ""
			if filtered {
				with = fmt.Sprintf(" with --run %q --skip %q", runPats, skipPats)
				if !conflictSelected {
					key = "ambiguity-not-rejected.conflicts-outside-run-skip-selection"
				}
			}
			c08Composite(r, key, via,
				fmt.Sprintf("known-failing %q and known-flaky %q both match %q, yet run()%s did not reject the configuration (%s: %q)", failing, flaky, conflicts, with, class, errText), rp)
		}
	default:
		if len(failing) > 0 && len(flaky) > 0 {
			r.NonTrivial("")
		}
		switch class {
		case "validated":
		case "ambiguous":
			c08Composite(r, "ambiguity-false-reject", via,
				fmt.Sprintf("known-failing %q known-flaky %q over library %q: no name matches both, yet: %q", failing, flaky, names, errText), rp)
		case "unmatched":
			r.Count("spurious-unmatched-error (converse direction, not part of the statement)", 1)
			_ = fmt.Sprintf("known-failing %q known-flaky %q over library %q: every pattern matches a permutation, yet: %q", failing, flaky, names, errText)
		default:
			r.Violate("harness-assumption",
				fmt.Sprintf("run() neither rejected the patterns nor failed at the unresolvable client command: %s %q", class, errText), rp)
		}
	}
}

func TestVerifC08Ambiguity(t *testing.T) {
	r := rep.New("c08-ambiguity")
	defer r.Write()
	r.Rule = "real run() on a generated suite with the three permutations s/TLS:false/{a, a/b, b} and unresolvable commands (it returns before any process is started); " +
		"every ordered pair (known-failing pattern, known-flaky pattern), each side also empty, where a pattern is one of {s/TLS:false, **, */*} followed by every sequence over {a,b,*,**} of length 1..3 (252 patterns); " +
		"every ordered pair over s/TLS:false/<length 1..2>, **/<length 1>, */*/<length 1> (thorough: all three prefixes with length 1..2) again under each of 67 --run/--skip filters (one --run or one --skip pattern from s/TLS:false/<length 1..2>, **, **/a, **/b, **/a/b; --run x --skip over s/TLS:false/<length 1>; three two-pattern filters), " +
		"so that the names matched by both sides lie inside, partly inside and wholly outside the selection; " +
		"plus \"\", three patterns with an empty component and five with a blank / tab at either end or a ` #` inside (they match no permutation: refused); " +
		"thorough adds every ordered pair of known-failing patterns s/TLS:false/<length 1..2> against every known-flaky pattern of tail length 1..2. " +
		"Oracle: reference glob (unmatched pattern, --run/--skip included -> error; some permutation matched by both sides -> rejected, whether or not --run/--skip select it; otherwise run() must get as far as starting the client). " +
		"A case is non-trivial when all patterns match some permutation (so the ambiguity rule decides); cases are distinct by construction."
	if data := rep.ReplayInput(); data != nil {
		rp := c08ParseReplay(t, data)
		c08JudgeAmbiguity(r, rp.Failing, rp.Flaky, rp.Run, rp.Skip)
		return
	}
	pats := c08AmbiguityPatterns(3, c08Prefix, "**", "*/*")
	// the empty pattern and patterns with an empty component: they match no permutation, so they must be refused
	pats = append(pats, "", c08Prefix+"//a", "/"+c08Prefix+"/a", c08Prefix+"/a/")
	// patterns that differ from a permutation name (or from a matching pattern) by a blank or tab at either
	// end, and a '#' component: blanks are component text, so they match no permutation and must be refused
	pats = append(pats, c08Prefix+"/a ", " "+c08Prefix+"/a", c08Prefix+"/*\t", "\t**/b", c08Prefix+"/a #b")
	r.Extra["patterns"] = len(pats)
	deadline := rep.Deadline()
	var k int64
	next := func() bool {
		k++
		if !r.Exhaustive || !r.Mine(k) {
			return false
		}
		if !deadline.IsZero() && time.Now().After(deadline) {
			r.NotExhaustive("budget reached in c08-ambiguity")
			return false
		}
		return true
	}
	for p := -1; p < len(pats); p++ {
		for q := -1; q < len(pats); q++ {
			if !next() {
				continue
			}
			var failing, flaky []string
			if p >= 0 {
				failing = []string{pats[p]}
			}
			if q >= 0 {
				flaky = []string{pats[q]}
			}
			c08JudgeAmbiguity(r, failing, flaky, nil, nil)
			r.Count("pairs-1x1", 1)
			if k%9000 == 5 {
				r.Sample(c08Replay{Kind: "ambiguity", Failing: failing, Flaky: flaky})
			}
		}
	}
	// The same rule with --run / --skip patterns given: filters that select all, some or
	// none of the names matched by both sides (and controls without an overlap).
	kPats := c08AmbiguityPatterns(2, c08Prefix)
	kPats = append(kPats, c08AmbiguityPatterns(1, "**", "*/*")...)
	fPats := append(c08AmbiguityPatterns(2, c08Prefix), "**", "**/a", "**/b", "**/a/b")
	type filt struct{ run, skip []string }
	var filters []filt
	for _, f := range fPats {
		filters = append(filters, filt{run: []string{f}}, filt{skip: []string{f}})
	}
	one := c08AmbiguityPatterns(1, c08Prefix)
	for _, f1 := range one {
		for _, f2 := range one {
			filters = append(filters, filt{run: []string{f1}, skip: []string{f2}})
		}
	}
	filters = append(filters,
		filt{run: []string{c08Prefix + "/a", c08Prefix + "/b"}},
		filt{skip: []string{c08Prefix + "/a", c08Prefix + "/a/b"}},
		filt{run: []string{"**/a", "**/a/b"}, skip: []string{"**/b"}})
	if rep.Thorough() {
		kPats = c08AmbiguityPatterns(2, c08Prefix, "**", "*/*")
	}
	r.Extra["filtered_known_patterns"] = len(kPats)
	r.Extra["filters"] = len(filters)
	for _, f := range filters {
		for _, failing := range kPats {
			for _, flaky := range kPats {
				if !next() {
					continue
				}
				c08JudgeAmbiguity(r, []string{failing}, []string{flaky}, f.run, f.skip)
				r.Count("pairs-1x1-with-run-skip", 1)
				if k%7000 == 11 {
					r.Sample(c08Replay{Kind: "ambiguity", Failing: []string{failing}, Flaky: []string{flaky}, Run: f.run, Skip: f.skip})
				}
			}
		}
	}
	if !rep.Thorough() {
		return
	}
	two := c08AmbiguityPatterns(2, c08Prefix)
	flakies := c08AmbiguityPatterns(2, c08Prefix, "**", "*/*")
	for p := range two {
		for q := range two {
			if p == q {
				continue
			}
			for _, flaky := range flakies {
				if !next() {
					continue
				}
				c08JudgeAmbiguity(r, []string{two[p], two[q]}, []string{flaky}, nil, nil)
				r.Count("pairs-2x1", 1)
			}
		}
	}
}
