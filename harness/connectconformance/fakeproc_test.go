package connectconformance

// A scripted client "process" living inside the bubble. Every environment
// answer (a request being consumed, an answer being emitted, the scripted
// fault, the process exiting) is a gate, so the explorer decides its order
// relative to everything else.

import (
	"context"
	"encoding/binary"
	"errors"
	"fmt"
	"io"
	"sync"

	conformancev1 "connectrpc.com/conformance/internal/gen/proto/go/connectrpc/conformance/v1"
	"connectrpc.com/conformance/internal/verif/gate"
	"google.golang.org/protobuf/proto"
)

type fakeScript struct {
	Fault        string
	FaultAt      int
	CutBytes     int
	FaultName    string // "preanswer": the test name answered before (or without) being read
	StdinFault   string
	StdinFaultAt int
	// AnswerCuts: every answer is written to the output in pieces, cut at these offsets of its frame
	// (4-byte prefix + body); the pieces after the first are gates of their own, so the runner's
	// reader sees each piece in a Read of its own.
	AnswerCuts []int
	// SyncStdin gives the input pipe io.Pipe's semantics: every Write (a zero-length one
	// included) blocks until the client's reading side takes it (a gate of its own,
	// "client.read") or until the pipe is closed, which fails the write.
	SyncStdin bool
	// Answer, if set, builds the response for a request (default: empty response with the name).
	Answer func(req *conformancev1.ClientCompatRequest) *conformancev1.ClientCompatResponse
	// OnReceive, if set, is told about every request at the moment the client reads it from its input.
	OnReceive func(req *conformancev1.ClientCompatRequest)
}

type fakeProc struct {
	x         *gate.Exec
	script    fakeScript
	anonymous bool // thread labels do not mention test names (map-order independence)

	mu             sync.Mutex // real mutex, never held across a gate or a blocking operation
	inbuf          []byte
	msgsWritten    int // request messages whose prefix was written
	received       []string
	outstanding    int
	emitted        map[string]int
	emittedN       int
	lastAnswer     []byte
	lastAnswerName string
	faultDone      bool
	stalled        bool
	stdinClosed    bool // closed by the runner
	stdinBroken    bool // closed from the client's side
	exited         bool
	exitErr        error
	aborted        bool
	done           chan struct{}
	outbuf         []byte
	outClosed      bool
	outNotify      chan struct{}
	emitLog        []byte
	blockedWrites  int
	faultBytes     bool           // some scripted fault wrote bytes to stdout
	clean          map[string]int // answers emitted while the output stream was still well-formed
	preanswered    string
	outBusy        bool // an answer is on its way out in pieces: nothing else may write to the output in between
	pendSet        bool // SyncStdin: a Write is waiting to be taken
	pend           []byte
	pendCh         chan fakeWriteRes
}

type fakeWriteRes struct {
	n   int
	err error
}

func newFakeProc(x *gate.Exec, script fakeScript) *fakeProc {
	fp := &fakeProc{x: x, script: script, emitted: map[string]int{}, clean: map[string]int{}, done: make(chan struct{}), outNotify: make(chan struct{})}
	return fp
}

func (fp *fakeProc) starter() processStarter {
	return func(ctx context.Context, pipeStderr bool) (*process, error) {
		fp.x.Go("client.exit0", func() {
			gate.PointIf("client.exit0", func() bool {
				fp.mu.Lock()
				defer fp.mu.Unlock()
				return !fp.exited && (fp.stdinClosed || fp.stdinBroken) && fp.outstanding == 0 && !fp.stalled
			})
			fp.exit(nil)
		})
		if fp.script.SyncStdin {
			fp.x.Go("client.read", func() {
				for {
					gate.PointIf("client.read", func() bool {
						fp.mu.Lock()
						defer fp.mu.Unlock()
						return fp.exited || (fp.pendSet && !fp.stdinBroken)
					})
					fp.mu.Lock()
					if fp.exited || !fp.pendSet || fp.stdinBroken {
						fp.mu.Unlock()
						return
					}
					p, ch := fp.pend, fp.pendCh
					fp.pendSet, fp.pend, fp.pendCh = false, nil, nil
					fp.mu.Unlock()
					fp.consume(p)
					ch <- fakeWriteRes{len(p), nil}
				}
			})
		}
		if fp.script.Fault != "" && fp.script.Fault != "none" {
			fp.x.Go("client.fault", func() {
				gate.PointIf("client.fault."+fp.script.Fault, func() bool {
					fp.mu.Lock()
					defer fp.mu.Unlock()
					if fp.outBusy {
						switch fp.script.Fault {
						case "exit0", "exit1", "stall", "closeout":
						default:
							return false // faults that write to the output do not cut into a message on its way out
						}
					}
					return !fp.exited && fp.emittedN >= fp.script.FaultAt
				})
				fp.doFault()
			})
		}
		return &process{
			processController: fp,
			stdin:             (*fakeStdin)(fp),
			stdout:            (*fakeStdout)(fp),
			stderr:            io.NopCloser(&emptyReader{}),
		}, nil
	}
}

type emptyReader struct{}

func (*emptyReader) Read([]byte) (int, error) { return 0, io.EOF }

// --- processController ------------------------------------------------------

func (fp *fakeProc) result() error {
	<-fp.done
	fp.mu.Lock()
	defer fp.mu.Unlock()
	return fp.exitErr
}

func (fp *fakeProc) abort() {
	fp.mu.Lock()
	if fp.aborted || fp.exited {
		fp.mu.Unlock()
		return
	}
	fp.aborted = true
	fp.mu.Unlock()
	if !gate.Active() {
		fp.exit(errors.New("signal: terminated"))
		return
	}
	fp.x.Go("client.sigterm", func() {
		gate.Point("client.sigterm")
		fp.exit(errors.New("signal: terminated"))
	})
}

func (fp *fakeProc) whenDone(action func(error)) {
	go func() {
		<-fp.done
		action(fp.exitError())
	}()
}

// stateKey renders everything the fake knows, for the explorer's state cache.
func (fp *fakeProc) stateKey() string {
	fp.mu.Lock()
	defer fp.mu.Unlock()
	return fmt.Sprintf("bw=%d pend=%v/%x busy=%v ", fp.blockedWrites, fp.pendSet, fp.pend, fp.outBusy) + fmt.Sprintf("in=%x/%d recv=%v out=%d emitlog=%x unread=%d fault=%v stall=%v sc=%v sb=%v ex=%v/%v ab=%v",
		fp.inbuf, fp.msgsWritten, fp.received, fp.outstanding, fp.emitLog, len(fp.outbuf), fp.faultDone, fp.stalled,
		fp.stdinClosed, fp.stdinBroken, fp.exited, fp.exitErr, fp.aborted)
}

func (fp *fakeProc) exit(err error) {
	fp.mu.Lock()
	defer fp.mu.Unlock()
	if fp.exited {
		return
	}
	fp.exited = true
	fp.exitErr = err
	fp.outClosed = true
	fp.failPendingLocked()
	fp.notifyLocked()
	close(fp.done)
	gate.Poke()
}

func (fp *fakeProc) failPendingLocked() {
	if fp.pendSet {
		fp.pendCh <- fakeWriteRes{0, io.ErrClosedPipe}
		fp.pendSet, fp.pend, fp.pendCh = false, nil, nil
	}
}

func (fp *fakeProc) kill() { fp.exit(errors.New("killed by harness teardown")) }

func (fp *fakeProc) faultFired() bool { fp.mu.Lock(); defer fp.mu.Unlock(); return fp.faultDone }
func (fp *fakeProc) hasExited() bool  { fp.mu.Lock(); defer fp.mu.Unlock(); return fp.exited }
func (fp *fakeProc) exitError() error { fp.mu.Lock(); defer fp.mu.Unlock(); return fp.exitErr }
func (fp *fakeProc) emittedAnswers() map[string]int {
	fp.mu.Lock()
	defer fp.mu.Unlock()
	out := map[string]int{}
	for k, v := range fp.emitted {
		out[k] = v
	}
	return out
}
func (fp *fakeProc) cleanAnswers() map[string]int {
	fp.mu.Lock()
	defer fp.mu.Unlock()
	out := map[string]int{}
	for k, v := range fp.clean {
		out[k] = v
	}
	return out
}
func (fp *fakeProc) receivedNames() []string {
	fp.mu.Lock()
	defer fp.mu.Unlock()
	return append([]string(nil), fp.received...)
}

func (fp *fakeProc) notifyLocked() {
	close(fp.outNotify)
	fp.outNotify = make(chan struct{})
}

func frame(msg proto.Message) []byte {
	data, err := proto.Marshal(msg)
	if err != nil {
		panic(err)
	}
	out := make([]byte, 4+len(data))
	binary.BigEndian.PutUint32(out, uint32(len(data)))
	copy(out[4:], data)
	return out
}

func (fp *fakeProc) emitLocked(b []byte) {
	if fp.exited || fp.outClosed {
		return
	}
	fp.outbuf = append(fp.outbuf, b...)
	fp.emitLog = append(fp.emitLog, b...)
	fp.notifyLocked()
}

func (fp *fakeProc) doFault() {
	fp.mu.Lock()
	if fp.exited || fp.faultDone {
		fp.mu.Unlock()
		return
	}
	fp.faultDone = true
	switch fp.script.Fault {
	case "cut", "cut0", "dup", "unknown", "oversize", "garbage", "garbage-high", "oversize-max", "preanswer":
		fp.faultBytes = true
	}
	var exitWith error
	doExit := false
	switch fp.script.Fault {
	case "exit0":
		doExit = true
	case "exit1":
		doExit, exitWith = true, errors.New("exit status 1")
	case "cut":
		msg := frame(&conformancev1.ClientCompatResponse{TestName: "cut/msg"})
		n := fp.script.CutBytes
		if n > len(msg)-1 {
			n = len(msg) - 1
		}
		fp.emitLocked(msg[:n])
		doExit, exitWith = true, errors.New("exit status 2")
	case "cut0":
		// the same truncated message, but the process ends with status 0
		msg := frame(&conformancev1.ClientCompatResponse{TestName: "cut/msg"})
		n := fp.script.CutBytes
		if n > len(msg)-1 {
			n = len(msg) - 1
		}
		fp.emitLocked(msg[:n])
		doExit = true
	case "dup":
		if fp.lastAnswer != nil {
			// the client did put a second answer of that name on its output: if the runner has sent the
			// name again meanwhile, it cannot tell this answer from one to the second request
			fp.emitted[fp.lastAnswerName]++
			fp.emitLocked(fp.lastAnswer)
		}
	case "unknown":
		fp.emitLocked(frame(&conformancev1.ClientCompatResponse{TestName: "unknown/x"}))
	case "oversize":
		fp.emitLocked([]byte{0x7f, 0, 0, 0})
	case "garbage":
		fp.emitLocked([]byte{0, 0, 0, 2, 0xff, 0xff})
	case "garbage-high":
		// e.g. a log line that starts with a UTF-8 byte-order mark: the "length" has its top bit set
		fp.emitLocked([]byte{0xef, 0xbb, 0xbf, 'p', 'a', 'n', 'i', 'c'})
	case "oversize-max":
		fp.emitLocked([]byte{0xff, 0xff, 0xff, 0xff})
	case "stall":
		fp.stalled = true
	case "preanswer":
		// the client answers a test it has not (yet) taken from its input - a client that
		// reads ahead on another descriptor, or simply a wrong one - and then exits whenever
		// it likes without answering that test again
		fp.preanswered = fp.script.FaultName
		fp.emitted[fp.script.FaultName]++
		fp.emittedN++
		fp.emitLocked(frame(&conformancev1.ClientCompatResponse{TestName: fp.script.FaultName}))
		fp.x.Go("client.fault.exit", func() {
			gate.Point("client.fault.exit")
			fp.exit(nil)
		})
	case "closeout":
		// the client closes its output but stays alive and keeps reading its input
		fp.outClosed = true
		fp.notifyLocked()
	default:
		panic("unknown fault " + fp.script.Fault)
	}
	fp.mu.Unlock()
	if doExit {
		fp.exit(exitWith)
	}
}

// --- stdin ------------------------------------------------------------------

type fakeStdin fakeProc

func (s *fakeStdin) Write(p []byte) (int, error) {
	fp := (*fakeProc)(s)
	if fp.script.SyncStdin {
		return s.writeSync(p)
	}
	fp.mu.Lock()
	first := len(fp.inbuf) == 0
	fp.mu.Unlock()
	if first {
		gate.Point("stdin.write")
	}
	fp.mu.Lock()
	if fp.exited || fp.stdinClosed || fp.stdinBroken {
		fp.mu.Unlock()
		return 0, io.ErrClosedPipe
	}
	if fp.script.StdinFault == "block" && len(fp.inbuf) == 0 && fp.msgsWritten == fp.script.StdinFaultAt {
		// the client no longer reads its input: the pipe is full and the write blocks
		// until the process goes away
		fp.msgsWritten++
		fp.blockedWrites++
		fp.mu.Unlock()
		gate.Poke()
		<-fp.done
		return 0, io.ErrClosedPipe
	}
	atPrefix := len(fp.inbuf) == 0
	if atPrefix {
		k := fp.msgsWritten
		fp.msgsWritten++
		if fp.script.StdinFault == "closedpipe" && k == fp.script.StdinFaultAt {
			fp.stdinBroken = true
			fp.mu.Unlock()
			return 0, io.ErrClosedPipe
		}
	} else if fp.script.StdinFault == "ioerr" && fp.msgsWritten-1 == fp.script.StdinFaultAt {
		fp.inbuf = nil
		fp.mu.Unlock()
		return 0, errors.New("write |1: input/output error")
	}
	fp.mu.Unlock()
	fp.consume(p)
	return len(p), nil
}

// writeSync is Write with io.Pipe's semantics (fakeScript.SyncStdin).
func (s *fakeStdin) writeSync(p []byte) (int, error) {
	fp := (*fakeProc)(s)
	// no gate of its own: the write only completes at the "client.read" gate (or fails when
	// the pipe is closed), and the order of "closed" against the start of the write is not
	// observable
	fp.mu.Lock()
	if fp.exited || fp.stdinClosed || fp.stdinBroken {
		fp.mu.Unlock()
		return 0, io.ErrClosedPipe
	}
	ch := make(chan fakeWriteRes, 1)
	fp.pendSet, fp.pend, fp.pendCh = true, append([]byte{}, p...), ch
	fp.mu.Unlock()
	gate.Poke()
	res := <-ch
	return res.n, res.err
}

// consume is the client's reading side taking bytes from its input.
func (fp *fakeProc) consume(p []byte) {
	fp.mu.Lock()
	fp.inbuf = append(fp.inbuf, p...)
	var reqs []*conformancev1.ClientCompatRequest
	for len(fp.inbuf) >= 4 {
		n := int(binary.BigEndian.Uint32(fp.inbuf))
		if len(fp.inbuf) < 4+n {
			break
		}
		req := &conformancev1.ClientCompatRequest{}
		if err := proto.Unmarshal(fp.inbuf[4:4+n], req); err != nil {
			panic(err)
		}
		fp.inbuf = fp.inbuf[4+n:]
		fp.received = append(fp.received, req.TestName)
		fp.outstanding++
		reqs = append(reqs, req)
	}
	nth := len(fp.received)
	fp.mu.Unlock()
	if fp.script.OnReceive != nil {
		for _, req := range reqs {
			fp.script.OnReceive(req)
		}
	}
	for i, req := range reqs {
		req := req
		label := fmt.Sprintf("answer#%d:%s", nth-len(reqs)+i, req.TestName)
		if fp.anonymous {
			label = fmt.Sprintf("answer#%d", nth-len(reqs)+i)
		}
		fp.x.Go(label, func() {
			gate.PointIf("client.answer", func() bool {
				fp.mu.Lock()
				defer fp.mu.Unlock()
				return (!fp.stalled && !fp.outBusy) || fp.exited
			})
			fp.mu.Lock()
			if fp.exited || fp.stalled || (fp.script.Fault == "preanswer" && fp.faultDone && fp.preanswered == req.TestName) {
				fp.outstanding--
				fp.mu.Unlock()
				return
			}
			fp.mu.Unlock()
			var resp *conformancev1.ClientCompatResponse
			if fp.script.Answer != nil {
				resp = fp.script.Answer(req)
			} else {
				resp = &conformancev1.ClientCompatResponse{TestName: req.TestName}
			}
			if resp == nil {
				// scripted: never answered; the request stays outstanding, so
				// the client does not exit on its own
				return
			}
			b := frame(resp)
			var cuts []int
			for _, c := range fp.script.AnswerCuts {
				if c > 0 && c < len(b) && (len(cuts) == 0 || c > cuts[len(cuts)-1]) {
					cuts = append(cuts, c)
				}
			}
			prev := 0
			for _, c := range cuts {
				fp.mu.Lock()
				if fp.exited || fp.outClosed {
					fp.outstanding--
					fp.outBusy = false
					fp.mu.Unlock()
					return
				}
				fp.outBusy = true
				fp.emitLocked(b[prev:c])
				fp.mu.Unlock()
				prev = c
				gate.Point("client.answer.piece")
			}
			fp.mu.Lock()
			defer fp.mu.Unlock()
			fp.outBusy = false
			fp.outstanding--
			if fp.exited || fp.outClosed {
				return
			}
			fp.lastAnswer = b
			fp.lastAnswerName = req.TestName
			fp.emitted[req.TestName]++
			if !fp.faultBytes {
				fp.clean[req.TestName]++
			}
			fp.emittedN++
			fp.emitLocked(b[prev:])
		})
	}
}

func (s *fakeStdin) Close() error {
	fp := (*fakeProc)(s)
	fp.mu.Lock()
	fp.stdinClosed = true
	fp.failPendingLocked()
	fp.mu.Unlock()
	gate.Poke()
	return nil
}

// --- stdout -----------------------------------------------------------------

type fakeStdout fakeProc

func (s *fakeStdout) Read(p []byte) (int, error) {
	fp := (*fakeProc)(s)
	for {
		fp.mu.Lock()
		if len(fp.outbuf) > 0 {
			n := copy(p, fp.outbuf)
			fp.outbuf = fp.outbuf[n:]
			fp.mu.Unlock()
			return n, nil
		}
		if fp.outClosed {
			fp.mu.Unlock()
			return 0, io.EOF
		}
		ch := fp.outNotify
		fp.mu.Unlock()
		<-ch
	}
}
