package connectconformance

// C07, glue level: which run mode run() hands to the test-case library. Suites restricted to
// client mode / server mode / one protocol / client certificates go through the real run()
// with scripted peers in all three run modes; the permutations that reach a client must be
// exactly those the suite's mode and directives admit (default schedule, no exploration).

import (
	"testing"

	"connectrpc.com/conformance/internal/verif/rep"
)

func TestVerifC07Modes(t *testing.T) {
	r := rep.New("c07-modes")
	defer r.Write()
	r.Rule = "mode-restricted and directive-restricted suites x config-case sets x the three run modes x max-servers through the real run() against scripted peers, default schedule; the dispatched set must equal the admitted set; non-trivial = distinct scenario"
	var k int64
	for _, cfg := range []string{"A2", "A3", "A4", "T"} {
		for _, mode := range []string{"both", "client", "server"} {
			for _, ms := range []int{1, 3} {
				k++
				if !r.Mine(k) {
					continue
				}
				sc := c05Scenario{Cfg: cfg, Suites: "mix", Mode: mode, MaxServers: ms, FailStart: -1}
				_, obs, _ := c05RunOne(t, sc, nil, nil)
				r.Eval(1)
				r.NonTrivial("")
				r.Outcome(c05Outcome(sc, obs))
				r.Sample(map[string]any{"scenario": sc, "outcome": c05Outcome(sc, obs)})
				for _, v := range obs.Verdicts {
					key := v.key
					switch key {
					case "unexpected-dispatch":
						key = "mode-or-directive-not-honoured:unexpected-permutation-run"
					case "selected-not-dispatched":
						key = "mode-or-directive-not-honoured:admitted-permutation-not-run"
					}
					r.Violate(key, v.detail, map[string]any{"scenario": sc, "choices": []int{}})
				}
			}
		}
	}
}
