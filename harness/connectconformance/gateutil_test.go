package connectconformance

// Shared driver for GATE harnesses: deals scenarios to shards, runs the
// preemption-bounded DFS per scenario, confirms verdicts by replay, fills the
// report and implements --replay.

import (
	"encoding/json"
	"fmt"
	"os"
	"runtime"
	"runtime/debug"
	"strings"
	"testing"

	"connectrpc.com/conformance/internal/verif/gate"
	"connectrpc.com/conformance/internal/verif/rep"
)

type gateVerdict struct {
	key    string
	detail string
}

type gateRun struct {
	x        *gate.Exec
	outcome  string
	verdicts []gateVerdict
	leak     string
}

var gateNoCache = os.Getenv("VERIF_NOCACHE") == "1"

// gateBoundOf lets a harness give individual scenarios their own preemption bound
// (recorded in the report as a note).
var gateBoundOf func(sc any) (int, bool)

func gateFirstLine(s string) string {
	if i := strings.IndexByte(s, '\n'); i >= 0 {
		return s[:i]
	}
	return s
}

// gateExplore explores every scenario. runOne must be deterministic for a
// given (scenario, prefix).
func gateExplore[S any](t *testing.T, r *rep.Report, scs []S, bound int, runOne func(sc S, prefix []int, expect []gate.PointRec) gateRun) {
	gateExploreOpt(t, r, scs, bound, nil, runOne)
}

// gateExploreOpt is gateExplore with a predicate naming the scenarios in which the code
// under test itself takes decisions the explorer cannot own (Go map iteration order): there a
// replay that does not see what its parent saw is counted, not treated as a harness error, and
// a violating execution is reported as observed (it happened on the real code) even if the
// same choice list does not reproduce it every time.
func gateExploreOpt[S any](t *testing.T, r *rep.Report, scs []S, bound int, unowned func(S) bool, runOne func(sc S, prefix []int, expect []gate.PointRec) gateRun) {
	debug.SetGCPercent(-1)
	if data := rep.ReplayInput(); data != nil {
		var rj struct {
			Replay struct {
				Scenario S     `json:"scenario"`
				Choices  []int `json:"choices"`
			} `json:"replay"`
		}
		if err := json.Unmarshal(data, &rj); err != nil {
			t.Fatal(err)
		}
		g := runOne(rj.Replay.Scenario, rj.Replay.Choices, nil)
		sj, _ := json.Marshal(rj.Replay.Scenario)
		fmt.Printf("replay: scenario=%s\nchoices=%v\noutcome=%s\nleak=%q diverged=%q\n", sj, g.x.Choices(), g.outcome, g.leak, g.x.Diverged)
		for i, p := range g.x.Points {
			fmt.Printf("  %3d choose %d of %v\n", i, p.Chosen, p.Enabled)
		}
		for _, v := range g.verdicts {
			r.Violate(v.key, v.detail, rj.Replay)
			fmt.Printf("VERDICT %s: %s\n", v.key, v.detail)
		}
		r.Eval(1)
		return
	}
	deadline := rep.Deadline()
	var totalStates, totalTrans, totalExecs int64
	boundDoneAll := true
	for si, sc := range scs {
		// scenarios are dealt round-robin to shards; one shard explores a whole
		// scenario so that its state cache is not split
		if !r.Mine(int64(si)) {
			continue
		}
		sj, _ := json.Marshal(sc)
		scBound := bound
		if gateBoundOf != nil {
			if b, ok := gateBoundOf(any(sc)); ok {
				scBound = b
			}
		}
		ex := &gate.Explorer{Bound: scBound, Shard: 0, NShards: 1, Deadline: deadline}
		execCount := 0
		ex.RunOne = func(prefix []int, expect []gate.PointRec, owned bool) *gate.Exec {
			g := runOne(sc, prefix, expect)
			execCount++
			if execCount%200 == 0 {
				runtime.GC()
			}
			if g.x.Diverged != "" {
				// a divergence must be reproducible to count as a harness error
				if unowned != nil && unowned(sc) {
					r.Count("replays_not_reproduced_in_scenarios_with_unowned_nondeterminism", 1)
					return g.x
				}
				g2 := runOne(sc, prefix, expect)
				if g2.x.Diverged != "" {
					r.Note("DIVERGENCE scenario=%s prefix=%v: %s", sj, prefix, g.x.Diverged)
					r.Count("divergences", 1)
				}
				return g.x
			}
			if !owned {
				return g.x
			}
			r.Eval(1)
			r.NonTrivial("")
			if g.leak != "" {
				r.Count("leaks", 1)
				r.Outcome("leak:" + gateFirstLine(g.leak))
			}
			r.Outcome(g.outcome)
			for _, v := range g.verdicts {
				ok := 0
				for k := 0; k < 4; k++ {
					g2 := runOne(sc, g.x.Choices(), nil)
					for _, w := range g2.verdicts {
						if w.key == v.key {
							ok++
							break
						}
					}
				}
				if ok < 4 && unowned != nil && unowned(sc) {
					r.Count("violations_not_reproduced_every_time", 1)
					ok = 4 // observed on the real code; the schedule is not fully ours in this scenario
				}
				if ok < 4 {
					r.Note("UNSTABLE verdict %s on scenario %s choices %v (%d/4 replays)", v.key, sj, g.x.Choices(), ok)
					r.Count("unstable", 1)
					continue
				}
				r.Violate(v.key, v.detail+" | scenario="+string(sj)+fmt.Sprintf(" choices=%v", g.x.Choices()), map[string]any{"scenario": sc, "choices": g.x.Choices()})
			}
			if si%7 == 0 && len(prefix) >= 2 && len(prefix) <= 4 {
				r.Sample(map[string]any{"scenario": sc, "choices": g.x.Choices(), "outcome": g.outcome})
			}
			return g.x
		}
		ex.Explore()
		totalStates += ex.Stats.States
		totalTrans += ex.Stats.Transitions
		totalExecs += ex.Stats.Executions
		r.Count("pruned_by_bound", ex.Stats.PrunedByCost)
		r.Count("pruned_by_state_cache", ex.Stats.PrunedByKey)
		r.Count("distinct_state_keys", ex.Stats.DistinctKeys)
		r.Count("overruns", ex.Stats.Overruns)
		if ex.Stats.Executions > 20000 || ex.Stats.Capped {
			r.Note("heavy scenario #%d: %d executions, capped=%v: %s", si, ex.Stats.Executions, ex.Stats.Capped, sj)
		}
		if ex.Stats.Capped {
			boundDoneAll = false
			r.NotExhaustive(fmt.Sprintf("budget reached in scenario %d of %d", si, len(scs)))
			break
		}
		if ex.Stats.Exhausted {
			r.Count("scenarios_exhausted_unbounded", 1)
		}
		r.Count("scenarios", 1)
	}
	if len(r.Samples) == 0 && len(scs) > 0 {
		r.Sample(map[string]any{"scenario": scs[0], "choices": []int{}})
	}
	r.Count("states", totalStates)
	r.Count("transitions", totalTrans)
	r.Count("executions", totalExecs)
	r.Extra["preemption_bound"] = bound
	r.Extra["scenarios_total"] = len(scs)
	r.Extra["bound_completed_for_all_scenarios"] = boundDoneAll
	if r.Counters["divergences"] > 0 {
		t.Errorf("schedule replay diverged %d time(s); see notes", r.Counters["divergences"])
	}
}

// mutexHeld reports whether m (a *vsync.Mutex under the shims) is held; with the
// real sync.Mutex (free-running units) the answer is not observable: false.
func mutexHeld(m any) bool {
	if h, ok := m.(interface{ Held() bool }); ok {
		return h.Held()
	}
	return false
}

// boolPeek reads an atomic flag of the code under test without a scheduling point
// (vatomic.Bool under the shims, sync/atomic.Bool in the free-running units).
func boolPeek(b any) bool {
	if p, ok := b.(interface{ Peek() bool }); ok {
		return p.Peek()
	}
	if l, ok := b.(interface{ Load() bool }); ok {
		return l.Load()
	}
	return false
}
