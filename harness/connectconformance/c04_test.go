package connectconformance

// C04 — the run succeeds iff every selected case ran and met its expectation.
// Level (i): the real run() + report() against scripted peers, one case per
// server instance, every assignment of fate x marking x feedback x client
// exit; the success value is computed exactly as Run() does. Level (ii):
// ordered multi-case batches through runTestCasesForServer (C11's harness)
// followed by report(). Both are judged by one reference truth table that is
// evaluated on what the peers actually did in that execution.

import (
	"errors"
	"fmt"
	"os"
	"path/filepath"
	"regexp"
	"sort"
	"strconv"
	"strings"
	"sync"
	"testing"
	"testing/synctest"
	"time"

	conformancev1 "connectrpc.com/conformance/internal/gen/proto/go/connectrpc/conformance/v1"
	"connectrpc.com/conformance/internal/tracer"
	"connectrpc.com/conformance/internal/verif/gate"
	"connectrpc.com/conformance/internal/verif/rep"
	"google.golang.org/protobuf/encoding/protojson"
)

type c04Scenario struct {
	Cfg        string   `json:"cfg"`
	Mode       string   `json:"mode"`
	ErrMsg     string   `json:"err_msg,omitempty"` // text of client-reported errors: "" (a sentence), empty, blank, multiline
	Fates      []string `json:"fates"`             // per dispatch position: pass mismatch clienterr empty never setuperr
	Marks      []string `json:"marks"`             // per dispatch position: "" failing flaky
	Feedback   []bool   `json:"feedback"`          // per dispatch position
	ClientExit string   `json:"client_exit"`
	ExitAt     int      `json:"exit_at"`
}

var c04FileCache = map[string][2]string{}

// c04Files writes the configuration and the suite for a scenario family to
// disk (once per process) so that the real Run() can load them.
func c04Files(cfg string) (string, []string) {
	if f, ok := c04FileCache[cfg]; ok {
		return f[0], []string{f[1]}
	}
	dir, err := os.MkdirTemp(os.Getenv("VERIF_WORKDIR"), "c04-")
	if err != nil {
		panic(err)
	}
	versions, protocols, h2c := "[HTTP_VERSION_1]", "[PROTOCOL_CONNECT]", "false"
	switch cfg {
	case "C2":
		versions, h2c = "[HTTP_VERSION_1, HTTP_VERSION_2]", "true"
	case "C3":
		versions, protocols, h2c = "[HTTP_VERSION_1, HTTP_VERSION_2]", "[PROTOCOL_CONNECT, PROTOCOL_GRPC]", "true"
	}
	conf := "features:\n  versions: " + versions + "\n  protocols: " + protocols + `
  codecs: [CODEC_PROTO]
  compressions: [COMPRESSION_IDENTITY]
  streamTypes: [STREAM_TYPE_UNARY]
  supportsTls: false
  supportsH2c: ` + h2c + `
  supportsConnectGet: false
  supportsMessageReceiveLimit: false
`
	cf := filepath.Join(dir, "config.yaml")
	if err := os.WriteFile(cf, []byte(conf), 0o644); err != nil {
		panic(err)
	}
	data, err := protojson.Marshal(c05Suites("one")["s.yaml"])
	if err != nil {
		panic(err)
	}
	sf := filepath.Join(dir, "s.yaml")
	if err := os.WriteFile(sf, data, 0o644); err != nil {
		panic(err)
	}
	c04FileCache[cfg] = [2]string{cf, sf}
	return cf, []string{sf}
}

// what one case experienced, as seen by the peers
type c04Case struct {
	name      string
	mark      string
	reached   bool   // the request reached the client
	answer    string // kind of answer the client emitted ("" none)
	feedback  bool   // a reference peer reported feedback about it
	startFail bool   // its server could not be started
}

// c04Truth is the reference truth table of the statement for one case:
// returns (meetsExpectation, isFailingCaseThatMustBeNamed).
func c04Truth(c c04Case) (ok bool, mustName bool) {
	ran := c.reached && c.answer != "" && c.answer != "never"
	if !ran {
		// could not be set up or run: always counts against success
		return false, c.startFail
	}
	failed := c.answer != "pass" || c.feedback
	switch c.mark {
	case "failing":
		return failed, !failed
	case "flaky":
		return true, false
	}
	return !failed, failed
}

// c04Order lists the selected permutations in dispatch order (MaxServers=1,
// sorted server instances, one case per instance).
func c04Order(sc c04Scenario) []string {
	exp, libErr := c05Expected(c05Scenario{Cfg: sc.Cfg, Suites: "one", Mode: sc.Mode})
	if libErr != "" {
		panic(libErr)
	}
	names := make([]string, 0, len(exp))
	for n := range exp {
		names = append(names, n)
	}
	rank := func(kind string) int {
		if strings.HasPrefix(kind, "grpc-") {
			return 1
		}
		return 0
	}
	sort.Slice(names, func(i, j int) bool {
		a, b := exp[names[i]], exp[names[j]]
		if sc.Mode == "server" && rank(a.clientKind) != rank(b.clientKind) {
			return rank(a.clientKind) < rank(b.clientKind)
		}
		if sc.Mode == "client" && rank(a.serverKind) != rank(b.serverKind) {
			return rank(a.serverKind) < rank(b.serverKind)
		}
		if a.inst.httpVersion != b.inst.httpVersion {
			return a.inst.httpVersion < b.inst.httpVersion
		}
		return a.inst.protocol < b.inst.protocol
	})
	return names
}

type c04Obs struct {
	Returned bool
	RunErr   string
	Success  bool
	Report   []string
	ErrOut   []string
	Cases    []c04Case
	HasRes   bool
	Outcomes map[string]string
	// the client exited with a non-zero status on its own; if that happened
	// after it had answered everything the statement does not say what the
	// verdict should be
	ClientCrashed bool
}

func c04RunOne(t *testing.T, sc c04Scenario, prefix []int, expect []gate.PointRec) (x *gate.Exec, obs *c04Obs, verdicts []gateVerdict, leak string) {
	defer func() {
		if r := recover(); r != nil {
			leak = fmt.Sprint(r)
		}
	}()
	order := c04Order(sc)
	psClientErrMsg = sc.ErrMsg
	defer func() { psClientErrMsg = "" }()
	synctest.Test(t, func(t *testing.T) {
		x = gate.Begin(prefix, expect)
		obs = &c04Obs{}
		w := &psWorld{x: x}
		pos := map[string]int{}
		for i, n := range order {
			pos[n] = i
		}
		fate := func(i int) string {
			if i < len(sc.Fates) {
				return sc.Fates[i]
			}
			return "pass"
		}
		w.serverScript = func(k int, kind string) c11Scenario {
			s := c11Scenario{StdinErr: "none", Resp: "ok", ExitAfter: -1, SendErrAt: -1}
			if fate(k) == "setuperr" {
				s.StartErr = true
			}
			if kind == "reference-server" && k < len(sc.Feedback) && sc.Feedback[k] && k < len(order) {
				s.Stderr = []string{order[k] + ": server feedback: with a colon inside\n"}
			}
			return s
		}
		w.clientScript = func(k int, kind string) fakeScript {
			if sc.ClientExit != "" && k == 0 {
				return fakeScript{Fault: sc.ClientExit, FaultAt: sc.ExitAt}
			}
			return fakeScript{Fault: "none"}
		}
		answers := map[string]string{}
		var amu sync.Mutex
		w.answer = func(kind string, j int, req *conformancev1.ClientCompatRequest) *conformancev1.ClientCompatResponse {
			i, ok := pos[req.TestName]
			f := "pass"
			if ok {
				f = fate(i)
			}
			if f == "setuperr" {
				f = "pass" // cannot happen: its server never starts
			}
			if ok && kind == "reference-client" && i < len(sc.Feedback) && sc.Feedback[i] && (f == "pass" || f == "mismatch") {
				f += "+fb"
			}
			amu.Lock()
			answers[req.TestName] = f
			amu.Unlock()
			return psAnswer(f, req)
		}
		remove := w.install()
		defer remove()
		var mu sync.Mutex
		var runErr error
		if !gateNoCache {
			x.KeyFn = func() string {
				mu.Lock()
				defer mu.Unlock()
				return w.stateKey() + fmt.Sprintf("|ret=%v", obs.Returned)
			}
		}
		logP, errP := &c11Printer{}, &c11Printer{}
		flags := c05Flags(c05Scenario{Mode: sc.Mode, MaxServers: 1})
		flags.ConfigFile, flags.TestFiles = c04Files(sc.Cfg)
		for i, n := range order {
			if i < len(sc.Marks) {
				switch sc.Marks[i] {
				case "failing":
					flags.KnownFailingPatterns = append(flags.KnownFailingPatterns, n)
				case "flaky":
					flags.KnownFlakyPatterns = append(flags.KnownFlakyPatterns, n)
				}
			}
		}
		var runOK bool
		x.Go("run", func() {
			// the exported entry point, exactly what cmd/connectconformance calls
			ok, err := Run(flags, logP, errP)
			mu.Lock()
			runOK, runErr = ok, err
			obs.Returned = true
			mu.Unlock()
		})
		x.Run(time.Hour, nil)
		x.End()
		if obs.Returned {
			obs.Success = runOK && runErr == nil
			obs.Report = logP.lines
			obs.HasRes = strings.Contains(strings.Join(logP.lines, "\n"), "Total cases:")
			if runErr != nil {
				obs.RunErr = runErr.Error()
			} else if len(errP.lines) > 0 {
				obs.RunErr = strings.Join(errP.lines, " | ")
			}
		}
		obs.ErrOut = errP.lines
		// what each case experienced
		w.mu.Lock()
		reached := map[string]bool{}
		for _, r := range w.recvs {
			reached[r.req.TestName] = true
		}
		emitted := map[string]int{}
		for _, c := range w.clients {
			for k, v := range c.emittedAnswers() {
				emitted[k] += v
			}
		}
		srvFeedback := map[string]bool{}
		for _, s := range w.servers {
			s.srv.mu.Lock()
			for _, line := range strings.Split(string(s.srv.errEmitted), "\n") {
				if i := strings.Index(line, ": "); i > 0 {
					srvFeedback[line[:i]] = true
				}
			}
			s.srv.mu.Unlock()
		}
		for i, n := range order {
			c := c04Case{name: n, reached: reached[n]}
			if i < len(sc.Marks) {
				c.mark = sc.Marks[i]
			}
			amu.Lock()
			a := answers[n]
			amu.Unlock()
			if emitted[n] > 0 {
				c.answer = strings.TrimSuffix(a, "+fb")
				c.feedback = strings.HasSuffix(a, "+fb")
			} else if a == "never" {
				c.answer = "never"
			}
			if srvFeedback[n] {
				c.feedback = true
			}
			// its server was actually asked to start and failed (sequential batches: server k serves position k)
			c.startFail = fate(i) == "setuperr" && i < len(w.servers) && w.servers[i].failed
			obs.Cases = append(obs.Cases, c)
		}
		for _, c := range w.clients {
			c.mu.Lock()
			if c.faultDone && sc.ClientExit == "exit1" {
				obs.ClientCrashed = true
			}
			c.mu.Unlock()
		}
		w.mu.Unlock()
		verdicts = c04Judge(sc, obs, x)
		w.killAll()
		synctest.Wait()
	})
	return
}

var c04TotalsRe = regexp.MustCompile(`(?s)Total cases: (\d+)\n(\d+) passed, (\d+) failed`)
var c04NoRunRe = regexp.MustCompile(`Another (\d+) could not be run`)
var c04ExpFailRe = regexp.MustCompile(`Another (\d+) failed as expected`)

func c04Judge(sc c04Scenario, obs *c04Obs, x *gate.Exec) []gateVerdict {
	var out []gateVerdict
	add := func(key, format string, a ...any) {
		out = append(out, gateVerdict{key, fmt.Sprintf(format, a...)})
	}
	if x.Overrun {
		add("step-overrun", "execution did not finish within %d steps", x.MaxSteps)
		return out
	}
	if !obs.Returned {
		add("run-never-returns", "run() did not return within a virtual hour; parked: %v", x.Waiting())
		return out
	}
	want := true
	var why []string
	for _, c := range obs.Cases {
		ok, _ := c04Truth(c)
		if !ok {
			want = false
			why = append(why, fmt.Sprintf("%s(mark=%q reached=%v answer=%q feedback=%v startFail=%v)", c.name, c.mark, c.reached, c.answer, c.feedback, c.startFail))
		}
	}
	text := strings.Join(obs.Report, "\n")
	describe := func() string {
		return fmt.Sprintf("cases=%+v runErr=%q outcomes=%v\nreport:\n%s", obs.Cases, obs.RunErr, obs.Outcomes, text)
	}
	switch {
	case obs.Success && !want:
		kind := "other"
		for _, c := range obs.Cases {
			ok, _ := c04Truth(c)
			if ok {
				continue
			}
			switch {
			case !c.reached && !c.startFail:
				kind = "case-never-sent"
			case c.startFail:
				kind = "server-start-failed"
			case c.answer == "" || c.answer == "never":
				kind = "no-result"
			case c.mark == "failing":
				kind = "known-failing-passed"
			case c.feedback && c.answer == "pass":
				kind = "peer-feedback-ignored"
			default:
				kind = "failed-case"
			}
			break
		}
		add("success-despite:"+kind, "the run is reported successful although %v did not meet the expectation. %s", why, describe())
	case !obs.Success && want && !obs.ClientCrashed:
		add("failure-despite-all-met", "the run is reported failed although every selected case ran and met its expectation. %s", describe())
	}
	// The peers were started in every scenario, so there are results to report whatever
	// happened afterwards (client died, timed out, ...): failing cases must be named and the
	// totals printed.
	{
		for _, c := range obs.Cases {
			_, mustName := c04Truth(c)
			if mustName && !regexp.MustCompile(`(?m)^FAILED: `+regexp.QuoteMeta(c.name)+`\b`).MatchString(text) && !strings.Contains(text, "FAILED: "+c.name) {
				add("failing-case-not-named", "case %s did not meet its expectation but is not named on a FAILED line. %s", c.name, describe())
			}
		}
		m := c04TotalsRe.FindStringSubmatch(text)
		if m == nil {
			add("totals-missing", "no totals line in the report:\n%s", text)
		} else {
			passed, _ := strconv.Atoi(m[2])
			failed, _ := strconv.Atoi(m[3])
			norun, expf := 0, 0
			if mm := c04NoRunRe.FindStringSubmatch(text); mm != nil {
				norun, _ = strconv.Atoi(mm[1])
			}
			if mm := c04ExpFailRe.FindStringSubmatch(text); mm != nil {
				expf, _ = strconv.Atoi(mm[1])
			}
			if passed+failed+norun+expf != len(obs.Cases) {
				add("totals-do-not-add-up", "passed %d + failed %d + could-not-run %d + expected failures %d != %d selected. %s", passed, failed, norun, expf, len(obs.Cases), describe())
			}
			// cross-check the class counts with the truth table where it is determined
			wantFailedMin := 0
			for _, c := range obs.Cases {
				if _, must := c04Truth(c); must {
					wantFailedMin++
				}
			}
			if failed < wantFailedMin {
				add("failed-count-too-low", "%d case(s) must be reported as failed but the totals say %d. %s", wantFailedMin, failed, describe())
			}
		}
	}
	return out
}

func c04Outcome(sc c04Scenario, obs *c04Obs) string {
	var cs []string
	for _, c := range obs.Cases {
		cs = append(cs, fmt.Sprintf("%s/%v/%s/%v", c.mark, c.reached, c.answer, c.feedback))
	}
	e := obs.RunErr
	if len(e) > 40 {
		e = "..." + e[len(e)-40:]
	}
	return fmt.Sprintf("mode=%s|%s|success=%v|err=%s", sc.Mode, strings.Join(cs, ","), obs.Success, e)
}

func c04Tuples(n int, vals []string) [][]string {
	if n == 0 {
		return [][]string{{}}
	}
	var out [][]string
	for _, rest := range c04Tuples(n-1, vals) {
		for _, v := range vals {
			out = append(out, append(append([]string{}, rest...), v))
		}
	}
	return out
}

func c04BoolTuples(n int) [][]bool {
	if n == 0 {
		return [][]bool{{}}
	}
	var out [][]bool
	for _, rest := range c04BoolTuples(n - 1) {
		for _, v := range []bool{false, true} {
			out = append(out, append(append([]bool{}, rest...), v))
		}
	}
	return out
}

func c04Scenarios(thorough bool) []c04Scenario {
	var out []c04Scenario
	fates := []string{"pass", "mismatch", "clienterr", "empty", "never", "setuperr"}
	marks := []string{"", "failing", "flaky"}
	type exit struct {
		kind string
		at   int
	}
	addAll := func(cfg string, m int, modes []string, fateSet, markSet []string, withFeedback bool, exits []exit) {
		for _, mode := range modes {
			for _, f := range c04Tuples(m, fateSet) {
				for _, mk := range c04Tuples(m, markSet) {
					fbs := [][]bool{nil}
					if withFeedback && mode != "both" {
						fbs = c04BoolTuples(m)
					}
					msgs := []string{""}
					for _, ff := range f {
						if ff == "clienterr" {
							msgs = []string{"", "empty", "blank", "multiline"}
						}
					}
					for _, fb := range fbs {
						for _, e := range exits {
							for _, em := range msgs {
								if em != "" && (e.kind != "" || (m > 1 && em == "multiline")) {
									continue
								}
								out = append(out, c04Scenario{Cfg: cfg, Mode: mode, Fates: f, Marks: mk, Feedback: fb, ClientExit: e.kind, ExitAt: e.at, ErrMsg: em})
							}
						}
					}
				}
			}
		}
	}
	allModes := []string{"both", "client", "server"}
	exits1 := []exit{{"", 0}, {"exit0", 0}, {"exit0", 1}, {"exit1", 0}}
	// one case: everything
	addAll("C1", 1, allModes, fates, marks, true, exits1)
	// two cases: all fates x all marks (no feedback, no exit) ...
	addAll("C2", 2, []string{"both"}, fates, marks, false, []exit{{"", 0}})
	// ... and feedback / client exit on a reduced fate and mark set
	exits2 := []exit{{"", 0}, {"exit0", 0}, {"exit0", 1}, {"exit0", 2}, {"exit1", 0}, {"exit1", 1}}
	addAll("C2", 2, []string{"client", "server"}, []string{"pass", "mismatch"}, []string{"", "failing"}, true, exits2)
	if thorough {
		addAll("C2", 2, []string{"client", "server"}, fates, marks, false, exits2)
		addAll("C3", 3, []string{"both"}, fates, marks, false, []exit{{"", 0}})
		addAll("C3", 3, []string{"both"}, []string{"pass", "mismatch", "never"}, []string{"", "failing", "flaky"}, false,
			[]exit{{"exit0", 0}, {"exit0", 1}, {"exit0", 2}, {"exit0", 3}, {"exit1", 1}, {"exit1", 2}})
	}
	return out
}

func TestVerifC04(t *testing.T) {
	r := rep.New("c04-peersim")
	defer r.Write()
	r.Rule = "scenario = per-case fate x marking x peer feedback x client exit (status, after k answers) x mode, one case per server instance through the real run() and report(); explored over all orders of peer events with 0 preemptions (1 in thorough); non-trivial = distinct (scenario, choice list)"
	bound := 0
	if rep.Thorough() {
		bound = 1
	}
	// vacuity guard: with every case passing and nothing else going on, the run must succeed;
	// otherwise the harness itself is broken (bad config, wrong names, ...)
	if rep.ReplayInput() == nil {
		for _, cfg := range []string{"C1", "C2", "C3"} {
			for _, mode := range []string{"both", "client", "server"} {
				_, obs, _, _ := c04RunOne(t, c04Scenario{Cfg: cfg, Mode: mode}, nil, nil)
				if obs == nil || !obs.Success {
					t.Errorf("harness self-check failed: all-pass scenario cfg=%s mode=%s does not succeed: %+v", cfg, mode, obs)
				}
			}
		}
	}
	gateExplore(t, r, c04Scenarios(rep.Thorough()), bound, func(sc c04Scenario, prefix []int, expect []gate.PointRec) gateRun {
		x, obs, verdicts, leak := c04RunOne(t, sc, prefix, expect)
		return gateRun{x: x, outcome: c04Outcome(sc, obs), verdicts: verdicts, leak: leak}
	})
}

// --- level (ii): ordered multi-case batches + report() -------------------------

func c04BatchJudge(sc c11Scenario, obs *c11Obs) []gateVerdict {
	var out []gateVerdict
	if !obs.Returned {
		return nil // C11's business
	}
	add := func(key, format string, a ...any) {
		out = append(out, gateVerdict{key, fmt.Sprintf(format, a...)})
	}
	sent := map[string]bool{}
	for _, r := range obs.Sent {
		sent[r.TestName] = true
	}
	broken := c11ServerBroken(sc)
	side := map[string]bool{}
	if sc.RefServer {
		inBatch := map[string]bool{}
		for _, n := range obs.Names {
			inBatch[n] = true
		}
		for _, line := range strings.Split(obs.Stderr, "\n") {
			str := strings.TrimSpace(line)
			if i := strings.Index(str, ": "); i > 0 && inBatch[str[:i]] {
				side[str[:i]] = true
			}
		}
	}
	// a case handed to the client although its server had already exited was not run against a
	// server at all: whatever the client reports for it, it could not be run
	dead := map[string]bool{}
	for _, n := range obs.SentDead {
		dead[n] = true
	}
	want := true
	var cases []c04Case
	for i, n := range obs.Names {
		c := c04Case{name: n, reached: sent[n] && !broken && !dead[n], startFail: broken}
		if i < len(sc.Marks) {
			c.mark = sc.Marks[i]
		}
		if c.reached {
			a := obs.Answers[n]
			c.answer = strings.TrimSuffix(a, "+fb")
			c.feedback = strings.HasSuffix(a, "+fb") && sc.RefClient
			if c.answer == "noresult" {
				c.answer = ""
			}
		}
		if side[n] {
			c.feedback = true
		}
		ok, _ := c04Truth(c)
		if !ok {
			want = false
		}
		cases = append(cases, c)
	}
	text := strings.Join(obs.Report, "\n")
	if obs.ReportOK && !want {
		kind := "other"
		for _, c := range cases {
			if ok, _ := c04Truth(c); !ok {
				switch {
				case !c.reached && !c.startFail:
					kind = "case-never-sent"
				case c.startFail:
					kind = "server-start-failed"
				case c.answer == "":
					kind = "no-result"
				case c.mark == "failing":
					kind = "known-failing-passed"
				case c.feedback && c.answer == "pass":
					kind = "peer-feedback-ignored"
				default:
					kind = "failed-case"
				}
				break
			}
		}
		add("batch-success-despite:"+kind, "report() says success although not every case of the batch ran and met its expectation: %+v\n%s", cases, text)
	}
	if !obs.ReportOK && want {
		add("batch-failure-despite-all-met", "report() says failure although every case ran and met its expectation: %+v\n%s", cases, text)
	}
	for _, c := range cases {
		if _, must := c04Truth(c); must && !strings.Contains(text, "FAILED: "+c.name) {
			add("batch-failing-case-not-named", "case %s did not meet its expectation but is not named on a FAILED line: %+v\n%s", c.name, cases, text)
		}
	}
	if m := c04TotalsRe.FindStringSubmatch(text); m != nil {
		passed, _ := strconv.Atoi(m[2])
		failed, _ := strconv.Atoi(m[3])
		norun, expf := 0, 0
		if mm := c04NoRunRe.FindStringSubmatch(text); mm != nil {
			norun, _ = strconv.Atoi(mm[1])
		}
		if mm := c04ExpFailRe.FindStringSubmatch(text); mm != nil {
			expf, _ = strconv.Atoi(mm[1])
		}
		if passed+failed+norun+expf != len(obs.Names) {
			add("batch-totals-do-not-add-up", "passed %d + failed %d + could-not-run %d + expected failures %d != %d cases\n%s", passed, failed, norun, expf, len(obs.Names), text)
		}
	} else {
		add("batch-totals-missing", "no totals in report:\n%s", text)
	}
	return out
}

func c04BatchScenarios(thorough bool) []c11Scenario {
	var out []c11Scenario
	maxN := 2
	if thorough {
		maxN = 3
	}
	kinds := []string{"pass", "mismatch", "clienterr", "clienterr-blank", "empty", "noresult"}
	marks := []string{"", "failing", "flaky"}
	for n := 1; n <= maxN; n++ {
		base := c11Scenario{N: n, StdinErr: "none", Resp: "ok", ExitAfter: -1, SendErrAt: -1}
		for _, mk := range c04Tuples(n, marks) {
			for _, ans := range c04Tuples(n, kinds) {
				s := base
				s.Answers, s.Marks = ans, mk
				out = append(out, s)
			}
			reduced := c04Tuples(n, []string{"pass", "mismatch"})
			for _, ans := range reduced {
				// server dies after k requests / client pipe closes at the k-th send / server never usable
				for k := 0; k <= n; k++ {
					s := base
					s.Answers, s.Marks, s.ExitAfter = ans, mk, k
					out = append(out, s)
				}
				for k := 0; k < n; k++ {
					s := base
					s.Answers, s.Marks, s.SendErrAt = ans, mk, k
					out = append(out, s)
				}
				for _, rs := range []string{"never", "garbage", "eof"} {
					s := base
					s.Answers, s.Marks, s.Resp = ans, mk, rs
					out = append(out, s)
				}
				s := base
				s.Answers, s.Marks, s.StartErr = ans, mk, true
				out = append(out, s)
				// peer feedback
				s = base
				s.Answers, s.Marks, s.RefServer, s.Stderr = ans, mk, true, []string{"s/c0: server feedback: with a colon inside\n"}
				out = append(out, s)
				// peer feedback queued behind other stderr output while the runner's own stderr is slow
				if n <= 2 {
					for _, slow := range []int{4, 30} {
						s = base
						s.Answers, s.Marks, s.RefServer, s.SlowErr = ans, mk, true, slow
						s.Stderr = []string{"some other output\n", "s/c0: server feedback after other output\n"}
						out = append(out, s)
					}
				}
				// peer feedback about a case that could not run (server died / client pipe closed / no result)
				for k := 0; k <= n; k++ {
					s = base
					s.Answers, s.Marks, s.RefServer, s.ExitAfter = ans, mk, true, k
					s.Stderr = []string{fmt.Sprintf("s/c%d: server feedback\n", n-1)}
					out = append(out, s)
				}
				for k := 0; k < n; k++ {
					s = base
					s.Answers, s.Marks, s.RefServer, s.SendErrAt = ans, mk, true, k
					s.Stderr = []string{fmt.Sprintf("s/c%d: server feedback\n", n-1)}
					out = append(out, s)
				}
				s = base
				s.Marks, s.RefServer = mk, true
				s.Answers = []string{"noresult", "noresult", "noresult"}[:n]
				s.Stderr = []string{"s/c0: server feedback\n"}
				out = append(out, s)
				s = base
				s.Marks, s.RefClient = mk, true
				for _, a := range ans {
					s.Answers = append(s.Answers, a+"+fb")
				}
				out = append(out, s)
			}
		}
	}
	return out
}

func TestVerifC04Batch(t *testing.T) {
	r := rep.New("c04-batch")
	defer r.Write()
	r.Rule = "scenario = ordered batch of 1..3 cases x marking per case x answer kinds per position x server death after k / client pipe closed at k / unusable server / peer feedback, through the real runTestCasesForServer and report(); all orders of peer events with 0 preemptions (1 in thorough)"
	bound := 0
	if rep.Thorough() {
		bound = 1
	}
	gateExplore(t, r, c04BatchScenarios(rep.Thorough()), bound, func(sc c11Scenario, prefix []int, expect []gate.PointRec) gateRun {
		x, obs, leak := c11RunOne(t, sc, prefix, expect)
		return gateRun{x: x, outcome: c11Outcome(sc, obs), verdicts: c04BatchJudge(sc, obs), leak: leak}
	})
}

var _ = errors.New

// --- level (iii): the result table alone ---------------------------------------

// TestVerifC04Report enumerates histories of the result table itself: for 1 and 2 cases every
// combination of recorded outcome x marking x peer feedback x HTTP trace (tracing off, on
// without a trace arriving, on with a trace delivered before or after the outcome), then
// report(). Same truth table as the other levels.
func TestVerifC04Report(t *testing.T) {
	r := rep.New("c04-report")
	defer r.Write()
	r.Rule = "histories of the result table for 1-2 cases: outcome (pass, assertion failure, setup error, could-not-run, none) x marking x peer feedback x tracing (off / on, no trace / trace before the outcome / trace after the outcome); report() judged by the truth table; non-trivial = distinct history"
	outcomes := []string{"pass", "fail", "setup", "norun", "none"}
	marks := []string{"", "failing", "flaky"}
	traces := []string{"off", "on-none", "on-before", "on-after"}
	type one struct {
		Outcome, Mark, Trace string
		Feedback             bool
	}
	var singles []one
	for _, o := range outcomes {
		for _, m := range marks {
			for _, tr := range traces {
				for _, fb := range []bool{false, true} {
					singles = append(singles, one{o, m, tr, fb})
				}
			}
		}
	}
	var k int64
	var run func(cs []one)
	runMode := func(cs []one, immediate bool) {
		k++
		if !r.Mine(k) {
			return
		}
		tracing := false
		for _, c := range cs {
			if c.Trace != "off" {
				tracing = true
			}
		}
		var text string
		var ok bool
		synctest.Test(t, func(t *testing.T) {
			failing, flaky := &testTrie{}, &testTrie{}
			var trc *tracer.Tracer
			if tracing {
				trc = &tracer.Tracer{}
			}
			names := make([]string, len(cs))
			for i, c := range cs {
				names[i] = fmt.Sprintf("s/c%d", i)
				switch c.Mark {
				case "failing":
					failing.addPattern(names[i])
				case "flaky":
					flaky.addPattern(names[i])
				}
			}
			res := newResults(len(cs), failing, flaky, trc)
			for i, c := range cs {
				n := names[i]
				trc.Init(n)
				if c.Trace == "on-before" {
					trc.Complete(tracer.Trace{TestName: n})
				}
				switch c.Outcome {
				case "pass":
					res.setOutcome(n, false, nil)
				case "fail":
					res.setOutcome(n, false, errors.New("expecting data 6f6b, got 77726f6e67"))
				case "setup":
					res.setOutcome(n, true, errors.New("error starting server"))
				case "norun":
					res.setOutcome(n, true, &couldNotRunError{errClosed})
				}
				if c.Trace == "on-after" {
					trc.Complete(tracer.Trace{TestName: n})
				}
				if c.Feedback {
					res.recordSideband(n, "peer feedback")
				}
			}
			if !immediate {
				synctest.Wait()
			}
			// (immediate: the report is asked for right after the last outcome was recorded, before the
			// goroutines that fetch the traces have had a chance to run)
			p := &c11Printer{}
			ok = res.report(p)
			text = strings.Join(p.lines, "\n")
			// report() may itself start trace look-ups (feedback about a case without outcome);
			// let them run into their timeout before the bubble ends
			time.Sleep(2 * tracer.TraceTimeout)
		})
		r.Eval(1)
		r.NonTrivial("")
		want := true
		mustFail := 0
		for i, c := range cs {
			cc := c04Case{name: fmt.Sprintf("s/c%d", i), mark: c.Mark, feedback: c.Feedback}
			switch c.Outcome {
			case "pass":
				cc.reached, cc.answer = true, "pass"
			case "fail":
				cc.reached, cc.answer = true, "mismatch"
			case "setup":
				cc.startFail = true
			case "norun", "none":
			}
			if c.Outcome == "none" && c.Feedback {
				// feedback about a case without any outcome is recorded as a failure of that case
				cc.reached, cc.answer = true, "mismatch"
			}
			good, must := c04Truth(cc)
			if !good {
				want = false
			}
			if must {
				mustFail++
				if !strings.Contains(text, "FAILED: "+cc.name) {
					r.Violate("report-failing-case-not-named", fmt.Sprintf("history %+v: case %s did not meet its expectation but is not named on a FAILED line:\n%s", cs, cc.name, text), map[string]any{"history": cs})
				}
			}
		}
		// a failed, unmarked case whose trace was completed is reported with that trace
		wantTraces := 0
		for _, c := range cs {
			if c.Outcome == "fail" && c.Mark == "" && (c.Trace == "on-before" || c.Trace == "on-after") {
				wantTraces++
			}
		}
		if got := strings.Count(text, "---- HTTP Trace ----"); got < wantTraces {
			r.Violate("report-trace-missing", fmt.Sprintf("history %+v (report immediately=%v): %d failed case(s) have a completed trace but the report shows %d trace(s):\n%s", cs, immediate, wantTraces, got, text), map[string]any{"history": cs})
		}
		r.Outcome(fmt.Sprintf("ok=%v want=%v", ok, want))
		if ok && !want {
			r.Violate("report-success-despite-unmet-case", fmt.Sprintf("history %+v: report() returns success although not every case ran and met its expectation:\n%s", cs, text), map[string]any{"history": cs})
		}
		if !ok && want {
			r.Violate("report-failure-despite-all-met", fmt.Sprintf("history %+v: report() returns failure although every case ran and met its expectation:\n%s", cs, text), map[string]any{"history": cs})
		}
		if m := c04TotalsRe.FindStringSubmatch(text); m != nil {
			passed, _ := strconv.Atoi(m[2])
			failed, _ := strconv.Atoi(m[3])
			norun, expf := 0, 0
			if mm := c04NoRunRe.FindStringSubmatch(text); mm != nil {
				norun, _ = strconv.Atoi(mm[1])
			}
			if mm := c04ExpFailRe.FindStringSubmatch(text); mm != nil {
				expf, _ = strconv.Atoi(mm[1])
			}
			if passed+failed+norun+expf != len(cs) {
				r.Violate("report-totals-do-not-add-up", fmt.Sprintf("history %+v: passed %d + failed %d + could-not-run %d + expected failures %d != %d\n%s", cs, passed, failed, norun, expf, len(cs), text), map[string]any{"history": cs})
			}
			if failed < mustFail {
				r.Violate("report-failed-count-too-low", fmt.Sprintf("history %+v: %d case(s) must be reported as failed but the totals say %d\n%s", cs, mustFail, failed, text), map[string]any{"history": cs})
			}
		} else {
			r.Violate("report-totals-missing", fmt.Sprintf("history %+v: no totals:\n%s", cs, text), map[string]any{"history": cs})
		}
		if k%997 == 1 {
			r.Sample(cs)
		}
	}
	run = func(cs []one) {
		runMode(cs, false)
		for _, c := range cs {
			if c.Trace != "off" && c.Outcome == "fail" {
				runMode(cs, true)
				break
			}
		}
	}
	for _, a := range singles {
		run([]one{a})
	}
	for _, a := range singles {
		for _, b := range singles {
			if !rep.Thorough() && (a.Trace == "on-none" || b.Trace == "on-none") && (a.Feedback || b.Feedback) {
				continue
			}
			run([]one{a, b})
		}
	}
}
