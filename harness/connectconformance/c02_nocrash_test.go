package connectconformance

// C02 (b) — loading and expanding any parseable suite never crashes the
// runner: shapes it cannot handle are rejected with an error. Bounded
// exhaustive enumeration of ill-formed (but parseable) suites through
// parseTestSuites and newTestCaseLibrary.

import (
	"encoding/json"
	"fmt"
	"strings"
	"testing"
	"time"

	conformancev1 "connectrpc.com/conformance/internal/gen/proto/go/connectrpc/conformance/v1"
	"connectrpc.com/conformance/internal/verif/rep"
	"google.golang.org/protobuf/encoding/protojson"
	"google.golang.org/protobuf/proto"
	"google.golang.org/protobuf/types/known/anypb"
)

type c02Shape struct {
	StreamType int32  `json:"stream_type"` // 0..5
	MsgType    string `json:"msg_type"`    // which request message type the Any carries
	NReq       int    `json:"nreq"`        // 0..3
	NResp      int    `json:"nresp"`       // 0..3 (stream definitions)
	RespKind   string `json:"resp_kind"`   // none data error raw both
	FullDuplex bool   `json:"full_duplex"`
	Expand     string `json:"expand"`      // "", one, toomany, hugeneg, hugepos
	Name       string `json:"name"`        // ok empty dup
	SvcMethod  string `json:"svc_method"`  // none svc method both
	DefAt      int    `json:"def_at"`      // index of the message that carries the response definition
	BadAny     string `json:"bad_any"`     // "", unknowntype, garbage
	SuiteShape string `json:"suite_shape"` // ok noname nocases tlscerts getnonconnect
	Mode       int32  `json:"mode"`
}

func c02Any(t string, def bool, sh c02Shape, first bool) *anypb.Any {
	var msg proto.Message
	unary := &conformancev1.UnaryResponseDefinition{}
	stream := &conformancev1.StreamResponseDefinition{}
	if def {
		switch sh.RespKind {
		case "data":
			unary.Response = &conformancev1.UnaryResponseDefinition_ResponseData{ResponseData: []byte("x")}
		case "error":
			unary.Response = &conformancev1.UnaryResponseDefinition_Error{Error: &conformancev1.Error{Code: conformancev1.Code_CODE_INTERNAL}}
			stream.Error = &conformancev1.Error{Code: conformancev1.Code_CODE_INTERNAL}
		case "raw":
			unary.RawResponse = &conformancev1.RawHTTPResponse{StatusCode: 200}
			stream.RawResponse = &conformancev1.RawHTTPResponse{StatusCode: 200}
		case "both":
			unary.Response = &conformancev1.UnaryResponseDefinition_ResponseData{ResponseData: []byte("x")}
			unary.RawResponse = &conformancev1.RawHTTPResponse{}
			stream.Error = &conformancev1.Error{}
			stream.RawResponse = &conformancev1.RawHTTPResponse{}
		}
		for i := 0; i < sh.NResp; i++ {
			stream.ResponseData = append(stream.ResponseData, []byte{byte(i)})
		}
	} else {
		unary, stream = nil, nil
	}
	switch t {
	case "unary":
		msg = &conformancev1.UnaryRequest{ResponseDefinition: unary, RequestData: []byte("d")}
	case "idempotent":
		msg = &conformancev1.IdempotentUnaryRequest{ResponseDefinition: unary}
	case "client":
		msg = &conformancev1.ClientStreamRequest{ResponseDefinition: unary}
	case "server":
		msg = &conformancev1.ServerStreamRequest{ResponseDefinition: stream}
	case "bidi":
		msg = &conformancev1.BidiStreamRequest{ResponseDefinition: stream, FullDuplex: sh.FullDuplex && first}
	case "foreign":
		msg = &conformancev1.Header{Name: "not-a-request"}
	}
	a, err := anypb.New(msg)
	if err != nil {
		panic(err)
	}
	switch sh.BadAny {
	case "unknowntype":
		a.TypeUrl = "type.googleapis.com/does.not.Exist"
	case "garbage":
		a.Value = []byte{0xff, 0xff, 0xff}
	}
	return a
}

func c02Suite(sh c02Shape) *conformancev1.TestSuite {
	tc := &conformancev1.TestCase{Request: &conformancev1.ClientCompatRequest{TestName: "case", StreamType: conformancev1.StreamType(sh.StreamType)}}
	switch sh.Name {
	case "empty":
		tc.Request.TestName = ""
	}
	switch sh.SvcMethod {
	case "svc", "both":
		tc.Request.Service = proto.String("connectrpc.conformance.v1.ConformanceService")
	}
	switch sh.SvcMethod {
	case "method", "both":
		tc.Request.Method = proto.String("Unary")
	}
	for i := 0; i < sh.NReq; i++ {
		tc.Request.RequestMessages = append(tc.Request.RequestMessages, c02Any(sh.MsgType, i == sh.DefAt, sh, i == 0))
	}
	switch sh.Expand {
	case "one":
		tc.ExpandRequests = []*conformancev1.TestCase_ExpandedSize{{SizeRelativeToLimit: proto.Int32(0)}}
	case "toomany":
		tc.ExpandRequests = []*conformancev1.TestCase_ExpandedSize{{SizeRelativeToLimit: proto.Int32(1)}, {SizeRelativeToLimit: proto.Int32(-1)}, {}, {SizeRelativeToLimit: proto.Int32(5)}, {SizeRelativeToLimit: proto.Int32(5)}}
	case "hugeneg":
		tc.ExpandRequests = []*conformancev1.TestCase_ExpandedSize{{SizeRelativeToLimit: proto.Int32(-2147483648)}}
	case "hugepos":
		tc.ExpandRequests = []*conformancev1.TestCase_ExpandedSize{{SizeRelativeToLimit: proto.Int32(2147483647)}}
	case "nil":
		tc.ExpandRequests = []*conformancev1.TestCase_ExpandedSize{nil, {}}
	}
	s := &conformancev1.TestSuite{Name: "Ill", Mode: conformancev1.TestSuite_TestMode(sh.Mode), TestCases: []*conformancev1.TestCase{tc}}
	switch sh.SuiteShape {
	case "noname":
		s.Name = ""
	case "nocases":
		s.TestCases = nil
	case "dupcase":
		s.TestCases = append(s.TestCases, proto.Clone(tc).(*conformancev1.TestCase))
	case "tlscerts":
		s.ReliesOnTlsClientCerts = true
	case "getnonconnect":
		s.ReliesOnConnectGet = true
		s.RelevantProtocols = []conformancev1.Protocol{conformancev1.Protocol_PROTOCOL_GRPC}
	case "limit":
		s.ReliesOnMessageReceiveLimit = true
	case "norequest":
		s.TestCases = []*conformancev1.TestCase{{}}
	}
	return s
}

func c02ConfigCases() []configCase {
	var out []configCase
	for st := int32(1); st <= 5; st++ {
		for _, p := range []conformancev1.Protocol{conformancev1.Protocol_PROTOCOL_CONNECT, conformancev1.Protocol_PROTOCOL_GRPC} {
			for _, lim := range []bool{false, true} {
				out = append(out, configCase{Version: conformancev1.HTTPVersion_HTTP_VERSION_2, Protocol: p, Codec: conformancev1.Codec_CODEC_PROTO,
					Compression: conformancev1.Compression_COMPRESSION_IDENTITY, StreamType: conformancev1.StreamType(st), UseMessageReceiveLimit: lim})
			}
		}
	}
	return out
}

func c02Try(sh c02Shape, viaYAML bool) (outcome string, panicked string) {
	defer func() {
		if r := recover(); r != nil {
			panicked = fmt.Sprint(r)
			outcome = "panic"
		}
	}()
	suite := c02Suite(sh)
	suites := map[string]*conformancev1.TestSuite{"ill.yaml": suite}
	if viaYAML {
		data, err := protojson.Marshal(suite)
		if err != nil {
			return "unmarshalable", ""
		}
		parsed, err := parseTestSuites(map[string][]byte{"ill.yaml": data})
		if err != nil {
			return "parse-error", ""
		}
		suites = parsed
	}
	lib, err := newTestCaseLibrary(suites, c02ConfigCases(), conformancev1.TestSuite_TEST_MODE_UNSPECIFIED)
	if err != nil {
		msg := err.Error()
		if i := strings.LastIndex(msg, ": "); i > 0 {
			msg = msg[i+2:]
		}
		if len(msg) > 40 {
			msg = msg[:40]
		}
		return "error:" + msg, ""
	}
	// use the library the way run() does
	_ = lib.allPermutations(true, true)
	for inst, cases := range lib.casesByServer {
		_ = inst
		_ = lib.filterGRPCImplTestCases(cases, true, false)
		_ = lib.filterGRPCImplTestCases(cases, false, true)
	}
	return fmt.Sprintf("library:%d", len(lib.testCases)), ""
}

func TestVerifC02NoCrash(t *testing.T) {
	r := rep.New("c02-nocrash")
	defer r.Write()
	r.Rule = "ill-formed but parseable suites: stream type (incl. unspecified) x request message type (incl. wrong type for the stream, foreign message, unknown Any type, garbage Any bytes) x request count 0-3 x position of the response definition x response kind (none/data/error/raw/conflicting) x response count x full-duplex x expand directives (none/one/too many/extreme offsets/nil entry) x names x service/method presence x suite-level contradictions; each built as a message and via protojson + parseTestSuites, then newTestCaseLibrary + the permutation functions run() calls; non-trivial = distinct shape"
	if data := rep.ReplayInput(); data != nil {
		var rj struct {
			Replay struct {
				Shape c02Shape `json:"shape"`
				YAML  bool     `json:"yaml"`
			} `json:"replay"`
		}
		if err := json.Unmarshal(data, &rj); err != nil {
			t.Fatal(err)
		}
		out, p := c02Try(rj.Replay.Shape, rj.Replay.YAML)
		fmt.Printf("replay: %+v yaml=%v -> %s %s\n", rj.Replay.Shape, rj.Replay.YAML, out, p)
		r.Eval(1)
		if p != "" {
			r.Violate("suite-loading-panics", p, rj.Replay)
		}
		return
	}
	deadline := rep.Deadline()
	thorough := rep.Thorough()
	msgTypes := []string{"unary", "idempotent", "client", "server", "bidi", "foreign"}
	respKinds := []string{"none", "data", "error", "raw", "both"}
	expands := []string{"", "one", "toomany", "hugeneg", "hugepos", "nil"}
	suiteShapes := []string{"ok", "noname", "nocases", "dupcase", "tlscerts", "getnonconnect", "limit", "norequest"}
	var k int64
	for st := int32(0); st <= 5; st++ {
		for _, mt := range msgTypes {
			for nreq := 0; nreq <= 3; nreq++ {
				for defAt := 0; defAt <= nreq && defAt <= 2; defAt++ {
					for _, rk := range respKinds {
						for nresp := 0; nresp <= 3; nresp++ {
							if (rk == "none") && nresp > 0 {
								continue
							}
							for _, fd := range []bool{false, true} {
								for _, ex := range expands {
									for _, ss := range suiteShapes {
										if !thorough && ss != "ok" && (nreq != 1 || ex != "" || rk != "data") {
											continue
										}
										for _, extra := range []c02Shape{{}, {Name: "empty"}, {SvcMethod: "svc"}, {SvcMethod: "method"}, {SvcMethod: "both"}, {BadAny: "unknowntype"}, {BadAny: "garbage"}} {
											if !thorough && (extra != c02Shape{}) && (ex != "" || nresp > 1 || fd) {
												continue
											}
											k++
											if !r.Mine(k) {
												continue
											}
											if k%4096 < int64(r.NShards) && !deadline.IsZero() && time.Now().After(deadline) {
												r.NotExhaustive("budget")
												return
											}
											sh := extra
											sh.StreamType, sh.MsgType, sh.NReq, sh.NResp, sh.RespKind, sh.FullDuplex, sh.Expand, sh.DefAt, sh.SuiteShape = st, mt, nreq, nresp, rk, fd, ex, defAt, ss
											if sh.Name == "" {
												sh.Name = "ok"
											}
											for _, yaml := range []bool{false, true} {
												out, p := c02Try(sh, yaml)
												r.Eval(1)
												r.Outcome(out)
												if p != "" {
													where := "direct"
													if yaml {
														where = "yaml"
													}
													first := p
													if i := strings.IndexByte(first, '\n'); i > 0 {
														first = first[:i]
													}
													r.Violate("suite-loading-panics:"+c02PanicClass(first), fmt.Sprintf("shape %+v (%s): %s", sh, where, first), map[string]any{"shape": sh, "yaml": yaml})
												}
											}
											r.NonTrivial("")
											if k%5003 == 1 {
												r.Sample(sh)
											}
										}
									}
								}
							}
						}
					}
				}
			}
		}
	}
}

func c02PanicClass(msg string) string {
	switch {
	case strings.Contains(msg, "index out of range"):
		return "index-out-of-range"
	case strings.Contains(msg, "nil pointer"), strings.Contains(msg, "nil map"):
		return "nil-dereference"
	case strings.Contains(msg, "interface conversion"):
		return "type-assertion"
	case strings.Contains(msg, "slice bounds"):
		return "slice-bounds"
	}
	return "other"
}
