package connectconformance

// C05 — each selected permutation is executed exactly once against a matching
// server; never more than --max-servers servers alive; every server stopped;
// run terminates. PEERSIM: the real run() against scripted peers, all orders
// of peer events and all interleavings up to the preemption bound.

import (
	"bytes"
	"fmt"
	"sort"
	"strings"
	"sync"
	"testing"
	"testing/synctest"
	"time"

	conformancev1 "connectrpc.com/conformance/internal/gen/proto/go/connectrpc/conformance/v1"
	"connectrpc.com/conformance/internal/verif/gate"
	"connectrpc.com/conformance/internal/verif/rep"
	"google.golang.org/protobuf/proto"
)

type c05Scenario struct {
	Cfg        string   `json:"cfg"`
	Suites     string   `json:"suites"`
	Mode       string   `json:"mode"` // both client server
	Run        []string `json:"run"`
	Skip       []string `json:"skip"`
	MaxServers int      `json:"max_servers"`
	FailStart  int      `json:"fail_start"` // -1, or the k-th started server fails to start
	// optional misbehaviour of the (first) client process: exit0 exit1 closeout garbage unknown, once k answers were emitted
	ClientFault   string `json:"client_fault,omitempty"`
	ClientFaultAt int    `json:"client_fault_at,omitempty"`
	// Quiet: run without -v (then the server instances are visited in map order, not sorted)
	Quiet bool `json:"quiet,omitempty"`
	// CaseOrder: the order of the cases inside each server batch (hook verifCaseOrder): "" by name, rev, rot
	CaseOrder string `json:"case_order,omitempty"`
	// ServerHost / EchoCert: what every server reports about itself (see c11Scenario.Host); "" = varies by start index
	ServerHost string `json:"server_host,omitempty"`
	EchoCert   bool   `json:"echo_cert,omitempty"`
	// SyncStdin: the client's input pipe has io.Pipe's semantics (a write completes only when the client reads)
	SyncStdin bool `json:"sync_stdin,omitempty"`
}

func c05Configs(name string) []configCase {
	mk := func(v conformancev1.HTTPVersion, p conformancev1.Protocol, tls, certs bool) configCase {
		return configCase{Version: v, Protocol: p, Codec: conformancev1.Codec_CODEC_PROTO, Compression: conformancev1.Compression_COMPRESSION_IDENTITY,
			StreamType: conformancev1.StreamType_STREAM_TYPE_UNARY, UseTLS: tls, UseTLSClientCerts: certs}
	}
	h1, h2 := conformancev1.HTTPVersion_HTTP_VERSION_1, conformancev1.HTTPVersion_HTTP_VERSION_2
	cn, gr, gw := conformancev1.Protocol_PROTOCOL_CONNECT, conformancev1.Protocol_PROTOCOL_GRPC, conformancev1.Protocol_PROTOCOL_GRPC_WEB
	switch name {
	case "A2":
		return []configCase{mk(h1, cn, false, false), mk(h2, gr, false, false)}
	case "A3":
		return []configCase{mk(h1, cn, false, false), mk(h1, gw, false, false), mk(h2, gr, false, false)}
	case "A4":
		c := mk(h2, gr, false, false)
		c.Codec = conformancev1.Codec_CODEC_JSON // not supported by the gRPC peers
		return []configCase{mk(h1, cn, false, false), mk(h1, gw, false, false), mk(h2, gr, false, false), mk(h2, cn, false, false), c}
	case "C1":
		return []configCase{mk(h1, cn, false, false)}
	case "C2":
		return []configCase{mk(h1, cn, false, false), mk(h2, cn, false, false)}
	case "C3":
		return []configCase{mk(h1, cn, false, false), mk(h2, cn, false, false), mk(h2, gr, false, false)}
	case "T":
		return []configCase{mk(h1, cn, false, false), mk(h1, cn, true, false), mk(h2, gr, true, false), mk(h2, gr, true, true)}
	}
	panic("unknown config " + name)
}

func c05Suites(name string) map[string]*conformancev1.TestSuite {
	un := conformancev1.TestSuite_TEST_MODE_UNSPECIFIED
	switch name {
	case "one":
		return map[string]*conformancev1.TestSuite{"s.yaml": psUnarySuite("S", un, nil, "u1")}
	case "two":
		return map[string]*conformancev1.TestSuite{"s.yaml": psUnarySuite("S", un, nil, "u1", "u2")}
	case "mix":
		certs := psUnarySuite("Certs", un, nil, "k1")
		certs.ReliesOnTls, certs.ReliesOnTlsClientCerts = true, true
		return map[string]*conformancev1.TestSuite{
			"s.yaml": psUnarySuite("S", un, nil, "u1", "u2"),
			"g.yaml": psUnarySuite("G", un, []conformancev1.Protocol{conformancev1.Protocol_PROTOCOL_GRPC}, "g1"),
			"c.yaml": psUnarySuite("ClientOnly", conformancev1.TestSuite_TEST_MODE_CLIENT, nil, "c1"),
			"v.yaml": psUnarySuite("ServerOnly", conformancev1.TestSuite_TEST_MODE_SERVER, nil, "v1"),
			"k.yaml": certs,
		}
	}
	panic("unknown suites " + name)
}

// c05Glob is the reference matcher: literal equal, * one component, ** zero or more.
func c05Glob(pat, name []string) bool {
	if len(pat) == 0 {
		return len(name) == 0
	}
	switch pat[0] {
	case "**":
		for i := 0; i <= len(name); i++ {
			if c05Glob(pat[1:], name[i:]) {
				return true
			}
		}
		return false
	case "*":
		return len(name) > 0 && c05Glob(pat[1:], name[1:])
	}
	return len(name) > 0 && name[0] == pat[0] && c05Glob(pat[1:], name[1:])
}

func c05Accept(name string, run, skip []string) bool {
	parts := strings.Split(name, "/")
	ok := len(run) == 0
	for _, p := range run {
		if c05Glob(strings.Split(p, "/"), parts) {
			ok = true
		}
	}
	for _, p := range skip {
		if c05Glob(strings.Split(p, "/"), parts) {
			ok = false
		}
	}
	return ok
}

// c05Applicable: what the gRPC reference peers support (independent statement).
func c05Applicable(req *conformancev1.ClientCompatRequest, grpcClient, grpcServer bool) bool {
	switch req.Protocol {
	case conformancev1.Protocol_PROTOCOL_GRPC:
		if req.HttpVersion != conformancev1.HTTPVersion_HTTP_VERSION_2 {
			return false
		}
	case conformancev1.Protocol_PROTOCOL_GRPC_WEB:
		if grpcClient {
			return false
		}
		if req.HttpVersion != conformancev1.HTTPVersion_HTTP_VERSION_1 && req.HttpVersion != conformancev1.HTTPVersion_HTTP_VERSION_2 {
			return false
		}
	default:
		return false
	}
	if req.Codec != conformancev1.Codec_CODEC_PROTO {
		return false
	}
	if req.Compression != conformancev1.Compression_COMPRESSION_IDENTITY && req.Compression != conformancev1.Compression_COMPRESSION_GZIP {
		return false
	}
	return len(req.ServerTlsCert) == 0
}

func c05Mark(full, simple string, grpcClient, grpcServer bool) string {
	var marker string
	switch {
	case grpcClient && grpcServer:
		marker = "(grpc impls)"
	case grpcClient:
		marker = "(grpc client impl)"
	case grpcServer:
		marker = "(grpc server impl)"
	default:
		return full
	}
	return strings.TrimSuffix(full, simple) + marker + "/" + simple
}

type c05Expect struct {
	clientKind, serverKind string
	inst                   serverInstance
	count                  int
}

type c05Obs struct {
	Returned  bool
	RunErr    string
	Results   *testResults
	World     *psWorld
	Expected  map[string]*c05Expect
	LibErr    string
	Verdicts  []gateVerdict
	NumRecv   int
	NumServer int
	// server processes still alive at the very moment run() returned
	LiveAtReturn []int
	done         chan struct{}
}

func c05Flags(sc c05Scenario) *Flags {
	f := &Flags{Verbose: !sc.Quiet, MaxServers: uint(sc.MaxServers), Parallelism: 4}
	switch sc.Mode {
	case "both":
		f.ClientCommand, f.ServerCommand = []string{"fake-client"}, []string{"fake-server"}
	case "client":
		f.ClientCommand = []string{"fake-client"}
	case "server":
		f.ServerCommand = []string{"fake-server"}
	}
	return f
}

func c05Expected(sc c05Scenario) (map[string]*c05Expect, string) {
	mode := conformancev1.TestSuite_TEST_MODE_UNSPECIFIED
	clientKinds, serverKinds := []string{"fake-client"}, []string{"fake-server"}
	switch sc.Mode {
	case "client":
		mode = conformancev1.TestSuite_TEST_MODE_CLIENT
		serverKinds = []string{"reference-server", "grpc-reference-server"}
	case "server":
		mode = conformancev1.TestSuite_TEST_MODE_SERVER
		clientKinds = []string{"reference-client", "grpc-reference-client"}
	}
	suites := map[string]*conformancev1.TestSuite{}
	for k, v := range c05Suites(sc.Suites) {
		suites[k] = proto.Clone(v).(*conformancev1.TestSuite)
	}
	lib, err := newTestCaseLibrary(suites, c05Configs(sc.Cfg), mode)
	if err != nil {
		return nil, err.Error()
	}
	out := map[string]*c05Expect{}
	for _, ck := range clientKinds {
		for _, sk := range serverKinds {
			cg, sg := ck == "grpc-reference-client", sk == "grpc-reference-server"
			for name, tc := range lib.testCases {
				if (cg || sg) && !c05Applicable(tc.Request, cg, sg) {
					continue
				}
				marked := c05Mark(name, lib.testCaseNames[name], cg, sg)
				if !c05Accept(marked, sc.Run, sc.Skip) {
					continue
				}
				out[marked] = &c05Expect{clientKind: ck, serverKind: sk, inst: serverInstance{
					protocol: tc.Request.Protocol, httpVersion: tc.Request.HttpVersion,
					useTLS: len(tc.Request.ServerTlsCert) > 0, useTLSClientCerts: tc.Request.ClientTlsCreds != nil}}
			}
		}
	}
	return out, ""
}

func c05RunOne(t *testing.T, sc c05Scenario, prefix []int, expect []gate.PointRec) (x *gate.Exec, obs *c05Obs, leak string) {
	defer func() {
		if r := recover(); r != nil {
			leak = fmt.Sprint(r)
		}
	}()
	synctest.Test(t, func(t *testing.T) {
		x = gate.Begin(prefix, expect)
		var finish func()
		obs, finish = c05Body(x, sc)
		x.Run(time.Hour, nil)
		obs.Verdicts = c05Judge(sc, obs, x)
		x.End()
		finish()
		synctest.Wait()
	})
	return
}

// c05Body sets the scenario up and starts run() on its own thread; x == nil
// means free-running (race-detector pass). The returned function tears down.
func c05Body(x *gate.Exec, sc c05Scenario) (*c05Obs, func()) {
	obs := &c05Obs{done: make(chan struct{})}
	obs.Expected, obs.LibErr = c05Expected(sc)
	w := &psWorld{x: x}
	obs.World = w
	w.serverScript = func(k int, kind string) c11Scenario {
		s := c11Scenario{StdinErr: "none", Resp: "ok", ExitAfter: -1, SendErrAt: -1}
		if k == sc.FailStart {
			s.StartErr = true
		}
		// servers differ in what they report: the host by name, as an IPv6 literal or not at all, and (under
		// TLS) a certificate of their own or the one they were offered
		s.Host = []string{"", "localhost", "::1", "none"}[k%4]
		s.EchoCert = k%2 == 1
		if sc.ServerHost != "" {
			s.Host, s.EchoCert = sc.ServerHost, sc.EchoCert
			if s.Host == "default" {
				s.Host = ""
			}
		}
		return s
	}
	w.answer = func(kind string, j int, req *conformancev1.ClientCompatRequest) *conformancev1.ClientCompatResponse {
		return psPassResponse(req)
	}
	if sc.ClientFault != "" || sc.SyncStdin {
		w.clientScript = func(k int, kind string) fakeScript {
			if k == 0 {
				f := sc.ClientFault
				if f == "" {
					f = "none"
				}
				return fakeScript{Fault: f, FaultAt: sc.ClientFaultAt, SyncStdin: sc.SyncStdin}
			}
			return fakeScript{Fault: "none", SyncStdin: sc.SyncStdin}
		}
	}
	removeHook := w.install()
	verifCaseOrder = sc.CaseOrder
	remove := func() {
		removeHook()
		verifCaseOrder = ""
	}
	var mu sync.Mutex
	if x != nil && !gateNoCache {
		x.KeyFn = func() string {
			mu.Lock()
			defer mu.Unlock()
			return w.stateKey() + fmt.Sprintf("|ret=%v", obs.Returned)
		}
	}
	suites := c05Suites(sc.Suites)
	logP, errP := &c11Printer{}, &c11Printer{}
	x.Go("run", func() {
		var runT, skipT *testTrie
		if len(sc.Run) > 0 {
			runT = parsePatterns(sc.Run)
		}
		if len(sc.Skip) > 0 {
			skipT = parsePatterns(sc.Skip)
		}
		results, err := run(c05Configs(sc.Cfg), &testTrie{}, &testTrie{}, runT, skipT, suites, logP, errP, c05Flags(sc))
		w.mu.Lock()
		liveNow := w.liveLocked()
		w.mu.Unlock()
		mu.Lock()
		obs.Returned = true
		obs.LiveAtReturn = liveNow
		obs.Results = results
		if err != nil {
			obs.RunErr = err.Error()
		}
		mu.Unlock()
		close(obs.done)
	})
	return obs, func() {
		remove()
		w.killAll()
	}
}

func c05Judge(sc c05Scenario, obs *c05Obs, x *gate.Exec) []gateVerdict {
	var out []gateVerdict
	add := func(key, format string, a ...any) {
		out = append(out, gateVerdict{key, fmt.Sprintf(format, a...)})
	}
	if x != nil && x.Overrun {
		add("step-overrun", "execution did not finish within %d steps", x.MaxSteps)
		return out
	}
	if !obs.Returned {
		var parked []string
		if x != nil {
			parked = x.Waiting()
		}
		add("run-never-returns", "run() did not return within a virtual hour; parked: %v", parked)
		return out
	}
	w := obs.World
	w.mu.Lock()
	defer w.mu.Unlock()
	obs.NumRecv, obs.NumServer = len(w.recvs), len(w.servers)
	if obs.LibErr != "" || len(obs.Expected) == 0 {
		// nothing selected (library error or filters match nothing): nothing may be dispatched
		if len(w.recvs) > 0 {
			add("dispatch-without-selection", "requests were dispatched although nothing is selected (lib error %q)", obs.LibErr)
		}
		return out
	}
	if obs.Results == nil {
		// run refused to start (e.g. a pattern matched nothing) - then nothing may have happened
		if len(w.recvs) > 0 || len(w.servers) > 0 {
			add("activity-after-refusal", "run() returned no results (%s) but started %d servers / dispatched %d requests", obs.RunErr, len(w.servers), len(w.recvs))
		}
		// is the refusal justified? every given pattern must match some permutation
		return out
	}
	for _, r := range w.recvs {
		name := r.req.TestName
		e := obs.Expected[name]
		if e == nil {
			add("unexpected-dispatch", "request %q reached a client but is not a selected permutation (client %s)", name, r.clientKind)
			continue
		}
		e.count++
		if r.clientKind != e.clientKind {
			add("wrong-client-kind", "permutation %q was handed to %s, expected %s", name, r.clientKind, e.clientKind)
		}
		var hdr []string
		for _, h := range r.req.RequestHeaders {
			if strings.EqualFold(h.Name, "x-test-case-name") {
				hdr = append(hdr, h.Value...)
			}
		}
		if len(hdr) != 1 || hdr[0] != name {
			add("test-name-header", "request %q carries x-test-case-name %q", name, hdr)
		}
		matched := false
		var why []string
		for _, idx := range r.live {
			s := w.servers[idx]
			if s.kind != e.serverKind {
				why = append(why, fmt.Sprintf("server#%d is %s", idx, s.kind))
				continue
			}
			s.srv.mu.Lock()
			got := s.srv.gotRequest
			port := s.srv.port
			repHost, repCert := s.srv.repHost, s.srv.repCert
			s.srv.mu.Unlock()
			if got == nil {
				why = append(why, fmt.Sprintf("server#%d has no request yet", idx))
				continue
			}
			if got.Protocol != e.inst.protocol || got.HttpVersion != e.inst.httpVersion || got.UseTls != e.inst.useTLS || (len(got.ClientTlsCert) > 0) != e.inst.useTLSClientCerts {
				why = append(why, fmt.Sprintf("server#%d serves %v/%v tls=%v certs=%v", idx, got.Protocol, got.HttpVersion, got.UseTls, len(got.ClientTlsCert) > 0))
				continue
			}
			wantCert := []byte(nil)
			if got.UseTls {
				wantCert = repCert
			}
			wantHost := repHost
			if wantHost == "" {
				wantHost = "127.0.0.1" // an empty host in the server's response stands for the default host
			}
			if r.req.Host != wantHost || r.req.Port != port || !bytes.Equal(r.req.ServerTlsCert, wantCert) {
				why = append(why, fmt.Sprintf("server#%d reported %q:%d cert=%q but the request says %s:%d cert=%q", idx, repHost, port, wantCert, r.req.Host, r.req.Port, r.req.ServerTlsCert))
				continue
			}
			if e.inst.useTLSClientCerts != (r.req.ClientTlsCreds != nil) {
				why = append(why, "client credentials presence differs")
				continue
			}
			matched = true
		}
		if !matched {
			add("no-matching-live-server", "permutation %q (%v/%v tls=%v certs=%v, %s) reached the client while no matching server was alive: %v", name, e.inst.protocol, e.inst.httpVersion, e.inst.useTLS, e.inst.useTLSClientCerts, e.serverKind, why)
		}
	}
	names := make([]string, 0, len(obs.Expected))
	for n := range obs.Expected {
		names = append(names, n)
	}
	sort.Strings(names)
	for _, n := range names {
		e := obs.Expected[n]
		switch {
		case e.count == 1:
		case e.count > 1:
			add("dispatched-twice", "permutation %q was handed to a client %d times", n, e.count)
		default:
			if sc.ClientFault != "" {
				continue // the client died: the permutation could not run (C04 judges how that is reported)
			}
			o, ok := obs.Results.outcomes[n]
			if !(ok && o.setupError && o.actualFailure != nil) {
				add("selected-not-dispatched", "selected permutation %q never reached a client and is not recorded as a setup failure (outcome present=%v) run error=%q", n, ok, obs.RunErr)
			} else if sc.FailStart < 0 {
				add("setup-failure-without-fault", "permutation %q recorded as setup failure although no fault was scripted: %v", n, o.actualFailure)
			}
		}
	}
	if len(obs.LiveAtReturn) > 0 {
		add("server-alive-when-run-returns", "run() returned while server process(es) %v were still alive (run error %q)", obs.LiveAtReturn, obs.RunErr)
	}
	if w.maxLive > sc.MaxServers {
		add("too-many-servers", "%d server processes were alive at once with --max-servers=%d", w.maxLive, sc.MaxServers)
	}
	for _, s := range w.servers {
		if s.failed {
			continue
		}
		s.srv.mu.Lock()
		ab, ex := s.srv.aborted, s.srv.exited
		s.srv.mu.Unlock()
		if ab == 0 || !ex {
			add("server-not-stopped", "server#%d (%s) aborted=%d exited=%v when run() returned", s.idx, s.kind, ab, ex)
		}
	}
	return out
}

func c05Outcome(sc c05Scenario, obs *c05Obs) string {
	return fmt.Sprintf("mode=%s ret=%v err=%.40q recv=%d servers=%d maxlive=%d expected=%d", sc.Mode, obs.Returned, obs.RunErr, obs.NumRecv, obs.NumServer, obs.World.maxLive, len(obs.Expected))
}

func c05Scenarios(thorough bool) []c05Scenario {
	var out []c05Scenario
	type fs struct{ run, skip []string }
	filters := []fs{
		{nil, nil},
		{[]string{"S/**"}, nil},
		{[]string{"**/u1"}, nil},
		{nil, []string{"**/u2"}},
		{[]string{"**/Protocol:PROTOCOL_GRPC/**"}, nil},
		{[]string{"**"}, []string{"**/Protocol:PROTOCOL_CONNECT/**"}},
		// patterns that tell the gRPC-peer permutations (marked names) from the plain ones
		{[]string{"**/(grpc server impl)/**"}, nil},
		{nil, []string{"**/(grpc server impl)/**"}},
		{[]string{"**/(grpc client impl)/**"}, nil},
		{nil, []string{"**/(grpc client impl)/**"}},
		{[]string{"S/*/Protocol:PROTOCOL_GRPC/*/*/*/u1"}, nil}, // exact depth: only the unmarked name
	}
	cfgs := []string{"A2", "A3"}
	suites := []string{"one", "two"}
	maxes := []int{1, 2}
	if thorough {
		cfgs = append(cfgs, "A4")
		suites = append(suites, "mix")
		maxes = append(maxes, 3)
	}
	if !thorough {
		// suites restricted to one run mode / protocol, in every mode (no filters, one slot)
		// (in client and server mode the five suites with the gRPC reference peers do not finish within the
		// quick budget even without preemptions; the c05-tls unit runs them at the default schedule, and the
		// thorough tier explores them)
		out = append(out, c05Scenario{Cfg: "A2", Suites: "mix", Mode: "both", MaxServers: 1, FailStart: -1})
	}
	for _, cfg := range cfgs {
		for _, su := range suites {
			if !thorough && cfg == "A3" && su == "two" {
				continue // 3 instances x 2 cases x gRPC peers: thorough tier
			}
			for _, mode := range []string{"both", "client", "server"} {
				for fi, f := range filters {
					if !thorough && fi > 3 && !(cfg == "A3" && su == "one") && !(cfg == "A2" && su == "two") {
						continue
					}
					if fi >= 6 && mode == "both" {
						continue // no gRPC reference peers take part
					}
					for _, ms := range maxes {
						if !thorough && mode != "both" && ms > 1 && !(cfg == "A2" && su == "one") {
							continue // concurrent batches with the gRPC peers on larger suites: thorough tier
						}
						out = append(out, c05Scenario{Cfg: cfg, Suites: su, Mode: mode, Run: f.run, Skip: f.skip, MaxServers: ms, FailStart: -1})
					}
				}
				// the client process misbehaves while batches are in flight
				if mode == "both" || thorough {
					for _, cf := range []string{"exit0", "exit1", "closeout", "unknown"} {
						for k := 0; k <= 2; k++ {
							if !thorough && (su != "one" || (cf == "unknown" && k > 0)) {
								continue
							}
							if !thorough && cfg == "A3" && (k > 1 || cf != "exit0") {
								continue
							}
							for _, ms := range []int{1, 2} {
								if cfg == "A3" && ms == 1 && !thorough {
									continue // three instances matter with two slots: a batch is still waiting for one when the client dies
								}
								out = append(out, c05Scenario{Cfg: cfg, Suites: su, Mode: mode, MaxServers: ms, FailStart: -1, ClientFault: cf, ClientFaultAt: k})
							}
						}
					}
				}
				// the cases of a batch in another order than by name
				if su != "one" && cfg == "A2" {
					for _, o := range []string{"rev", "rot"} {
						ms := 1
						if mode == "both" {
							ms = 2
						}
						out = append(out, c05Scenario{Cfg: cfg, Suites: su, Mode: mode, MaxServers: ms, FailStart: -1, CaseOrder: o})
					}
				}
				// the client's input is a synchronous pipe: a sender can be parked inside its write (holding the
				// send lock) while the other batch, the output reader and the client's fault make progress
				if mode == "both" && su == "one" && (cfg == "A2" || thorough) {
					faults := []string{"", "closeout", "exit0"}
					if thorough {
						faults = append(faults, "exit1", "unknown")
					}
					for _, cf := range faults {
						for k := 0; k <= 1; k++ {
							if cf == "" && k > 0 {
								continue
							}
							if !thorough && ((cf == "closeout" && k != 0) || (cf == "exit0" && k != 1)) {
								continue
							}
							out = append(out, c05Scenario{Cfg: cfg, Suites: su, Mode: mode, MaxServers: 2, FailStart: -1, ClientFault: cf, ClientFaultAt: k, SyncStdin: true})
						}
					}
				}
				// a server that cannot be started
				for k := 0; k < 2; k++ {
					ms := 2
					if !thorough && mode != "both" && !(cfg == "A2" && su == "one") {
						ms = 1
					}
					out = append(out, c05Scenario{Cfg: cfg, Suites: su, Mode: mode, MaxServers: ms, FailStart: k})
				}
			}
		}
	}
	return out
}

func TestVerifC05(t *testing.T) {
	r := rep.New("c05-peersim")
	defer r.Write()
	r.Rule = "scenario = config-case set x suite set x mode x run/skip patterns x max-servers x failing server start; every scenario explored by DFS over all orders of peer events and lock-level interleavings up to the preemption bound; non-trivial = distinct (scenario, choice list)"
	bound := 1
	if rep.Thorough() {
		bound = 2
	}
	// when the client dies with requests of several batches outstanding, the runner fails them
	// in Go map iteration order (client_runner.go, consumeOutput's clean-up)
	unowned := func(sc c05Scenario) bool { return sc.ClientFault != "" }
	if !rep.Thorough() {
		// three server instances on two slots with a dying client is the largest space:
		// quick explores it without preemptions (all orders of peer events), thorough with the bound
		gateBoundOf = func(sc any) (int, bool) {
			if s, ok := sc.(c05Scenario); ok && s.ClientFault != "" && s.Cfg == "A3" {
				return 0, true
			}

			return 0, false
		}
		r.Note("scenarios with cfg=A3 and a client fault are explored with preemption bound 0 in the quick tier")
	}
	gateExploreOpt(t, r, c05Scenarios(rep.Thorough()), bound, unowned, func(sc c05Scenario, prefix []int, expect []gate.PointRec) gateRun {
		x, obs, leak := c05RunOne(t, sc, prefix, expect)
		return gateRun{x: x, outcome: c05Outcome(sc, obs), verdicts: obs.Verdicts, leak: leak}
	})
}

// TestVerifC05TLS runs the TLS / client-certificate instances at the default
// schedule only (run() generates RSA keys for them, too slow for the search).
func TestVerifC05TLS(t *testing.T) {
	r := rep.New("c05-tls")
	defer r.Write()
	r.Rule = "TLS and client-certificate server instances through run() with scripted peers, default schedule only (certificate generation is slow); one execution per (mode, suites, max-servers)"
	var k int64
	type hv struct {
		host string
		echo bool
	}
	for _, mode := range []string{"both", "client", "server"} {
		for _, su := range []string{"two", "mix"} {
			for _, ms := range []int{1, 2, 4} {
				for _, h := range []hv{{"", false}, {"localhost", true}, {"::1", true}, {"none", true}, {"localhost", false}, {"default", true}} {
					if h.host != "" && (ms == 4 || (mode != "both" && su == "mix")) {
						continue
					}
					for _, quiet := range []bool{false, true} {
						if quiet && h.host != "" && h.host != "localhost" {
							continue
						}
						k++
						if !r.Mine(k) {
							continue
						}
						sc := c05Scenario{Cfg: "T", Suites: su, Mode: mode, MaxServers: ms, FailStart: -1, ServerHost: h.host, EchoCert: h.echo, Quiet: quiet}
						x, obs, _ := c05RunOne(t, sc, nil, nil)
						_ = x
						r.Eval(1)
						r.NonTrivial("")
						r.Outcome(c05Outcome(sc, obs))
						r.Sample(map[string]any{"scenario": sc, "outcome": c05Outcome(sc, obs)})
						for _, v := range obs.Verdicts {
							r.Violate(v.key, v.detail, map[string]any{"scenario": sc, "choices": []int{}})
						}
					}
				}
			}
		}
	}
}

// TestVerifC05Race runs the fault-free scenarios free (real goroutines, real sync and
// semaphore, real time) under the race detector, judged by the same oracle.
func TestVerifC05Race(t *testing.T) {
	r := rep.New("c05-race")
	defer r.Write()
	r.Rule = "the C05 scenarios without client faults executed free-running under the race detector, several times each, judged by the same invariants; non-trivial = distinct scenario"
	gate.SetFreeRunning(true)
	defer gate.SetFreeRunning(false)
	reps := 3
	if rep.Thorough() {
		reps = 10
	}
	var k int64
	for _, sc := range c05Scenarios(rep.Thorough()) {
		if sc.ClientFault != "" {
			continue
		}
		k++
		if !r.Mine(k) {
			continue
		}
		for i := 0; i < reps; i++ {
			obs, finish := c05Body(nil, sc)
			select {
			case <-obs.done:
			case <-time.After(60 * time.Second):
			}
			// servers exit on their own goroutines after being told to stop
			for j := 0; j < 2000 && len(func() []int { obs.World.mu.Lock(); defer obs.World.mu.Unlock(); return obs.World.liveLocked() }()) > 0 && obs.Returned; j++ {
				time.Sleep(100 * time.Microsecond)
			}
			verdicts := c05Judge(sc, obs, nil)
			finish()
			r.Eval(1)
			r.Outcome(c05Outcome(sc, obs))
			for _, v := range verdicts {
				r.Violate(v.key, v.detail+" | free-running", map[string]any{"scenario": sc, "choices": []int{}})
			}
		}
		r.NonTrivial("")
		if k%30 == 1 {
			r.Sample(sc)
		}
	}
	if len(r.Samples) == 0 {
		r.Sample("no scenario in this shard")
	}
}

// TestVerifC11ClientFaults: the C05 scenarios in which the shared client process misbehaves
// while one or two server batches are in flight (dies with exit 0/1, closes its output but keeps
// reading, answers an unknown test), judged for what C11 states: every batch ends, run()
// returns, every selected case has exactly one outcome, every server is stopped.
func TestVerifC11ClientFaults(t *testing.T) {
	r := rep.New("c11-clientfaults")
	defer r.Write()
	r.Rule = "the real run() with 2-3 server instances on 1-2 slots sharing one scripted client process that fails after 0-2 answers (exit 0, exit 1, closes its output and keeps reading its input, answers an unknown test); every order of peer events and lock-level interleaving up to the preemption bound; oracle: run() returns, each selected permutation has exactly one outcome, all servers stopped; non-trivial = distinct (scenario, choice list)"
	bound := 1
	if rep.Thorough() {
		bound = 2
	}
	var scs []c05Scenario
	for _, sc := range c05Scenarios(rep.Thorough()) {
		if sc.ClientFault == "" || sc.Mode != "both" {
			continue
		}
		if !rep.Thorough() && sc.Cfg != "A2" {
			continue
		}
		scs = append(scs, sc)
	}
	unowned := func(sc c05Scenario) bool { return true }
	gateExploreOpt(t, r, scs, bound, unowned, func(sc c05Scenario, prefix []int, expect []gate.PointRec) gateRun {
		x, obs, leak := c05RunOne(t, sc, prefix, expect)
		verdicts := obs.Verdicts
		if obs.Returned && obs.Results != nil {
			// run() has returned and the bubble is gone: nobody else touches the table any more.
			// C11 speaks about batches: a batch whose server process was started must leave an
			// outcome for each of its cases (cases of batches that were never started are counted
			// by the report as "could not be run", which C04 judges).
			w := obs.World
			w.mu.Lock()
			for n, e := range obs.Expected {
				started := false
				for _, srec := range w.servers {
					srec.srv.mu.Lock()
					got := srec.srv.gotRequest
					srec.srv.mu.Unlock()
					if got != nil && got.Protocol == e.inst.protocol && got.HttpVersion == e.inst.httpVersion && got.UseTls == e.inst.useTLS {
						started = true
					}
				}
				if !started {
					continue
				}
				if _, ok := obs.Results.outcomes[n]; !ok {
					verdicts = append(verdicts, gateVerdict{"case-without-outcome", fmt.Sprintf("permutation %q has no outcome although its server batch was started and run() returned (client fault %s after %d answers)", n, sc.ClientFault, sc.ClientFaultAt)})
				}
			}
			w.mu.Unlock()
		}
		return gateRun{x: x, outcome: c05Outcome(sc, obs), verdicts: verdicts, leak: leak}
	})
}
