package connectconformance

// OSPROC — the real runCommand path (os/exec, the three io.Pipes, cmd.Wait and
// its clean-up, SIGTERM/forceClose) that the scripted in-process peers of the
// GATE units replace wholesale. The test binary re-executes itself as the peer
// process; what the peer does is a small program given on its command line.
// Every peer program of the enumeration is run against every driver pattern.
// The OS schedules these runs (no controlled scheduler here: goroutines blocked
// on real pipes are invisible to the bubble), so each pair is repeated a few
// times; the orders that matter are forced by the programs themselves (a peer
// closes its input before it answers, the driver sends the next request from
// the completion callback of the previous one).

import (
	"context"
	"encoding/json"
	"fmt"
	"io"
	"os"
	"os/signal"
	"sort"
	"strings"
	"sync"
	"syscall"
	"testing"
	"time"

	"connectrpc.com/conformance/internal"
	conformancev1 "connectrpc.com/conformance/internal/gen/proto/go/connectrpc/conformance/v1"
	"connectrpc.com/conformance/internal/verif/gate"
	"connectrpc.com/conformance/internal/verif/rep"
)

func init() {
	if len(os.Args) >= 4 && os.Args[1] == "verif-peer" {
		os.Exit(osPeerMain(os.Args[2], strings.Split(os.Args[3], ","), os.Args[4:]))
	}
}

// osPeerMain is the peer process. kind: client | server.
func osPeerMain(kind string, prog []string, rest []string) int {
	var logf *os.File
	if len(rest) > 0 && rest[0] != "" {
		logf, _ = os.OpenFile(rest[0], os.O_APPEND|os.O_CREATE|os.O_WRONLY, 0o644)
	}
	note := func(format string, a ...any) {
		if logf != nil {
			fmt.Fprintf(logf, format+"\n", a...)
			_ = logf.Sync()
		}
	}
	note("pid %d", os.Getpid())
	var last *conformancev1.ClientCompatRequest
	read := func() bool {
		req := &conformancev1.ClientCompatRequest{}
		if err := internal.ReadDelimitedMessage(os.Stdin, req, "runner", time.Hour, 1<<24); err != nil {
			return false
		}
		last = req
		note("recv %s", req.TestName)
		return true
	}
	answer := func(name string) bool {
		resp := &conformancev1.ClientCompatResponse{TestName: name, Result: &conformancev1.ClientCompatResponse_Response{Response: &conformancev1.ClientResponseResult{
			Payloads: []*conformancev1.ConformancePayload{{Data: []byte("ok")}}}}}
		if err := internal.WriteDelimitedMessage(os.Stdout, resp); err != nil {
			return false
		}
		note("ans %s", name)
		return true
	}
	for _, step := range prog {
		switch step {
		case "read":
			if !read() {
				return 0
			}
		case "answer":
			if last != nil {
				answer(last.TestName)
			}
		case "loop":
			for read() {
				answer(last.TestName)
			}
			return 0
		case "drain":
			_, _ = io.Copy(io.Discard, os.Stdin)
			return 0
		case "closein":
			_ = os.Stdin.Close()
		case "closeout":
			_ = os.Stdout.Close()
		case "garbage":
			_, _ = os.Stdout.Write([]byte{0, 0, 0, 2, 0xff, 0xff})
			note("fault garbage")
		case "unknown":
			note("fault unknown")
			answer("unknown/x")
		case "stderr":
			fmt.Fprintln(os.Stderr, "peer: a line on stderr")
		case "exit0":
			return 0
		case "exit1":
			return 1
		case "ignoreterm":
			signal.Ignore(syscall.SIGTERM)
		case "waitterm":
			for {
				time.Sleep(time.Hour)
			}
		// --- server steps ---
		case "readall":
			data, _ := io.ReadAll(os.Stdin)
			note("server read %d bytes", len(data))
		case "readmsg":
			req := &conformancev1.ServerCompatRequest{}
			if err := internal.ReadDelimitedMessage(os.Stdin, req, "runner", time.Hour, 1<<24); err != nil {
				return 3
			}
		case "respond":
			resp := &conformancev1.ServerCompatResponse{Host: "127.0.0.1", Port: 9}
			if err := internal.WriteDelimitedMessage(os.Stdout, resp); err != nil {
				return 4
			}
			note("server responded")
		default:
			fmt.Fprintln(os.Stderr, "verif-peer: unknown step", step)
			return 64
		}
	}
	return 0
}

// osPeersAlive returns the pids the peer log names that still exist, after waiting up to wait for them to go.
func osPeersAlive(peerLog string, wait time.Duration) []int {
	var pids []int
	for _, line := range strings.Split(peerLog, "\n") {
		var pid int
		if _, err := fmt.Sscanf(line, "pid %d", &pid); err == nil && pid > 0 {
			pids = append(pids, pid)
		}
	}
	deadline := time.Now().Add(wait)
	for {
		var alive []int
		for _, pid := range pids {
			if syscall.Kill(pid, 0) == nil {
				alive = append(alive, pid)
			}
		}
		if len(alive) == 0 || time.Now().After(deadline) {
			return alive
		}
		time.Sleep(100 * time.Millisecond)
	}
}

func osPeerArgv(kind string, prog []string, logPath string) []string {
	return []string{os.Args[0], "verif-peer", kind, strings.Join(prog, ","), logPath}
}

// --- client-runner level (C10) ------------------------------------------------

type osClientScenario struct {
	Prog   []string `json:"peer_program"`
	Driver string   `json:"driver"` // sequential | pipelined | two
	N      int      `json:"requests"`
}

func osClientPrograms(thorough bool) [][]string {
	var out [][]string
	endings := [][]string{
		{"loop"},
		{"exit0"},
		{"exit1"},
		{"closein", "exit0"},
		{"read", "closein", "answer", "exit0"},
		{"read", "closein", "answer", "exit1"},
		{"read", "exit1"},
		{"read", "closeout", "drain"},
		{"closeout", "drain"},
		{"read", "garbage", "drain"},
		{"garbage", "exit1"},
		{"read", "unknown", "loop"},
		{"read", "answer", "answer", "loop"},
		{"read", "closein", "answer", "closeout", "exit0"},
		{"ignoreterm", "loop", "waitterm"},
	}
	maxK := 1
	if thorough {
		maxK = 2
	}
	for k := 0; k <= maxK; k++ {
		var pre []string
		for i := 0; i < k; i++ {
			pre = append(pre, "read", "answer")
		}
		for _, e := range endings {
			out = append(out, append(append([]string{}, pre...), e...))
		}
	}
	return out
}

type osClientObs struct {
	mu        sync.Mutex
	sendRet   map[string]string
	sendStuck map[string]bool
	callbacks []c10Callback
	seq       int
	waitRet   string
	waitSeq   int
	mainDone  bool
	postRet   string
	postDone  bool
	running   bool
	peerLog   string
	startErr  string
	alive     []int
}

const osWatchdog = 90 * time.Second

var osDebug = os.Getenv("VERIF_OSPROC_DEBUG") == "1"

func osTrace(t0 time.Time, format string, a ...any) {
	if osDebug {
		fmt.Printf("[%8.3fs] %s\n", time.Since(t0).Seconds(), fmt.Sprintf(format, a...))
	}
}

func osClientRun(sc osClientScenario, dir string, idx int) *osClientObs {
	t0 := time.Now()
	obs := &osClientObs{sendRet: map[string]string{}, sendStuck: map[string]bool{}}
	logPath := fmt.Sprintf("%s/peer-%d.log", dir, idx)
	ctx, cancel := context.WithCancel(context.Background())
	defer cancel()
	runner, err := runClient(ctx, runCommand(osPeerArgv("client", sc.Prog, logPath)))
	if err != nil {
		obs.startErr = err.Error()
		return obs
	}
	answered := map[string]chan struct{}{}
	var amu sync.Mutex
	chanFor := func(name string) chan struct{} {
		amu.Lock()
		defer amu.Unlock()
		if answered[name] == nil {
			answered[name] = make(chan struct{})
		}
		return answered[name]
	}
	callback := func(name string, resp *conformancev1.ClientCompatResponse, err error) {
		obs.mu.Lock()
		obs.seq++
		cb := c10Callback{Name: name, Seq: obs.seq}
		if resp != nil {
			cb.HasResp, cb.RespName = true, resp.TestName
		}
		if err != nil {
			cb.Err = err.Error()
		}
		first := true
		for _, c := range obs.callbacks {
			if c.Name == name {
				first = false
			}
		}
		obs.callbacks = append(obs.callbacks, cb)
		obs.mu.Unlock()
		if first {
			close(chanFor(name))
		}
	}
	send := func(name string, waitAnswer bool) {
		obs.mu.Lock()
		obs.sendStuck[name] = true
		obs.mu.Unlock()
		osTrace(t0, "send %s ...", name)
		err := runner.sendRequest(&conformancev1.ClientCompatRequest{TestName: name}, callback)
		osTrace(t0, "send %s -> %v", name, err)
		obs.mu.Lock()
		delete(obs.sendStuck, name)
		if err != nil {
			obs.sendRet[name] = "err:" + err.Error()
		} else {
			obs.sendRet[name] = "ok"
		}
		obs.mu.Unlock()
		if err == nil && waitAnswer {
			select {
			case <-chanFor(name):
			case <-time.After(osWatchdog):
			}
		}
	}
	var wg sync.WaitGroup
	switch sc.Driver {
	case "sequential", "pipelined":
		wg.Add(1)
		go func() {
			defer wg.Done()
			for i := 0; i < sc.N; i++ {
				send(fmt.Sprintf("t%d", i), sc.Driver == "sequential")
			}
		}()
	case "two":
		for s := 0; s < 2; s++ {
			wg.Add(1)
			go func() {
				defer wg.Done()
				for i := 0; i < sc.N; i++ {
					send(fmt.Sprintf("s%d/t%d", s, i), i%2 == s%2)
				}
			}()
		}
	}
	done := make(chan struct{})
	go func() {
		defer close(done)
		wg.Wait()
		osTrace(t0, "closeSend ...")
		runner.closeSend()
		osTrace(t0, "waitForResponses ...")
		err := runner.waitForResponses()
		osTrace(t0, "waitForResponses -> %v", err)
		obs.mu.Lock()
		obs.seq++
		obs.waitSeq = obs.seq
		if err != nil {
			obs.waitRet = "err:" + err.Error()
		} else {
			obs.waitRet = "ok"
		}
		obs.mainDone = true
		obs.mu.Unlock()
	}()
	select {
	case <-done:
	case <-time.After(osWatchdog):
	}
	pd := make(chan struct{})
	go func() {
		defer close(pd)
		err := runner.sendRequest(&conformancev1.ClientCompatRequest{TestName: "post/x"}, callback)
		obs.mu.Lock()
		if err != nil {
			obs.postRet = "err:" + err.Error()
		} else {
			obs.postRet = "ok"
		}
		obs.postDone = true
		obs.mu.Unlock()
	}()
	select {
	case <-pd:
	case <-time.After(osWatchdog / 3):
	}
	osTrace(t0, "post done")
	for i := 0; i < 300 && runner.isRunning(); i++ {
		time.Sleep(50 * time.Millisecond)
	}
	obs.running = runner.isRunning()
	osTrace(t0, "running=%v", obs.running)
	cancel()
	runner.stop()
	osTrace(t0, "stopped")
	if data, err := os.ReadFile(logPath); err == nil {
		obs.peerLog = string(data)
	}
	_ = os.Remove(logPath)
	obs.alive = osPeersAlive(obs.peerLog, 30*time.Second)
	for _, pid := range obs.alive {
		_ = syscall.Kill(pid, syscall.SIGKILL)
	}
	return obs
}

func osClientJudge(sc osClientScenario, obs *osClientObs) (verdicts []gateVerdict, outcome string) {
	add := func(key, format string, a ...any) {
		verdicts = append(verdicts, gateVerdict{key, fmt.Sprintf(format, a...)})
	}
	obs.mu.Lock()
	defer obs.mu.Unlock()
	if obs.startErr != "" {
		add("osproc-start", "the peer process could not be started: %s", obs.startErr)
		return verdicts, "start-error"
	}
	if len(obs.sendStuck) > 0 {
		var ks []string
		for k := range obs.sendStuck {
			ks = append(ks, k)
		}
		sort.Strings(ks)
		add("deadlock-sendRequest", "sendRequest(%v) still blocked %v after it was called (peer log: %q)", ks, osWatchdog, obs.peerLog)
	}
	if !obs.mainDone {
		add("deadlock-waitForResponses", "closeSend + waitForResponses did not return within %v (peer log: %q)", osWatchdog, obs.peerLog)
	}
	if !obs.postDone {
		add("deadlock-post-send", "sendRequest after the client finished did not return")
	}
	accepted := map[string]int{}
	for n, ret := range obs.sendRet {
		if ret == "ok" {
			accepted[n]++
		} else {
			accepted[n] += 0
		}
	}
	if obs.postDone && obs.postRet == "ok" {
		add("send-after-finish-accepted", "sendRequest was accepted after the client finished (wait=%s)", obs.waitRet)
	}
	cbCount, respCount := map[string]int{}, map[string]int{}
	for _, cb := range obs.callbacks {
		cbCount[cb.Name]++
		if cb.HasResp {
			respCount[cb.Name]++
			if cb.RespName != cb.Name {
				add("wrong-response", "callback for %q carried the response of %q", cb.Name, cb.RespName)
			}
			if cb.Err != "" {
				add("response-and-error", "callback for %q carried both a response and error %q", cb.Name, cb.Err)
			}
		} else if cb.Err == "" {
			add("empty-callback", "callback for %q carried neither response nor error", cb.Name)
		}
		if obs.waitSeq != 0 && cb.Seq > obs.waitSeq && cb.Name != "post/x" {
			add("callback-after-wait", "callback for %q fired after waitForResponses returned", cb.Name)
		}
	}
	if len(obs.sendStuck) == 0 && obs.mainDone && obs.postDone {
		names := map[string]bool{}
		for n := range accepted {
			names[n] = true
		}
		for n := range cbCount {
			names[n] = true
		}
		for n := range names {
			if n == "post/x" {
				continue
			}
			if cbCount[n] != accepted[n] {
				add("callback-count", "test %q: %d accepted send(s) but %d callback(s) (sends: %v; peer log %q)", n, accepted[n], cbCount[n], obs.sendRet, obs.peerLog)
			}
		}
	}
	// what the peer says it answered on a still well-formed output stream
	clean := map[string]int{}
	faulted := false
	for _, line := range strings.Split(obs.peerLog, "\n") {
		switch {
		case strings.HasPrefix(line, "fault "):
			faulted = true
		case strings.HasPrefix(line, "ans ") && !faulted:
			clean[strings.TrimPrefix(line, "ans ")]++
		}
	}
	for n, c := range respCount {
		if c > clean[n] && !faulted {
			add("phantom-response", "test %q got %d response callback(s) but the peer answered it %d time(s)", n, c, clean[n])
		}
	}
	dupAnswers := false
	for _, c := range clean {
		if c > 1 {
			dupAnswers = true
		}
	}
	if !faulted && !dupAnswers && len(obs.sendStuck) == 0 && obs.mainDone {
		for n, c := range clean {
			if accepted[n] >= 1 && c >= 1 && respCount[n] < 1 {
				add("answer-lost", "the peer answered %q on a well-formed output stream and the send was accepted, but no callback carried the response (callbacks %+v)", n, obs.callbacks)
			}
		}
	}
	if len(obs.alive) > 0 {
		add("peer-process-left-running", "client process(es) %v still exist 30 s after the runner was told to stop and the context was cancelled", obs.alive)
	}
	if obs.mainDone && obs.running {
		add("isRunning-after-exit:osproc", "isRunning() still true 15 s after waitForResponses returned")
	}
	var cbs []string
	for _, cb := range obs.callbacks {
		if cb.HasResp {
			cbs = append(cbs, cb.Name+":resp")
		} else {
			cbs = append(cbs, cb.Name+":err")
		}
	}
	sort.Strings(cbs)
	var sends []string
	for n, r := range obs.sendRet {
		if len(r) > 12 {
			r = r[:12]
		}
		sends = append(sends, n+"="+r)
	}
	sort.Strings(sends)
	w := obs.waitRet
	if len(w) > 40 {
		w = w[:40]
	}
	outcome = fmt.Sprintf("%s|cb=%s|wait=%s", strings.Join(sends, ","), strings.Join(cbs, ","), w)
	return verdicts, outcome
}

func osClientScenarios(thorough bool) []osClientScenario {
	var out []osClientScenario
	for _, p := range osClientPrograms(thorough) {
		drivers := []string{"sequential", "two"}
		if thorough {
			drivers = []string{"sequential", "pipelined", "two"}
		}
		for _, d := range drivers {
			n := 3
			if d == "two" {
				n = 2
			}
			out = append(out, osClientScenario{Prog: p, Driver: d, N: n})
		}
	}
	return out
}

func osReplayScenario[S any](r *rep.Report, t *testing.T) (S, bool) {
	var rj struct {
		Replay struct {
			Scenario S `json:"scenario"`
		} `json:"replay"`
	}
	data := rep.ReplayInput()
	if data == nil {
		return rj.Replay.Scenario, false
	}
	if err := json.Unmarshal(data, &rj); err != nil {
		t.Fatal(err)
	}
	return rj.Replay.Scenario, true
}

func TestVerifOSProcClient(t *testing.T) {
	r := rep.New("c10-osproc")
	defer r.Write()
	r.Rule = "peer programs = (read,answer)^k followed by every ending of a fixed list (orderly loop, exit 0/1, closes its input before/after answering, closes its output and keeps reading, garbage, unknown name, duplicate answer), run as a real OS process through runCommand/runClient against three drivers (one sender waiting for each answer, one sender pipelining, two concurrent senders); each pair repeated; OS scheduling is not controlled; oracle as in c10-gate (callbacks = accepted sends, own response if the peer answered on a well-formed stream, nothing blocks for 90 s, later sends refused, not running afterwards)"
	gate.SetFreeRunning(true)
	defer gate.SetFreeRunning(false)
	dir := t.TempDir()
	if sc, ok := osReplayScenario[osClientScenario](r, t); ok {
		obs := osClientRun(sc, dir, 0)
		verdicts, outcome := osClientJudge(sc, obs)
		fmt.Printf("replay: scenario=%+v\noutcome=%s\npeer log:\n%s\n", sc, outcome, obs.peerLog)
		for _, v := range verdicts {
			r.Violate(v.key, v.detail, map[string]any{"scenario": sc})
			fmt.Printf("VERDICT %s: %s\n", v.key, v.detail)
		}
		r.Eval(1)
		return
	}
	reps := 1
	if rep.Thorough() {
		reps = 3
	}
	deadline := rep.Deadline()
	var k int64
	for _, sc := range osClientScenarios(rep.Thorough()) {
		k++
		if !r.Mine(k) {
			continue
		}
		if !deadline.IsZero() && time.Now().After(deadline) {
			r.NotExhaustive("budget")
			break
		}
		for i := 0; i < reps; i++ {
			t0 := time.Now()
			obs := osClientRun(sc, dir, int(k)*100+i)
			if d := time.Since(t0); d > 3*time.Second {
				r.Note("slow (%v): %+v", d.Round(time.Millisecond), sc)
			}
			verdicts, outcome := osClientJudge(sc, obs)
			r.Eval(1)
			r.Outcome(outcome)
			for _, v := range verdicts {
				r.Violate(v.key, v.detail+fmt.Sprintf(" | scenario=%+v", sc), map[string]any{"scenario": sc})
			}
			if len(verdicts) > 0 {
				break
			}
		}
		r.NonTrivial("")
		if k%12 == 1 {
			r.Sample(sc)
		}
	}
	if len(r.Samples) == 0 {
		r.Sample("no scenario in this shard")
	}
}

// --- run() level (C05, C11) -----------------------------------------------------

type osRunScenario struct {
	ClientProg []string `json:"client_program,omitempty"` // real client process (servers are scripted in-process)
	ServerProg []string `json:"server_program,omitempty"` // real server processes (client is scripted in-process)
	Suites     string   `json:"suites"`
	Cfg        string   `json:"cfg"`
	MaxServers int      `json:"max_servers"`
	// Delayed: the runner gets the started process only once it has exited again (a peer that dies at once
	// and a runner that is slow to write to it): forces the order "exit, then write"
	Delayed bool `json:"delayed,omitempty"`
}

func osRunScenarios(thorough bool) []osRunScenario {
	var out []osRunScenario
	clientProgs := [][]string{
		{"loop"},
		{"exit1"},
		{"read", "exit1"},
		{"read", "answer", "exit0"},
		{"read", "closein", "answer", "exit0"},
		{"read", "answer", "read", "closein", "answer", "exit1"},
		{"read", "answer", "closeout", "drain"},
		{"read", "garbage", "drain"},
		{"stderr", "loop"},
		{"exit0"},
		{"ignoreterm", "loop", "waitterm"},
	}
	serverProgs := [][]string{
		{"readall", "respond", "waitterm"},
		{"readmsg", "respond", "waitterm"},
		{"readall", "respond", "exit0"},
		{"exit1"},
		{"readall", "exit1"},
		{"stderr", "exit1"},
		{"readall", "garbage", "waitterm"},
		{"readall", "closeout", "waitterm"},
		{"exit0"},
		{"readmsg", "exit0"},
		{"ignoreterm", "readall", "respond", "waitterm"},
	}
	type sm struct {
		cfg, suites string
		max         int
	}
	shapes := []sm{{"C1", "two", 1}, {"C2", "two", 2}}
	if thorough {
		shapes = append(shapes, sm{"C3", "mix", 2})
	}
	for _, sh := range shapes {
		for _, p := range clientProgs {
			out = append(out, osRunScenario{ClientProg: p, Suites: sh.suites, Cfg: sh.cfg, MaxServers: sh.max})
		}
		for _, p := range serverProgs {
			out = append(out, osRunScenario{ServerProg: p, Suites: sh.suites, Cfg: sh.cfg, MaxServers: sh.max})
		}
		for _, p := range [][]string{{"exit0"}, {"exit1"}} {
			out = append(out, osRunScenario{ClientProg: p, Suites: sh.suites, Cfg: sh.cfg, MaxServers: sh.max, Delayed: true})
			out = append(out, osRunScenario{ServerProg: p, Suites: sh.suites, Cfg: sh.cfg, MaxServers: sh.max, Delayed: true})
		}
	}
	return out
}

type osRunObs struct {
	returned     bool
	runErr       string
	results      *testResults
	world        *psWorld
	expected     map[string]*c05Expect
	liveAtReturn []int
	peerLog      string
	alive        []int
}

func osRunRun(sc osRunScenario, dir string, idx int) *osRunObs {
	obs := &osRunObs{}
	csc := c05Scenario{Cfg: sc.Cfg, Suites: sc.Suites, Mode: "both", MaxServers: sc.MaxServers, FailStart: -1}
	obs.expected, _ = c05Expected(csc)
	w := &psWorld{}
	obs.world = w
	w.serverScript = func(k int, kind string) c11Scenario {
		return c11Scenario{StdinErr: "none", Resp: "ok", ExitAfter: -1, SendErrAt: -1}
	}
	w.answer = func(kind string, j int, req *conformancev1.ClientCompatRequest) *conformancev1.ClientCompatResponse {
		return psPassResponse(req)
	}
	remove := w.install()
	defer func() {
		remove()
		w.killAll()
	}()
	logPath := fmt.Sprintf("%s/peer-%d.log", dir, idx)
	if sc.Delayed {
		inner := verifStarterFor
		verifStarterFor = func(argv []string) processStarter {
			if argv[0] != "delayed-peer" {
				return inner(argv)
			}
			realStart := runCommand(argv[1:])
			return func(ctx context.Context, pipeStderr bool) (*process, error) {
				p, err := realStart(ctx, pipeStderr)
				if err == nil {
					// wait (a few seconds at most) until the process has come and gone
					for i := 0; i < 60; i++ {
						data, _ := os.ReadFile(logPath)
						if strings.Contains(string(data), "pid ") && len(osPeersAlive(string(data), 0)) == 0 {
							break
						}
						time.Sleep(50 * time.Millisecond)
					}
				}
				return p, err
			}
		}
	}
	flags := &Flags{Verbose: true, MaxServers: uint(sc.MaxServers), Parallelism: 4}
	flags.ClientCommand, flags.ServerCommand = []string{"fake-client"}, []string{"fake-server"}
	if sc.ClientProg != nil {
		flags.ClientCommand = osPeerArgv("client", sc.ClientProg, logPath)
		if sc.Delayed {
			flags.ClientCommand = append([]string{"delayed-peer"}, flags.ClientCommand...)
		}
	}
	if sc.ServerProg != nil {
		flags.ServerCommand = osPeerArgv("server", sc.ServerProg, logPath)
		if sc.Delayed {
			flags.ServerCommand = append([]string{"delayed-peer"}, flags.ServerCommand...)
		}
	}
	done := make(chan struct{})
	logP, errP := &c11Printer{}, &c11Printer{}
	var mu sync.Mutex
	go func() {
		defer close(done)
		results, err := run(c05Configs(sc.Cfg), &testTrie{}, &testTrie{}, nil, nil, c05Suites(sc.Suites), logP, errP, flags)
		w.mu.Lock()
		live := w.liveLocked()
		w.mu.Unlock()
		mu.Lock()
		obs.returned, obs.results, obs.liveAtReturn = true, results, live
		if err != nil {
			obs.runErr = err.Error()
		}
		mu.Unlock()
	}()
	select {
	case <-done:
	case <-time.After(2 * osWatchdog):
	}
	mu.Lock()
	defer mu.Unlock()
	if data, err := os.ReadFile(logPath); err == nil {
		obs.peerLog = string(data)
	}
	_ = os.Remove(logPath)
	if obs.returned {
		// every process run() started is gone when it returns (give the kernel a moment to reap)
		obs.alive = osPeersAlive(obs.peerLog, 5*time.Second)
	} else {
		obs.alive = nil
	}
	for _, pid := range osPeersAlive(obs.peerLog, 0) {
		_ = syscall.Kill(pid, syscall.SIGKILL)
	}
	return obs
}

func osRunJudge(sc osRunScenario, obs *osRunObs) (verdicts []gateVerdict, outcome string) {
	add := func(key, format string, a ...any) {
		verdicts = append(verdicts, gateVerdict{key, fmt.Sprintf(format, a...)})
	}
	if !obs.returned {
		add("run-never-returns", "run() did not return within %v (peer log %q)", 2*osWatchdog, obs.peerLog)
		return verdicts, "hang"
	}
	if len(obs.alive) > 0 {
		add("peer-process-left-running", "process(es) %v started by run() still exist 5 s after it returned", obs.alive)
	}
	if obs.results == nil {
		add("osproc-run-no-results", "run() returned no results: %s", obs.runErr)
		return verdicts, "noresults"
	}
	w := obs.world
	w.mu.Lock()
	defer w.mu.Unlock()
	names := make([]string, 0, len(obs.expected))
	for n := range obs.expected {
		names = append(names, n)
	}
	sort.Strings(names)
	healthyClient := sc.ClientProg == nil || strings.Join(sc.ClientProg, ",") == "loop" || strings.Join(sc.ClientProg, ",") == "stderr,loop"
	sp := strings.Join(sc.ServerProg, ",")
	healthyServer := sc.ServerProg == nil || sp == "readall,respond,waitterm" || sp == "readmsg,respond,waitterm"
	ran, setup, failed := 0, 0, 0
	obs.results.mu.Lock()
	for _, n := range names {
		o, ok := obs.results.outcomes[n]
		switch {
		case !ok:
			// when the client process is gone, batches that were not started yet never are: their
			// cases are counted by the report ("could not be run"), not listed
			if healthyClient {
				add("case-without-outcome", "selected permutation %q has no outcome after run() returned although the client process was healthy (peer log %q)", n, obs.peerLog)
			}
		case o.setupError:
			setup++
			if healthyClient && healthyServer {
				add("setup-failure-without-fault", "permutation %q recorded as a set-up failure although both peers are healthy: %v", n, o.actualFailure)
			}
		case o.actualFailure != nil:
			failed++
			if healthyClient && healthyServer {
				add("failure-without-fault", "permutation %q failed although both peers are healthy and the client answers as expected: %v", n, o.actualFailure)
			}
		default:
			ran++
		}
	}
	obs.results.mu.Unlock()
	if sc.ServerProg == nil {
		if len(obs.liveAtReturn) > 0 {
			add("server-alive-when-run-returns", "run() returned while scripted server(s) %v were alive", obs.liveAtReturn)
		}
		for _, s := range w.servers {
			s.srv.mu.Lock()
			ab, ex := s.srv.aborted, s.srv.exited
			s.srv.mu.Unlock()
			if ab == 0 || !ex {
				add("server-not-stopped", "server#%d aborted=%d exited=%v when run() returned", s.idx, ab, ex)
			}
		}
		if w.maxLive > sc.MaxServers {
			add("too-many-servers", "%d servers alive at once with --max-servers=%d", w.maxLive, sc.MaxServers)
		}
	} else {
		// scripted client: what reached it
		count := map[string]int{}
		for _, r := range w.recvs {
			count[r.req.TestName]++
		}
		for _, n := range names {
			if count[n] > 1 {
				add("dispatched-twice", "permutation %q was handed to the client %d times", n, count[n])
			}
			if healthyServer && count[n] != 1 {
				add("case-not-sent-although-peers-healthy", "permutation %q reached the client %d time(s) although the server process answers its start-up request", n, count[n])
			}
		}
	}
	outcome = fmt.Sprintf("ran=%d setup=%d failed=%d err=%.30q", ran, setup, failed, obs.runErr)
	return verdicts, outcome
}

func TestVerifOSProcRun(t *testing.T) {
	r := rep.New("osproc-run")
	defer r.Write()
	r.Rule = "run() with one side a real OS process started through runCommand and the other side scripted in-process: client programs (orderly, dies at once / after reading / after answering, closes its input before answering, closes its output and keeps reading, garbage, stderr output) x server programs (reads its input to EOF or just one message before answering, dies before/after answering, garbage, closed output) x suite shapes x --max-servers 1,2; each repeated; OS scheduling not controlled; oracle: run() returns within 180 s, every selected permutation has exactly one outcome, no failure when both peers are healthy, scripted servers all stopped, a healthy real server gets every permutation sent to the client exactly once"
	gate.SetFreeRunning(true)
	defer gate.SetFreeRunning(false)
	dir := t.TempDir()
	if sc, ok := osReplayScenario[osRunScenario](r, t); ok {
		obs := osRunRun(sc, dir, 0)
		verdicts, outcome := osRunJudge(sc, obs)
		fmt.Printf("replay: scenario=%+v\noutcome=%s\npeer log:\n%s\n", sc, outcome, obs.peerLog)
		for _, v := range verdicts {
			r.Violate(v.key, v.detail, map[string]any{"scenario": sc})
			fmt.Printf("VERDICT %s: %s\n", v.key, v.detail)
		}
		r.Eval(1)
		return
	}
	reps := 1
	if rep.Thorough() {
		reps = 3
	}
	deadline := rep.Deadline()
	var k int64
	for _, sc := range osRunScenarios(rep.Thorough()) {
		k++
		if !r.Mine(k) {
			continue
		}
		if !deadline.IsZero() && time.Now().After(deadline) {
			r.NotExhaustive("budget")
			break
		}
		for i := 0; i < reps; i++ {
			t0 := time.Now()
			obs := osRunRun(sc, dir, int(k)*100+i)
			if d := time.Since(t0); d > 3*time.Second {
				r.Note("slow (%v): %+v", d.Round(time.Millisecond), sc)
			}
			verdicts, outcome := osRunJudge(sc, obs)
			r.Eval(1)
			r.Outcome(outcome)
			for _, v := range verdicts {
				r.Violate(v.key, v.detail+fmt.Sprintf(" | scenario=%+v", sc), map[string]any{"scenario": sc})
			}
			if len(verdicts) > 0 {
				break
			}
		}
		r.NonTrivial("")
		if k%8 == 1 {
			r.Sample(sc)
		}
	}
	if len(r.Samples) == 0 {
		r.Sample("no scenario in this shard")
	}
}
