// C19 (a): size-limit padding. Bounded-exhaustive enumeration of
// (request message type x content x position in the stream x offset) against an
// independent size model of a length-delimited protobuf field.
//
// Property text: "A request marked for expansion is padded so that its
// serialized size equals the server receive limit plus the requested offset
// exactly - or the suite is rejected with an error if that size is unreachable
// - changing nothing but the padding field."
package connectconformance

import (
	"bytes"
	"encoding/json"
	"fmt"
	"math"
	"runtime/debug"
	"sort"
	"strings"
	"testing"
	"time"

	conformancev1 "connectrpc.com/conformance/internal/gen/proto/go/connectrpc/conformance/v1"
	"connectrpc.com/conformance/internal/verif/rep"
	"google.golang.org/protobuf/encoding/protojson"
	"google.golang.org/protobuf/encoding/protowire"
	"google.golang.org/protobuf/proto"
	"google.golang.org/protobuf/reflect/protoreflect"
	"google.golang.org/protobuf/types/known/anypb"
)

// c19Case identifies one evaluated case; it is also the replay value.
type c19Case struct {
	Via     string `json:"via"`     // "direct" (expandRequestData) or "suite" (parseTestSuites + newTestCaseLibrary)
	Type    string `json:"type"`    // request message type
	Content string `json:"content"` // what the message holds before expansion ('+'-joined: respdef, dataN, unktail / unkfront / unknested / unkdeep - see c19UnknownContents)
	Pos     int    `json:"pos"`     // index of the expanded message in the request stream (0 or 1)
	Delta   int64  `json:"delta"`   // size_relative_to_limit
	// multi-directive cases (Type = ClientStreamRequest | BidiStreamRequest): one
	// slot per request message; Content/Pos/Delta above are unused.
	Slots []string `json:"slots,omitempty"`
	Trim  bool     `json:"trim,omitempty"` // trailing unmarked messages get no entry in expand_requests at all (list shorter than the stream)
	// via=suite only: the other directives of the suite file the test case sits in,
	// as '+'-joined tokens (see c19SuiteVariants); "" = a server-mode suite with
	// relies_on_message_receive_limit and one relevant value per dimension.
	Suite string `json:"suite,omitempty"`
}

// c19SuiteVariants: every combination of the suite-level directives that decide
// WHERE a suite runs. None of them has anything to do with expand_requests
// ("To support extremely large messages, as well as very precisely-sized
// messages ..." - suite.proto), so a marked request must be expanded - or the
// suite rejected - under every one of them:
//
//	limit flag   relies_on_message_receive_limit set | not set ("nolimitflag")
//	mode         TEST_MODE_SERVER | TEST_MODE_CLIENT ("client") | unspecified ("anymode")
//	one of       - | relies_on_tls ("tls") | + relies_on_tls_client_certs ("certs") | relies_on_connect_get ("get")
//	             | connect_version_mode REQUIRE ("vreq") / IGNORE ("vign")
//	             | relevant_protocols / relevant_http_versions / relevant_compressions left empty = all ("allprotocols", "allhttp", "allcompressions")
//
// The base combination (limit flag, server mode, nothing else) is the one every
// other suite-path case uses and is not repeated here.
func c19SuiteVariants() []string {
	var out []string
	for _, lim := range []string{"", "nolimitflag"} {
		for _, mode := range []string{"", "client", "anymode"} {
			for _, extra := range []string{"", "tls", "certs", "get", "vreq", "vign", "allprotocols", "allhttp", "allcompressions"} {
				var toks []string
				for _, t := range []string{lim, mode, extra} {
					if t != "" {
						toks = append(toks, t)
					}
				}
				if len(toks) > 0 {
					out = append(out, strings.Join(toks, "+"))
				}
			}
		}
	}
	return out
}

// c19SlotAlphabet: what one request message of a multi-directive case is.
//
//	U    no directive (entry without size); must come out unchanged
//	P0 P+1 P-1   marked with offset 0/+1/-1, small before expansion (needs padding)
//	E0 E+1 E-1   marked with offset 0/+1/-1 and ALREADY exactly limit+offset bytes long before expansion (directive is a no-op)
//	X0   marked with offset 0 and one byte too long before expansion (request_data has to shrink)
var c19SlotAlphabet = []string{"U", "P0", "P+1", "P-1", "E0", "E+1", "E-1", "X0"} //nolint:gochecknoglobals

// c19SlotContents: the content of the message in stream position i before any padding.
// (the third message also carries fields that the request types of this build do not define)
var c19SlotContents = []string{"respdef+data127", "empty", "data1+unktail"} //nolint:gochecknoglobals

type c19SlotSpec struct {
	marked bool
	delta  int64
	msg    proto.Message // before expansion
}

func c19SlotBuild(typ string, pos int, slot string) c19SlotSpec {
	const limit = int64(serverReceiveLimit)
	msg := c19Build(typ, c19SlotContents[pos])
	if slot == "U" {
		return c19SlotSpec{msg: msg}
	}
	var delta int64
	if _, err := fmt.Sscanf(slot[1:], "%d", &delta); err != nil {
		panic("c19: bad slot " + slot)
	}
	spec := c19SlotSpec{marked: true, delta: delta, msg: msg}
	pre := int64(-1) // size before expansion; -1: leave the small message
	switch slot[0] {
	case 'P':
	case 'E':
		pre = limit + delta
	case 'X':
		pre = limit + delta + 1
	default:
		panic("c19: bad slot " + slot)
	}
	if pre >= 0 {
		base := int64(proto.Size(c19WithoutData(msg)))
		l, ok := c19Reachable(base, pre)
		if !ok || l < int64(len(c19GetData(msg))) {
			panic(fmt.Sprintf("c19 harness: cannot build a %s of %d bytes", typ, pre))
		}
		data := make([]byte, l)
		copy(data, c19GetData(msg))
		for i := len(c19GetData(msg)); i < len(data); i++ {
			data[i] = byte(0x50 + i%7) // distinguishable from the zero padding of the code under test
		}
		c19SetData(msg, data)
		if int64(proto.Size(msg)) != pre {
			panic(fmt.Sprintf("c19 harness: size model and proto.Size disagree: %d != %d", proto.Size(msg), pre))
		}
	}
	return spec
}

// c19MultiTestCase builds a test case with one request message per slot.
func c19MultiTestCase(tc c19Case) (*conformancev1.TestCase, []c19SlotSpec) {
	specs := make([]c19SlotSpec, len(tc.Slots))
	testCase := &conformancev1.TestCase{
		Request: &conformancev1.ClientCompatRequest{
			TestName:       "c19/multi",
			RequestHeaders: []*conformancev1.Header{{Name: "x-c19-req", Value: []string{"h"}}},
		},
	}
	entries := len(tc.Slots)
	if tc.Trim {
		for entries > 0 && tc.Slots[entries-1] == "U" {
			entries--
		}
	}
	for i, slot := range tc.Slots {
		specs[i] = c19SlotBuild(tc.Type, i, slot)
		asAny := c19Any(c19SlotContents[i], specs[i].msg)
		testCase.Request.RequestMessages = append(testCase.Request.RequestMessages, asAny)
		if i >= entries {
			continue
		}
		entry := &conformancev1.TestCase_ExpandedSize{}
		if specs[i].marked {
			delta := int32(specs[i].delta)
			entry.SizeRelativeToLimit = &delta
		}
		testCase.ExpandRequests = append(testCase.ExpandRequests, entry)
	}
	testCase.Request.StreamType = c19StreamType(tc.Type, specs[0].msg)
	return testCase, specs
}

// c19JudgeMulti: several requests of one test case carry a directive. Oracle
// (property text, per request): every marked request ends up at exactly
// limit+offset with nothing but request_data changed - whatever the other
// requests of the case looked like -, an unmarked one is left as it was. All
// targets are reachable by construction, so an error is only acceptable where a
// request has to shrink (X0: "exact or rejected").
func c19JudgeMulti(r *rep.Report, tc c19Case, verbose bool) string {
	const limit = int64(serverReceiveLimit)
	testCase, specs := c19MultiTestCase(tc)
	before := proto.Clone(testCase).(*conformancev1.TestCase) //nolint:errcheck,forcetypeassert
	var res c19Result
	if tc.Via == "suite" {
		res = c19RunSuite(testCase, tc.Suite)
	} else {
		res = c19RunDirect(testCase)
	}
	var sizes []string
	mayShrink, marked := false, 0
	for i, sp := range specs {
		sizes = append(sizes, fmt.Sprintf("#%d %s: %d bytes before", i+1, tc.Slots[i], proto.Size(sp.msg)))
		mayShrink = mayShrink || tc.Slots[i][0] == 'X'
		if sp.marked {
			marked++
		}
	}
	describe := func(what string) string {
		return fmt.Sprintf("%s: via=%s %s stream of %d requests, slots=%v trim=%v (U unmarked, P needs padding, E already exact, X one byte too long; number = size_relative_to_limit), limit=%d; %s",
			what, tc.Via, tc.Type, len(tc.Slots), tc.Slots, tc.Trim, limit, strings.Join(sizes, "; "))
	}
	if verbose {
		fmt.Println(describe("case"))
		fmt.Printf("  observed: err=%v panic=%v\n", res.err, res.panicked)
	}
	class := fmt.Sprintf("multi/n=%d/marked=%d", len(tc.Slots), marked)
	if res.panicked != nil {
		r.Violate("multi:expand-panics", describe(fmt.Sprintf("panic (%v)", res.panicked)), tc)
		return "PANIC/" + class
	}
	if res.err != nil {
		if mayShrink {
			return "error/below-unpadded/" + class
		}
		r.Violate("multi:reachable-rejected", describe(fmt.Sprintf("rejected although every requested size is reachable (error: %v)", res.err)), tc)
		return "REJECTED-REACHABLE/" + class
	}
	after := res.after
	if len(after.Request.RequestMessages) != len(specs) {
		r.Violate("multi:request-count-changed", describe(fmt.Sprintf("%d request messages after expansion", len(after.Request.RequestMessages))), tc)
		return "WRONG-RESULT/" + class
	}
	bad := false
	for i, sp := range specs {
		gotAny := after.Request.RequestMessages[i]
		if !sp.marked {
			if !proto.Equal(gotAny, before.Request.RequestMessages[i]) {
				r.Violate("multi:unmarked-request-changed", describe(fmt.Sprintf("request #%d has no directive but was changed (now %d bytes)", i+1, len(gotAny.Value))), tc)
				bad = true
			}
			continue
		}
		got, err := gotAny.UnmarshalNew()
		if err != nil {
			r.Violate("padding-result-unreadable", describe(fmt.Sprintf("request #%d cannot be unmarshalled: %v", i+1, err)), tc)
			bad = true
			continue
		}
		target := limit + sp.delta
		gotSize := int64(proto.Size(got))
		if verbose {
			fmt.Printf("  observed: request #%d size=%d (want %d) request_data=%d bytes\n", i+1, gotSize, target, len(c19GetData(got)))
		}
		if gotSize != target || int64(len(gotAny.Value)) != target {
			r.Violate("multi:marked-request-not-at-target", describe(fmt.Sprintf("request #%d is marked with size_relative_to_limit=%d, so it must have %d bytes; it has %d (Any value %d bytes) and no error was returned", i+1, sp.delta, target, gotSize, len(gotAny.Value))), tc)
			bad = true
		}
		gotData := c19GetData(got)
		got.ProtoReflect().Clear(c19DataField(got))
		if !proto.Equal(got, c19WithoutData(sp.msg)) {
			r.Violate("padding-changed-other-field", describe(fmt.Sprintf("request #%d: a field other than request_data differs after expansion", i+1)), tc)
			bad = true
		}
		if diff := c19WireDiff(sp.msg, before.Request.RequestMessages[i].Value, gotAny.Value); diff != "" {
			r.Violate("expanded-differs-beyond-padding-field", describe(fmt.Sprintf("request #%d: %s", i+1, diff)), tc)
			bad = true
		}
		existing := c19GetData(sp.msg)
		if target >= int64(proto.Size(sp.msg)) && !bytes.HasPrefix(gotData, existing) {
			r.Violate("padding-changed-existing-data", describe(fmt.Sprintf("request #%d: existing request_data is not a prefix of the padded request_data", i+1)), tc)
			bad = true
		}
	}
	if tc.Via == "direct" {
		expanded := after.Request.RequestMessages
		after.Request.RequestMessages = before.Request.RequestMessages
		if !proto.Equal(after, before) {
			r.Violate("padding-changed-other-field", describe("the test case differs outside the request messages"), tc)
			bad = true
		}
		after.Request.RequestMessages = expanded
	}
	if bad {
		return "WRONG-RESULT/" + class
	}
	return "exact/" + class
}

var c19Types = []string{ //nolint:gochecknoglobals
	"UnaryRequest", "ServerStreamRequest", "ClientStreamRequest", "BidiStreamRequest", "IdempotentUnaryRequest",
}

var c19Contents = []string{ //nolint:gochecknoglobals
	"empty", "respdef", "data0", "data1", "data127", "data128", "respdef+data127", "respdef+data128",
}

// c19UnknownContents: request messages that carry fields the request types compiled
// into the runner do not define (a suite written against a newer schema, or a
// deliberately odd message: the strict codec of this repository exists because
// such fields matter). The Go runtime keeps them and the reference client sends
// them on, so "changing nothing but the padding field" covers them too.
//
//	unktail    unknown fields (varint, bytes, fixed32, fixed64; one- and two-byte tags) after the known ones
//	unkfront   the same fields, but on the wire in FRONT of the known ones (hand-assembled Any value)
//	unknested  unknown fields inside response_definition
//	unkdeep    unknown field inside response_definition.response_headers[0] (resp. the trailers / headers of the stream definition)
var c19UnknownContents = []string{ //nolint:gochecknoglobals
	"unktail", "data1+unkfront", "respdef+unknested", "respdef+data127+unktail", "respdef+data128+unkdeep+unkfront", "respdef+unknested+unkdeep+unktail",
}

// c19UnknownFields: wire bytes of fields that no request / definition / header type has.
func c19UnknownFields(where string) []byte {
	var raw []byte
	switch where {
	case "top":
		raw = protowire.AppendTag(raw, 15, protowire.VarintType)
		raw = protowire.AppendVarint(raw, 300)
		raw = protowire.AppendTag(raw, 100, protowire.BytesType)
		raw = protowire.AppendBytes(raw, []byte("from-a-newer-schema"))
		raw = protowire.AppendTag(raw, 101, protowire.Fixed32Type)
		raw = protowire.AppendFixed32(raw, 0xC19C19)
		raw = protowire.AppendTag(raw, 7, protowire.Fixed64Type)
		raw = protowire.AppendFixed64(raw, 0x0102030405060708)
		raw = protowire.AppendTag(raw, 100, protowire.BytesType) // the same number twice: both occurrences count
		raw = protowire.AppendBytes(raw, nil)
	case "nested":
		raw = protowire.AppendTag(raw, 100, protowire.BytesType)
		raw = protowire.AppendBytes(raw, []byte("nested-unknown"))
		raw = protowire.AppendTag(raw, 99, protowire.VarintType)
		raw = protowire.AppendVarint(raw, 1)
	case "deep":
		raw = protowire.AppendTag(raw, 9, protowire.BytesType)
		raw = protowire.AppendBytes(raw, []byte("deep"))
	}
	return raw
}

// c19Any wraps msg for the test case. Normally anypb.New; for "unkfront" contents
// the value is assembled by hand so that the unknown fields precede the known ones
// on the wire (msg itself - the model of what the Any holds - carries them as
// unknown fields either way).
func c19Any(content string, msg proto.Message) *anypb.Any {
	if !strings.Contains(content, "unkfront") {
		asAny, err := anypb.New(msg)
		if err != nil {
			panic(err)
		}
		return asAny
	}
	known := proto.Clone(msg)
	front := append([]byte(nil), known.ProtoReflect().GetUnknown()...)
	known.ProtoReflect().SetUnknown(nil)
	rest, err := proto.Marshal(known)
	if err != nil {
		panic(err)
	}
	value := append(front, rest...)
	check := msg.ProtoReflect().New().Interface()
	if err := proto.Unmarshal(value, check); err != nil || !proto.Equal(check, msg) || len(value) != proto.Size(msg) {
		panic(fmt.Sprintf("c19 harness: hand-assembled message does not decode to the model (%v)", err))
	}
	return &anypb.Any{TypeUrl: "type.googleapis.com/" + string(msg.ProtoReflect().Descriptor().FullName()), Value: value}
}

// c19WireFields splits a serialized message into its top-level fields (number,
// wire type and raw value bytes), leaving out every occurrence of field `skip`;
// sorted, because the order of fields on the wire carries no meaning.
func c19WireFields(wire []byte, skip protowire.Number) ([]string, error) {
	var out []string
	for len(wire) > 0 {
		num, typ, n := protowire.ConsumeTag(wire)
		if n < 0 {
			return nil, protowire.ParseError(n)
		}
		m := protowire.ConsumeFieldValue(num, typ, wire[n:])
		if m < 0 {
			return nil, protowire.ParseError(m)
		}
		if num != skip {
			out = append(out, fmt.Sprintf("%09d/%d:%x", num, typ, wire[n:n+m]))
		}
		wire = wire[n+m:]
	}
	sort.Strings(out)
	return out, nil
}

// c19WireDiff is the oracle for "changing nothing but the padding field" on the
// level of the bytes that are sent: with the padding field (request_data) taken
// out, the expanded message and the original one consist of the same fields -
// known to this build or not. "" = no difference.
func c19WireDiff(model proto.Message, before, after []byte) string {
	skip := c19DataField(model).Number()
	want, err := c19WireFields(before, skip)
	if err != nil {
		panic(fmt.Sprintf("c19 harness: original message is malformed: %v", err))
	}
	got, err := c19WireFields(after, skip)
	if err != nil {
		return "the expanded message is not well-formed protobuf: " + err.Error()
	}
	if strings.Join(got, " ") == strings.Join(want, " ") {
		return ""
	}
	short := func(fields []string) string {
		var parts []string
		for _, f := range fields {
			if len(f) > 60 {
				f = f[:60] + "..."
			}
			parts = append(parts, strings.TrimLeft(f, "0"))
		}
		return "[" + strings.Join(parts, " ") + "]"
	}
	return fmt.Sprintf("apart from the padding field (#%d) the message had the fields (number/wiretype:value) %s before expansion and has %s after it",
		skip, short(want), short(got))
}

// ---------------------------------------------------------------------------
// independent size model (from the protobuf encoding spec, not from the code)

// c19VarintLen is the number of bytes of the base-128 varint of n (n >= 0).
func c19VarintLen(n int64) int64 {
	l := int64(1)
	for n >= 128 {
		n >>= 7
		l++
	}
	return l
}

// c19Cost is what a proto3 `bytes` field with a one-byte tag adds to the size
// of its message when it holds l bytes (absent from the wire when empty).
func c19Cost(l int64) int64 {
	if l == 0 {
		return 0
	}
	return 1 + c19VarintLen(l) + l
}

// c19Reachable says whether some payload length l makes base+cost(l) == target.
func c19Reachable(base, target int64) (int64, bool) {
	if target == base {
		return 0, true
	}
	for v := int64(1); v <= 10; v++ {
		l := target - base - 1 - v
		if l >= 1 && c19VarintLen(l) == v {
			return l, true
		}
	}
	return 0, false
}

// ---------------------------------------------------------------------------
// messages

func c19ExistingData(n int) []byte {
	data := make([]byte, n)
	for i := range data {
		data[i] = byte(0xA0 + i%16)
	}
	return data
}

func c19Build(typ, content string) proto.Message {
	withDef := strings.HasPrefix(content, "respdef")
	var unaryDef *conformancev1.UnaryResponseDefinition
	var streamDef *conformancev1.StreamResponseDefinition
	if withDef {
		unaryDef = &conformancev1.UnaryResponseDefinition{
			ResponseHeaders: []*conformancev1.Header{{Name: "x-c19", Value: []string{"v1", "v2"}}},
			Response:        &conformancev1.UnaryResponseDefinition_ResponseData{ResponseData: []byte("test response")},
		}
		streamDef = &conformancev1.StreamResponseDefinition{
			ResponseData:     [][]byte{[]byte("test response")},
			ResponseTrailers: []*conformancev1.Header{{Name: "x-c19-t", Value: []string{"v"}}},
		}
	}
	var msg proto.Message
	switch typ {
	case "UnaryRequest":
		msg = &conformancev1.UnaryRequest{ResponseDefinition: unaryDef}
	case "IdempotentUnaryRequest":
		msg = &conformancev1.IdempotentUnaryRequest{ResponseDefinition: unaryDef}
	case "ClientStreamRequest":
		msg = &conformancev1.ClientStreamRequest{ResponseDefinition: unaryDef}
	case "ServerStreamRequest":
		msg = &conformancev1.ServerStreamRequest{ResponseDefinition: streamDef}
	case "BidiStreamRequest":
		msg = &conformancev1.BidiStreamRequest{ResponseDefinition: streamDef, FullDuplex: withDef}
	default:
		panic("c19: unknown type " + typ)
	}
	if idx := strings.Index(content, "data"); idx >= 0 {
		var n int
		if _, err := fmt.Sscanf(content[idx:], "data%d", &n); err != nil {
			panic(err)
		}
		c19SetData(msg, c19ExistingData(n))
	}
	if strings.Contains(content, "unktail") || strings.Contains(content, "unkfront") {
		msg.ProtoReflect().SetUnknown(c19UnknownFields("top"))
	}
	if strings.Contains(content, "unknested") || strings.Contains(content, "unkdeep") {
		if !withDef {
			panic("c19: nested unknown fields need a response definition: " + content)
		}
		var def proto.Message = unaryDef
		hdr := unaryDef.ResponseHeaders[0]
		if typ == "ServerStreamRequest" || typ == "BidiStreamRequest" {
			def, hdr = streamDef, streamDef.ResponseTrailers[0]
		}
		if strings.Contains(content, "unknested") {
			def.ProtoReflect().SetUnknown(c19UnknownFields("nested"))
		}
		if strings.Contains(content, "unkdeep") {
			hdr.ProtoReflect().SetUnknown(c19UnknownFields("deep"))
		}
	}
	return msg
}

func c19DataField(msg proto.Message) protoreflect.FieldDescriptor {
	return msg.ProtoReflect().Descriptor().Fields().ByName("request_data")
}

func c19SetData(msg proto.Message, data []byte) {
	msg.ProtoReflect().Set(c19DataField(msg), protoreflect.ValueOfBytes(data))
}

func c19GetData(msg proto.Message) []byte {
	return msg.ProtoReflect().Get(c19DataField(msg)).Bytes()
}

func c19WithoutData(msg proto.Message) proto.Message {
	clone := proto.Clone(msg)
	clone.ProtoReflect().Clear(c19DataField(clone))
	return clone
}

func c19StreamType(typ string, msg proto.Message) conformancev1.StreamType {
	switch typ {
	case "UnaryRequest", "IdempotentUnaryRequest":
		return conformancev1.StreamType_STREAM_TYPE_UNARY
	case "ClientStreamRequest":
		return conformancev1.StreamType_STREAM_TYPE_CLIENT_STREAM
	case "ServerStreamRequest":
		return conformancev1.StreamType_STREAM_TYPE_SERVER_STREAM
	default:
		if bidi, ok := msg.(*conformancev1.BidiStreamRequest); ok && bidi.FullDuplex {
			return conformancev1.StreamType_STREAM_TYPE_FULL_DUPLEX_BIDI_STREAM
		}
		return conformancev1.StreamType_STREAM_TYPE_HALF_DUPLEX_BIDI_STREAM
	}
}

// c19TestCase builds the un-expanded test case. With pos == 1 the message under
// test is the second one; the first one is a fixed message of the same type that
// carries no directive value (must not be touched).
func c19TestCase(tc c19Case) (*conformancev1.TestCase, proto.Message) {
	msg := c19Build(tc.Type, tc.Content)
	asAny := c19Any(tc.Content, msg)
	delta := int32(tc.Delta)
	testCase := &conformancev1.TestCase{
		Request: &conformancev1.ClientCompatRequest{
			TestName:       "c19/case",
			StreamType:     c19StreamType(tc.Type, msg),
			RequestHeaders: []*conformancev1.Header{{Name: "x-c19-req", Value: []string{"h"}}},
		},
	}
	if tc.Type == "IdempotentUnaryRequest" {
		testCase.Request.Service = proto.String("connectrpc.conformance.v1.ConformanceService")
		testCase.Request.Method = proto.String("IdempotentUnary")
	}
	if tc.Pos == 1 {
		first := c19Build(tc.Type, "respdef+data127")
		firstAny, err := anypb.New(first)
		if err != nil {
			panic(err)
		}
		testCase.Request.RequestMessages = []*anypb.Any{firstAny, asAny}
		testCase.ExpandRequests = []*conformancev1.TestCase_ExpandedSize{{}, {SizeRelativeToLimit: &delta}}
	} else {
		testCase.Request.RequestMessages = []*anypb.Any{asAny}
		testCase.ExpandRequests = []*conformancev1.TestCase_ExpandedSize{{SizeRelativeToLimit: &delta}}
	}
	return testCase, msg
}

// ---------------------------------------------------------------------------
// running the real code

type c19Result struct {
	err      error
	panicked any
	// the test case after expansion (direct: the same object; suite: the single
	// permutation found in the library)
	after *conformancev1.TestCase
}

func c19RunDirect(testCase *conformancev1.TestCase) (res c19Result) {
	defer func() {
		if p := recover(); p != nil {
			res.panicked = p
		}
	}()
	res.err = expandRequestData(testCase)
	res.after = testCase
	return res
}

// c19RunSuite sends the case through the public path: a one-case suite file is
// parsed by parseTestSuites (which expands) and turned into a library. variant
// names the other directives of the suite (c19SuiteVariants); the library is
// asked for the one configuration under which such a suite runs.
func c19RunSuite(testCase *conformancev1.TestCase, variant string) (res c19Result) {
	defer func() {
		if p := recover(); p != nil {
			res.panicked = p
		}
	}()
	suite := &conformancev1.TestSuite{
		Name:                        "C19",
		Mode:                        conformancev1.TestSuite_TEST_MODE_SERVER,
		ReliesOnMessageReceiveLimit: true,
		RelevantProtocols:           []conformancev1.Protocol{conformancev1.Protocol_PROTOCOL_CONNECT},
		RelevantHttpVersions:        []conformancev1.HTTPVersion{conformancev1.HTTPVersion_HTTP_VERSION_2},
		RelevantCodecs:              []conformancev1.Codec{conformancev1.Codec_CODEC_PROTO},
		RelevantCompressions:        []conformancev1.Compression{conformancev1.Compression_COMPRESSION_IDENTITY},
		TestCases:                   []*conformancev1.TestCase{testCase},
	}
	cfg := configCase{
		Version:                conformancev1.HTTPVersion_HTTP_VERSION_2,
		Protocol:               conformancev1.Protocol_PROTOCOL_CONNECT,
		Codec:                  conformancev1.Codec_CODEC_PROTO,
		Compression:            conformancev1.Compression_COMPRESSION_IDENTITY,
		StreamType:             testCase.Request.StreamType,
		UseMessageReceiveLimit: true,
	}
	libMode := conformancev1.TestSuite_TEST_MODE_SERVER
	if variant != "" {
		for _, tok := range strings.Split(variant, "+") {
			switch tok {
			case "nolimitflag":
				suite.ReliesOnMessageReceiveLimit, cfg.UseMessageReceiveLimit = false, false
			case "client":
				suite.Mode, libMode = conformancev1.TestSuite_TEST_MODE_CLIENT, conformancev1.TestSuite_TEST_MODE_CLIENT
			case "anymode":
				suite.Mode = conformancev1.TestSuite_TEST_MODE_UNSPECIFIED
			case "tls":
				suite.ReliesOnTls, cfg.UseTLS = true, true
			case "certs":
				suite.ReliesOnTls, suite.ReliesOnTlsClientCerts, cfg.UseTLS, cfg.UseTLSClientCerts = true, true, true, true
			case "get":
				suite.ReliesOnConnectGet, cfg.UseConnectGET = true, true
			case "vreq":
				suite.ConnectVersionMode = conformancev1.TestSuite_CONNECT_VERSION_MODE_REQUIRE
				cfg.ConnectVersionMode = suite.ConnectVersionMode
			case "vign":
				suite.ConnectVersionMode = conformancev1.TestSuite_CONNECT_VERSION_MODE_IGNORE
				cfg.ConnectVersionMode = suite.ConnectVersionMode
			case "allprotocols":
				suite.RelevantProtocols = nil
			case "allhttp":
				suite.RelevantHttpVersions = nil
			case "allcompressions":
				suite.RelevantCompressions = nil
			default:
				panic("c19 harness: unknown suite variant token " + tok)
			}
		}
	}
	// JSON is YAML: the suite file is written with protojson and read back by
	// the real protoyaml-based loader.
	data, err := protojson.Marshal(suite)
	if err != nil {
		panic(fmt.Sprintf("c19 harness: cannot marshal suite: %v", err))
	}
	suites, err := parseTestSuites(map[string][]byte{"c19.yaml": data})
	if err != nil {
		res.err = err
		return res
	}
	lib, err := newTestCaseLibrary(suites, []configCase{cfg}, libMode)
	if err != nil {
		res.err = err
		return res
	}
	if len(lib.testCases) != 1 {
		panic(fmt.Sprintf("c19 harness: expected exactly one permutation, got %d", len(lib.testCases)))
	}
	for _, permutation := range lib.testCases {
		res.after = permutation
	}
	return res
}

// ---------------------------------------------------------------------------
// oracle

// c19Judge evaluates one case. It returns the outcome class and reports
// violations.
func c19Judge(r *rep.Report, tc c19Case, verbose bool) string {
	if len(tc.Slots) > 0 {
		return c19JudgeMulti(r, tc, verbose)
	}
	const limit = int64(serverReceiveLimit)
	pfx := "" // violations seen only under other suite-level directives get their own keys
	if tc.Suite != "" {
		pfx = "under-other-suite-directives:"
	}
	testCase, orig := c19TestCase(tc)
	before := proto.Clone(testCase).(*conformancev1.TestCase) //nolint:errcheck,forcetypeassert
	unpadded := int64(proto.Size(orig))
	base := int64(proto.Size(c19WithoutData(orig)))
	existing := c19GetData(orig)
	target := limit + tc.Delta
	wantLen, reachable := c19Reachable(base, target)

	var res c19Result
	if tc.Via == "suite" {
		res = c19RunSuite(testCase, tc.Suite)
	} else {
		res = c19RunDirect(testCase)
	}
	describe := func(what string) string {
		if tc.Suite != "" {
			what += fmt.Sprintf(" [suite directives besides the test case: %s — limit flag: relies_on_message_receive_limit, nolimitflag = not set; client/anymode = suite mode; tls/certs/get/vreq/vign = relies_on_tls / _client_certs / relies_on_connect_get / connect_version_mode; all* = relevant_* list left empty]", tc.Suite)
		}
		return fmt.Sprintf("%s: via=%s %s/%s pos=%d size_relative_to_limit=%d: limit=%d target=%d unpadded size=%d (size without request_data=%d, existing request_data=%d bytes); model: reachable=%v (request_data length %d)",
			what, tc.Via, tc.Type, tc.Content, tc.Pos, tc.Delta, limit, target, unpadded, base, len(existing), reachable, wantLen)
	}
	if verbose {
		fmt.Println(describe("case"))
		fmt.Printf("  observed: err=%v panic=%v\n", res.err, res.panicked)
	}

	// what the property allows
	var expect string // "ok", "error", "either"
	var why string
	switch {
	case target < 0:
		expect, why = "error", "negative"
	case target > math.MaxInt32:
		// Beyond what most protobuf runtimes serialize; the property only asks
		// for "exact or rejected", so both are fine (no panic).
		expect, why = "either", "over-2GiB"
	case target < unpadded:
		expect, why = "either", "below-unpadded"
	case reachable:
		expect, why = "ok", "reachable"
	default:
		expect, why = "error", "varint-gap"
	}

	if res.panicked != nil {
		r.Violate(pfx+"expand-panics",
			describe(fmt.Sprintf("panic instead of an error (%v) [target class: %s]", res.panicked, why)), tc)
		return "PANIC/" + why
	}
	if res.err != nil {
		if expect == "ok" {
			r.Violate(pfx+"reachable-rejected",
				describe(fmt.Sprintf("rejected although the size is reachable (error: %v)", res.err)), tc)
			return "REJECTED-REACHABLE"
		}
		return "error/" + why
	}

	// success: the size must be exact and nothing else may have changed
	after := res.after
	got, err := after.Request.RequestMessages[tc.Pos].UnmarshalNew()
	if err != nil {
		r.Violate(pfx+"padding-result-unreadable", describe("expanded message cannot be unmarshalled: "+err.Error()), tc)
		return "UNREADABLE"
	}
	gotSize := int64(proto.Size(got))
	if verbose {
		fmt.Printf("  observed: size=%d request_data=%d bytes\n", gotSize, len(c19GetData(got)))
	}
	if expect == "error" {
		r.Violate(pfx+"unreachable-not-rejected",
			describe(fmt.Sprintf("accepted although the size is unreachable (%s); resulting size %d", why, gotSize)), tc)
		return "ACCEPTED-UNREACHABLE"
	}
	bad := false
	if gotSize != target {
		r.Violate(pfx+"padding-size-off:"+tc.Type,
			describe(fmt.Sprintf("expanded size is %d, want %d", gotSize, target)), tc)
		bad = true
	}
	if int64(len(after.Request.RequestMessages[tc.Pos].Value)) != gotSize {
		// the Any must carry exactly that serialization
		r.Violate(pfx+"padding-size-off:"+tc.Type,
			describe(fmt.Sprintf("Any value has %d bytes but the message has size %d",
				len(after.Request.RequestMessages[tc.Pos].Value), gotSize)), tc)
		bad = true
	}
	// (got is a private copy: take the data out instead of cloning megabytes)
	gotData := c19GetData(got)
	got.ProtoReflect().Clear(c19DataField(got))
	if !proto.Equal(got, c19WithoutData(orig)) ||
		got.ProtoReflect().Descriptor().FullName() != orig.ProtoReflect().Descriptor().FullName() {
		r.Violate(pfx+"padding-changed-other-field",
			describe("a field other than request_data differs after expansion"), tc)
		bad = true
	}
	if diff := c19WireDiff(orig, before.Request.RequestMessages[tc.Pos].Value, after.Request.RequestMessages[tc.Pos].Value); diff != "" {
		r.Violate(pfx+"expanded-differs-beyond-padding-field", describe(diff), tc)
		bad = true
	}
	if tc.Via == "direct" {
		// everything else in the test case stays as it was
		expanded := after.Request.RequestMessages[tc.Pos]
		after.Request.RequestMessages[tc.Pos] = before.Request.RequestMessages[tc.Pos]
		if !proto.Equal(after, before) {
			r.Violate(pfx+"padding-changed-other-field",
				describe("the test case differs outside the expanded message"), tc)
			bad = true
		}
		after.Request.RequestMessages[tc.Pos] = expanded
	} else if tc.Pos == 1 {
		if !proto.Equal(after.Request.RequestMessages[0], before.Request.RequestMessages[0]) {
			r.Violate(pfx+"padding-changed-other-field",
				describe("a message without size directive was changed"), tc)
			bad = true
		}
	}
	if target >= unpadded && !bytes.HasPrefix(gotData, existing) {
		r.Violate(pfx+"padding-changed-existing-data",
			describe("existing request_data is not a prefix of the padded request_data"), tc)
		bad = true
	}
	if bad {
		return "WRONG-RESULT"
	}
	switch {
	case target > math.MaxInt32:
		return "exact/over-2GiB"
	case target == unpadded:
		return "exact/unchanged"
	case target < unpadded:
		return "exact/truncated"
	default:
		return "exact/padded"
	}
}

// ---------------------------------------------------------------------------
// enumeration

// c19Deltas returns the offsets for one message, simplest (closest to zero) first.
func c19Deltas(typ, content string, thorough, suite bool) []int64 {
	const limit = int64(serverReceiveLimit)
	msg := c19Build(typ, content)
	unpadded := int64(proto.Size(msg))
	base := int64(proto.Size(c19WithoutData(msg)))
	set := map[int64]struct{}{}
	add := func(delta int64) {
		if delta >= math.MinInt32 && delta <= math.MaxInt32 {
			set[delta] = struct{}{}
		}
	}
	window := func(target, w int64) {
		for t := target - w; t <= target+w; t++ {
			add(t - limit)
		}
	}
	zeroWin, win := int64(64), int64(12)
	if thorough {
		zeroWin, win = 300, 40
	}
	if suite {
		zeroWin /= 4 // the public path is a sub-family
	}
	for d := -zeroWin; d <= zeroWin; d++ {
		add(d)
	}
	// windows around every target at which the length of request_data crosses
	// a varint boundary: the gap target is one more than the largest size
	// reachable with the shorter length prefix.
	boundaries := []int64{1 << 7, 1 << 14, 1 << 21}
	if thorough && !suite && content == "empty" && (typ == "UnaryRequest" || typ == "BidiStreamRequest") {
		boundaries = append(boundaries, 1<<28)
	}
	for _, b := range boundaries {
		gap := base + c19Cost(b-1) + 1
		w := win
		if b == 1<<28 {
			w = 6
		}
		window(gap, w)
	}
	window(unpadded, win) // around "nothing to pad"
	window(base, win)     // around "no request_data at all"
	window(0, win)        // around the empty message / negative sizes
	add(-limit - 1)
	add(-limit)
	add(math.MinInt32)
	if !suite {
		// complete sweep of all small targets (covers the 2^7 boundary for
		// every message, and the 2^14 boundary in the thorough tier)
		sweep := int64(700)
		if thorough {
			sweep = 17500
		}
		for t := int64(0); t <= sweep; t++ {
			add(t - limit)
		}
		// 2 GiB of padding: once per tier is enough (memory)
		if typ == "UnaryRequest" && content == "empty" {
			add(math.MaxInt32)
		}
	}
	deltas := make([]int64, 0, len(set))
	for d := range set {
		deltas = append(deltas, d)
	}
	abs := func(v int64) int64 {
		if v < 0 {
			return -v
		}
		return v
	}
	sort.Slice(deltas, func(i, j int) bool {
		if abs(deltas[i]) != abs(deltas[j]) {
			return abs(deltas[i]) < abs(deltas[j])
		}
		return deltas[i] > deltas[j]
	})
	return deltas
}

// c19EnumerateMulti: streams of 2 and 3 request messages, every assignment of
// the slot alphabet to the messages (8^2 + 8^3), for the two client-streaming
// request types; where the stream ends with unmarked messages also the variant
// with a shorter expand_requests list. Through the suite path: all streams of 2.
func c19EnumerateMulti(visit func(tc c19Case) bool) bool {
	for _, via := range []string{"direct", "suite"} {
		for _, n := range []int{2, 3} {
			if via == "suite" && n == 3 {
				continue
			}
			total := 1
			for i := 0; i < n; i++ {
				total *= len(c19SlotAlphabet)
			}
			for _, typ := range []string{"ClientStreamRequest", "BidiStreamRequest"} {
				for idx := 0; idx < total; idx++ {
					slots := make([]string, n)
					rest := idx
					for i := n - 1; i >= 0; i-- {
						slots[i] = c19SlotAlphabet[rest%len(c19SlotAlphabet)]
						rest /= len(c19SlotAlphabet)
					}
					if !visit(c19Case{Via: via, Type: typ, Slots: slots}) {
						return false
					}
					if slots[n-1] == "U" && slots[0] != "U" {
						if !visit(c19Case{Via: via, Type: typ, Slots: slots, Trim: true}) {
							return false
						}
					}
				}
			}
		}
	}
	return true
}

// c19EnumerateSuiteVariants: the suite path under every other combination of
// suite-level directives, for every request type x 2 contents x offsets
// {0, +1, -1, -1000 (a large but legal message), the first unreachable size
// (varint gap at 2^14; must reject the suite), -limit-1 (negative; must reject)}.
func c19EnumerateSuiteVariants(visit func(tc c19Case) bool) bool {
	const limit = int64(serverReceiveLimit)
	for _, variant := range c19SuiteVariants() {
		for _, typ := range c19Types {
			for _, content := range []string{"empty", "respdef+data127"} {
				base := int64(proto.Size(c19WithoutData(c19Build(typ, content))))
				gap := base + c19Cost(1<<14-1) + 1
				for _, delta := range []int64{0, 1, -1, -1000, gap - limit, -limit - 1} {
					if !visit(c19Case{Via: "suite", Type: typ, Content: content, Delta: delta, Suite: variant}) {
						return false
					}
				}
			}
		}
	}
	return true
}

// c19EnumerateUnknown: messages with fields unknown to this build (c19UnknownContents),
// expandRequestData directly (a suite file cannot express such a message: the
// loader rejects unknown fields), every request type, both stream positions, the
// offset windows of c19Deltas without the sweep of all small targets.
func c19EnumerateUnknown(thorough bool, visit func(tc c19Case) bool) bool {
	for _, typ := range c19Types {
		for _, content := range c19UnknownContents {
			positions := []int{0}
			if typ == "ClientStreamRequest" || typ == "BidiStreamRequest" {
				positions = []int{0, 1}
			}
			for _, pos := range positions {
				for _, delta := range c19Deltas(typ, content, thorough, true) {
					if !visit(c19Case{Via: "direct", Type: typ, Content: content, Pos: pos, Delta: delta}) {
						return false
					}
				}
			}
		}
	}
	return true
}

func c19Enumerate(thorough bool, visit func(tc c19Case) bool) {
	// multi-directive cases first: few, and independent of the offset sweeps
	if !c19EnumerateMulti(visit) {
		return
	}
	if !c19EnumerateSuiteVariants(visit) {
		return
	}
	if !c19EnumerateUnknown(thorough, visit) {
		return
	}
	for _, via := range []string{"direct", "suite"} {
		for _, typ := range c19Types {
			for _, content := range c19Contents {
				positions := []int{0}
				if typ == "ClientStreamRequest" || typ == "BidiStreamRequest" {
					positions = []int{0, 1}
				}
				for _, pos := range positions {
					if via == "suite" && pos == 1 && content != "respdef" && content != "data128" {
						continue
					}
					for _, delta := range c19Deltas(typ, content, thorough, via == "suite") {
						if pos == 1 && delta == math.MaxInt32 {
							continue
						}
						if !visit(c19Case{Via: via, Type: typ, Content: content, Pos: pos, Delta: delta}) {
							return
						}
					}
				}
			}
		}
	}
}

func TestVerifC19Expand(t *testing.T) {
	r := rep.New("c19-expand")
	defer r.Write()
	r.Rule = "case = (path direct|suite, request message type (5), content (8: empty, response definition, existing request_data of 0/1/127/128 bytes, both), " +
		"position of the expanded message in the stream, size_relative_to_limit); offsets: window round 0, windows round every target where the " +
		"request_data length prefix grows (2^7, 2^14, 2^21; 2^28 for two messages in the thorough tier), round the unpadded size, round the size without request_data, " +
		"round target 0, {-limit-1, -limit, MinInt32, MaxInt32} and a complete sweep of all targets 0..700 (quick) / 0..17500 (thorough); plus multi-directive cases: " +
		"client-stream / bidi streams of 2 and 3 requests with every assignment of {unmarked, marked and needing padding with offset 0/+1/-1, marked and already exactly limit+offset long, " +
		"marked and one byte too long} to the requests (8^2+8^3 per type; streams of 2 also through the suite path; shorter expand_requests list where the stream ends unmarked), every marked request judged on its own; " +
		"plus the suite path under every other combination of suite-level directives (relies_on_message_receive_limit set / not set x mode server / client / unspecified x {-, relies_on_tls, +client certs, relies_on_connect_get, connect_version_mode require / ignore, relevant protocols / HTTP versions / compressions left empty}: 53 combinations) x 5 types x 2 contents x offsets {0, +1, -1, -1000, first unreachable size, -limit-1}; " +
		"plus request messages carrying fields UNKNOWN to the request types of this build (6 contents: appended to / on the wire in front of the known fields, inside response_definition, inside a header of the definition, combinations; " +
		"the third message of the multi-directive streams too) x 5 types x position x the offset windows, expandRequestData directly: besides the exact size, the expanded message minus the padding field must consist of the same " +
		"top-level wire fields as the original (compared as (number, wire type, value bytes) sets) and be proto.Equal to it including unknown fields at every depth; every case is a distinct " +
		"tuple; non-trivial = the target differs from the unpadded size (something has to be decided: pad, shrink or reject)"

	if data := rep.ReplayInput(); data != nil {
		var rec struct {
			Replay c19Case `json:"replay"`
		}
		if err := json.Unmarshal(data, &rec); err != nil {
			t.Fatalf("bad replay file: %v", err)
		}
		r.Eval(1)
		r.NonTrivial("")
		r.Outcome(c19Judge(r, rec.Replay, true))
		r.Sample(rec.Replay)
		return
	}

	deadline := rep.Deadline()
	const limit = int64(serverReceiveLimit)
	// most cases build messages of ~200 KiB several times over: collect less often
	defer debug.SetGCPercent(debug.SetGCPercent(400))
	var k int64
	c19Enumerate(rep.Thorough(), func(tc c19Case) bool {
		k++
		if !r.Mine(k) {
			return true
		}
		if !deadline.IsZero() && time.Now().After(deadline) {
			r.NotExhaustive("budget reached after " + fmt.Sprint(k) + " cases of the enumeration")
			return false
		}
		outcome := c19Judge(r, tc, false)
		r.Eval(1)
		r.Outcome(tc.Via + ":" + outcome)
		r.Count("cases:"+tc.Via, 1)
		if len(tc.Slots) > 0 {
			r.Count("cases:multi-directive", 1)
			for _, slot := range tc.Slots {
				if slot != "U" { // something has to be decided for at least one request
					r.NonTrivial("")
					break
				}
			}
		} else if unpadded := int64(proto.Size(c19Build(tc.Type, tc.Content))); limit+tc.Delta != unpadded {
			r.NonTrivial("")
		}
		if k%997 == 1 {
			r.Sample(tc)
		}
		return true
	})
	r.Count("enumeration-size", 0)
	if r.Shard == 0 {
		r.Count("enumeration-size", k)
	}
}
