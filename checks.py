"""Registry of checks: property id -> units (harness builds) and evidence level.

Every file checks.d/<ID>.py defines CHECK = {...}; functions named in a unit's
"func" (kind "script") are looked up in that module.
"""
import importlib.util, os, glob

CHECKS = {}
_here = os.path.dirname(os.path.abspath(__file__))
for _p in sorted(glob.glob(os.path.join(_here, "checks.d", "C*.py"))):
    _name = os.path.splitext(os.path.basename(_p))[0]
    _spec = importlib.util.spec_from_file_location("checks_d_" + _name, _p)
    _m = importlib.util.module_from_spec(_spec)
    _spec.loader.exec_module(_m)
    _m.CHECK["module"] = _m
    CHECKS[_name] = _m.CHECK
