CC = "internal/app/connectconformance"
CMD = "cmd/connectconformance"
# scripted in-process peers of the C05 harness (shared, read-only here)
PEERS = ["connectconformance/c05_test.go", "connectconformance/peersim_test.go", "connectconformance/c11_test.go",
         "connectconformance/fakeproc_test.go", "connectconformance/gateutil_test.go"]

CHECK = {
    "level": "exploration",
    "assumptions": [
        "name components are drawn from {a,b} and pattern components from {a,b,*,**}; length <= 4 reaches every branch of the matcher (`**` first, in the middle, last, adjacent), longer names/patterns are not enumerated; the empty component is covered by 4 edge names (\"\", a/, /a, a//b) and 7 edge patterns (\"\", a//b, /a, a/, */, /**, //), not by the full product",
        "the empty string is a pattern like any other (one empty component: it equals the name \"\" only); no permutation has an empty name, so a supplied \"\" is an unmatched pattern",
        "a flag value is pattern text verbatim: commas, quotes, blanks, backslashes, '=', a leading '-', '#' have no meaning to the command line layer, and nothing is trimmed from it",
        "blanks and tabs are component text: the blank alphabet {\"a\", \"a \", \" a\", \"a<TAB>\", \" \"} (names and patterns of length <= 2, + `*`, `**`) goes through every phase of c08-match; longer names with blanks are not enumerated",
        "a pattern file means what docs/configuring_and_running_tests.md says: lines between line feeds, whitespace (blank, tab, CR, VT, FF) dropped at both ends, empty lines and lines whose first remaining character is '#' ignored, every other line one pattern verbatim ('#' elsewhere is pattern text); Unicode white space other than those five is not exercised",
        "the reference glob (c08Glob: literal equal, `*` exactly one component, `**` zero or more) is the meaning of the property statement and of docs/configuring_and_running_tests.md",
        "the ambiguity rule is exercised through the real run() on a generated three-permutation suite with unresolvable commands; run() is trusted to perform its pattern validations before it starts a process (it does: an accepted configuration ends at 'error starting client')",
        "c08-dispatch: scripted in-process peers substituted through the verif hook stand for the client/server processes (as in C05); default schedule only; which permutations exist and how the grpc-go peers' permutations are named (marker component before the test name) is taken from the library's expansion (C07) plus the C05 applicability predicate, the selection is recomputed with the reference glob over those reported names",
        "flag occurrences reach argsToPatterns through the real cobra/pflag flag set built by bind(); os.Exit paths of cmd's run() are not executed",
    ],
    "manifest": {
        "engine": "ENUM",
        "technique": "bounded-exhaustive enumeration against a reference model",
        "text": "All 340 patterns over {a,b,*,**} (length<=4) and all 30 names over {a,b} (length<=4): pattern sets of size 1, 2 (both insertion orders) and 3 are judged name by name against a recursive reference glob; the run/skip filter, the known-failing/known-flaky flags of an outcome, unmatched-pattern detection over every library of <=3 names, the known-failing/known-flaky ambiguity rule through the real run() (without and with --run/--skip filters that leave the doubly matched names inside, partly inside or wholly outside the selection), the set of permutations the real run() hands to a client under ~100 run/skip pattern sets per base (exact names, exact-depth `*` patterns, patterns with and without the gRPC-peer marker component, `**` patterns; client, server and both mode; scripted peers), the collection of patterns from every split of <=3 patterns over repeated flags and @files, and 45 flag values with commas, quotes, blanks, backslashes, '=', a leading '-', the empty string and empty components through the real flag set of bind() for all four flags (as `--flag v` and `--flag=v`, alone, in pairs and next to plain patterns and @files) are each compared with the set comprehension the property states. Round 5: the same matcher / filter / outcome / unmatched phases over a blank alphabet (components with a leading or trailing blank, a trailing tab, a lone blank; 30 names x 56 patterns), five such patterns in the ambiguity unit, and a raw-file family in c08-collect (every sequence of <=2, thorough <=3, lines over 29 raw lines with blanks, tabs and '#' at every kind of place, LF / no final LF / CRLF, alone and next to the same text as a direct value) judged by a reader model written from the documented file format.",
        "note": "Alphabet and length bounds as stated per unit in the evidence rule; reference glob trusted; the converse of 'an unmatched pattern is an error' (no error when every pattern matches) is checked under its own violation key.",
        "design_ref": "DESIGN.md §2.2, §4 C08",
    },
    "units": [
        {
            "name": "c08-match", "pkg": CC,
            "harness": ["connectconformance/c08_test.go"],
            "test": "^TestVerifC08Match$",
            "shards": {"quick": 16, "thorough": 16},
            "budget_s": {"quick": 40, "thorough": 420},
        },
        {
            "name": "c08-ambiguity", "pkg": CC,
            "harness": ["connectconformance/c08_test.go"],
            "test": "^TestVerifC08Ambiguity$",
            "shards": {"quick": 8, "thorough": 16},
            "budget_s": {"quick": 30, "thorough": 240},
        },
        {
            # real run() against scripted peers, default schedule: which permutations are executed
            "name": "c08-dispatch", "pkg": CC, "rewrite": [CC],
            "harness": ["connectconformance/c08_test.go", "connectconformance/c08_dispatch_test.go"] + PEERS,
            "test": "^TestVerifC08Dispatch$", "gomaxprocs": 1,
            "shards": {"quick": 8, "thorough": 16},
            "budget_s": {"quick": 40, "thorough": 300},
        },
        {
            "name": "c08-collect", "pkg": CMD,
            "harness": ["cmd_connectconformance/c08_collect_test.go"],
            "test": "^TestVerifC08Collect$",
            "shards": {"quick": 8, "thorough": 16},
            "budget_s": {"quick": 30, "thorough": 240},
        },
    ],
}
