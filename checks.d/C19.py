CC = "internal/app/connectconformance"
RC = "internal/app/referenceclient"

CHECK = {
    "level": "exploration",
    "assumptions": [
        "protobuf runtime (proto.Size, proto.Equal, Any) is trusted for everything except the request_data field, whose cost is modelled independently (1 tag byte + varint(len) + len, absent when empty)",
        "the server receive limit used for expansion is the runner's constant serverReceiveLimit (200 KiB); varint boundaries of the padding are reached by varying message and offset, not the limit",
        "sharpness (b): peers run in-process from their exported entry points (referenceserver.RunInReferenceMode / Run, referenceclient.Run) over real loopback TCP, HTTP/1.1 and h2c, no TLS/HTTP3; one RPC at a time per shard; no wall-clock oracle (no timeouts are configured)",
        "message size for the JSON codec is the length of the JSON text produced by the same codec (internal.StrictJSONCodec) in the same binary; for the proto codec it is proto.Size",
        "response sizes for the client-side limit are measured by running the identical request once with no client limit and re-serialising the received response message (the harness verifies that accepted responses of the limited run have the same sizes)",
        "limits above 64 MiB + 1 (the uint32 field allows 4 GiB) are not exercised: every message of such a size is held in memory about a dozen times by the two in-process peers; a defect that only shows for a configured limit above 64 MiB (32 MiB in the quick tier) is out of reach",
        "unknown fields cannot be expressed in a suite file (the YAML loader rejects them), so messages carrying them are given to expandRequestData directly",
        "incompressible responses are enumerated only with 4000 noise bytes: the server echoes request headers in map-iteration order, so compressed response bytes vary from run to run and borderline compressed sizes are not reproducible",
        "a deadlock of the two peers is established structurally (goroutine stacks form a wait-for cycle: client inside Receive draining the response, server handler inside Receive waiting for the next request), never by a timeout",
    ],
    "manifest": {
        "engine": "ENUM",
        "technique": "bounded-exhaustive enumeration against a reference model (size arithmetic of a length-delimited field; truth table accepted<=limit / resource_exhausted>limit)",
        "text": "(a) expandRequestData directly and through parseTestSuites+newTestCaseLibrary for 5 request types x 8 contents x stream position x every offset in windows round 0, round each varint boundary of the padding length (2^7, 2^14, 2^21; 2^28 thorough), round the unpadded size, plus -limit-1/-limit/MinInt32/MaxInt32 and a complete sweep of all small targets: result size == limit+offset exactly with nothing but request_data changed, or an error exactly when the size model says no padding length reaches the target; plus test cases with SEVERAL directives: client-stream and bidi streams of 2 and 3 request messages, each message independently unmarked / marked and needing padding (offset 0, +1, -1) / marked and already exactly limit+offset bytes long before expansion / marked and one byte too long (8^2+8^3 assignments per type, streams of 2 also through the suite path, trailing unmarked messages also with a shorter expand_requests list): every marked request must end up at exactly limit+offset, every unmarked one unchanged, no error; plus the suite path under every other combination of suite-level directives (relies_on_message_receive_limit set / not set x mode server / client / unspecified x {none, relies_on_tls, + client certs, relies_on_connect_get, connect_version_mode require / ignore, relevant protocols / HTTP versions / compressions left empty}, 53 combinations x 5 types x 2 contents x offsets {0, +1, -1, -1000, first unreachable size, -limit-1}): expanded exactly or the suite rejected, whatever the other directives say; plus request messages with fields UNKNOWN to this build's request types (appended / in front of the known fields on the wire / inside response_definition / inside one of its headers; 6 contents x 5 types x position x offset windows, and the third message of every 3-message multi-directive stream): the expanded message minus the padding field has the same top-level wire fields (number, wire type, value bytes) as the original and is proto.Equal to it including unknown fields at every depth. (b) the real reference server with a small receive limit receives, from the real reference client, messages of encoded size limit-1/limit/limit+1 (compressible and incompressible padding) for unary, idempotent-unary (GET with the message in the URL under Connect, POST under gRPC / gRPC-Web), client-stream, half- and full-duplex bidi x 6 compressions x Connect/gRPC/gRPC-Web x HTTP/1.1/h2c x proto/JSON; and the real reference client with a receive limit of size-1/size/size+1 receives responses from the real reference server for all five stream shapes: accepted iff uncompressed size <= limit, otherwise resource_exhausted; and a plain net/http client (HTTP/1.1 and h2c) sends hand-built Connect-streaming and gRPC-Web request streams (client-stream, half-duplex bidi) of 2 and 3 messages, every message one of {a few bytes, limit-1, limit} and the last one also limit+1 (48 streams), with and without a declared Content-Length: the limit is per message, so the stream is accepted with every request echoed iff no message exceeds the limit; and the same plain client calls IdempotentUnary by hand-built Connect GET (message in the URL: ?connect=v1&encoding=..&base64=1&message=..[&compression=..]) over HTTP/1.1 and h2c, uncompressed and compressed with each of the 6 compressions, proto/JSON, compressible/incompressible padding, message of limit-1 / limit / limit+1 bytes, limits 1024, 200 [thorough 128, 16384] and 204800 = the limit the runner really configures (URL of about 273 KB), against the server started from its exported entry point (run -> createServer -> newH1Server/newH2Server, so the HTTP servers' own bounds are in play): same truth table. (c) the LIMIT as an axis (unit c19-limits): server limits 2^k-1, 2^k, 2^k+1 for k = 10, 16, 20 (all five wires x identity/gzip x unary, client-stream, idempotent-unary up to 64 KiB; plain-HTTP envelope streams [small, limit+{0,+1,-1}] with and without Content-Length) and k = 24, 25 - up to 32 MiB+1 - (one wire per limit, rotating; real client and plain-HTTP route) [thorough: also k = 7, 14, 21, 22, 23, 26 (64 MiB), 10^6, 10^7, 5*10^7, JSON up to 64 KiB], messages of limit-1 / limit / limit+1 bytes; client limits round the size of responses carrying 2^10, 2^16, 2^20 (all wires, identity/gzip, unary and server-stream) and 2^24 bytes twice (32 MiB; thorough up to 64 MiB): same truth table; the axis also holds the runner's real server limit 204800 (all wires, idempotent-unary by GET included) and, for hand-built Connect GET only, 2^18-1, 2^18, 2^18+1 [thorough 2^17.., 2^19..] uncompressed (every limit whose URL stays below net/http's default 1 MB) and gzip (every limit, 32 MiB included: zeros shrink to a short URL).",
        "note": "Limit constant of the runner is fixed (200 KiB); peer limits up to 32 MiB+1 (quick) / 64 MiB+1 (thorough); in-process peers over loopback instead of OS processes; TLS and HTTP/3 not exercised; JSON sizes taken from the same codec.",
        "design_ref": "DESIGN.md §2.2, §4 C19",
    },
    "units": [
        {
            "name": "c19-expand", "pkg": CC,
            "harness": ["connectconformance/c19_expand_test.go"],
            "test": "^TestVerifC19Expand$",
            "shards": {"quick": 16, "thorough": 16},
            "budget_s": {"quick": 60, "thorough": 500},
        },
        {
            "name": "c19-sharp", "pkg": RC,
            "harness": ["referenceclient/c19_sharp_test.go", "referenceclient/c19_limits_test.go", "referenceclient/c19_get_test.go"],
            "test": "^TestVerifC19Sharp$",
            "shards": {"quick": 16, "thorough": 16},
            "budget_s": {"quick": 60, "thorough": 500},
        },
        {
            # the limit itself as an axis, up to 64 MiB: few shards (every big message is
            # copied a dozen times on its way through both in-process peers)
            "name": "c19-limits", "pkg": RC,
            "harness": ["referenceclient/c19_sharp_test.go", "referenceclient/c19_limits_test.go", "referenceclient/c19_get_test.go"],
            "test": "^TestVerifC19Limits$",
            "shards": {"quick": 8, "thorough": 4},
            "budget_s": {"quick": 60, "thorough": 500},
        },
    ],
}
