CC = "internal/app/connectconformance"

CHECK = {
    "level": "model_checking",
    "assumptions": [
        "c11-osproc: exhaustive over programs, not over OS schedules; 180 s watchdog only",
        "sequential consistency; preemption only at gates (mutex acquisition, atomic access, fake server/client events)",
        "scripted server process and scripted clientRunner stand for the real peers; the clientRunner contract (exactly one callback per accepted send) is C10's subject and is assumed here",
        "state cache key (results, fake peers, parked goroutines, virtual clock) determines future behaviour",
    ],
    "manifest": {
        "engine": "GATE",
        "technique": "stateless model checking of the real goroutines with exhaustive fault enumeration (controlled scheduler in a synctest bubble, preemption-bounded DFS with state caching)",
        "text": "Every batch of up to 2 (quick) / 3 (thorough) cases is run through the real runTestCasesForServer against a scripted server process and client for every fault of the alphabet (start error, stdin write/close error, response cut at every byte, oversize, empty, garbage, missing certificate, never, exit after k of n requests, client pipe closing at the k-th send, every tuple of answer kinds, sync/async callbacks, stderr scripts) and every interleaving of the peers' events up to the preemption bound; each execution is judged: returns within a virtual hour, exactly the batch's names have outcomes, fault-hit cases are setup errors, answered cases keep their verdict, server asked to stop, stderr lines attributed or passed through. Added after the seeding rounds: servers that answer and are gone; stderr written before the answer; slow runner stderr; batches in non-sorted order; the report taken as soon as batch and client are done (what run() waits for); unit c11-clientfaults: the shared client fails while 1-2 batches are in flight; unit c11-osproc: real server / client processes incl. clean exit before the runner writes; unit c11-inproc: scripted server functions through the real runInProcess (start-up request read to EOF or one message, stderr before/after the answer incl. 64 KiB+ lines, names with per-cent signs through the real printer, every way of ending).",
        "note": "Fake peers instead of OS processes; virtual time; sequential consistency at gate granularity.",
        "design_ref": "DESIGN.md §2.1, §2.3, §4 C11",
    },
    "units": [
        {
            # the real runCommand path: real server processes (the test binary re-executed) that die, garble or stall at start-up
            "name": "c11-osproc", "pkg": CC, "overlap": True, "harness": ["connectconformance/osproc_test.go", "connectconformance/c10_test.go", "connectconformance/c05_test.go", "connectconformance/peersim_test.go", "connectconformance/c11_test.go", "connectconformance/fakeproc_test.go", "connectconformance/gateutil_test.go"],
            "test": "^TestVerifOSProcRun$",
            "shards": {"quick": 28, "thorough": 32},  # the runs mostly sleep (the runner's 5-20 s timeouts), so more shards than cores
            "budget_s": {"quick": 120, "thorough": 600},
        },
        {
            # the shared client process fails while one or two batches are in flight (scenarios of the C05 harness)
            "name": "c11-clientfaults", "pkg": CC, "rewrite": [CC],
            "harness": ["connectconformance/c05_test.go", "connectconformance/peersim_test.go", "connectconformance/c11_test.go", "connectconformance/fakeproc_test.go", "connectconformance/gateutil_test.go"],
            "test": "^TestVerifC11ClientFaults$", "gomaxprocs": 1,
            "shards": {"quick": 16, "thorough": 16},
            "budget_s": {"quick": 80, "thorough": 900},
        },
        {
            # the real runInProcess path (the hook replaces it elsewhere): scripted server functions, virtual time
            "name": "c11-inproc", "pkg": CC, "harness": ["connectconformance/c11_inproc_test.go", "connectconformance/osproc_test.go", "connectconformance/c10_test.go", "connectconformance/c05_test.go", "connectconformance/peersim_test.go", "connectconformance/c11_test.go", "connectconformance/fakeproc_test.go", "connectconformance/gateutil_test.go"],
            "test": "^TestVerifC11InProcess$",
            "shards": {"quick": 8, "thorough": 16},
            "budget_s": {"quick": 60, "thorough": 300},
        },
        {
            "name": "c11-gate", "pkg": CC, "rewrite": [CC],
            "harness": ["connectconformance/c11_test.go", "connectconformance/fakeproc_test.go", "connectconformance/gateutil_test.go"],
            "test": "^TestVerifC11$", "gomaxprocs": 1,
            "shards": {"quick": 16, "thorough": 16},
            "budget_s": {"quick": 80, "thorough": 1200},
        },
        {
            # Unlock as a scheduling point of its own
            "name": "c11-unlockgates", "pkg": CC, "rewrite": [CC], "tiers": ["thorough"],
            "harness": ["connectconformance/c11_test.go", "connectconformance/fakeproc_test.go", "connectconformance/gateutil_test.go"],
            "test": "^TestVerifC11$", "gomaxprocs": 1, "env": {"VERIF_GATE_UNLOCK": "1", "VERIF_TIER_OVERRIDE": "quick"},
            "shards": {"quick": 16, "thorough": 16},
            "budget_s": {"quick": 80, "thorough": 600},
        },
    ],
}
