CC = "internal/app/connectconformance"
H = ["connectconformance/c05_test.go", "connectconformance/peersim_test.go", "connectconformance/c11_test.go",
     "connectconformance/fakeproc_test.go", "connectconformance/gateutil_test.go"]

CHECK = {
    "level": "model_checking",
    "assumptions": [
        "c05-osproc is exhaustive over its program x driver list, not over OS schedules (goroutines blocked on real pipes are invisible to the bubble); its only wall-clock oracle is a 180 s watchdog",
        "sequential consistency; preemption only at gates (mutex acquisition, atomic access, fake peer events)",
        "scripted in-process peers substituted through the verif hook stand for the client/server processes",
        "the library's expansion (C07) is taken as given; selection, gRPC-peer applicability, marking and glob filtering are recomputed independently",
        "state cache key = peers' logs and state, parked goroutines, virtual clock (the runner's internal result table is not visible before run() returns)",
        "Go map iteration order inside a batch is not owned: scripts are positional and invariants are permutation-invariant",
    ],
    "manifest": {
        "engine": "PEERSIM (GATE)",
        "technique": "stateless model checking of the real run() goroutines against scripted peers (controlled scheduler in a synctest bubble, preemption-bounded DFS with state caching)",
        "text": "The real run() is executed against fake client and server processes for every scenario of a small configuration alphabet (2-5 config cases giving 2-4 server instances, 1-5 suites incl. mode-specific, gRPC-only and client-certificate suites, three modes with the gRPC reference peers, 6 run/skip filters, max-servers 1-3, a server that fails to start) and every order of peer events / lock-level interleaving up to the preemption bound. Invariants on the peers' logs: each selected permutation reaches the right kind of client exactly once (or is a recorded setup failure), while a live server of the right kind serving exactly its protocol/HTTP version/TLS mode is up, with that server's host, port and certificate and the test-name header; gRPC-peer permutations only where applicable and under marked names; live servers <= max-servers; all servers stopped; run returns. Added after the seeding rounds: client faults with two server slots; io.Pipe-semantics client stdin; servers that report localhost / ::1 / no host and echo the offered certificate; runs without -v (instances in map order); batches in reversed / rotated case order (hook); unit c05-osproc: one side a real OS process (the test binary re-executed with a peer program) through the real runCommand, incl. peers that exit 0 at once, ignore SIGTERM, or are handed over only after they are gone - oracle adds: no process started by run() exists 5 s after it returned; unit c05-inproc: scripted server functions through the real runInProcess incl. 64 KiB+ stderr lines.",
        "note": "TLS instances only at the default schedule (certificate generation). Fake peers, virtual time.",
        "design_ref": "DESIGN.md §2.3, §4 C05",
    },
    "units": [
        {
            # the real runCommand path: one side a real OS process (the test binary re-executed)
            "name": "c05-osproc", "pkg": CC, "overlap": True, "harness": H + ["connectconformance/osproc_test.go", "connectconformance/c10_test.go"],
            "test": "^TestVerifOSProcRun$",
            "shards": {"quick": 28, "thorough": 32},  # the runs mostly sleep (the runner's 5-20 s timeouts), so more shards than cores
            "budget_s": {"quick": 120, "thorough": 600},
        },
        {
            # the real runInProcess path (as used for the reference peers): scripted server functions incl. ones that
            # block on their stderr; "every started server is stopped"
            "name": "c05-inproc", "pkg": CC, "harness": ["connectconformance/c11_inproc_test.go", "connectconformance/osproc_test.go", "connectconformance/c10_test.go", "connectconformance/c05_test.go", "connectconformance/peersim_test.go", "connectconformance/c11_test.go", "connectconformance/fakeproc_test.go", "connectconformance/gateutil_test.go"],
            "test": "^TestVerifC11InProcess$",
            "shards": {"quick": 8, "thorough": 16},
            "budget_s": {"quick": 60, "thorough": 300},
        },
        {
            "name": "c05-peersim", "pkg": CC, "rewrite": [CC], "harness": H,
            "test": "^TestVerifC05$", "gomaxprocs": 1,
            "shards": {"quick": 16, "thorough": 16},
            "budget_s": {"quick": 80, "thorough": 1500},
        },
        {
            "name": "c05-tls", "pkg": CC, "rewrite": [CC], "harness": H,
            "test": "^TestVerifC05TLS$", "gomaxprocs": 1,
            "shards": {"quick": 16, "thorough": 16},
            "budget_s": {"quick": 80, "thorough": 300},
        },
        {
            # free-running pass for the race detector: no shims, no bubble
            "name": "c05-race", "pkg": CC, "harness": H, "race": True, "tiers": ["thorough"],
            "test": "^TestVerifC05Race$",
            "shards": {"quick": 8, "thorough": 16},
            "budget_s": {"quick": 120, "thorough": 900},
        },
    ],
}
