TR = "internal/tracer"

CHECK = {
    "level": "exploration",
    "assumptions": [
        "bodies are driven by scripted in-memory fakes (io.ReadCloser, http.RoundTripper, http.ResponseWriter); the real net/http transports are not in the loop",
        "streams are truncations of sequences of at most 3 envelopes, flags in {0,1,2,3,0x80,0x81}, payload length in {0,1,3}; end-stream payloads of 7 and 16 bytes of text in the encodings absent/identity/gzip/zstd/unknown",
        "end-stream flags: Connect streaming 0x02, gRPC-Web 0x80; combinations the protocols do not define (0x80 under Connect, 0x02 under gRPC-Web, any under gRPC, compressed bit with an unknown encoding or an undecodable payload, empty end-stream payload) and a cut exactly between prefix and payload leave the respective event unconstrained",
        "stdlib compress/gzip, compress/zlib, klauspost zstd, andybalholm brotli and golang/snappy are trusted to build compressed payloads and to decode them in the reference model (the libraries themselves, not the wrappers of internal/compression); a payload these decoders reject, also after having produced output, counts as undecodable",
        "content-coding names are case-insensitive (RFC 9110 section 8.4.1): the reference model treats gzip / GZIP / Gzip / gZIP alike, for every supported encoding and identity",
        "stage H (histories): what the trace says about a body must not depend on what the process traced before. Pairs (first, second) are traced back to back on one goroutine with GOMAXPROCS(1) and the collector off (debug.SetGCPercent(-1)) for the pair, so hand-off through process-wide state (package variables, sync.Pool) is deterministic; histories longer than two bodies and concurrent bodies are not enumerated (pairs of one shard do follow each other in one process, and a finding that needs more than the pair is reported with the shortest reproducing suffix of the shard's history)",
        "stage M (late header edits): the owner of a live header map may edit it once the headers went out (http.ResponseWriter.Header() after WriteHeader or the first Write: net/http ignores such edits other than trailers; resp.Header once RoundTrip has returned; the handler's own *http.Request header while it reads the body); the wire is identical, so the trace must be too. Edits: delete / set (identity, gzip, zstd, an unknown name) / add a second value, for Connect-Content-Encoding, Grpc-Encoding, Content-Encoding, and delete / set Content-Type (json, the Connect, gRPC-Web and gRPC types), one edit per case, before the k-th Read/Write call of the body with the body delivered in one call, in two calls cut at every offset, or byte by byte (edit before every call and after the last). The client request side is not enumerated: a caller must not touch a request before the response body is closed, and then the trace is complete",
        "stage P (HTTP/2 conn tracer): one exchange on stream 1 of a scripted connection (hand-built frames, fake net.Conn, fresh TracingHTTP2Conn per case, client bytes then server bytes), the same body in both directions; padding octets are zero (RFC 9113 section 6.1); pad lengths 0, 1, 7, 255; HEADERS priority = depends on stream 0, weight 16; concurrent streams, interleaved directions, flow control and malformed frames are C15's subject, not enumerated here",
        "stage L (large, highly compressible end-stream content): content is all zero bytes, one repeated letter, a repeated 3-byte pattern (thorough also a 255-byte pattern), or such a run of letters inside a Connect end-stream JSON / a gRPC-Web trailer block; sizes 2^k-1, 2^k, 2^k+1 for k = 0..20 (quick: only 2^k between 64 KiB and 1 MiB); encodings absent / identity / gzip / zstd / br / deflate / snappy; compressed bit set and unset (quick: payloads above 64 KiB on the wire, i.e. uncompressed or identity, only in the thorough tier); delivered in calls of 64 bytes and of 1, 7, 64, 13, 2, 31 bytes in turn (quick above 64 KiB: one of the two); quick: Connect on the client response side and gRPC-Web on the server response side, thorough both on both, with and without a leading message",
        "stage P, part P-h2-hpack: two (thorough three) exchanges one after the other on one connection, all header blocks of a direction from one hpack.Encoder (later blocks refer to the dynamic table); per direction the encoder changes its dynamic table size (none / 4096 / 65536 / 1 MiB / 0 / 0 then 65536) before the first header block or before the last exchange's header block (thorough: before any headers or trailers block), preceded by the receiving side's SETTINGS frame with SETTINGS_HEADER_TABLE_SIZE and its acknowledgement, so the wire is legal (RFC 7541 section 4.2, RFC 9113 section 6.5.2); the server's SETTINGS frame goes first, as x/net/http2 sends it",
        "stage H first bodies: complete compressed end-stream envelopes (Connect 0x03, gRPC-Web 0x81; texts of 29 / 40 bytes) in gzip, zstd, br, deflate, snappy whose payload is cut at every byte position (envelope length adjusted), has one byte altered at every position (+1, ^0xff; thorough also ^0x01, ^0x80), has a trailing byte or is in another encoding than negotiated (damaged zstd payloads that declare a decoded or window size above 16 MiB are left out: the zstd library allocates the declared size up front, up to 2 GiB for a 42-byte payload, which concerns the decompressor, not tracing); every truncation of a valid two-message stream under every ending on all four sides; valid bodies. Second bodies: valid two-message streams, encoding absent / identity / each supported one, compressed bit set and unset, Connect and gRPC-Web, client response and server response",
    ],
    "manifest": {
        "engine": "ENUM",
        "technique": "bounded-exhaustive enumeration against a reference model, differential against the untraced run",
        "text": "Every truncation of every enveloped stream of the alphabet is pushed through the real TracingRoundTripper / TracingHandler "
                "(tracingReader for client response, server request and client request bodies; tracingResponseWriter for server responses) "
                "in every composition into Read/Write calls (all 2^(n-1) compositions of every truncation of streams up to 14 bytes quick / 15 thorough, thorough also of every truncation up to 13 bytes of any longer stream; "
                "at most 3 pieces (part B: 4) plus all-1-byte beyond), with every ending (EOF alone or with the last data, error alone or with data, Close before the end, "
                "failing Close; handler return, failing and short write, handler panic). The trace handed to a fake Collector is compared with a whole-buffer "
                "reference parse (data events with exact flags / declared length / consecutive indices, end-stream content decompressed iff bit 0, "
                "single final body-end event with the final error, partial event with the byte count seen), with the events of the one-call "
                "composition (chunking independence), and everything the application and its peer observe is compared byte for byte with a run without tracing. "
                "Before that enumeration five cheap stages run in the same unit. "
                "Stage M (late header edits, ~87k cases quick / ~174k thorough): a two-message body (leading message + end-stream message, compressed bit set / unset; Connect, gRPC-Web, gRPC; encoding absent / identity / gzip / zstd, thorough also br / deflate / snappy) "
                "on the client response, server response (explicit and implicit WriteHeader) and server request side, where the owner of the live header map (ResponseWriter.Header(), resp.Header, the handler's request header) deletes / sets / adds "
                "Connect-Content-Encoding, Grpc-Encoding, Content-Encoding or Content-Type after the headers went out: before any body byte, at every byte offset of the body (two calls cut there, and byte by byte), and after the last byte; "
                "oracle: events identical to the same case without the edit (the wire is identical), reference model computed from the headers that went out, transparency against the untraced run with the same edit. "
                "Stage P (HTTP/2 conn tracer, ~80k exchanges quick / ~428k thorough): bodies (compressed / plain end-stream under Connect and gRPC-Web, gRPC messages, a non-enveloped body, every stream of <= 2 envelopes up to 11 bytes (thorough 13) of the alphabet, "
                "every truncation of two end-stream bodies) carried through TracingHTTP2Conn on a server-side and a client-side conn in hand-built frames: two DATA frames cut at every offset (frames without data included) x pairs of "
                "{unpadded, PADDED with pad length 0, 1, 7, 255} (quick: every padding in either position next to an unpadded frame or to the same padding; thorough: every pair, and three frames at every pair of offsets), one DATA frame per byte, END_STREAM on the last DATA frame / on an empty (also padded) DATA frame / on a trailers HEADERS block, "
                "HEADERS frames plain / PADDED / PRIORITY / both / split over CONTINUATION frames, conn Read/Write calls whole or in 1 / 3 / 13-byte pieces; oracle: request and response body events identical to those of one unpadded DATA frame "
                "and satisfying the same reference model, exactly one trace. "
                "Part P-h2-hpack of stage P (~3.4k connections quick / ~41k thorough): two (thorough three) exchanges in a row on one connection, header blocks of a direction from one HPACK encoder, "
                "with a dynamic-table-size schedule per direction (none, 4096, 65536, 1 MiB, 0, 0 then 65536; announced by the peer's SETTINGS_HEADER_TABLE_SIZE) taken up before the first block of the connection or before a later one, "
                "HEADERS plain or split over CONTINUATION (the size update itself is split), END_STREAM on DATA or on continued trailers; every exchange must give exactly one trace whose body events equal those of the canonical single exchange. "
                "Stage L (large end-stream content, ~10k cases quick): end-stream content with extreme compression ratios (zero bytes, one letter, a short pattern, a long run inside real end-stream JSON / trailers) of 2^k-1, 2^k, 2^k+1 bytes up to 1 MiB "
                "in every encoding (absent, identity, gzip, zstd, br, deflate, snappy), compressed bit set and unset, through the real middleware on the response sides; oracle: the reference model with the generated text as the expected content "
                "(the trace shows byte for byte what the peer compressed, whatever the ratio), transparency, and equal events under a second chunking. "
                "Stage H (histories): every pair (first body, second body) with first from ~5.9k (quick) damaged / cut / failing / valid bodies "
                "(compressed end-stream payloads of all five encodings cut and altered at every byte position, trailing garbage, wrong encoding; every truncation x ending x side of a valid stream) and second from 56 valid bodies "
                "(all encodings, compressed bit set/unset, Connect and gRPC-Web, client response and server response) is traced back to back in one process state (one P, no GC in between): both bodies are judged "
                "by the same reference model and untraced run, and the second body's events must equal those of the same body traced in the fresh process (history independence; ~331k pairs quick, ~2.2M thorough). "
                "Stage S (shape): the encoding header value in lower / UPPER / Title / mIXED case for identity and every supported encoding, in Connect-Content-Encoding, Grpc-Encoding (gRPC-Web and gRPC) and Content-Encoding, "
                "with compressed and uncompressed end-stream message, with and without a leading message, response and request sides, in one call and byte by byte (the mIXED spelling, and in the thorough tier every spelling, also in <= 2 pieces, thorough 3); plus every truncation of such streams for br, deflate, snappy in <= 2 pieces (thorough 3) "
                "(~133k cases quick); oracle: the same reference model (content decompressed iff bit 0, names case-insensitive).",
        "note": "Scripted fakes instead of sockets; bounds as stated; undefined flag/encoding combinations unconstrained; HTTP/2 frame tracing as such (attribution to streams, header blocks, resets) is C15, stage P only checks that bodies come out of the frame layer unchanged.",
        "design_ref": "DESIGN.md §2.2, §4 C14",
    },
    "units": [
        {
            "name": "c14-enum", "pkg": TR,
            "harness": ["tracer/c14_test.go", "tracer/c14_history_test.go", "tracer/c14_mutate_test.go", "tracer/c14_h2_test.go"],
            "test": "^TestVerifC14$",
            "shards": {"quick": 16, "thorough": 16},
            # measured: 41.0M cases quick ~ 10 CPU-min, 311M cases thorough ~ 80 CPU-min (under contention); on 16 idle
            # cores about 35 s / 5 min. The soft budgets leave room for a loaded machine (exhaustive:false, exit 0 if hit).
            # Stages H and S (c14_history_test.go) run first inside TestVerifC14: quick 331k pairs + 133k cases (265k before round 4),
            # about 1.3 + 1.1 CPU-s per shard of 16 (about 40 CPU-s in all; thorough 11 + 12 CPU-s per shard), so a
            # budget hit in the heavy part cannot starve them. They lower GOGC to 100 for their duration (footprint).
            # Stages M (c14_mutate_test.go) and P (c14_h2_test.go) run before H: quick 87k cases + 80k exchanges,
            # about 0.3 + 0.4 CPU-s per shard of 16 (4.6 + 6.8 CPU-s in all; thorough 13 + 31 CPU-s in all). Stage S pays
            # for most of it: in the quick tier only the mIXED spelling gets every two-piece composition (-8.5 CPU-s).
            # Round 5: part P-h2-hpack (3.4k connections, inside stage P) and stage L (c14_history_test.go, runs after P).
            "budget_s": {"quick": 120, "thorough": 1200},
            # allocation-heavy, tiny live heap: fewer GC cycles (performance only)
            "env": {"GOGC": "800"},
        },
    ],
}
