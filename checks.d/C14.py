TR = "internal/tracer"

CHECK = {
    "level": "exploration",
    "assumptions": [
        "bodies are driven by scripted in-memory fakes (io.ReadCloser, http.RoundTripper, http.ResponseWriter); the real net/http transports are not in the loop",
        "streams are truncations of sequences of at most 3 envelopes, flags in {0,1,2,3,0x80,0x81}, payload length in {0,1,3}; end-stream payloads of 7 and 16 bytes of text in the encodings absent/identity/gzip/zstd/unknown",
        "end-stream flags: Connect streaming 0x02, gRPC-Web 0x80; combinations the protocols do not define (0x80 under Connect, 0x02 under gRPC-Web, any under gRPC, compressed bit with an unknown encoding or an undecodable payload, empty end-stream payload) and a cut exactly between prefix and payload leave the respective event unconstrained",
        "stdlib compress/gzip and klauspost zstd are trusted to build compressed payloads and to decode them in the reference model",
    ],
    "manifest": {
        "engine": "ENUM",
        "technique": "bounded-exhaustive enumeration against a reference model, differential against the untraced run",
        "text": "Every truncation of every enveloped stream of the alphabet is pushed through the real TracingRoundTripper / TracingHandler "
                "(tracingReader for client response, server request and client request bodies; tracingResponseWriter for server responses) "
                "in every composition into Read/Write calls (all 2^(n-1) compositions of every truncation of streams up to 14 bytes quick / 15 thorough, thorough also of every truncation up to 13 bytes of any longer stream; "
                "at most 3 pieces (part B: 4) plus all-1-byte beyond), with every ending (EOF alone or with the last data, error alone or with data, Close before the end, "
                "failing Close; handler return, failing and short write, handler panic). The trace handed to a fake Collector is compared with a whole-buffer "
                "reference parse (data events with exact flags / declared length / consecutive indices, end-stream content decompressed iff bit 0, "
                "single final body-end event with the final error, partial event with the byte count seen), with the events of the one-call "
                "composition (chunking independence), and everything the application and its peer observe is compared byte for byte with a run without tracing.",
        "note": "Scripted fakes instead of sockets; bounds as stated; undefined flag/encoding combinations unconstrained; HTTP/2 frame tracing is C15.",
        "design_ref": "DESIGN.md §2.2, §4 C14",
    },
    "units": [
        {
            "name": "c14-enum", "pkg": TR,
            "harness": ["tracer/c14_test.go"],
            "test": "^TestVerifC14$",
            "shards": {"quick": 16, "thorough": 16},
            # measured: 41.0M cases quick ~ 10 CPU-min, 311M cases thorough ~ 80 CPU-min (under contention); on 16 idle
            # cores about 35 s / 5 min. The soft budgets leave room for a loaded machine (exhaustive:false, exit 0 if hit).
            "budget_s": {"quick": 120, "thorough": 1200},
            # allocation-heavy, tiny live heap: fewer GC cycles (performance only)
            "env": {"GOGC": "800"},
        },
    ],
}
